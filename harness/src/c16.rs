//! C16: file cache (humphrey_server::server::cache::Cache) and its call sites in static.rs.
//!
//! c16run  <limit> <time_limit> <ops>                  sequential history on one Cache (clock injected through the
//!                                                      cfg(humphrey_verif) thread-local override)
//! c16req  <limit> <time_limit> <reqs>                 requests through file_handler / directory_handler with a
//!                                                      cache-enabled AppState; files are rewritten between requests
//! c16mt   <limit> <time_limit> <threads> <ops> <keys> <seed>
//!                                                      real threads through Arc<RwLock<Cache>>; every operation takes
//!                                                      its sequence number and clock while holding the guard; prints
//!                                                      the history in lock order and what every operation returned
//! c16mtreq <limit> <time_limit> <threads> <reqs> <seed> threads calling file_handler on files that change
use crate::util::*;
use humphrey::http::address::Address;
use humphrey::http::headers::{HeaderType, Headers};
use humphrey::http::method::Method;
use humphrey::http::mime::MimeType;
use humphrey::http::{Request, Response};
use humphrey_server::config::{CacheConfig, Config, LoggingConfig};
use humphrey_server::server::cache::{verif, Cache, CachedItem};
use humphrey_server::server::logger::LogLevel;
use humphrey_server::server::r#static::{directory_handler, file_handler};
use humphrey_server::server::server::AppState;
use std::panic::{catch_unwind, AssertUnwindSafe};
use std::sync::atomic::{AtomicUsize, Ordering};
use std::sync::{Arc, Mutex, RwLock};

const MIMES: [MimeType; 22] = [
    MimeType::TextCss,
    MimeType::TextHtml,
    MimeType::TextJavaScript,
    MimeType::TextPlain,
    MimeType::ImageBmp,
    MimeType::ImageGif,
    MimeType::ImageJpeg,
    MimeType::ImagePng,
    MimeType::ImageWebp,
    MimeType::ImageSvg,
    MimeType::ImageIcon,
    MimeType::ApplicationOctetStream,
    MimeType::ApplicationJson,
    MimeType::ApplicationPdf,
    MimeType::ApplicationZip,
    MimeType::VideoMp4,
    MimeType::VideoOgg,
    MimeType::VideoWebm,
    MimeType::FontTtf,
    MimeType::FontOtf,
    MimeType::FontWoff,
    MimeType::FontWoff2,
];

fn gen_value(seed: usize, len: usize) -> Vec<u8> {
    (0..len).map(|i| ((seed + i * 13 + (i >> 8)) & 255) as u8).collect()
}

/// CRC-32 (IEEE, as zlib.crc32) of the bytes
fn crc32(b: &[u8]) -> u32 {
    let mut c: u32 = 0xFFFF_FFFF;
    for x in b {
        c ^= *x as u32;
        for _ in 0..8 {
            c = if c & 1 == 1 { 0xEDB8_8320 ^ (c >> 1) } else { c >> 1 };
        }
    }
    c ^ 0xFFFF_FFFF
}

fn item_str(it: &CachedItem) -> String {
    format!(
        "{},{},{},{},{},{:08x}",
        hex(it.route.as_bytes()),
        it.host,
        it.mime_type as usize,
        it.cache_time,
        it.data.len(),
        crc32(&it.data)
    )
}

fn final_str(c: &Cache) -> String {
    let items: Vec<String> = c.verif_entries().map(item_str).collect();
    format!("F{}:[{}]", c.verif_size(), items.join(";"))
}

#[derive(Clone)]
enum Op {
    Set { route: String, host: usize, mime: usize, now: u64, len: usize, seed: usize },
    Get { route: String, host: usize, now: u64 },
}

fn parse_ops(s: &str) -> Vec<Op> {
    if s == "-" || s.is_empty() {
        return vec![];
    }
    s.split(';')
        .map(|o| {
            let f: Vec<&str> = o.split(',').collect();
            match f[0] {
                "s" => Op::Set {
                    route: unhex_str(f[1]),
                    host: f[2].parse().unwrap(),
                    mime: f[3].parse().unwrap(),
                    now: f[4].parse().unwrap(),
                    len: f[5].parse().unwrap(),
                    seed: f[6].parse().unwrap(),
                },
                "g" => Op::Get { route: unhex_str(f[1]), host: f[2].parse().unwrap(), now: f[3].parse().unwrap() },
                _ => panic!("harness: bad op"),
            }
        })
        .collect()
}

fn op_str(o: &Op) -> String {
    match o {
        Op::Set { route, host, mime, now, len, seed } => {
            format!("s,h{},{},{},{},{},{}", hex(route.as_bytes()), host, mime, now, len, seed)
        }
        Op::Get { route, host, now } => format!("g,h{},{},{}", hex(route.as_bytes()), host, now),
    }
}

/// Applies one operation to the cache under the injected clock; the result token is what the model prints.
fn apply(cache_get: Option<&Cache>, cache_set: Option<&mut Cache>, o: &Op) -> String {
    match o {
        Op::Set { route, host, mime, now, len, seed } => {
            let c = cache_set.expect("harness: set needs a write guard");
            verif::set_clock(Some(*now));
            c.set(route, *host, gen_value(*seed, *len), MIMES[*mime]);
            format!("S{}/{}", c.verif_size(), c.verif_entries().count())
        }
        Op::Get { route, host, now } => {
            let c = cache_get.expect("harness: get needs a guard");
            verif::set_clock(Some(*now));
            match c.get(route, *host) {
                None => "M".to_string(),
                Some(it) => format!("H{}", item_str(it)),
            }
        }
    }
}

fn run_case(lim: usize, tl: u64, ops: &[Op]) -> String {
    let mut cache = Cache::verif_new(lim, tl);
    let mut toks: Vec<String> = Vec::new();
    let mut crashed = false;
    for o in ops {
        let r = catch_unwind(AssertUnwindSafe(|| match o {
            Op::Set { .. } => apply(None, Some(&mut cache), o),
            Op::Get { .. } => apply(Some(&cache), None, o),
        }));
        match r {
            Ok(t) => toks.push(t),
            Err(_) => {
                toks.push("CRASH".into());
                crashed = true;
                break;
            }
        }
    }
    verif::set_clock(None);
    let body = toks.join(";");
    if crashed {
        body
    } else {
        format!("{} | {}", body, final_str(&cache))
    }
}

// ---------------------------------------------------------------------------------------------------
// handler level

static DIR_COUNTER: AtomicUsize = AtomicUsize::new(0);

fn scratch_dir() -> String {
    let root = std::env::var("HV_ROOT").unwrap_or_else(|_| ".".into());
    let d = format!(
        "{}/harness/target/c16tmp/{}-{}",
        root,
        std::process::id(),
        DIR_COUNTER.fetch_add(1, Ordering::SeqCst)
    );
    std::fs::create_dir_all(&d).unwrap();
    d
}

fn app_state(lim: usize, tl: usize) -> Arc<AppState> {
    let config = Config {
        cache: CacheConfig { size_limit: lim, time_limit: tl },
        logging: LoggingConfig { level: LogLevel::Error, console: false, file: None },
        ..Default::default()
    };
    Arc::new(AppState::from(config))
}

fn request(uri: &str) -> Request {
    Request {
        method: Method::Get,
        uri: uri.to_string(),
        query: String::new(),
        version: "HTTP/1.1".to_string(),
        headers: Headers::new(),
        content: None,
        address: Address::new("127.0.0.1:40000").unwrap(),
    }
}

fn mime_index(resp: &Response) -> usize {
    let ct = resp.headers.get(HeaderType::ContentType).unwrap_or("");
    MIMES.iter().position(|m| m.to_string() == ct).unwrap_or(999)
}

struct Req {
    route: String,
    host: usize,
    now: u64,
    len: usize,
    seed: usize,
    kind: String,
}

fn parse_reqs(s: &str) -> Vec<Req> {
    if s == "-" || s.is_empty() {
        return vec![];
    }
    s.split(';')
        .map(|o| {
            let f: Vec<&str> = o.split(',').collect();
            Req {
                route: unhex_str(f[0]),
                host: f[1].parse().unwrap(),
                now: f[3].parse().unwrap(),
                len: f[4].parse().unwrap(),
                seed: f[5].parse().unwrap(),
                kind: f.get(6).unwrap_or(&"d").to_string(),
            }
        })
        .collect()
}

/// The file a route resolves to inside the scratch directory (one directory per host so that two hosts can
/// serve different files at the same URI).
fn file_for(dir: &str, host: usize, route: &str) -> String {
    let hd = format!("{}/h{}", dir, host);
    let p = format!("{}/{}", hd, route.trim_start_matches('/'));
    if let Some(parent) = std::path::Path::new(&p).parent() {
        std::fs::create_dir_all(parent).unwrap();
    }
    p
}

fn serve(state: &Arc<AppState>, dir: &str, q: &Req) -> Response {
    let path = file_for(dir, q.host, &q.route);
    if q.kind == "f" {
        file_handler(request(&q.route), state.clone(), &path, q.host)
    } else {
        directory_handler(request(&q.route), state.clone(), &format!("{}/h{}", dir, q.host), "/*", q.host)
    }
}

fn req_case(lim: usize, tl: usize, reqs: &[Req]) -> String {
    let state = app_state(lim, tl);
    let dir = scratch_dir();
    let mut toks: Vec<String> = Vec::new();
    let mut crashed = false;
    for q in reqs {
        // the file changes (or not) between requests: its contents are an input of every request
        std::fs::write(file_for(&dir, q.host, &q.route), gen_value(q.seed, q.len)).unwrap();
        verif::set_clock(Some(q.now));
        let r = catch_unwind(AssertUnwindSafe(|| serve(&state, &dir, q)));
        match r {
            Ok(resp) => toks.push(format!(
                "R{},{},{:08x}",
                mime_index(&resp),
                resp.body.len(),
                crc32(&resp.body)
            )),
            Err(_) => {
                toks.push("CRASH".into());
                crashed = true;
                break;
            }
        }
    }
    verif::set_clock(None);
    let _ = std::fs::remove_dir_all(&dir);
    let body = toks.join(";");
    if crashed {
        return body;
    }
    let fin = match state.cache.read() {
        Ok(c) => final_str(&c),
        Err(_) => "POISONED".to_string(),
    };
    format!("{} | {}", body, fin)
}

// ---------------------------------------------------------------------------------------------------
// threads

struct Rng(u64);
impl Rng {
    fn next(&mut self) -> u64 {
        self.0 ^= self.0 << 13;
        self.0 ^= self.0 >> 7;
        self.0 ^= self.0 << 17;
        self.0
    }
    fn below(&mut self, n: u64) -> u64 {
        self.next() % n.max(1)
    }
}

fn mt_case(lim: usize, tl: u64, threads: usize, nops: usize, keys: usize, seed: u64) -> String {
    let cache = Arc::new(RwLock::new(Cache::verif_new(lim, tl)));
    // (next sequence number, clock): taken and advanced only while holding a guard of the RwLock
    let ticket = Arc::new(Mutex::new((0u64, 1000u64)));
    let log: Arc<Mutex<Vec<(u64, Op, String)>>> = Arc::new(Mutex::new(Vec::new()));
    let barrier = Arc::new(std::sync::Barrier::new(threads));
    let mut handles = Vec::new();
    for t in 0..threads {
        let cache = cache.clone();
        let ticket = ticket.clone();
        let log = log.clone();
        let barrier = barrier.clone();
        handles.push(std::thread::spawn(move || {
            let mut rng = Rng(seed.wrapping_mul(0x9E3779B97F4A7C15) ^ ((t as u64 + 1) << 32) | 1);
            let mut local: Vec<(u64, Op, String)> = Vec::new();
            barrier.wait();
            for i in 0..nops {
                let route = format!("/k{}", rng.below(keys as u64));
                let host = rng.below(2) as usize;
                let is_set = rng.below(100) < 45;
                let tick = match rng.below(10) {
                    0 => 1,
                    1 => tl.min(1 << 40) + 1,
                    _ => 0,
                };
                if is_set {
                    let len = match rng.below(8) {
                        0 => 0,
                        1 => lim.min(1 << 16),
                        2 => (lim / 2).min(1 << 16),
                        _ => rng.below(lim.min(1 << 12) as u64 + 1) as usize,
                    };
                    // the caller's guard of inner_file_handler
                    if lim < len {
                        continue;
                    }
                    let mime = rng.below(22) as usize;
                    let seedv = (t * 1_000_003 + i) % 1_000_000_007;
                    let mut guard = cache.write().unwrap();
                    let (seq, now) = {
                        let mut tk = ticket.lock().unwrap();
                        tk.0 += 1;
                        tk.1 += tick;
                        *tk
                    };
                    let op = Op::Set { route, host, mime, now, len, seed: seedv };
                    let out = apply(None, Some(&mut guard), &op);
                    drop(guard);
                    local.push((seq, op, out));
                } else {
                    let guard = cache.read().unwrap();
                    let (seq, now) = {
                        let mut tk = ticket.lock().unwrap();
                        tk.0 += 1;
                        tk.1 += tick;
                        *tk
                    };
                    let op = Op::Get { route, host, now };
                    let out = apply(Some(&guard), None, &op);
                    drop(guard);
                    local.push((seq, op, out));
                }
                if rng.below(16) == 0 {
                    std::thread::yield_now();
                }
            }
            verif::set_clock(None);
            log.lock().unwrap().extend(local);
        }));
    }
    let mut panicked = 0;
    for h in handles {
        if h.join().is_err() {
            panicked += 1;
        }
    }
    let mut all = log.lock().unwrap().clone();
    all.sort_by_key(|x| x.0);
    let ops: Vec<String> = all.iter().map(|x| op_str(&x.1)).collect();
    let outs: Vec<String> = all.iter().map(|x| x.2.clone()).collect();
    let fin = match cache.read() {
        Ok(c) => final_str(&c),
        Err(_) => "POISONED".to_string(),
    };
    format!(
        "{} # {} | {} # panicked={}",
        if ops.is_empty() { "-".to_string() } else { ops.join(";") },
        outs.join(";"),
        fin,
        panicked
    )
}

/// Threads calling the real handlers while another thread rewrites the files. No sequence numbers can be taken
/// inside the handlers' critical sections, so only schedule-independent facts are reported: every body is one of
/// the versions the file ever had (with the right MIME type), nothing panicked, the lock is not poisoned, and
/// the final cache satisfies the invariants.
fn mtreq_case(lim: usize, tl: usize, threads: usize, nreqs: usize, seed: u64) -> String {
    let state = app_state(lim, tl);
    let dir = scratch_dir();
    let routes = ["/a.html", "/b.css", "/c.txt", "/d"];
    let versions = 4usize;
    let vlen = move |r: usize, v: usize| (r * 7 + v * 3) % (lim.min(4000) + 2);
    for (ri, r) in routes.iter().enumerate() {
        for host in 0..2 {
            std::fs::write(file_for(&dir, host, r), gen_value(ri * 10, vlen(ri, 0))).unwrap();
        }
    }
    let bad = Arc::new(AtomicUsize::new(0));
    let served = Arc::new(AtomicUsize::new(0));
    let mut handles = Vec::new();
    for t in 0..threads {
        let state = state.clone();
        let dir = dir.clone();
        let bad = bad.clone();
        let served = served.clone();
        handles.push(std::thread::spawn(move || {
            let mut rng = Rng(seed.wrapping_mul(0x9E3779B97F4A7C15) ^ ((t as u64 + 1) << 32) | 1);
            for _ in 0..nreqs {
                let ri = rng.below(routes.len() as u64) as usize;
                let host = rng.below(2) as usize;
                if t == 0 && rng.below(3) == 0 {
                    // writer: replace the file by another version (write to a temporary name, then rename, so that
                    // a reader never sees a half-written file)
                    let v = rng.below(versions as u64) as usize;
                    let p = file_for(&dir, host, routes[ri]);
                    let tmp = format!("{}.tmp{}", p, t);
                    std::fs::write(&tmp, gen_value(ri * 10 + v, vlen(ri, v))).unwrap();
                    std::fs::rename(&tmp, &p).unwrap();
                    continue;
                }
                let q = Req {
                    route: routes[ri].to_string(),
                    host,
                    now: 0,
                    len: 0,
                    seed: 0,
                    kind: if rng.below(2) == 0 { "f".into() } else { "d".into() },
                };
                let resp = serve(&state, &dir, &q);
                served.fetch_add(1, Ordering::SeqCst);
                let ok = (0..versions).any(|v| resp.body == gen_value(ri * 10 + v, vlen(ri, v)));
                let want_mime = match ri {
                    0 => "text/html",
                    1 => "text/css",
                    2 => "text/plain",
                    _ => "application/octet-stream",
                };
                if !ok || resp.headers.get(HeaderType::ContentType) != Some(want_mime) {
                    bad.fetch_add(1, Ordering::SeqCst);
                }
            }
        }));
    }
    let mut panicked = 0;
    for h in handles {
        if h.join().is_err() {
            panicked += 1;
        }
    }
    let _ = std::fs::remove_dir_all(&dir);
    let fin = match state.cache.read() {
        Ok(c) => {
            let sum: usize = c.verif_entries().map(|e| e.data.len()).sum();
            let mut keys: Vec<(String, usize)> = c.verif_entries().map(|e| (e.route.clone(), e.host)).collect();
            let n = keys.len();
            keys.sort();
            keys.dedup();
            format!(
                "size_is_sum={} size_le_limit={} keys_unique={}",
                c.verif_size() == sum,
                c.verif_size() <= lim,
                keys.len() == n
            )
        }
        Err(_) => "POISONED".to_string(),
    };
    format!(
        "served={} bad={} panicked={} {}",
        served.load(Ordering::SeqCst).min(1),
        bad.load(Ordering::SeqCst),
        panicked,
        fin
    )
}

// ---------------------------------------------------------------------------------------------------
// bounded-exhaustive enumeration inside the runner (same enumeration and digest as ocaml/d_c16.ml), with the
// property oracle evaluated on every node against a reference map kept alongside

const MASK62: u64 = (1u64 << 62) - 1;
fn mix(h: u64, x: u64) -> u64 {
    (h.wrapping_mul(1000003).wrapping_add(x)) & MASK62
}
const EXH_ROUTES: [&str; 3] = ["/a", "/ab", "/a/"];

fn item_hash(it: &CachedItem) -> u64 {
    let mut h = mix(11, crc32(it.route.as_bytes()) as u64);
    h = mix(h, it.host as u64);
    h = mix(h, it.mime_type as u64);
    h = mix(h, it.cache_time);
    h = mix(h, it.data.len() as u64);
    mix(h, crc32(&it.data) as u64)
}

fn fin_hash(c: &Cache) -> u64 {
    let mut h = mix(mix(7, 5), c.verif_size() as u64);
    for it in c.verif_entries() {
        h = mix(h, item_hash(it));
    }
    h
}

struct Exh {
    lim: usize,
    tl: u64,
    num: u64,
    den: u64,
    sizes: Vec<usize>,
    l: usize,
    acc: u64,
    nodes: u64,
    leaves: u64,
    hits: u64,
    misses: u64,
    crashes: u64,
    violations: u64,
    first_violation: Option<String>,
    path: Vec<usize>,
}

/// reference map: what was most recently stored for each of the six keys (len, seed, mime, time)
type Spec = [Option<(usize, usize, usize, u64)>; 6];

impl Exh {
    fn violation(&mut self, what: &str) {
        self.violations += 1;
        if self.first_violation.is_none() {
            let p: Vec<String> = self.path.iter().map(|a| a.to_string()).collect();
            self.first_violation = Some(format!("{}@{}", what, p.join(",")));
        }
    }

    fn check_invariants(&mut self, c: &Cache) {
        let sum: usize = c.verif_entries().map(|e| e.data.len()).sum();
        if c.verif_size() != sum {
            self.violation("size_is_sum");
        }
        if c.verif_size() > self.lim {
            self.violation("size_le_limit");
        }
        let mut keys: Vec<(&str, usize)> = c.verif_entries().map(|e| (e.route.as_str(), e.host)).collect();
        let n = keys.len();
        keys.sort();
        keys.dedup();
        if keys.len() != n {
            self.violation("keys_unique");
        }
    }

    /// one operation at depth d: Some(cache', spec') or None on a crash; updates digest and oracle
    fn apply(&mut self, c: &Cache, spec: &Spec, d: usize, a: usize) -> Option<(Cache, Spec)> {
        self.nodes += 1;
        self.path.truncate(d);
        self.path.push(a);
        let now = 100 + (d as u64) * self.num / self.den;
        verif::set_clock(Some(now));
        if a < 6 {
            let (route, host) = (EXH_ROUTES[a % 3], a / 3);
            let r = catch_unwind(AssertUnwindSafe(|| c.get(route, host).map(|it| (item_hash(it), it.verif_copy()))));
            match r {
                Err(_) => {
                    self.crashes += 1;
                    self.acc = mix(self.acc, mix(7, 4));
                    self.violation("get-panicked");
                    None
                }
                Ok(None) => {
                    self.misses += 1;
                    self.acc = mix(self.acc, mix(7, 2));
                    Some((c.verif_clone(), *spec))
                }
                Ok(Some((h, it))) => {
                    self.hits += 1;
                    self.acc = mix(self.acc, mix(mix(7, 3), h));
                    match spec[a] {
                        None => self.violation("hit-never-stored"),
                        Some((len, seed, mime, t)) => {
                            if it.route != route || it.host != host {
                                self.violation("hit-other-key");
                            }
                            if it.data != gen_value(seed, len) || it.mime_type as usize != mime || it.cache_time != t {
                                self.violation("hit-not-latest");
                            }
                            if now < t || now - t > self.tl {
                                self.violation("hit-stale");
                            }
                        }
                    }
                    Some((c.verif_clone(), *spec))
                }
            }
        } else {
            let b = a - 6;
            let (route, host, len) = (EXH_ROUTES[b % 3], (b / 3) % 2, self.sizes[b / 6]);
            let (seed, mime) = (d * 31 + a, (a + d) % 22);
            let mut c2 = c.verif_clone();
            let r = catch_unwind(AssertUnwindSafe(|| c2.set(route, host, gen_value(seed, len), MIMES[mime])));
            match r {
                Err(_) => {
                    self.crashes += 1;
                    self.acc = mix(self.acc, mix(7, 4));
                    if len <= self.lim {
                        self.violation("set-panicked-under-guard");
                    }
                    None
                }
                Ok(()) => {
                    self.acc = mix(
                        self.acc,
                        mix(mix(mix(7, 1), c2.verif_size() as u64), c2.verif_entries().count() as u64),
                    );
                    let mut s2 = *spec;
                    s2[b % 6] = Some((len, seed, mime, now));
                    self.check_invariants(&c2);
                    // retrievable immediately after being stored
                    match c2.get(route, host) {
                        Some(it) if it.data == gen_value(seed, len) && it.mime_type as usize == mime => {}
                        _ => self.violation("not-retrievable-after-set"),
                    }
                    Some((c2, s2))
                }
            }
        }
    }

    fn dfs(&mut self, c: &Cache, spec: &Spec, d: usize) {
        for a in 0..24 {
            match self.apply(c, spec, d, a) {
                None => self.leaves += 1,
                Some((c2, s2)) => {
                    if d + 1 >= self.l {
                        self.acc = mix(self.acc, fin_hash(&c2));
                        self.leaves += 1;
                    } else {
                        self.dfs(&c2, &s2, d + 1);
                    }
                }
            }
        }
    }
}

fn exh_case(lim: usize, tl: u64, num: u64, den: u64, sizes: Vec<usize>, l: usize, prefix: Vec<usize>) -> String {
    let mut e = Exh {
        lim, tl, num, den, sizes, l,
        acc: 7, nodes: 0, leaves: 0, hits: 0, misses: 0, crashes: 0, violations: 0,
        first_violation: None, path: Vec::new(),
    };
    let mut c = Cache::verif_new(lim, tl);
    let mut spec: Spec = [None; 6];
    let mut d = 0;
    let mut alive = true;
    for a in prefix {
        match e.apply(&c, &spec, d, a) {
            None => {
                e.leaves += 1;
                alive = false;
                break;
            }
            Some((c2, s2)) => {
                c = c2;
                spec = s2;
                d += 1;
            }
        }
    }
    if alive {
        if d >= l {
            e.acc = mix(e.acc, fin_hash(&c));
            e.leaves += 1;
        } else {
            e.dfs(&c, &spec, d);
        }
    }
    verif::set_clock(None);
    format!(
        "D{} nodes={} leaves={} hit={} miss={} crash={} oracle={}{}",
        e.acc, e.nodes, e.leaves, e.hits, e.misses, e.crashes, e.violations,
        e.first_violation.map(|v| format!(":{}", v)).unwrap_or_default()
    )
}

trait VerifCopy {
    fn verif_copy(&self) -> CachedItem;
}
impl VerifCopy for CachedItem {
    fn verif_copy(&self) -> CachedItem {
        CachedItem {
            route: self.route.clone(),
            host: self.host,
            mime_type: self.mime_type,
            cache_time: self.cache_time,
            data: self.data.clone(),
        }
    }
}

/// Real clock (no override): the hook must leave the SystemTime path intact. Stores, looks up at once, waits until the
/// wall clock has advanced by more than `tl` whole seconds, looks up again. Straddling a second boundary between the
/// store and the first lookup is possible with tl = 0, so that step is retried.
fn real_clock_case(tl: u64) -> String {
    verif::set_clock(None);
    let wall = || std::time::SystemTime::now().duration_since(std::time::UNIX_EPOCH).unwrap().as_secs();
    for _attempt in 0..5 {
        let mut c = Cache::verif_new(100, tl);
        let t0 = wall();
        c.set("/real", 0, gen_value(1, 10), MIMES[1]);
        let first = c.get("/real", 0).map(|it| (it.cache_time, it.data.clone()));
        let t1 = wall();
        if t1 != t0 {
            continue; // straddled a second boundary: run again
        }
        let (stamp, data) = match first {
            Some(x) => x,
            None => return format!("miss-immediately-after-set tl={}", tl),
        };
        if stamp != t0 || data != gen_value(1, 10) {
            return format!("wrong-entry stamp={} wall={}", stamp, t0);
        }
        while wall() <= t0 + tl {
            std::thread::sleep(std::time::Duration::from_millis(20));
        }
        return match c.get("/real", 0) {
            None => "ok".to_string(),
            Some(_) => format!("hit-after-expiry tl={}", tl),
        };
    }
    "could-not-avoid-second-boundary".to_string()
}

pub fn dispatch(name: &str, args: &[&str]) -> Option<String> {
    match name {
        "c16real" => Some(real_clock_case(args[0].parse().unwrap())),
        "c16exh" => Some(exh_case(
            args[0].parse().unwrap(),
            args[1].parse().unwrap(),
            args[2].parse().unwrap(),
            args[3].parse().unwrap(),
            args[4].split(',').map(|x| x.parse().unwrap()).collect(),
            args[5].parse().unwrap(),
            if args[6] == "-" { vec![] } else { args[6].split(',').map(|x| x.parse().unwrap()).collect() },
        )),
        "c16run" => Some(run_case(args[0].parse().unwrap(), args[1].parse().unwrap(), &parse_ops(args[2]))),
        "c16req" => Some(req_case(args[0].parse().unwrap(), args[1].parse().unwrap(), &parse_reqs(args[2]))),
        "c16mt" => Some(mt_case(
            args[0].parse().unwrap(),
            args[1].parse().unwrap(),
            args[2].parse().unwrap(),
            args[3].parse().unwrap(),
            args[4].parse().unwrap(),
            args[5].parse().unwrap(),
        )),
        "c16mtreq" => Some(mtreq_case(
            args[0].parse().unwrap(),
            args[1].parse().unwrap(),
            args[2].parse().unwrap(),
            args[3].parse().unwrap(),
            args[4].parse().unwrap(),
        )),
        _ => None,
    }
}
