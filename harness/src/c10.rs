//! C10: WebSocket frame codec (humphrey-ws/src/frame.rs through the cfg(humphrey_verif) hook) and Message::to_frame.
//!
//! c10_enc <flags> <opcode> <length> h<key> h<payload>   flags = fin<<4 | rsv1<<3 | rsv2<<2 | rsv3<<1 | mask
//!     -> some:<digest> | none (opcode not accepted by Opcode::try_from)
//! c10_dec h<bytes> <plan>                                plan: see `chunk_sizes`
//!     -> ok fin=.. rsv=... op=.. mask=.. len=.. key=.. payload=<digest> consumed=<n> cap=<payload Vec capacity>
//!      | err:read consumed=<n> | err:opcode consumed=<n> | err:other consumed=<n>
//! c10_new <opcode> h<payload>     -> some:<digest> | none        (Frame::new + serialisation)
//! c10_msg <0|1> h<payload>        -> text=<0|1> <digest>         (Message::new / new_binary, then to_frame)
//! digest of a byte string: full hex up to 48 bytes, else <len>:<value mod 2^32-5>:<first 16 bytes>:<last 8 bytes>
use crate::util::*;
use humphrey_ws::error::WebsocketError;
use humphrey_ws::message::Message;
use humphrey_ws::verif::{decode_frame, encode_frame, new_frame_bytes, FrameParts};
use std::io::Read;

pub fn digest(b: &[u8]) -> String {
    if b.len() <= 48 {
        return format!("h{}", hex(b));
    }
    // the byte string read as a big-endian number, modulo the prime 2^32 - 5
    let mut h: u64 = 0;
    for x in b {
        h = (h * 256 + *x as u64) % 4294967291;
    }
    format!("{}:{:08x}:{}:{}", b.len(), h, hex(&b[..16]), hex(&b[b.len() - 8..]))
}

/// Plan grammar: comma-separated tokens; `n` = one chunk of n bytes (0 = a read that returns Ok(0));
/// `*k` = chunks of k bytes until the data is exhausted; `-` = no explicit chunk. Whatever the tokens do not cover
/// is delivered as one final chunk. A chunk is cut short at the end of the data; chunks after that are dropped
/// (except explicit 0 chunks, which stay).
pub fn chunk_sizes(plan: &str, total: usize) -> Vec<usize> {
    let mut out = Vec::new();
    let mut left = total;
    for tok in plan.split(',') {
        if tok == "-" || tok.is_empty() {
            continue;
        }
        if let Some(k) = tok.strip_prefix('*') {
            let k: usize = k.parse().unwrap();
            assert!(k > 0);
            while left > 0 {
                let n = k.min(left);
                out.push(n);
                left -= n;
            }
        } else {
            let n: usize = tok.parse().unwrap();
            if n == 0 {
                out.push(0);
            } else if left > 0 {
                let n = n.min(left);
                out.push(n);
                left -= n;
            }
        }
    }
    if left > 0 {
        out.push(left);
    }
    out
}

/// A reader that hands out the data in the scripted chunks: one `read` call never crosses a chunk boundary,
/// a 0-sized chunk is a read that returns Ok(0), and after the last chunk every read returns Ok(0) (EOF).
pub struct Scripted {
    data: Vec<u8>,
    sizes: Vec<usize>,
    idx: usize,
    off: usize,
    pub pos: usize,
    pub reads: usize,
}

impl Scripted {
    pub fn new(data: Vec<u8>, plan: &str) -> Self {
        let sizes = chunk_sizes(plan, data.len());
        Scripted { data, sizes, idx: 0, off: 0, pos: 0, reads: 0 }
    }
}

impl Read for Scripted {
    fn read(&mut self, buf: &mut [u8]) -> std::io::Result<usize> {
        if buf.is_empty() {
            return Ok(0);
        }
        self.reads += 1;
        if self.idx >= self.sizes.len() {
            return Ok(0);
        }
        let size = self.sizes[self.idx];
        if size == 0 {
            self.idx += 1;
            return Ok(0);
        }
        let n = (size - self.off).min(buf.len());
        buf[..n].copy_from_slice(&self.data[self.pos..self.pos + n]);
        self.pos += n;
        self.off += n;
        if self.off == size {
            self.idx += 1;
            self.off = 0;
        }
        Ok(n)
    }
}

fn b(x: bool) -> u8 {
    x as u8
}

pub fn dispatch(name: &str, args: &[&str]) -> Option<String> {
    match name {
        "c10_enc" => {
            let flags: u8 = args[0].parse().unwrap();
            let opcode: u8 = args[1].parse().unwrap();
            let length: u64 = args[2].parse().unwrap();
            let k = unhex(args[3]);
            let payload = unhex(args[4]);
            let parts = FrameParts {
                fin: flags & 16 != 0,
                rsv: [flags & 8 != 0, flags & 4 != 0, flags & 2 != 0],
                opcode,
                mask: flags & 1 != 0,
                length,
                masking_key: [k[0], k[1], k[2], k[3]],
                payload,
            };
            Some(match encode_frame(parts) {
                Some(v) => format!("some:{}", digest(&v)),
                None => "none".to_string(),
            })
        }
        "c10_dec" => {
            let data = unhex(args[0]);
            let mut rd = Scripted::new(data, args[1]);
            let r = decode_frame(&mut rd);
            Some(match r {
                Ok(p) => format!(
                    "ok fin={} rsv={}{}{} op={} mask={} len={} key={} payload={} consumed={} cap={}",
                    b(p.fin),
                    b(p.rsv[0]),
                    b(p.rsv[1]),
                    b(p.rsv[2]),
                    p.opcode,
                    b(p.mask),
                    p.length,
                    hex(&p.masking_key),
                    digest(&p.payload),
                    rd.pos,
                    p.payload.capacity()
                ),
                Err(WebsocketError::ReadError) => format!("err:read consumed={}", rd.pos),
                Err(WebsocketError::InvalidOpcode) => format!("err:opcode consumed={}", rd.pos),
                Err(_) => format!("err:other consumed={}", rd.pos),
            })
        }
        "c10_new" => {
            let opcode: u8 = args[0].parse().unwrap();
            Some(match new_frame_bytes(opcode, unhex(args[1])) {
                Some(v) => format!("some:{}", digest(&v)),
                None => "none".to_string(),
            })
        }
        "c10_msg" => {
            let payload = unhex(args[1]);
            let m = if args[0] == "1" { Message::new_binary(&payload) } else { Message::new(&payload) };
            let text = m.text().is_some();
            Some(format!("text={} {}", b(text), digest(&m.to_frame())))
        }
        _ => None,
    }
}
