//! C08: thread pool. Runs a lifecycle script on the real `ThreadPool` (real OS threads), with harness-supplied tasks
//! that record what they did, and prints the event history recorded by hook H3 together with the task-side records.
//!
//! `pool <n> <seed> <ops>` where `<ops>` is a comma separated script executed by one "caller" thread:
//!   `S`            pool.start()
//!   `E<k>[p][r]`   pool.execute(task k); `p`: the task panics; `r`: the task waits until all `r`-tasks of the script
//!                  are running at the same time (rendezvous, gives up after 1.5 s)
//!   `T`            pool.stop()
//!   `D`            drop(pool)           (appended if the script does not contain it)
//!   `W<us>`        the caller sleeps
//! Each caller operation must return within 2 s (`drop` included: it is what F16 is about); afterwards no thread named
//! like a worker ("0", "1", ...) may be alive (3 s grace). Sleeps/yields of tasks and caller are derived from `<seed>`,
//! and the same seed drives the perturbation inside the hook (`verif_trace::set_jitter`).
//!
//! Result line: `ops=<status per op> left=<live worker threads> dirty=<0|1> runs=<per task> ends=<per task>
//! rv=<per r-task 0|1> ev=<event tokens>`.
use humphrey::thread::pool::verif_trace::{self as vt, Event};
use humphrey::thread::pool::ThreadPool;
use std::panic::{catch_unwind, AssertUnwindSafe};
use std::sync::atomic::{AtomicBool, AtomicUsize, Ordering};
use std::sync::mpsc::{channel, RecvTimeoutError};
use std::sync::{Arc, Condvar, Mutex};
use std::time::{Duration, Instant};

const MARK_BEGIN: usize = 1;
const MARK_END: usize = 2;
const MARK_PANIC: usize = 3;
const MARK_CALL_PANICKED: usize = 4;

/// Set when an earlier history in this process left threads behind (blocked caller or live workers): results of
/// later histories in the same process are flagged so that the driver re-runs them in a fresh process.
static DIRTY: AtomicBool = AtomicBool::new(false);

#[derive(Clone, Debug)]
enum Op {
    Start,
    Exec { k: usize, panics: bool, rendezvous: bool },
    Stop,
    Drop,
    Wait(u64),
}

fn parse_ops(s: &str) -> Vec<Op> {
    s.split(',')
        .filter(|t| !t.is_empty())
        .map(|t| {
            let (h, rest) = t.split_at(1);
            match h {
                "S" => Op::Start,
                "T" => Op::Stop,
                "D" => Op::Drop,
                "W" => Op::Wait(rest.parse().unwrap()),
                "E" => {
                    let digits: String = rest.chars().take_while(|c| c.is_ascii_digit()).collect();
                    Op::Exec {
                        k: digits.parse().unwrap(),
                        panics: rest.contains('p'),
                        rendezvous: rest.contains('r'),
                    }
                }
                _ => panic!("bad op"),
            }
        })
        .collect()
}

fn mix(mut x: u64) -> u64 {
    x = x.wrapping_add(0x9E37_79B9_7F4A_7C15);
    x = (x ^ (x >> 30)).wrapping_mul(0xBF58_476D_1CE4_E5B9);
    x = (x ^ (x >> 27)).wrapping_mul(0x94D0_49BB_1331_11EB);
    x ^ (x >> 31)
}

/// Seed-derived pause: nothing, a yield, or a sleep of up to ~1.5 ms.
fn pause(seed: u64, salt: u64) {
    let x = mix(seed ^ mix(salt));
    if seed == 0 {
        return;
    }
    match x % 6 {
        0 | 1 => (),
        2 => std::thread::yield_now(),
        3 => std::thread::sleep(Duration::from_micros(x >> 8 & 0xff)),
        4 => std::thread::sleep(Duration::from_micros(200 + (x >> 8 & 0x1ff))),
        _ => std::thread::sleep(Duration::from_micros(500 + (x >> 8 & 0x3ff))),
    }
}

/// Number of live threads of this process whose name is a worker name (decimal number).
fn live_workers() -> usize {
    let mut c = 0;
    if let Ok(rd) = std::fs::read_dir("/proc/self/task") {
        for e in rd.flatten() {
            if let Ok(name) = std::fs::read_to_string(e.path().join("comm")) {
                let name = name.trim();
                if !name.is_empty() && name.bytes().all(|b| b.is_ascii_digit()) {
                    c += 1;
                }
            }
        }
    }
    c
}

fn token(r: &vt::Record) -> String {
    let w = match r.worker {
        Some(w) => format!("@{}", w),
        None => String::new(),
    };
    let body = match r.event {
        Event::Start(n) => format!("S{}", n),
        Event::Execute => "E".to_string(),
        Event::Stop => "T".to_string(),
        Event::DropBegin => "Db".to_string(),
        Event::DropEnd => "De".to_string(),
        Event::Acquire(i) => format!("A{}", i),
        Event::RecvTask(i) => format!("Rt{}", i),
        Event::RecvShutdown(i) => format!("Rs{}", i),
        Event::RecvClosed(i) => format!("Rc{}", i),
        Event::LockPoisoned(i) => format!("Lp{}", i),
        Event::Finish(i) => format!("F{}", i),
        Event::Exit(i) => format!("X{}", i),
        Event::Notify(i) => format!("N{}", i),
        Event::Recover(i) => format!("V{}", i),
        Event::Mark(k, v) => format!("M{}.{}", k, v),
    };
    format!("{}{}", body, w)
}

struct Shared {
    runs: Vec<AtomicUsize>,
    ends: Vec<AtomicUsize>,
    rv_ok: Vec<AtomicUsize>,
    rv_count: Mutex<usize>,
    rv_cv: Condvar,
    rv_total: usize,
}

fn run_script(n: usize, seed: u64, ops: Vec<Op>) -> String {
    let dirty_at_start = DIRTY.load(Ordering::SeqCst) || live_workers() > 0;
    let ntasks = ops
        .iter()
        .filter_map(|o| if let Op::Exec { k, .. } = o { Some(*k + 1) } else { None })
        .max()
        .unwrap_or(0);
    let rv_total = ops
        .iter()
        .filter(|o| matches!(o, Op::Exec { rendezvous: true, .. }))
        .count();
    let sh = Arc::new(Shared {
        runs: (0..ntasks).map(|_| AtomicUsize::new(0)).collect(),
        ends: (0..ntasks).map(|_| AtomicUsize::new(0)).collect(),
        rv_ok: (0..ntasks).map(|_| AtomicUsize::new(0)).collect(),
        rv_count: Mutex::new(0),
        rv_cv: Condvar::new(),
        rv_total,
    });
    let mut ops = ops;
    if !ops.iter().any(|o| matches!(o, Op::Drop)) {
        ops.push(Op::Drop);
    }
    vt::take();
    vt::set_jitter(if seed == 0 { 0 } else { mix(seed) | 1 });

    // the caller thread: executes the script, reports after each operation
    let (ptx, prx) = channel::<(usize, &'static str)>();
    let sh2 = sh.clone();
    let ops2 = ops.clone();
    let caller = std::thread::spawn(move || {
        let mut pool: Option<ThreadPool> = Some(ThreadPool::new(n));
        for (i, op) in ops2.iter().enumerate() {
            pause(seed, 1000 + i as u64);
            let status: &'static str = match op {
                Op::Wait(us) => {
                    std::thread::sleep(Duration::from_micros(*us));
                    "ok"
                }
                Op::Drop => {
                    drop(pool.take());
                    "ok"
                }
                _ if pool.is_none() => "nopool",
                Op::Start => {
                    pool.as_mut().unwrap().start();
                    "ok"
                }
                Op::Stop => {
                    let p = pool.as_mut().unwrap();
                    match catch_unwind(AssertUnwindSafe(|| p.stop())) {
                        Ok(()) => "ok",
                        Err(_) => {
                            vt::push(Event::Mark(MARK_CALL_PANICKED, i));
                            "panic"
                        }
                    }
                }
                Op::Exec { k, panics, rendezvous } => {
                    let (k, panics, rendezvous) = (*k, *panics, *rendezvous);
                    let sh = sh2.clone();
                    let task = move || {
                        vt::push(Event::Mark(MARK_BEGIN, k));
                        sh.runs[k].fetch_add(1, Ordering::SeqCst);
                        pause(seed, 2 * k as u64);
                        if rendezvous {
                            let deadline = Instant::now() + Duration::from_millis(1500);
                            let mut c = sh.rv_count.lock().unwrap();
                            *c += 1;
                            sh.rv_cv.notify_all();
                            let mut ok = true;
                            while *c < sh.rv_total {
                                let now = Instant::now();
                                if now >= deadline {
                                    ok = false;
                                    break;
                                }
                                c = sh.rv_cv.wait_timeout(c, deadline - now).unwrap().0;
                            }
                            drop(c);
                            sh.rv_ok[k].store(if ok { 1 } else { 2 }, Ordering::SeqCst);
                        }
                        if panics {
                            vt::push(Event::Mark(MARK_PANIC, k));
                            panic!("task {} panics as scripted", k);
                        }
                        pause(seed, 2 * k as u64 + 1);
                        sh.ends[k].fetch_add(1, Ordering::SeqCst);
                        vt::push(Event::Mark(MARK_END, k));
                    };
                    let p = pool.as_ref().unwrap();
                    match catch_unwind(AssertUnwindSafe(|| p.execute(task))) {
                        Ok(()) => "ok",
                        Err(_) => {
                            vt::push(Event::Mark(MARK_CALL_PANICKED, i));
                            "panic"
                        }
                    }
                }
            };
            if ptx.send((i, status)).is_err() {
                return;
            }
        }
    });

    let mut statuses: Vec<String> = Vec::new();
    let mut blocked = false;
    for _ in 0..ops.len() {
        match prx.recv_timeout(Duration::from_millis(2000)) {
            Ok((_, st)) => statuses.push(st.to_string()),
            Err(RecvTimeoutError::Timeout) => {
                statuses.push("TIMEOUT".to_string());
                blocked = true;
                break;
            }
            Err(RecvTimeoutError::Disconnected) => {
                statuses.push("DIED".to_string());
                blocked = true;
                break;
            }
        }
    }
    if !blocked {
        caller.join().ok();
    }
    // Every worker must leave its loop: one Exit record per worker id once the pool is gone (a worker that
    // panicked is replaced under the same id, and the replacement exits in its turn). Then the OS threads
    // themselves must disappear (thread names "0", "1", ... in /proc/self/task).
    let started = ops.iter().any(|o| matches!(o, Op::Start));
    let expected_exits = if started && !blocked { n } else { 0 };
    let t0 = Instant::now();
    let mut exits = vt::count(|r| matches!(r.event, Event::Exit(_)));
    while exits < expected_exits && t0.elapsed() < Duration::from_millis(3000) {
        std::thread::sleep(Duration::from_micros(200));
        exits = vt::count(|r| matches!(r.event, Event::Exit(_)));
        if vt::count(|_| true) > 20_000 {
            break; // runaway history (a worker spinning): no point in waiting
        }
    }
    let t1 = Instant::now();
    let mut left = live_workers();
    while left > 0 && t1.elapsed() < Duration::from_millis(1000) {
        std::thread::sleep(Duration::from_micros(200));
        left = live_workers();
    }
    if exits < expected_exits {
        left = left.max(expected_exits - exits);
    }
    vt::set_jitter(0);
    let events = vt::take();
    if blocked || left > 0 {
        DIRTY.store(true, Ordering::SeqCst);
    }
    let join = |v: &Vec<AtomicUsize>| {
        if v.is_empty() {
            "-".to_string()
        } else {
            v.iter().map(|a| a.load(Ordering::SeqCst).to_string()).collect::<Vec<_>>().join(",")
        }
    };
    format!(
        "ops={} left={} dirty={} runs={} ends={} rv={} ev={}",
        statuses.join(","),
        left,
        dirty_at_start as u8,
        join(&sh.runs),
        join(&sh.ends),
        join(&sh.rv_ok),
        if events.is_empty() { "-".to_string() } else { events.iter().map(token).collect::<Vec<_>>().join(",") }
    )
}

pub fn dispatch(name: &str, args: &[&str]) -> Option<String> {
    match name {
        "pool" => {
            let n: usize = args[0].parse().unwrap();
            let seed: u64 = args[1].parse().unwrap();
            Some(run_script(n, seed, parse_ops(args[2])))
        }
        _ => None,
    }
}
