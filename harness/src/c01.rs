//! C01: the per-connection loop over real loopback sockets (threaded runtime). One server per runner process.
use crate::util::*;
use humphrey::http::cors::Cors;
use humphrey::http::headers::HeaderType;
use humphrey::http::method::Method;
use humphrey::http::{Request, Response, StatusCode};
use humphrey::App;
use std::io::{Read, Write};
use std::net::{Shutdown, TcpListener, TcpStream};
use std::sync::OnceLock;
use std::time::{Duration, Instant};

pub const TIMEOUT_MS: u64 = 300;

/// A port that is free right now. Candidates are drawn from a per-process sequence (instead of the kernel's shared
/// ephemeral counter) so that runner processes working in parallel do not hand each other the same port between this
/// probe and the server's own bind.
pub fn free_port() -> u16 {
    use std::sync::atomic::{AtomicU32, Ordering};
    static NEXT: AtomicU32 = AtomicU32::new(0);
    let pid = std::process::id();
    for _ in 0..2000 {
        let k = NEXT.fetch_add(1, Ordering::Relaxed);
        let port = 20000 + ((pid.wrapping_mul(7919).wrapping_add(k.wrapping_mul(104729))) % 30000) as u16;
        if let Ok(l) = TcpListener::bind(("0.0.0.0", port)) {
            drop(l);
            return port;
        }
    }
    let l = TcpListener::bind("127.0.0.1:0").unwrap();
    l.local_addr().unwrap().port()
}

fn app() -> App<()> {
    App::new_with_config(8, ())
        .with_stateless_route("/fixed*", |_r: Request| Response::new(StatusCode::OK, "hello"))
        .with_stateless_route("/echo*", |r: Request| Response::new(StatusCode::OK, r.content.unwrap_or_default()))
        .with_stateless_route("/empty*", |_r: Request| Response::empty(StatusCode::OK))
        .with_stateless_route("/panic*", |_r: Request| -> Response { panic!("handler panic (expected)") })
        .with_stateless_route("/own*", |_r: Request| {
            Response::new(StatusCode::OK, "own").with_header(HeaderType::Server, "mine").with_header(HeaderType::Connection, "Close")
        })
        .with_stateless_route("/cors*", |_r: Request| Response::new(StatusCode::OK, "c"))
        .with_stateless_route("/wild*", |_r: Request| Response::new(StatusCode::OK, "w"))
        .with_cors_config("/wild*", Cors::wildcard())
        .with_cors_config(
            "/cors*",
            Cors::new().with_origin("https://a.example").with_origin("https://b.example").with_method(Method::Get).with_method(Method::Post).with_header("X-H").with_header("X-I"),
        )
        .with_connection_timeout(Some(Duration::from_millis(TIMEOUT_MS)))
}

/// start the server once per process; returns its port
pub fn server() -> u16 {
    static PORT: OnceLock<u16> = OnceLock::new();
    *PORT.get_or_init(|| {
        for _ in 0..20 {
            let port = free_port();
            let (tx, rx) = std::sync::mpsc::channel::<bool>();
            std::thread::spawn(move || {
                // run() only returns on bind failure (no shutdown receiver here)
                let r = app().run(format!("127.0.0.1:{}", port));
                let _ = tx.send(r.is_ok());
            });
            // wait until it accepts
            let t0 = Instant::now();
            while t0.elapsed() < Duration::from_secs(3) {
                if let Ok(r) = rx.try_recv() {
                    if !r {
                        break;
                    }
                }
                if TcpStream::connect(("127.0.0.1", port)).is_ok() {
                    // make sure it is OUR server that answered: run() must not have returned (bind failure)
                    std::thread::sleep(Duration::from_millis(10));
                    if rx.try_recv().is_err() {
                        return port;
                    }
                    break;
                }
                std::thread::sleep(Duration::from_millis(5));
            }
        }
        panic!("could not start server");
    })
}

/// read whatever arrives: wait up to `first_ms` for the first byte, then until `quiet_ms` pass without data.
/// returns (bytes, eof_seen)
pub fn read_available(s: &mut TcpStream, first_ms: u64, quiet_ms: u64) -> (Vec<u8>, bool) {
    let mut out = Vec::new();
    let mut buf = [0u8; 65536];
    let mut wait = first_ms;
    loop {
        s.set_read_timeout(Some(Duration::from_millis(wait.max(1)))).unwrap();
        match s.read(&mut buf) {
            Ok(0) => return (out, true),
            Ok(n) => {
                out.extend_from_slice(&buf[..n]);
                wait = quiet_ms;
            }
            Err(ref e) if e.kind() == std::io::ErrorKind::WouldBlock || e.kind() == std::io::ErrorKind::TimedOut => {
                return (out, false)
            }
            Err(_) => return (out, true),
        }
    }
}

/// play a client plan against `port`: items h<hex> = one write, "p" = short pause (separate TCP segment / read),
/// "w" = wait for the server's answer to what was sent so far, "i" = stay idle longer than the timeout.
/// Returns (all bytes received, server closed before the client's own half-close)
pub fn play(port: u16, plan: &str) -> (Vec<u8>, bool) {
    let (got, closed, _) = play_gap(port, plan);
    (got, closed)
}

/// as `play`; also returns the longest time (ms) this client let pass, outside an "i" item, between receiving an answer and
/// its own next action (next write or the final half-close). On a loaded machine that can reach the server's connection
/// timeout, and the 408 the server then writes is the correct answer to a wait that really was that long.
pub fn play_gap(port: u16, plan: &str) -> (Vec<u8>, bool, u128) {
    let mut s = TcpStream::connect(("127.0.0.1", port)).unwrap();
    s.set_nodelay(true).unwrap();
    let mut got = Vec::new();
    let mut closed = false;
    let mut answered_at: Option<Instant> = None;
    let mut gap: u128 = 0;
    for item in plan.split(',') {
        match item {
            "" | "-" => {}
            "p" => std::thread::sleep(Duration::from_millis(4)),
            "w" => {
                let (b, eof) = read_available(&mut s, 1500, 40);
                if !b.is_empty() {
                    answered_at = Some(Instant::now());
                }
                got.extend(b);
                closed |= eof;
            }
            "i" => {
                answered_at = None; // a deliberate idle period: the 408 is expected by the plan itself
                std::thread::sleep(Duration::from_millis(TIMEOUT_MS + 200));
                let (b, eof) = read_available(&mut s, 300, 40);
                got.extend(b);
                closed |= eof;
            }
            seg => {
                if let Some(t) = answered_at.take() {
                    gap = gap.max(t.elapsed().as_millis());
                }
                if s.write_all(&unhex(seg)).is_err() {
                    closed = true;
                }
            }
        }
    }
    // give the server a moment, then see whether it has closed on its own
    let (b, eof) = read_available(&mut s, 120, 40);
    got.extend(b);
    closed |= eof;
    let closed_by_server = closed;
    if let Some(t) = answered_at.take() {
        gap = gap.max(t.elapsed().as_millis());
    }
    let _ = s.shutdown(Shutdown::Write);
    let (b, _) = read_available(&mut s, 1500, 60);
    got.extend(b);
    (got, closed_by_server, gap)
}

pub fn dispatch(name: &str, args: &[&str]) -> Option<String> {
    match name {
        "conn" => {
            let port = server();
            let (got, closed, gap) = play_gap(port, args[0]);
            Some(format!("out={} gap={} closed={}", hex(&got), gap, closed as u8))
        }
        // survive <k>: k connections are open and have been served once (keep-alive); a further connection makes a handler
        // panic; every one of the k connections must still be served afterwards ("a panicking handler costs only its own
        // connection")
        "survive" => {
            let port = server();
            let k: usize = args[0].parse().unwrap();
            let req = b"GET /fixed HTTP/1.1\r\nHost: x\r\nConnection: keep-alive\r\n\r\n";
            let mut others = Vec::new();
            for _ in 0..k {
                let mut s = TcpStream::connect(("127.0.0.1", port)).unwrap();
                s.set_nodelay(true).unwrap();
                s.write_all(req).unwrap();
                let (b, _) = read_available(&mut s, 1500, 40);
                if !b.starts_with(b"HTTP/1.1 200") {
                    return Some("setup-failed".into());
                }
                others.push(s);
            }
            let mut a = TcpStream::connect(("127.0.0.1", port)).unwrap();
            a.write_all(b"GET /panic HTTP/1.1\r\nHost: x\r\nConnection: keep-alive\r\n\r\n").unwrap();
            let (pb, pclosed) = read_available(&mut a, 1500, 40);
            let mut ok = 0;
            for s in others.iter_mut() {
                s.write_all(req).unwrap();
                let (b, _) = read_available(s, 1500, 40);
                if b.starts_with(b"HTTP/1.1 200") && b.ends_with(b"hello\r\n") || b.starts_with(b"HTTP/1.1 200") && b.ends_with(b"hello") {
                    ok += 1;
                }
            }
            // and the server still accepts new connections
            let mut n = TcpStream::connect(("127.0.0.1", port)).unwrap();
            n.write_all(req).unwrap();
            let (nb, _) = read_available(&mut n, 1500, 40);
            Some(format!("panicking={}:{} others={}/{} fresh={}", pb.len(), pclosed as u8, ok, k, nb.starts_with(b"HTTP/1.1 200") as u8))
        }
        _ => None,
    }
}
