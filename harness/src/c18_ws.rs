//! C18 (SHA-1 and Base64 parts): the crate-private humphrey-ws utilities through the cfg(humphrey_verif) hook module.
use crate::util::*;

pub fn dispatch(name: &str, args: &[&str]) -> Option<String> {
    match name {
        // sha1 h<message bytes> -> 40 hex digits
        "sha1" => {
            let m = unhex(args[0]);
            Some(hex(&humphrey_ws::verif::sha1(&m)))
        }
        // b64enc h<bytes> -> ok:<text>
        "b64enc" => {
            let b = unhex(args[0]);
            Some(format!("ok:{}", humphrey_ws::verif::base64_encode(&b)))
        }
        // b64dec h<UTF-8 bytes of the string> -> ok:h<bytes> | err   (a panic prints PANIC in main.rs)
        "b64dec" => {
            let s = unhex_str(args[0]);
            Some(match humphrey_ws::verif::base64_decode(&s) {
                Ok(v) => format!("ok:h{}", hex(&v)),
                Err(()) => "err".to_string(),
            })
        }
        _ => None,
    }
}
