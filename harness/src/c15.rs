//! C15 / C03(conf): humphrey_server::config::tree::parse_conf + Config::from_tree on a configuration text with real
//! include / blacklist files written under $HV_ROOT/work/c15/<pid>/ (the process chdir()s there, so relative paths in
//! `include` directives resolve as the parser expects).
//!
//! c15_load <filename> <main> [<path> <content>]*   -> canonical dump of the Config, or the error class (+ file, line)
//! c15_tree <filename> <main> [<path> <content>]*   -> canonical dump of the syntax tree, or the error
//! c15_safe <filename> <main> [<path> <content>]*   -> outcome class of parse_conf + from_tree and peak heap growth
//! <content> = h<hex> file bytes (may be invalid UTF-8), or `d` = a directory of that name.
use crate::util::*;
use humphrey_server::config::tree::{parse_conf, ConfigNode};
use humphrey_server::config::{BlacklistMode, Config, LoadBalancerMode, RouteConfig, RouteType};
use humphrey_server::logger::LogLevel;
use std::path::{Path, PathBuf};
use std::sync::OnceLock;

static ROOT: OnceLock<PathBuf> = OnceLock::new();

fn root() -> &'static PathBuf {
    ROOT.get_or_init(|| {
        let base = std::env::var("HV_ROOT").expect("HV_ROOT not set");
        let p = Path::new(&base).join("work").join("c15").join(std::process::id().to_string());
        let _ = std::fs::remove_dir_all(&p);
        std::fs::create_dir_all(&p).unwrap();
        // shared parent of the absolute include paths: created once, never removed (other runner processes use it)
        let _ = std::fs::create_dir_all(Path::new(&base).join("work").join("c15").join("abs"));
        std::env::set_current_dir(&p).unwrap();
        p
    })
}

/// Paths created for one case (removed afterwards, deepest first).
struct Files {
    made: Vec<(PathBuf, bool)>,
}

impl Files {
    fn create(args: &[&str]) -> Files {
        let r = root().clone();
        let mut made = Vec::new();
        let allowed_abs = Path::new(&std::env::var("HV_ROOT").unwrap()).join("work").join("c15");
        let mut i = 0;
        while i + 1 < args.len() {
            let name = String::from_utf8(unhex(args[i])).expect("harness: file name is not UTF-8");
            let p = if Path::new(&name).is_absolute() {
                PathBuf::from(&name)
            } else {
                r.join(&name)
            };
            // never write outside the work area
            let inside = p.starts_with(&allowed_abs)
                && !p.components().any(|c| matches!(c, std::path::Component::ParentDir));
            if inside && !name.is_empty() {
                if let Some(parent) = p.parent() {
                    let mut cur = parent.to_path_buf();
                    let mut missing = Vec::new();
                    while !cur.exists() {
                        missing.push(cur.clone());
                        if !cur.pop() {
                            break;
                        }
                    }
                    for m in missing.iter().rev() {
                        if std::fs::create_dir(m).is_ok() && *m != allowed_abs.join("abs") {
                            made.push((m.clone(), true));
                        }
                    }
                }
                if args[i + 1] == "d" {
                    if std::fs::create_dir(&p).is_ok() {
                        made.push((p, true));
                    }
                } else if std::fs::write(&p, unhex(args[i + 1])).is_ok() {
                    made.push((p, false));
                }
            }
            i += 2;
        }
        Files { made }
    }
}

impl Drop for Files {
    fn drop(&mut self) {
        for (p, is_dir) in self.made.iter().rev() {
            if *is_dir {
                let _ = std::fs::remove_dir(p);
            } else {
                let _ = std::fs::remove_file(p);
            }
        }
    }
}

fn hs(s: &str) -> String {
    format!("h{}", hex(s.as_bytes()))
}

fn hopt(s: &Option<String>) -> String {
    match s {
        Some(s) => hs(s),
        None => "none".into(),
    }
}

const SYNTAX: &[(&str, &str)] = &[
    ("Could not find `server` section", "noserver"),
    ("Syntax error", "syntax"),
    ("Could not parse value", "value"),
    ("Invalid include value, it takes a file path in quotation marks as its value", "incvalue"),
    ("Unexpected end of file, expected `}`", "eof"),
    ("Could not read included file", "incread"),
    ("Could not open included file", "incopen"),
    ("Internal parser error", "internal"),
    ("Unexpected content after the end of the `server` section", "trailing"),
    ("Unexpected `}`", "unmatched"),
];

fn syntax_err(e: &humphrey_server::config::error::ConfigError) -> String {
    let text = e.to_string();
    let rest = text.strip_prefix("Configuration error at ").unwrap_or(&text);
    let (head, class) = match rest.rfind(": ") {
        Some(_) => {
            let mut found = None;
            for (msg, cls) in SYNTAX {
                if let Some(h) = rest.strip_suffix(&format!(": {}", msg)) {
                    found = Some((h, cls.to_string()));
                    break;
                }
            }
            match found {
                Some(f) => f,
                None => {
                    // messages introduced by a repair (nesting limit) are recognised by keyword
                    let k = rest.rfind(": ").unwrap();
                    let msg = rest[k + 2..].to_ascii_lowercase();
                    let cls = if msg.contains("nest") || msg.contains("deep") || msg.contains("depth") {
                        "depth".to_string()
                    } else {
                        format!("other[{}]", hs(&msg))
                    };
                    (&rest[..k], cls)
                }
            }
        }
        None => (rest, "unparsed".to_string()),
    };
    match head.rsplit_once(" line ") {
        Some((file, line)) => format!("err:{}:{}:{}", class, line, hs(file)),
        None => format!("err:{}:?:{}", class, hs(head)),
    }
}

fn validation_err(msg: &str) -> String {
    let m = msg.to_ascii_lowercase();
    let cls = if m.contains("invalid port") {
        "port"
    } else if m.contains("invalid number of threads") {
        "threads"
    } else if m.contains("invalid connection timeout") {
        "timeout"
    } else if m.contains("less than 1 thread") {
        "nothreads"
    } else if m.contains("list file could not be opened") {
        "blopen"
    } else if m.contains("list file could not be read") {
        "blread"
    } else if m.contains("ip address in blacklist") {
        "blip"
    } else if m.contains("invalid blacklist mode") {
        "blmode"
    } else if m.contains("invalid log level") {
        "loglevel"
    } else if m.contains("server.log.console") {
        "logconsole"
    } else if m.contains("invalid cache size") {
        "cachesize"
    } else if m.contains("invalid cache time") {
        "cachetime"
    } else if m.contains("invalid load balancer mode") {
        "lbmode"
    } else if m.contains("invalid route configuration") {
        "route"
    } else {
        return format!("verr:other[{}]", hs(msg));
    };
    format!("verr:{}", cls)
}

fn show_route(r: &RouteConfig) -> String {
    let ty = match r.route_type {
        RouteType::File => "file",
        RouteType::Directory => "dir",
        RouteType::Proxy => "proxy",
        RouteType::Redirect => "redirect",
        RouteType::ExclusiveWebSocket => "ws",
    };
    let (targets, mode) = match &r.load_balancer {
        Some(lb) => {
            let g = lb.lock().unwrap();
            let t: Vec<String> = g.targets.iter().map(|s| hs(s)).collect();
            let m = match g.mode {
                LoadBalancerMode::RoundRobin => "rr",
                LoadBalancerMode::Random => "random",
            };
            (t.join(","), m.to_string())
        }
        None => ("none".to_string(), "none".to_string()),
    };
    format!(
        "{}:{}:{}:{}:{}:{}",
        ty,
        hs(&r.matches),
        hopt(&r.path),
        targets,
        mode,
        hopt(&r.websocket_proxy)
    )
}

fn show_routes(rs: &[RouteConfig]) -> String {
    let v: Vec<String> = rs.iter().map(show_route).collect();
    format!("[{}]", v.join(";"))
}

fn show_config(c: &Config) -> String {
    let timeout = match c.connection_timeout {
        Some(d) => d.as_secs().to_string(),
        None => "none".into(),
    };
    let blmode = match c.blacklist.mode {
        BlacklistMode::Block => "block",
        BlacklistMode::Forbidden => "forbidden",
    };
    let bl: Vec<String> = c.blacklist.list.iter().map(|ip| hs(&ip.to_string())).collect();
    let level = match c.logging.level {
        LogLevel::Error => "error",
        LogLevel::Warn => "warn",
        LogLevel::Info => "info",
        LogLevel::Debug => "debug",
    };
    let hosts: Vec<String> = c
        .hosts
        .iter()
        .map(|h| format!("{}{}", hs(&h.matches), show_routes(&h.routes)))
        .collect();
    format!(
        "ok addr={} port={} threads={} timeout={} ws={} bl={}:{} log={}:{}:{} cache={}:{} default={}{} hosts={}",
        hs(&c.address),
        c.port,
        c.threads,
        timeout,
        hopt(&c.default_websocket_proxy),
        blmode,
        bl.join(","),
        level,
        c.logging.console,
        hopt(&c.logging.file),
        c.cache.size_limit,
        c.cache.time_limit,
        hs(&c.default_host.matches),
        show_routes(&c.default_host.routes),
        hosts.join("|")
    )
}

fn show_node(n: &ConfigNode, out: &mut String) {
    let (tag, k, v, cs): (&str, &String, Option<&String>, Option<&Vec<ConfigNode>>) = match n {
        ConfigNode::Number(k, v) => ("N", k, Some(v), None),
        ConfigNode::Boolean(k, v) => ("B", k, Some(v), None),
        ConfigNode::String(k, v) => ("T", k, Some(v), None),
        ConfigNode::Section(k, cs) => ("S", k, None, Some(cs)),
        ConfigNode::Host(k, cs) => ("H", k, None, Some(cs)),
        ConfigNode::Route(k, cs) => ("R", k, None, Some(cs)),
    };
    out.push_str(tag);
    out.push('(');
    out.push_str(&hs(k));
    if let Some(v) = v {
        out.push('=');
        out.push_str(&hs(v));
    }
    if let Some(cs) = cs {
        for c in cs {
            out.push(',');
            show_node(c, out);
        }
    }
    out.push(')');
}

/// The server calls the parser on its main thread (8 MiB stack by default on Linux); the runner itself is started
/// with an unlimited stack, so the call is made on a thread with the realistic size. A stack overflow there kills the
/// process (reported as DIED by the driver).
const STACK: usize = 8 * 1024 * 1024;

pub fn dispatch(name: &str, args: &[&str]) -> Option<String> {
    match name {
        "c15_load" | "c15_tree" | "c15_safe" => {
            let name = name.to_string();
            let args: Vec<String> = args.iter().map(|s| s.to_string()).collect();
            let h = std::thread::Builder::new()
                .stack_size(STACK)
                .spawn(move || {
                    let a: Vec<&str> = args.iter().map(|s| s.as_str()).collect();
                    run(&name, &a)
                })
                .unwrap();
            match h.join() {
                Ok(r) => r,
                Err(_) => Some("PANIC".into()),
            }
        }
        _ => None,
    }
}

fn run(name: &str, args: &[&str]) -> Option<String> {
    match name {
        "c15_load" | "c15_tree" | "c15_safe" => {
            let filename = String::from_utf8(unhex(args[0])).expect("harness: filename is not UTF-8");
            let main = match String::from_utf8(unhex(args[1])) {
                Ok(s) => s,
                Err(_) => return Some("NOTUTF8".into()),
            };
            let _files = Files::create(&args[2..]);
            if name == "c15_safe" {
                let base = crate::meter::start();
                let r = parse_conf(&main, &filename);
                let cls = match r {
                    Err(_) => "err".to_string(),
                    Ok(tree) => match Config::from_tree(tree) {
                        Ok(_) => "ok".to_string(),
                        Err(_) => "verr".to_string(),
                    },
                };
                let peak = crate::meter::peak_since(base);
                return Some(format!("{} alloc={}", cls, peak));
            }
            let tree = match parse_conf(&main, &filename) {
                Ok(t) => t,
                Err(e) => return Some(syntax_err(&e)),
            };
            if name == "c15_tree" {
                let mut s = String::from("ok ");
                show_node(&tree, &mut s);
                return Some(s);
            }
            Some(match Config::from_tree(tree) {
                Ok(c) => show_config(&c),
                Err(m) => validation_err(m),
            })
        }
        _ => None,
    }
}
