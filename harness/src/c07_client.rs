//! C07 (client clause): the real `humphrey::Client` against scripted mock origin servers on loopback.
//! `Client::parse_url` always connects to port 80, so every mock origin listens on port 80 of its own loopback address
//! 127.A.B.(k+1), where A.B is chosen per runner process; URLs and Location values in a case name them as @H0@..@H5@.
use crate::util::*;
use humphrey::http::cookie::Cookie;
use humphrey::Client;
use std::io::{Read, Write};
use std::net::{Shutdown, TcpListener, TcpStream};
use std::sync::{Arc, Mutex, OnceLock};
use std::time::Duration;

const NHOSTS: usize = 6;
const MAX_EXCHANGES: usize = 40;

#[derive(Clone, Default)]
struct Entry {
    host: usize,
    target: Vec<u8>,
    code: u16,
    location: Option<Vec<u8>>,
    body: Vec<u8>,
    chunked: bool,
}

#[derive(Default)]
struct World {
    table: Vec<Entry>,
    log: Vec<String>,
}

struct Net {
    prefix: String, // "127.A.B."
    world: Arc<Mutex<World>>,
}

fn phrase(code: u16) -> &'static str {
    match code {
        200 => "OK",
        201 => "Created",
        204 => "No Content",
        301 => "Moved Permanently",
        302 => "Found",
        303 => "See Other",
        304 => "Not Modified",
        307 => "Temporary Redirect",
        308 => "Permanent Redirect",
        400 => "Bad Request",
        403 => "Forbidden",
        404 => "Not Found",
        500 => "Internal Server Error",
        _ => "X",
    }
}

fn find(h: &[u8], n: &[u8]) -> Option<usize> {
    h.windows(n.len()).position(|w| w == n)
}

fn serve_one(mut s: TcpStream, host: usize, prefix: &str, world: &Arc<Mutex<World>>) {
    let _ = s.set_read_timeout(Some(Duration::from_millis(2000)));
    let mut buf = Vec::new();
    let mut tmp = [0u8; 4096];
    let head_end = loop {
        if let Some(p) = find(&buf, b"\r\n\r\n") {
            break p;
        }
        match s.read(&mut tmp) {
            Ok(0) | Err(_) => return,
            Ok(n) => buf.extend_from_slice(&tmp[..n]),
        }
    };
    let head = String::from_utf8_lossy(&buf[..head_end]).to_string();
    let mut lines = head.split("\r\n");
    let start = lines.next().unwrap_or("").to_string();
    let mut host_hdr = String::new();
    let mut cookies: Vec<String> = Vec::new();
    let mut cl: Option<usize> = None;
    let mut nheaders = 0;
    for l in lines {
        nheaders += 1;
        if let Some((n, v)) = l.split_once(':') {
            let v = v.trim();
            match n.to_ascii_lowercase().as_str() {
                "host" => host_hdr = v.to_string(),
                "cookie" => cookies.push(v.to_string()),
                "content-length" => cl = v.parse().ok(),
                _ => {}
            }
        }
    }
    let mut body = buf[head_end + 4..].to_vec();
    match cl {
        Some(n) => {
            while body.len() < n {
                match s.read(&mut tmp) {
                    Ok(0) | Err(_) => break,
                    Ok(k) => body.extend_from_slice(&tmp[..k]),
                }
            }
        }
        None => {
            // a body sent without Content-Length: take what arrives shortly (the client writes the request in one call)
            let _ = s.set_read_timeout(Some(Duration::from_millis(30)));
            while let Ok(k) = s.read(&mut tmp) {
                if k == 0 {
                    break;
                }
                body.extend_from_slice(&tmp[..k]);
            }
        }
    }
    let mut parts = start.split(' ');
    let method = parts.next().unwrap_or("").to_string();
    let target = parts.next().unwrap_or("").to_string();
    let version = parts.next().unwrap_or("").to_string();
    let entry = {
        let mut w = world.lock().unwrap();
        let host_sym = String::from_utf8_lossy(&symb(host_hdr.as_bytes(), prefix)).to_string();
        w.log.push(format!(
            "{}|{}|{}|{}|{}|{}|cl={}|n={}|{}",
            host,
            method,
            hex(&symb(target.as_bytes(), prefix)),
            hex(version.as_bytes()),
            hex(host_sym.as_bytes()),
            cookies.iter().map(|c| hex(c.as_bytes())).collect::<Vec<_>>().join("+"),
            cl.map(|n| n.to_string()).unwrap_or_else(|| "-".into()),
            nheaders,
            hex(&body)
        ));
        if w.log.len() > MAX_EXCHANGES {
            // a client that keeps being redirected (a cycle no generated world contains) is cut off here, so that a broken
            // resolution shows up as a wrong answer instead of a hang
            Some(Entry { host, target: Vec::new(), code: 500, location: None, body: b"cut: too many exchanges".to_vec(), chunked: false })
        } else {
            w.table.iter().find(|e| e.host == host && e.target == target.as_bytes()).cloned()
        }
    };
    let e = entry.unwrap_or(Entry { host, target: Vec::new(), code: 404, location: None, body: b"nf".to_vec(), chunked: false });
    let mut out = if e.chunked {
        format!("HTTP/1.1 {} {}\r\nTransfer-Encoding: chunked\r\n", e.code, phrase(e.code)).into_bytes()
    } else {
        format!("HTTP/1.1 {} {}\r\nContent-Length: {}\r\n", e.code, phrase(e.code), e.body.len()).into_bytes()
    };
    if let Some(l) = &e.location {
        out.extend_from_slice(b"Location: ");
        out.extend_from_slice(l);
        out.extend_from_slice(b"\r\n");
    }
    out.extend_from_slice(b"\r\n");
    if e.chunked {
        // two chunks (first half, second half), then the last-chunk
        let cut = e.body.len() / 2;
        for part in [&e.body[..cut], &e.body[cut..]] {
            if !part.is_empty() {
                out.extend_from_slice(format!("{:x}\r\n", part.len()).as_bytes());
                out.extend_from_slice(part);
                out.extend_from_slice(b"\r\n");
            }
        }
        out.extend_from_slice(b"0\r\n\r\n");
    } else {
        out.extend_from_slice(&e.body);
    }
    let _ = s.write_all(&out);
    let _ = s.shutdown(Shutdown::Write);
    let _ = s.set_read_timeout(Some(Duration::from_millis(500)));
    while let Ok(k) = s.read(&mut tmp) {
        if k == 0 {
            break;
        }
    }
}

fn net() -> Option<&'static Net> {
    static NET: OnceLock<Option<Net>> = OnceLock::new();
    NET.get_or_init(|| {
        let pid = std::process::id();
        let world = Arc::new(Mutex::new(World::default()));
        for attempt in 0..200u32 {
            let x = pid.wrapping_add(attempt.wrapping_mul(7919)) % 64516;
            let prefix = format!("127.{}.{}.", 1 + x / 254, 1 + x % 254);
            let mut ls = Vec::new();
            for k in 0..NHOSTS {
                match TcpListener::bind(format!("{}{}:80", prefix, k + 1)) {
                    Ok(l) => ls.push(l),
                    Err(_) => break,
                }
            }
            if ls.len() < NHOSTS {
                continue;
            }
            for (k, l) in ls.into_iter().enumerate() {
                let w = world.clone();
                let p = prefix.clone();
                std::thread::spawn(move || {
                    for s in l.incoming().flatten() {
                        let w = w.clone();
                        let p = p.clone();
                        std::thread::spawn(move || serve_one(s, k, &p, &w));
                    }
                });
            }
            return Some(Net { prefix, world });
        }
        // no right to bind port 80 here: the client cannot be exercised at all (Client::parse_url reaches no other port)
        None
    })
    .as_ref()
}

fn expand(s: &[u8], prefix: &str) -> Vec<u8> {
    let mut t = String::from_utf8_lossy(s).to_string();
    for k in 0..NHOSTS {
        t = t.replace(&format!("@H{}@", k), &format!("{}{}", prefix, k + 1));
    }
    t.into_bytes()
}

fn symb(s: &[u8], prefix: &str) -> Vec<u8> {
    let mut t = String::from_utf8_lossy(s).to_string();
    for k in (0..NHOSTS).rev() {
        t = t.replace(&format!("{}{}", prefix, k + 1), &format!("@H{}@", k));
    }
    t.into_bytes()
}

pub fn dispatch(name: &str, args: &[&str]) -> Option<String> {
    match name {
        // redirect <GET|POST|PUT|DELETE> <url hex> <body hex|-> <follow 0|1> <cookies n=v+n=v hex|-> <table>
        //   table: host:targethex:code:lochex|-:bodyhex , ...   (or -)
        // -> res=<code>:<version hex>:<body hex>:<location hex|->  | err=<hex>   then  log=<entry;entry...>
        "redirect" => {
            let net = match net() {
                Some(n) => n,
                None => return Some("SKIP:cannot-bind-port-80".into()),
            };
            let mut table = Vec::new();
            if args[5] != "-" {
                for e in args[5].split(',') {
                    let f: Vec<&str> = e.split(':').collect();
                    table.push(Entry {
                        host: f[0].parse().unwrap(),
                        target: expand(&unhex(f[1]), &net.prefix),
                        code: f[2].parse().unwrap(),
                        location: if f[3] == "-" { None } else { Some(expand(&unhex(f[3]), &net.prefix)) },
                        body: unhex(f[4]),
                        chunked: f.get(5).map(|x| *x == "c").unwrap_or(false),
                    });
                }
            }
            {
                let mut w = net.world.lock().unwrap();
                w.table = table;
                w.log.clear();
            }
            let url = String::from_utf8(expand(&unhex(args[1]), &net.prefix)).unwrap();
            let body = if args[2] == "-" { Vec::new() } else { unhex(args[2]) };
            let mut client = Client::new();
            let req = match args[0] {
                "GET" => client.get(&url),
                "POST" => client.post(&url, body),
                "PUT" => client.put(&url, body),
                "DELETE" => client.delete(&url),
                _ => return Some("BADARGS".into()),
            };
            let res = match req {
                Err(e) => format!("err={}", hex(e.to_string().as_bytes())),
                Ok(mut r) => {
                    if args[4] != "-" {
                        for c in args[4].split('+') {
                            let (n, v) = c.split_once('=').unwrap();
                            r = r.with_cookie(Cookie::new(unhex_str(n), unhex_str(v)));
                        }
                    }
                    // "d": the builder's default (with_redirects never called)
                    if args[3] != "d" {
                        r = r.with_redirects(args[3] == "1");
                    }
                    match r.send() {
                        Ok(resp) => {
                            let code: u16 = resp.status_code.into();
                            format!(
                                "res={}:{}:{}:{}",
                                code,
                                hex(resp.version.as_bytes()),
                                hex(&resp.body),
                                resp.headers.get("Location").map(|l| hex(&symb(l.as_bytes(), &net.prefix))).unwrap_or_else(|| "-".into())
                            )
                        }
                        Err(e) => format!("err={}", hex(e.to_string().as_bytes())),
                    }
                }
            };
            // the mock origins log before they answer, so every request the client made is in the log by now
            let log = net.world.lock().unwrap().log.join(";");
            Some(format!("{} log={}", res, log))
        }
        _ => None,
    }
}
