//! C04 (config-driven server): the real humphrey_server::server::main started from a configuration text; requests go
//! over loopback. Ties the wiring between the loaded configuration and the App (init_app_routes, host/route indices,
//! route type -> handler) to the routing model.
use crate::util::*;
use humphrey_server::config::tree::parse_conf;
use humphrey_server::config::Config;
use std::io::{Read, Write};
use std::net::TcpStream;
use std::time::Duration;

fn exchange(port: u16, host: Option<&str>, target: &str, src: Option<&str>, xff: Option<&str>, with_ct: bool, ws: bool) -> String {
    // a connection that yields nothing is tried again twice (a server that drops the client deliberately does so every
    // time and at once; on a loaded machine a single attempt can also run into the 3 s read timeout)
    let mut empties = 0;
    for _ in 0..50 {
        let conn = match src {
            // from a chosen loopback source address (blacklist cases)
            Some(ip) => Ok(crate::c19::socket_from(ip.parse().unwrap(), format!("127.0.0.1:{}", port).parse().unwrap())),
            None => TcpStream::connect(("127.0.0.1", port)),
        };
        if let Ok(mut s) = conn {
            let _ = s.set_read_timeout(Some(Duration::from_millis(3000)));
            let mut req = format!("GET {} HTTP/1.1\r\n", target);
            if let Some(h) = host {
                req.push_str(&format!("Host: {}\r\n", h));
            }
            if let Some(x) = xff {
                // header names are case-insensitive: the spelling varies with the value (proxies send any of these)
                let spell = ["X-Forwarded-For", "x-forwarded-for", "X-FORWARDED-FOR", "X-forwarded-for"];
                req.push_str(&format!("{}: {}\r\n", spell[x.bytes().map(|b| b as usize).sum::<usize>() % 4], x));
            }
            if ws {
                // a WebSocket upgrade request (what a route's `websocket` pass-through reacts to)
                req.push_str("Upgrade: websocket\r\nConnection: Upgrade\r\nSec-WebSocket-Key: dGhlIHNhbXBsZSBub25jZQ==\r\nSec-WebSocket-Version: 13\r\n\r\n");
            } else {
                req.push_str("Connection: close\r\n\r\n");
            }
            if s.write_all(req.as_bytes()).is_err() {
                continue;
            }
            let mut buf = Vec::new();
            let mut tmp = [0u8; 4096];
            loop {
                match s.read(&mut tmp) {
                    Ok(0) | Err(_) => break,
                    Ok(n) => buf.extend_from_slice(&tmp[..n]),
                }
                // a complete head with its Content-Length body is enough (the server may keep the socket open)
                if let Some(p) = buf.windows(4).position(|w| w == b"\r\n\r\n") {
                    let head = String::from_utf8_lossy(&buf[..p]).to_ascii_lowercase();
                    let cl = head
                        .split("\r\n")
                        .find_map(|l| l.strip_prefix("content-length:").map(|v| v.trim().parse::<usize>().unwrap_or(0)))
                        .unwrap_or(0);
                    if buf.len() >= p + 4 + cl {
                        break;
                    }
                }
            }
            if buf.is_empty() {
                empties += 1;
                if empties < 3 {
                    continue;
                }
                return "noresp".to_string();
            }
            let text = String::from_utf8_lossy(&buf).to_string();
            let (head, body) = text.split_once("\r\n\r\n").unwrap_or((&text, ""));
            let mut lines = head.split("\r\n");
            let status = lines.next().unwrap_or("").split(' ').nth(1).unwrap_or("?").to_string();
            let mut loc = None;
            let mut ct = None;
            let mut cl = 0usize;
            for l in lines {
                if let Some((n, v)) = l.split_once(':') {
                    match n.to_ascii_lowercase().as_str() {
                        "location" => loc = Some(v.trim().to_string()),
                        "content-type" => ct = Some(v.trim().to_string()),
                        "content-length" => cl = v.trim().parse().unwrap_or(0),
                        _ => {}
                    }
                }
            }
            let body = &body.as_bytes()[..cl.min(body.len())];
            return match loc {
                Some(l) => format!("{}:loc:{}", status, hex(l.as_bytes())),
                None if with_ct => format!("{}:body:{}:ct:{}", status, hex(body), ct.map(|c| hex(c.as_bytes())).unwrap_or_else(|| "none".into())),
                None => format!("{}:body:{}", status, hex(body)),
            };
        }
        std::thread::sleep(Duration::from_millis(20));
    }
    "noconnect".to_string()
}

pub fn dispatch(name: &str, args: &[&str]) -> Option<String> {
    match name {
        // srv <conf text hex, @FIX@ = fixture directory> <fixtures name:contenthex,...|-> <requests host|-:target,...>
        "srv" => {
            let root = std::env::var("HV_ROOT").unwrap_or_else(|_| "/verif".to_string());
            static CASE: std::sync::atomic::AtomicUsize = std::sync::atomic::AtomicUsize::new(0);
            let fix = format!("{}/work/c04srv/p{}_{}", root, std::process::id(), CASE.fetch_add(1, std::sync::atomic::Ordering::Relaxed));
            std::fs::create_dir_all(&fix).unwrap();
            if args[1] != "-" {
                for f in args[1].split(',') {
                    let (n, c) = f.split_once(':').unwrap();
                    let path = format!("{}/{}", fix, unhex_str(n));
                    if c == "d" {
                        std::fs::create_dir_all(&path).unwrap();
                        continue;
                    }
                    if let Some(p) = std::path::Path::new(&path).parent() {
                        std::fs::create_dir_all(p).unwrap();
                    }
                    std::fs::write(path, unhex(c)).unwrap();
                }
            }
            let mut text = unhex_str(args[0]).replace("@FIX@", &fix);
            // minimal origins for proxy routes and WebSocket targets: @UP@ answers every request with 200 "UPSTREAM", @UPk@
            // (k = 0..15) with 200 "UPk", and closes
            // @UPE@ answers with the very bytes of the request head it received (what the proxy forwarded)
            let mut tokens: Vec<(String, String)> = vec![("@UP@".to_string(), "UPSTREAM".to_string()), ("@UPE@".to_string(), "\u{0}ECHO".to_string())];
            for k in 0..16 {
                tokens.push((format!("@UP{}@", k), format!("UP{}", k)));
            }
            for (tok, ident) in tokens {
                if !text.contains(&tok) {
                    continue;
                }
                let l = std::net::TcpListener::bind("127.0.0.1:0").unwrap();
                text = text.replace(&tok, &l.local_addr().unwrap().to_string());
                std::thread::spawn(move || {
                    for s in l.incoming().flatten() {
                        let ident = ident.clone();
                        std::thread::spawn(move || {
                            let mut s = s;
                            let _ = s.set_read_timeout(Some(Duration::from_millis(2000)));
                            let mut buf = Vec::new();
                            let mut tmp = [0u8; 2048];
                            while !buf.windows(4).any(|w| w == b"\r\n\r\n") {
                                match s.read(&mut tmp) {
                                    Ok(0) | Err(_) => break,
                                    Ok(n) => buf.extend_from_slice(&tmp[..n]),
                                }
                            }
                            if ident == "\u{0}ECHO" {
                                let mut out = format!("HTTP/1.1 200 OK\r\nContent-Length: {}\r\n\r\n", buf.len()).into_bytes();
                                out.extend_from_slice(&buf);
                                let _ = s.write_all(&out);
                            } else {
                                let _ = s.write_all(format!("HTTP/1.1 200 OK\r\nContent-Length: {}\r\n\r\n{}", ident.len(), ident).as_bytes());
                            }
                        });
                    }
                });
            }
            let tree = match parse_conf(&text, "e2e.conf") {
                Ok(t) => t,
                Err(_) => return Some("conf-syntax-error".into()),
            };
            let mut config = match Config::from_tree(tree) {
                Ok(c) => c,
                Err(e) => return Some(format!("conf-error:{}", e)),
            };
            let mut port = 0;
            let mut started = false;
            for _ in 0..10 {
                port = crate::c01::free_port();
                config.address = "127.0.0.1".into();
                config.port = port;
                // main() consumes the configuration and never returns: one server per case, left running until the runner exits
                let text2 = text.clone();
                let p = port;
                std::thread::spawn(move || {
                    let mut c = Config::from_tree(parse_conf(&text2, "e2e.conf").unwrap()).unwrap();
                    c.address = "127.0.0.1".into();
                    c.port = p;
                    humphrey_server::server::main(c);
                });
                for _ in 0..100 {
                    if TcpStream::connect(("127.0.0.1", port)).is_ok() {
                        started = true;
                        break;
                    }
                    std::thread::sleep(Duration::from_millis(10));
                }
                if started {
                    break;
                }
            }
            if !started {
                return Some("server-did-not-start".into());
            }
            let mut out = Vec::new();
            for r in args[2].split(',') {
                // host|-:target[:source ip|-[:X-Forwarded-For|-[:ct|-[:ws]]]]
                let f: Vec<&str> = r.split(':').collect();
                let host = if f[0] == "-" { None } else { Some(unhex_str(f[0])) };
                let src = f.get(2).filter(|x| **x != "-").map(|x| unhex_str(x));
                let xff = f.get(3).filter(|x| **x != "-").map(|x| unhex_str(x));
                let with_ct = f.get(4).map(|x| *x == "ct").unwrap_or(false);
                let ws = f.get(5).map(|x| *x == "ws").unwrap_or(false);
                out.push(exchange(port, host.as_deref(), &unhex_str(f[1]), src.as_deref(), xff.as_deref(), with_ct, ws));
            }
            Some(out.join(","))
        }
        _ => None,
    }
}
