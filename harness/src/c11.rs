//! C11: the WebSocket endpoint over real loopback sockets — `WebsocketStream::{new, recv, recv_nonblocking, send}` and its
//! `Drop`, plus the opening handshake through `websocket_handler` mounted on a real `humphrey::App` (also the message
//! decoder part of C03: arbitrary bytes are fed through the same socket pair).
//!
//! c11_run <echo 0|1> <limit n|-> <end fin|wait|rst> <plan>
//!     in-process socket pair; the server side loops `recv()` until it returns an error or `limit` messages were
//!     delivered (then the stream is dropped = "server drop"); with echo every message is sent back with `send`.
//!     plan (client writes): comma-separated `h<hex>` = one write, `p<ms>` = pause.  end: fin = client half-closes after
//!     the plan and keeps reading; wait = client only reads until the server closes; rst = client shuts the socket down
//!     in both directions (abrupt disconnect; what the server wrote cannot be observed reliably).
//!     -> res=<r;r;..> out=<hex of every byte the server wrote> eof=<0|1> peak=<largest heap growth during one recv() call>
//!        r = T:<digest> text message, valid UTF-8 (`text()` is Some) | t:<digest> text flag, `text()` is None
//!          | B:<digest> binary | E:closed | E:read | E:opcode | E:write | E:handshake | E:send
//! c11_nb <steps>
//!     choreographed non-blocking receive: `w<hex>` client write, `s<ms>` sleep, `f` client half-close,
//!     `q<k>` = wait until k bytes are readable on the server side (no timing assumption about loopback delivery), then
//!     start one `recv_nonblocking()` call on the server thread (`p` = the same without waiting); `j` = wait for the
//!     result of the call in flight.  A call that blocks inside a frame stays in flight while the following `w` steps
//!     feed it.  After an error result no more polls.
//!     -> polls=<r;r;..> (N = nothing yet) out=<hex> eof=..
//! c11_nbfree <poll sleep ms> <plan>
//!     free-running: the server polls `recv_nonblocking` in a loop (sleeping after every `nothing yet`) while the client
//!     plays the plan and then half-closes; polling stops at the first error, or at a `nothing yet` seen 60 ms after
//!     the client finished.  -> res=<r;..> (without the N results) nones=<count> out=<hex> eof=..
//! c11_hs h<raw HTTP request> h<bytes to send after a 101>
//!     real App (one per runner process) with `websocket_handler(echo)` on "/ws*".
//!     -> resp=<hex of the response head + anything before the frames> frames=<hex of what followed> eof=<0|1>
use crate::c01::free_port;
use crate::c10::digest;
use crate::util::*;
use humphrey::http::{Request, Response, StatusCode};
use humphrey::stream::Stream;
use humphrey::App;
use humphrey_ws::error::WebsocketError;
use humphrey_ws::message::Message;
use humphrey_ws::restion::Restion;
use humphrey_ws::stream::WebsocketStream;
use humphrey_ws::websocket_handler;
use std::io::{Read, Write};
use std::net::{Shutdown, TcpListener, TcpStream};
use std::sync::atomic::{AtomicBool, Ordering};
use std::sync::mpsc::{channel, RecvTimeoutError};
use std::sync::{Arc, OnceLock};
use std::time::{Duration, Instant};

const SETTLE_MS: u64 = 5; // after the client's half-close in the choreographed mode
const HARD_MS: u64 = 10_000; // nothing in a case takes longer unless something hangs

/// connected loopback pair: (server side, client side)
fn pair() -> (TcpStream, TcpStream) {
    for _ in 0..100 {
        let port = free_port();
        let l = match TcpListener::bind(("127.0.0.1", port)) {
            Ok(l) => l,
            Err(_) => continue,
        };
        let acc = std::thread::spawn(move || {
            // accept until the peer is the one we are about to create (nobody else should connect, but be sure)
            let mut got = Vec::new();
            for _ in 0..4 {
                if let Ok((s, a)) = l.accept() {
                    got.push((s, a));
                    break;
                }
            }
            got
        });
        let c = TcpStream::connect(("127.0.0.1", port));
        let got = acc.join().unwrap();
        if let (Ok(c), Some((s, a))) = (c, got.into_iter().next()) {
            if c.local_addr().map(|x| x == a).unwrap_or(false) {
                c.set_nodelay(true).unwrap();
                s.set_nodelay(true).unwrap();
                return (s, c);
            }
        }
    }
    panic!("harness: no loopback pair");
}

fn show_msg(m: &Message) -> String {
    let kind = if m.is_text() {
        if m.text().is_some() {
            'T'
        } else {
            't'
        }
    } else {
        'B'
    };
    format!("{}:{}", kind, digest(m.bytes()))
}

fn show_err(e: &WebsocketError) -> String {
    match e {
        WebsocketError::ReadError => "E:read",
        WebsocketError::WriteError => "E:write",
        WebsocketError::HandshakeError => "E:handshake",
        WebsocketError::InvalidOpcode => "E:opcode",
        WebsocketError::ConnectionClosed => "E:closed",
    }
    .to_string()
}

/// reads the client side until EOF (or the hard limit); returns (bytes, eof seen)
fn reader(mut c: TcpStream) -> std::thread::JoinHandle<(Vec<u8>, bool)> {
    // buffers are allocated here, before the server side starts metering its heap growth
    let mut out: Vec<u8> = Vec::with_capacity(65536);
    let mut buf = vec![0u8; 65536];
    std::thread::spawn(move || {
        let t0 = Instant::now();
        c.set_read_timeout(Some(Duration::from_millis(200))).unwrap();
        loop {
            match c.read(&mut buf) {
                Ok(0) => return (out, true),
                Ok(n) => out.extend_from_slice(&buf[..n]),
                Err(ref e) if e.kind() == std::io::ErrorKind::WouldBlock || e.kind() == std::io::ErrorKind::TimedOut => {
                    if t0.elapsed() > Duration::from_millis(HARD_MS + 4000) {
                        return (out, false);
                    }
                }
                Err(_) => return (out, true),
            }
        }
    })
}

/// after the WebsocketStream is gone: finish the server side politely so that the client can read everything up to EOF
fn finish_server_side(keep: TcpStream) {
    let _ = keep.shutdown(Shutdown::Write);
    let mut keep = keep;
    let _ = keep.set_nonblocking(false);
    let _ = keep.set_read_timeout(Some(Duration::from_millis(100)));
    let t0 = Instant::now();
    let mut buf = vec![0u8; 65536];
    while t0.elapsed() < Duration::from_millis(HARD_MS) {
        match keep.read(&mut buf) {
            Ok(0) => break,
            Ok(_) => {}
            Err(ref e) if e.kind() == std::io::ErrorKind::WouldBlock || e.kind() == std::io::ErrorKind::TimedOut => {}
            Err(_) => break,
        }
    }
}

enum Item {
    Write(Vec<u8>),
    Pause(u64),
    Fin,
    Poll(usize),
    Join,
}

fn parse_items(plan: &str) -> Vec<Item> {
    let mut out = Vec::new();
    for it in plan.split(',') {
        if it.is_empty() || it == "-" {
            continue;
        }
        match it.as_bytes()[0] {
            b'h' | b'w' => out.push(Item::Write(unhex(&it[1..]))),
            b'p' if it.len() == 1 => out.push(Item::Poll(0)),
            b'q' => out.push(Item::Poll(it[1..].parse().unwrap())),
            b'j' => out.push(Item::Join),
            b'p' | b's' => out.push(Item::Pause(it[1..].parse().unwrap())),
            b'f' => out.push(Item::Fin),
            _ => panic!("harness: bad plan item"),
        }
    }
    out
}

fn run_blocking(echo: bool, limit: Option<usize>, end: &str, plan: &str) -> String {
    run_blocking_mode(echo, limit, end, plan, false)
}

/// `io` = the handler uses the std::io::Read / Write adapters of WebsocketStream instead of recv / send
fn run_blocking_mode(echo: bool, limit: Option<usize>, end: &str, plan: &str, io: bool) -> String {
    let items = parse_items(plan);
    let (srv, cli) = pair();
    let keep = srv.try_clone().unwrap(); // keeps the socket open after the WebsocketStream has been dropped
    let unblock = srv.try_clone().unwrap();
    let (tx, rx) = channel::<(Vec<String>, usize)>();
    let rd = reader(cli.try_clone().unwrap());
    let server = std::thread::spawn(move || {
        let mut ws = WebsocketStream::new(Stream::Tcp(srv));
        let mut log: Vec<String> = Vec::new();
        let mut delivered = 0usize;
        let mut peak = 0usize; // largest heap growth during a single recv() call
        loop {
            if let Some(n) = limit {
                if delivered >= n {
                    break;
                }
            }
            if io {
                use std::io::{Read, Write};
                let mut buf = vec![0u8; 1 << 20];
                match Read::read(&mut ws, &mut buf) {
                    Ok(n) => {
                        delivered += 1;
                        log.push(format!("R:{}", digest(&buf[..n])));
                        if echo && Write::write_all(&mut ws, &buf[..n]).is_err() {
                            log.push("E:send".to_string());
                            break;
                        }
                    }
                    Err(_) => {
                        log.push("E:io".to_string());
                        break;
                    }
                }
                continue;
            }
            let base = crate::meter::start();
            let r = ws.recv();
            peak = peak.max(crate::meter::peak_since(base));
            match r {
                Ok(m) => {
                    delivered += 1;
                    log.push(show_msg(&m));
                    if echo && ws.send(m).is_err() {
                        log.push("E:send".to_string());
                        break;
                    }
                }
                Err(e) => {
                    log.push(show_err(&e));
                    break;
                }
            }
        }
        drop(ws); // Drop writes the Close frame unless the closing handshake has been done
        let _ = tx.send((log, peak));
        finish_server_side(keep);
    });
    let mut cli = cli;
    for it in &items {
        match it {
            Item::Write(b) => {
                if cli.write_all(b).is_err() {
                    break;
                }
            }
            Item::Pause(ms) => std::thread::sleep(Duration::from_millis(*ms)),
            _ => {}
        }
    }
    match end {
        "fin" => {
            let _ = cli.shutdown(Shutdown::Write);
        }
        "rst" => {
            let _ = cli.shutdown(Shutdown::Both);
        }
        _ => {}
    }
    let (res, peak) = match rx.recv_timeout(Duration::from_millis(HARD_MS)) {
        Ok((log, peak)) => (log.join(";"), peak),
        Err(RecvTimeoutError::Timeout) => {
            let _ = unblock.shutdown(Shutdown::Both);
            ("HANG".to_string(), 0)
        }
        Err(RecvTimeoutError::Disconnected) => ("PANIC".to_string(), 0),
    };
    let (out, eof) = rd.join().unwrap_or((Vec::new(), false));
    drop(cli);
    let _ = server.join();
    format!("res={} out={} eof={} peak={}", res, hex(&out), eof as u8, peak)
}

fn show_restion(r: &Restion<Message, WebsocketError>) -> String {
    match r {
        Restion::Ok(m) => show_msg(m),
        Restion::Err(e) => show_err(e),
        Restion::None => "N".to_string(),
    }
}

fn run_nb(steps: &str) -> String {
    let items = parse_items(steps);
    let (srv, cli) = pair();
    let keep = srv.try_clone().unwrap();
    let unblock = srv.try_clone().unwrap();
    let (ctx, crx) = channel::<bool>(); // true = poll, false = quit
    let (rtx, rrx) = channel::<Option<String>>(); // None = "poll starts now", Some(result)
    let server = std::thread::spawn(move || {
        let mut ws = WebsocketStream::new(Stream::Tcp(srv));
        while let Ok(true) = crx.recv() {
            let _ = rtx.send(None);
            let r = ws.recv_nonblocking();
            let _ = rtx.send(Some(show_restion(&r)));
        }
        drop(ws);
        finish_server_side(keep);
    });
    let rd = reader(cli.try_clone().unwrap());
    let mut cli = cli;
    let mut polls: Vec<String> = Vec::new();
    let mut peekbuf = vec![0u8; 4096];
    let mut pending = false;
    let mut dead = false;
    let mut hang = false;
    // waits for the result of the poll in flight
    let mut join = |polls: &mut Vec<String>, ms: u64| -> Option<bool> {
        match rrx.recv_timeout(Duration::from_millis(ms)) {
            Ok(Some(r)) => {
                let is_err = r.starts_with("E:");
                polls.push(r);
                Some(is_err)
            }
            Ok(None) => Some(false), // not used: acks are consumed where the poll is started
            Err(RecvTimeoutError::Timeout) => None,
            Err(RecvTimeoutError::Disconnected) => {
                polls.push("PANIC".to_string());
                Some(true)
            }
        }
    };
    for it in &items {
        match it {
            Item::Write(b) => {
                let _ = cli.write_all(b);
            }
            Item::Pause(ms) => std::thread::sleep(Duration::from_millis(*ms)),
            Item::Fin => {
                let _ = cli.shutdown(Shutdown::Write);
                std::thread::sleep(Duration::from_millis(SETTLE_MS));
            }
            Item::Join => {
                if pending {
                    match join(&mut polls, HARD_MS) {
                        Some(e) => {
                            pending = false;
                            dead |= e;
                        }
                        None => {
                            hang = true;
                            break;
                        }
                    }
                }
            }
            Item::Poll(k) => {
                if pending {
                    match join(&mut polls, HARD_MS) {
                        Some(e) => {
                            pending = false;
                            dead |= e;
                        }
                        None => {
                            hang = true;
                            break;
                        }
                    }
                }
                if dead {
                    continue;
                }
                // no call is in flight: the shared file status flags can be toggled for a non-blocking peek
                if *k > 0 {
                    let want = (*k).min(peekbuf.len());
                    let t0 = Instant::now();
                    let _ = unblock.set_nonblocking(true);
                    while t0.elapsed() < Duration::from_millis(3000) {
                        match unblock.peek(&mut peekbuf) {
                            Ok(n) if n >= want => break,
                            _ => std::thread::sleep(Duration::from_micros(300)),
                        }
                    }
                    let _ = unblock.set_nonblocking(false);
                }
                if ctx.send(true).is_err() {
                    polls.push("PANIC".to_string());
                    dead = true;
                    continue;
                }
                // the "starts now" mark
                match rrx.recv_timeout(Duration::from_millis(HARD_MS)) {
                    Ok(None) => {
                        pending = true;
                        // let the call reach its non-blocking read before the client goes on writing
                        std::thread::sleep(Duration::from_millis(2));
                    }
                    _ => {
                        polls.push("PANIC".to_string());
                        dead = true;
                    }
                }
            }
        }
    }
    if pending && !hang {
        if join(&mut polls, HARD_MS).is_none() {
            hang = true;
        }
    }
    if hang {
        // diagnostics: how many bytes are waiting unread on the server side
        let mut pk = vec![0u8; 1 << 20];
        let _ = unblock.set_nonblocking(true);
        let waiting = match unblock.peek(&mut pk) {
            Ok(n) => n as i64,
            Err(_) => -1,
        };
        let _ = unblock.set_nonblocking(false);
        polls.push(format!("HANG(unread={})", waiting));
        let _ = unblock.shutdown(Shutdown::Both);
    }
    let _ = ctx.send(false);
    let (out, eof) = rd.join().unwrap_or((Vec::new(), false));
    drop(cli);
    let _ = server.join();
    format!("polls={} out={} eof={}", polls.join(";"), hex(&out), eof as u8)
}

fn run_nbfree(sleep_ms: u64, plan: &str) -> String {
    let items = parse_items(plan);
    let (srv, cli) = pair();
    let keep = srv.try_clone().unwrap();
    let unblock = srv.try_clone().unwrap();
    let done = Arc::new(AtomicBool::new(false));
    let done2 = done.clone();
    let (tx, rx) = channel::<(Vec<String>, usize)>();
    let server = std::thread::spawn(move || {
        let mut ws = WebsocketStream::new(Stream::Tcp(srv));
        let mut log = Vec::new();
        let mut nones = 0usize;
        loop {
            let was_done = done2.load(Ordering::SeqCst);
            match ws.recv_nonblocking() {
                Restion::Ok(m) => log.push(show_msg(&m)),
                Restion::Err(e) => {
                    log.push(show_err(&e));
                    break;
                }
                Restion::None => {
                    nones += 1;
                    if was_done {
                        break;
                    }
                    std::thread::sleep(Duration::from_millis(sleep_ms));
                }
            }
        }
        drop(ws);
        let _ = tx.send((log, nones));
        finish_server_side(keep);
    });
    let rd = reader(cli.try_clone().unwrap());
    let mut cli = cli;
    for it in &items {
        match it {
            Item::Write(b) => {
                if cli.write_all(b).is_err() {
                    break;
                }
            }
            Item::Pause(ms) => std::thread::sleep(Duration::from_millis(*ms)),
            _ => {}
        }
    }
    let _ = cli.shutdown(Shutdown::Write);
    std::thread::sleep(Duration::from_millis(60));
    done.store(true, Ordering::SeqCst);
    let (res, nones) = match rx.recv_timeout(Duration::from_millis(HARD_MS)) {
        Ok((log, n)) => (log.join(";"), n),
        Err(RecvTimeoutError::Timeout) => {
            let _ = unblock.shutdown(Shutdown::Both);
            ("HANG".to_string(), 0)
        }
        Err(RecvTimeoutError::Disconnected) => ("PANIC".to_string(), 0),
    };
    let (out, eof) = rd.join().unwrap_or((Vec::new(), false));
    drop(cli);
    let _ = server.join();
    format!("res={} nones={} out={} eof={}", res, nones, hex(&out), eof as u8)
}

// ---------------------------------------------------------------------------------------------------
// the opening handshake through a real App

fn echo_handler(mut stream: WebsocketStream, _: Arc<()>) {
    loop {
        match stream.recv() {
            Ok(m) => {
                if stream.send(m).is_err() {
                    break;
                }
            }
            Err(_) => break,
        }
    }
}

fn app() -> App<()> {
    App::new_with_config(4, ())
        .with_websocket_route("/ws*", websocket_handler(echo_handler))
        .with_stateless_route("/*", |_r: Request| Response::new(StatusCode::OK, "plain"))
}

fn hs_server() -> u16 {
    static PORT: OnceLock<u16> = OnceLock::new();
    *PORT.get_or_init(|| {
        for _ in 0..20 {
            let port = free_port();
            let (tx, rx) = channel::<bool>();
            std::thread::spawn(move || {
                let r = app().run(format!("127.0.0.1:{}", port));
                let _ = tx.send(r.is_ok());
            });
            let t0 = Instant::now();
            while t0.elapsed() < Duration::from_secs(3) {
                if let Ok(r) = rx.try_recv() {
                    if !r {
                        break;
                    }
                }
                if TcpStream::connect(("127.0.0.1", port)).is_ok() {
                    std::thread::sleep(Duration::from_millis(10));
                    if rx.try_recv().is_err() {
                        return port;
                    }
                    break;
                }
                std::thread::sleep(Duration::from_millis(5));
            }
        }
        panic!("harness: could not start the handshake server");
    })
}

fn find(h: &[u8], n: &[u8]) -> Option<usize> {
    if n.is_empty() || h.len() < n.len() {
        return None;
    }
    (0..=h.len() - n.len()).find(|&i| &h[i..i + n.len()] == n)
}

fn run_hs(request: &[u8], post: &[u8]) -> String {
    let port = hs_server();
    let mut s = TcpStream::connect(("127.0.0.1", port)).unwrap();
    s.set_nodelay(true).unwrap();
    let _ = s.write_all(request);
    // the response head: up to the blank line, EOF, or 1.5 s of silence
    let mut got = Vec::new();
    let mut buf = vec![0u8; 65536];
    let mut eof = false;
    let t0 = Instant::now();
    s.set_read_timeout(Some(Duration::from_millis(100))).unwrap();
    while find(&got, b"\r\n\r\n").is_none() && t0.elapsed() < Duration::from_millis(8000) {
        match s.read(&mut buf) {
            Ok(0) => {
                eof = true;
                break;
            }
            Ok(n) => got.extend_from_slice(&buf[..n]),
            Err(ref e) if e.kind() == std::io::ErrorKind::WouldBlock || e.kind() == std::io::ErrorKind::TimedOut => {}
            Err(_) => {
                eof = true;
                break;
            }
        }
    }
    let (head, mut rest) = match find(&got, b"\r\n\r\n") {
        Some(p) => (got[..p + 4].to_vec(), got[p + 4..].to_vec()),
        None => (got.clone(), Vec::new()),
    };
    if !eof && head.starts_with(b"HTTP/1.1 101 ") {
        let _ = s.write_all(post);
        let _ = s.shutdown(Shutdown::Write);
        let t1 = Instant::now();
        while t1.elapsed() < Duration::from_millis(HARD_MS) {
            match s.read(&mut buf) {
                Ok(0) => {
                    eof = true;
                    break;
                }
                Ok(n) => rest.extend_from_slice(&buf[..n]),
                Err(ref e) if e.kind() == std::io::ErrorKind::WouldBlock || e.kind() == std::io::ErrorKind::TimedOut => {}
                Err(_) => {
                    eof = true;
                    break;
                }
            }
        }
    }
    format!("resp={} frames={} eof={}", hex(&head), hex(&rest), eof as u8)
}

pub fn dispatch(name: &str, args: &[&str]) -> Option<String> {
    match name {
        "c11_run" => {
            let echo = args[0] == "1";
            let limit = if args[1] == "-" { None } else { Some(args[1].parse::<usize>().unwrap()) };
            Some(run_blocking(echo, limit, args[2], args.get(3).copied().unwrap_or("-")))
        }
        // c11_io <echo> <plan>: as c11_run .. - fin .., with the handler on the io::Read / io::Write adapters
        "c11_io" => Some(run_blocking_mode(args[0] == "1", None, "fin", args.get(1).copied().unwrap_or("-"), true)),
        "c11_nb" => Some(run_nb(args.first().copied().unwrap_or("-"))),
        "c11_nbfree" => Some(run_nbfree(args[0].parse().unwrap(), args.get(1).copied().unwrap_or("-"))),
        "c11_hs" => Some(run_hs(&unhex(args[0]), &unhex(args.get(1).copied().unwrap_or("h")))),
        _ => None,
    }
}
