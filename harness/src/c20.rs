//! C20: shutdown of a running App under traffic (threaded runtime), with the event trace of hook H2b.
use crate::c01::{free_port, read_available};
use crate::util::*;
use humphrey::http::{Request, Response, StatusCode};
use humphrey::App;
use std::io::Write;
use std::net::{TcpListener, TcpStream};
use std::sync::mpsc::channel;
use std::time::{Duration, Instant};

fn app(threads: usize) -> App<()> {
    App::new_with_config(threads, ())
        .with_stateless_route("/fixed*", |_r: Request| Response::new(StatusCode::OK, "hello"))
        .with_stateless_route("/slow*", |r: Request| {
            let ms: u64 = r.query.strip_prefix("ms=").and_then(|s| s.parse().ok()).unwrap_or(400);
            std::thread::sleep(Duration::from_millis(ms));
            Response::new(StatusCode::OK, "slow-done")
        })
        .with_stateless_route("/big*", |_r: Request| Response::new(StatusCode::OK, vec![b'x'; 6 * 1024 * 1024]))
        // an open WebSocket: the handler owns the connection (and its worker) until the client goes away
        .with_websocket_route("/ws*", |_r: Request, mut stream: humphrey::stream::Stream, _s: std::sync::Arc<()>| {
            use std::io::{Read, Write};
            let _ = stream.write_all(b"HTTP/1.1 101 Switching Protocols\r\nUpgrade: websocket\r\nConnection: Upgrade\r\n\r\n");
            let mut buf = [0u8; 256];
            while let Ok(n) = stream.read(&mut buf) {
                if n == 0 {
                    break;
                }
            }
        })
}

#[repr(C)]
struct RLimit {
    cur: u64,
    max: u64,
}
extern "C" {
    fn getrlimit(resource: i32, rlim: *mut RLimit) -> i32;
    fn setrlimit(resource: i32, rlim: *const RLimit) -> i32;
}

/// complete HTTP response with a Content-Length body fully present?
fn complete_response(data: &[u8]) -> bool {
    let s = String::from_utf8_lossy(data);
    if let Some(p) = s.find("\r\n\r\n") {
        let head = &s[..p];
        for line in head.split("\r\n") {
            if let Some(v) = line.strip_prefix("Content-Length: ") {
                if let Ok(n) = v.trim().parse::<usize>() {
                    return data.len() >= p + 4 + n;
                }
            }
        }
    }
    false
}

pub fn dispatch(name: &str, args: &[&str]) -> Option<String> {
    match name {
        // shutdown <threads> <bind: v4|any|any6> <states e.g. JIHSLW> <when: before|after|concurrent>
        "shutdown" => {
            let threads: usize = args[0].parse().unwrap();
            let bind_ip = match args[1] {
                "any" => "0.0.0.0",
                // dual-stack wildcard: IPv4 clients still reach it; the shutdown wake-up has to pick ::1
                "any6" => "[::]",
                _ => "127.0.0.1",
            };
            let states = if args[2] == "-" { "" } else { args[2] };
            let when = args[3];
            // fits = every connection can have its own worker; otherwise some connections merely queue and only the
            // shutdown itself is judged (short waits)
            let fits = args.get(4).map(|f| *f == "1").unwrap_or(true);
            let wait_first: u64 = if fits { 1500 } else { 80 };
            // start the app; retry on another port if the bind fails or somebody else owns the port
            let mut started = None;
            for _ in 0..10 {
                let port = free_port();
                let (tx, rx) = channel::<()>();
                let (done_tx, done_rx) = channel::<bool>();
                let addr = format!("{}:{}", bind_ip, port);
                let a2 = addr.clone();
                std::thread::spawn(move || {
                    let r = app(threads).with_shutdown(rx).run(a2);
                    let _ = done_tx.send(r.is_ok());
                });
                // wait until it listens (the probe connection is itself traffic: state J, closed at once)
                let t0 = Instant::now();
                let mut up = false;
                while t0.elapsed() < Duration::from_secs(3) {
                    if done_rx.try_recv().is_ok() {
                        break;
                    }
                    if let Ok(s) = TcpStream::connect(("127.0.0.1", port)) {
                        drop(s);
                        std::thread::sleep(Duration::from_millis(10));
                        up = done_rx.try_recv().is_err();
                        break;
                    }
                    std::thread::sleep(Duration::from_millis(3));
                }
                if up {
                    started = Some((port, tx, done_rx, addr));
                    break;
                }
            }
            let (port, tx, done_rx, addr) = match started {
                Some(x) => x,
                None => return Some("noserver".to_string()),
            };
            if when == "before" {
                tx.send(()).unwrap();
            }
            // establish the connections
            let mut conns: Vec<(char, TcpStream, Vec<u8>)> = Vec::new();
            let mut probe_ok = true;
            for st in states.chars() {
                let mut s = match TcpStream::connect(("127.0.0.1", port)) {
                    Ok(s) => s,
                    Err(_) => {
                        conns.clear();
                        break;
                    }
                };
                s.set_nodelay(true).unwrap();
                let mut got = Vec::new();
                match st {
                    'J' => {}
                    'I' => {
                        let _ = s.write_all(b"GET /fixed HTTP/1.1\r\nConnection: keep-alive\r\n\r\n");
                        let (b, _) = read_available(&mut s, wait_first, 30);
                        if when != "before" && !complete_response(&b) {
                            probe_ok = false;
                        }
                        got = b;
                    }
                    'H' => {
                        let _ = s.write_all(b"GET /fix");
                    }
                    'S' => {
                        let _ = s.write_all(b"GET /slow?ms=120 HTTP/1.1\r\n\r\n");
                    }
                    'L' => {
                        let _ = s.write_all(b"GET /slow?ms=700 HTTP/1.1\r\n\r\n");
                    }
                    'W' => {
                        let _ = s.write_all(b"GET /big HTTP/1.1\r\n\r\n");
                    }
                    'O' => {
                        // WebSocket open: upgrade accepted (101 read), then the connection just stays
                        let _ = s.write_all(b"GET /ws HTTP/1.1\r\nHost: x\r\nUpgrade: websocket\r\nConnection: Upgrade\r\nSec-WebSocket-Key: dGhlIHNhbXBsZSBub25jZQ==\r\n\r\n");
                        let (b, _) = read_available(&mut s, wait_first, 30);
                        if fits && when != "before" && !b.starts_with(b"HTTP/1.1 101") {
                            probe_ok = false;
                        }
                        got = b;
                    }
                    _ => {}
                }
                conns.push((st, s, got));
            }
            std::thread::sleep(Duration::from_millis(40));
            // fault: the process runs out of file descriptors while a client is waiting in the accept queue, so that
            // accept() keeps failing (EMFILE) when the signal arrives
            let mut hog: Vec<std::fs::File> = Vec::new();
            let mut pending: Option<TcpStream> = None;
            let mut old_limit: Option<(u64, u64)> = None;
            let mut fault = "";
            if states.contains('E') {
                // leave just enough descriptors for one client connection, then use that one up as well
                let open_now = std::fs::read_dir("/proc/self/fd").map(|d| d.count() as u64).unwrap_or(64);
                unsafe {
                    let mut rl = RLimit { cur: 0, max: 0 };
                    if getrlimit(7, &mut rl) == 0 {
                        old_limit = Some((rl.cur, rl.max));
                        let low = RLimit { cur: (open_now + 12).min(rl.cur), max: rl.max };
                        setrlimit(7, &low);
                    }
                }
                while let Ok(f) = std::fs::File::open("/dev/null") {
                    hog.push(f);
                    if hog.len() > 4096 {
                        break;
                    }
                }
                hog.pop(); // one descriptor for the client below
                pending = TcpStream::connect(("127.0.0.1", port)).ok();
                if pending.is_some() && !hog.is_empty() {
                    fault = "emfile";
                    std::thread::sleep(Duration::from_millis(10));
                } else {
                    // could not set the fault up (descriptor accounting raced with other threads): run as a plain scenario
                    hog.clear();
                    fault = "skipped";
                }
            }
            // the signal
            let t_sig = Instant::now();
            let mut extra: Vec<TcpStream> = Vec::new();
            if when == "concurrent" {
                let h = std::thread::spawn(move || {
                    let mut v = Vec::new();
                    for _ in 0..6 {
                        if let Ok(s) = TcpStream::connect(("127.0.0.1", port)) {
                            v.push(s);
                        }
                    }
                    v
                });
                tx.send(()).unwrap();
                extra = h.join().unwrap();
            } else if when == "after" {
                tx.send(()).unwrap();
            }
            let mut rescued = false;
            let mut returned = match done_rx.recv_timeout(Duration::from_millis(if fault == "emfile" { 1500 } else { 5000 })) {
                Ok(_) => Some(t_sig.elapsed().as_millis()),
                Err(_) => None,
            };
            if returned.is_none() && fault == "emfile" {
                // the wake-up connect itself can fail for lack of a descriptor (a descriptor freed at the wrong moment lets
                // the waiting client in, and accept() then blocks): release the descriptors and let the next client wake it
                rescued = true;
                hog.clear();
                let extra_client = TcpStream::connect(("127.0.0.1", port));
                returned = match done_rx.recv_timeout(Duration::from_secs(4)) {
                    Ok(_) => Some(t_sig.elapsed().as_millis()),
                    Err(_) => None,
                };
                drop(extra_client);
            }
            drop(hog);
            drop(pending);
            if let Some((cur, max)) = old_limit {
                unsafe {
                    setrlimit(7, &RLimit { cur, max });
                }
            }
            // the port must be free again
            let mut rebind = false;
            if returned.is_some() {
                // a few attempts: another runner process may hold the port for an instant while probing for a free one
                for _ in 0..5 {
                    if TcpListener::bind(&addr).is_ok() {
                        rebind = true;
                        break;
                    }
                    std::thread::sleep(Duration::from_millis(40));
                }
            }
            // in-flight requests received before the signal must still be answered completely
            let mut inflight = 0;
            let mut inflight_ok = 0;
            for (st, s, got) in conns.iter_mut() {
                if "SLW".contains(*st) && when != "before" {
                    inflight += 1;
                    let (b, _) = read_available(s, if fits { 3000 } else { 50 }, if fits { 200 } else { 20 });
                    got.extend(b);
                    if complete_response(got) {
                        inflight_ok += 1;
                    }
                }
            }
            drop(extra);
            let raw_trace = humphrey::verif_trace::take(port);
            // while accept() fails the loop spins, logging thousands of identical iterations: keep at most three of any
            // run of consecutive "accept" events (how many error iterations there were is immaterial)
            let mut trace: Vec<&str> = Vec::new();
            let mut run = 0;
            for e in raw_trace {
                if e == "accept" {
                    run += 1;
                    if run > 3 {
                        continue;
                    }
                } else {
                    run = 0;
                }
                trace.push(e);
            }
            let _ = hex(b"");
            Some(format!(
                "returned={} fault={} rescued={} rebind={} probe={} inflight={}/{} trace={}",
                returned.map(|m| m.to_string()).unwrap_or_else(|| "never".into()),
                if fault.is_empty() { "none" } else { fault },
                rescued as u8,
                rebind as u8,
                probe_ok as u8,
                inflight_ok,
                inflight,
                trace.join(",")
            ))
        }
        _ => None,
    }
}
