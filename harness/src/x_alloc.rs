//! Counting global allocator for the harness binary (allocation bounds: C13 json_parse_safe, C03).
//! `measure` runs a closure and reports the bytes requested from the allocator while it ran (every alloc and the new size
//! of every realloc) and the peak of live bytes above the starting level. The harness is single-threaded.
use std::alloc::{GlobalAlloc, Layout, System};
use std::sync::atomic::{AtomicUsize, Ordering};

pub struct Counting;

static TOTAL: AtomicUsize = AtomicUsize::new(0);
static LIVE: AtomicUsize = AtomicUsize::new(0);
static PEAK: AtomicUsize = AtomicUsize::new(0);

fn add_live(n: usize) {
    let live = LIVE.fetch_add(n, Ordering::Relaxed) + n;
    PEAK.fetch_max(live, Ordering::Relaxed);
}

unsafe impl GlobalAlloc for Counting {
    unsafe fn alloc(&self, layout: Layout) -> *mut u8 {
        TOTAL.fetch_add(layout.size(), Ordering::Relaxed);
        add_live(layout.size());
        System.alloc(layout)
    }
    unsafe fn dealloc(&self, ptr: *mut u8, layout: Layout) {
        LIVE.fetch_sub(layout.size(), Ordering::Relaxed);
        System.dealloc(ptr, layout)
    }
    unsafe fn alloc_zeroed(&self, layout: Layout) -> *mut u8 {
        TOTAL.fetch_add(layout.size(), Ordering::Relaxed);
        add_live(layout.size());
        System.alloc_zeroed(layout)
    }
    unsafe fn realloc(&self, ptr: *mut u8, layout: Layout, new_size: usize) -> *mut u8 {
        TOTAL.fetch_add(new_size, Ordering::Relaxed);
        LIVE.fetch_sub(layout.size(), Ordering::Relaxed);
        add_live(new_size);
        System.realloc(ptr, layout, new_size)
    }
}

#[global_allocator]
static ALLOCATOR: Counting = Counting;

/// (result, bytes requested while `f` ran, peak live bytes above the level at entry)
pub fn measure<R>(f: impl FnOnce() -> R) -> (R, usize, usize) {
    let t0 = TOTAL.load(Ordering::Relaxed);
    let l0 = LIVE.load(Ordering::Relaxed);
    PEAK.store(l0, Ordering::Relaxed);
    let r = f();
    let total = TOTAL.load(Ordering::Relaxed) - t0;
    let peak = PEAK.load(Ordering::Relaxed).saturating_sub(l0);
    (r, total, peak)
}

/// Start measuring: returns the current live level (baseline) and resets the peak to it.
pub fn start() -> usize {
    let l0 = LIVE.load(Ordering::Relaxed);
    PEAK.store(l0, Ordering::Relaxed);
    l0
}

/// Peak live bytes above `base` since `start`.
pub fn peak_since(base: usize) -> usize {
    PEAK.load(Ordering::Relaxed).saturating_sub(base)
}

pub fn dispatch(_name: &str, _args: &[&str]) -> Option<String> {
    None
}
