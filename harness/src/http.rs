//! HTTP request/response codec (C02, C07, C03, C09): the implementation side of the correspondence.
use crate::util::*;
use humphrey::http::cookie::{SameSite, SetCookie};
use humphrey::http::headers::{Header, Headers};
use humphrey::http::request::RequestError;
use humphrey::http::response::ResponseError;
use humphrey::http::{Request, Response, StatusCode};
use std::convert::TryFrom;
use std::io::Read;
use std::net::SocketAddr;

/// A reader that delivers a fixed plan of chunks: one `read` call returns at most the rest of the current chunk.
pub struct Scripted {
    pub chunks: Vec<Vec<u8>>,
    pub idx: usize,
    pub off: usize,
    pub handed_out: usize,
}

impl Scripted {
    pub fn new(chunks: Vec<Vec<u8>>) -> Self {
        Self { chunks, idx: 0, off: 0, handed_out: 0 }
    }
}

impl Read for Scripted {
    fn read(&mut self, buf: &mut [u8]) -> std::io::Result<usize> {
        if self.idx >= self.chunks.len() || buf.is_empty() {
            return Ok(0);
        }
        let c = &self.chunks[self.idx];
        let n = std::cmp::min(buf.len(), c.len() - self.off);
        buf[..n].copy_from_slice(&c[self.off..self.off + n]);
        self.off += n;
        self.handed_out += n;
        if self.off >= c.len() {
            self.idx += 1;
            self.off = 0;
        }
        Ok(n)
    }
}

pub fn chunks_of(arg: &str) -> Vec<Vec<u8>> {
    if arg == "-" || arg.is_empty() {
        return Vec::new();
    }
    arg.split(',').map(unhex).collect()
}

pub fn show_headers(hs: &Headers) -> String {
    // arrival order (hook H6), not iter() order: iter() sorts
    let out: Vec<String> = hs
        .verif_in_order()
        .iter()
        .map(|h| format!("{}:{}", hex(h.name.to_string().as_bytes()), hex(h.value.as_bytes())))
        .collect();
    format!("[{}]", out.join(","))
}

fn show_request(r: &Request) -> String {
    let m = match r.method {
        humphrey::http::method::Method::Get => 0,
        humphrey::http::method::Method::Post => 1,
        humphrey::http::method::Method::Put => 2,
        humphrey::http::method::Method::Delete => 3,
        humphrey::http::method::Method::Options => 4,
    };
    format!(
        "m={} uri={} q={} v={} h={} c={} origin={} proxies=[{}] port={}",
        m,
        hex(r.uri.as_bytes()),
        hex(r.query.as_bytes()),
        hex(r.version.as_bytes()),
        show_headers(&r.headers),
        match &r.content {
            None => "none".to_string(),
            Some(c) => format!("h{}", hex(c)),
        },
        hex(r.address.origin_addr.to_string().as_bytes()),
        r.address.proxies.iter().map(|p| hex(p.to_string().as_bytes())).collect::<Vec<_>>().join(","),
        r.address.port
    )
}

fn req_err(e: RequestError) -> String {
    format!(
        "err:{}",
        match e {
            RequestError::Request => 0,
            RequestError::Stream => 1,
            RequestError::Disconnected => 2,
            RequestError::Timeout => 3,
        }
    )
}

fn show_response(r: &Response) -> String {
    let code: u16 = r.status_code.into();
    format!("v={} code={} h={} b={}", hex(r.version.as_bytes()), code, show_headers(&r.headers), hex(&r.body))
}

fn peer(ip: &str, port: &str) -> SocketAddr {
    let ip = unhex_str(ip);
    format!("{}:{}", ip, port).parse().expect("peer")
}

fn headers_of(arg: &str) -> Vec<(String, String)> {
    if arg == "-" || arg.is_empty() {
        return Vec::new();
    }
    arg.split(',')
        .map(|kv| {
            let mut it = kv.split(':');
            (unhex_str(it.next().unwrap()), unhex_str(it.next().unwrap()))
        })
        .collect()
}

pub fn dispatch(name: &str, args: &[&str]) -> Option<String> {
    match name {
        "req_parse" => {
            let mut rd = Scripted::new(chunks_of(args[2]));
            Some(match Request::from_stream(&mut rd, peer(args[0], args[1])) {
                Ok(r) => format!("ok {} consumed={}", show_request(&r), rd.handed_out),
                Err(e) => req_err(e),
            })
        }
        // C03: outcome class + peak heap growth of the call
        "safe_req" => {
            let mut rd = Scripted::new(chunks_of(args[0]));
            let base = crate::meter::start();
            let r = Request::from_stream(&mut rd, "1.2.3.4:80".parse().unwrap());
            let peak = crate::meter::peak_since(base);
            Some(match r {
                Ok(_) => format!("ok alloc={}", peak),
                Err(e) => format!("{} alloc={}", req_err(e), peak),
            })
        }
        "safe_resp" => {
            let mut rd = Scripted::new(chunks_of(args[0]));
            let base = crate::meter::start();
            let r = Response::from_stream(&mut rd);
            let peak = crate::meter::peak_since(base);
            Some(match r {
                Ok(_) => format!("ok alloc={}", peak),
                Err(ResponseError::Response) => format!("err:0 alloc={}", peak),
                Err(ResponseError::Stream) => format!("err:1 alloc={}", peak),
            })
        }
        "req_parse_flat" => {
            let b = unhex(args[2]);
            let total = b.len();
            let mut rd = Scripted::new(vec![b]);
            let _ = total;
            Some(match Request::from_stream(&mut rd, peer(args[0], args[1])) {
                Ok(r) => format!("ok {}", show_request(&r)),
                Err(e) => req_err(e),
            })
        }
        "req_roundtrip" => {
            let b = unhex(args[2]);
            let mut rd = Scripted::new(vec![b]);
            Some(match Request::from_stream(&mut rd, peer(args[0], args[1])) {
                Ok(r) => {
                    let ser: Vec<u8> = r.into();
                    let mut rd2 = Scripted::new(vec![ser.clone()]);
                    match Request::from_stream(&mut rd2, peer(args[0], args[1])) {
                        Ok(r2) => format!("ser={} ok {}", hex(&ser), show_request(&r2)),
                        Err(e) => format!("ser={} {}", hex(&ser), req_err(e)),
                    }
                }
                Err(e) => req_err(e),
            })
        }
        // hdr_get <name:value,...> <lookup name> -> first=<hex|none> all=[hex,...] rest=<count after remove>
        "hdr_get" => {
            let mut hs = Headers::new();
            for (k, v) in headers_of(args[0]) {
                hs.add(k.as_str(), v);
            }
            let name = unhex_str(args[1]);
            let first = hs.get(name.as_str()).map(|v| hex(v.as_bytes())).unwrap_or_else(|| "none".into());
            let all = hs.get_all(name.as_str()).iter().map(|v| hex(v.as_bytes())).collect::<Vec<_>>().join(",");
            let mut hs2 = hs.clone();
            hs2.remove(name.as_str());
            // get_mut edits the first header of that name in place
            let mut hs3 = hs.clone();
            if let Some(v) = hs3.get_mut(name.as_str()) {
                v.push('!');
            }
            Some(format!(
                "first={} all=[{}] rest={} len={} empty={} mut={}",
                first,
                all,
                crate::http::show_headers(&hs2),
                hs.len(),
                hs.is_empty() as u8,
                crate::http::show_headers(&hs3)
            ))
        }
        "cookies" => {
            let mut hs = Headers::new();
            // "-" = a request without any Cookie header
            if args[0] != "-" {
                hs.add("Cookie", unhex_str(args[0]));
            }
            let r = Request {
                method: humphrey::http::method::Method::Get,
                uri: "/".into(),
                query: "".into(),
                version: "HTTP/1.1".into(),
                headers: hs,
                content: None,
                address: humphrey::http::address::Address::new("127.0.0.1:1").unwrap(),
            };
            let cs = r.get_cookies();
            Some(format!(
                "[{}]",
                cs.iter().map(|c| format!("{}={}", hex(c.name.as_bytes()), hex(c.value.as_bytes()))).collect::<Vec<_>>().join(",")
            ))
        }
        "resp_parse" => {
            let mut rd = Scripted::new(chunks_of(args[0]));
            Some(match Response::from_stream(&mut rd) {
                Ok(r) => format!("ok {}", show_response(&r)),
                Err(ResponseError::Response) => "err:0".to_string(),
                Err(ResponseError::Stream) => "err:1".to_string(),
            })
        }
        "resp_ser" => {
            let code: u16 = args[1].parse().unwrap();
            Some(match StatusCode::try_from(code) {
                Err(_) => "nocode".to_string(),
                Ok(st) => {
                    let mut r = Response::new(st, unhex(args[3]));
                    r.version = unhex_str(args[0]);
                    for (k, v) in headers_of(args[2]) {
                        r = r.with_header(k, v);
                    }
                    let b: Vec<u8> = r.into();
                    hex(&b)
                }
            })
        }
        // resp_ser_ck <code> <items: h:<name>:<value> | c:<name>:<value>:<secure 0|1>, ...> <body>: with_header / with_cookie
        // in the given order, then the serialisation
        "resp_ser_ck" => {
            let code: u16 = args[0].parse().unwrap();
            let st = StatusCode::try_from(code).ok()?;
            let mut r = Response::new(st, unhex(args[2]));
            if args[1] != "-" {
                for it in args[1].split(',') {
                    let f: Vec<&str> = it.split(':').collect();
                    if f[0] == "h" {
                        r = r.with_header(unhex_str(f[1]), unhex_str(f[2]));
                    } else {
                        let mut c = SetCookie::new(unhex_str(f[1]), unhex_str(f[2]));
                        if f[3] == "1" {
                            c = c.with_secure(true);
                        }
                        r = r.with_cookie(c);
                    }
                }
            }
            let b: Vec<u8> = r.into();
            Some(hex(&b))
        }
        "setcookie" => {
            let ob = |s: &str| if s == "none" { None } else { Some(unhex_str(s)) };
            let mut c = SetCookie::new(unhex_str(args[0]), unhex_str(args[1]));
            if let Some(e) = ob(args[2]) {
                c = c.with_expires(e);
            }
            if args[3] != "none" {
                c = c.with_max_age(std::time::Duration::from_secs(args[3].parse().unwrap()));
            }
            if let Some(d) = ob(args[4]) {
                c = c.with_domain(d);
            }
            if let Some(p) = ob(args[5]) {
                c = c.with_path(p);
            }
            // flags are only touched when set, so that the builder's defaults (both off) are observed
            if args[6] == "1" {
                c = c.with_secure(true);
            }
            if args[7] == "1" {
                c = c.with_http_only(true);
            }
            if args[8] != "none" {
                c = c.with_same_site(match args[8] {
                    "0" => SameSite::Strict,
                    "1" => SameSite::Lax,
                    _ => SameSite::None,
                });
            }
            let h: Header = c.into();
            Some(format!("{}:{}", hex(h.name.to_string().as_bytes()), hex(h.value.as_bytes())))
        }
        _ => None,
    }
}
