//! C05: wildcard matcher.
use crate::util::*;

pub fn dispatch(name: &str, args: &[&str]) -> Option<String> {
    match name {
        "wm" => {
            let w = unhex_str(args[0]);
            let t = unhex_str(args[1]);
            Some(humphrey::krauss::wildcard_match(&w, &t).to_string())
        }
        _ => None,
    }
}
