//! C04: routing decision of get_handler through hook H2.
use crate::util::*;
use humphrey::http::headers::Headers;
use humphrey::http::{Request, Response, StatusCode};
use humphrey::SubApp;

fn list(arg: &str) -> Vec<String> {
    if arg == "-" {
        Vec::new()
    } else {
        arg.split(',').map(unhex_str).collect()
    }
}

fn subapp(host: Option<&str>, routes: &[String]) -> SubApp<()> {
    let mut s: SubApp<()> = SubApp::new();
    if let Some(h) = host {
        s.host = h.to_string();
    }
    for r in routes {
        s = s.with_stateless_route(r, |_r: Request| Response::empty(StatusCode::OK));
    }
    s
}

pub fn dispatch(name: &str, args: &[&str]) -> Option<String> {
    match name {
        // route <host|-> <uri> <default routes> <sub-apps: host:r,r|host:r,r>
        "route" => {
            let mut hs = Headers::new();
            if args[0] != "-" {
                hs.add("Host", unhex_str(args[0]));
            }
            let req = Request {
                method: humphrey::http::method::Method::Get,
                uri: unhex_str(args[1]),
                query: String::new(),
                version: "HTTP/1.1".into(),
                headers: hs,
                content: None,
                address: humphrey::http::address::Address::new("127.0.0.1:1").unwrap(),
            };
            let default = subapp(None, &list(args[2]));
            let mut subs: Vec<SubApp<()>> = Vec::new();
            if args[3] != "-" {
                for s in args[3].split('|') {
                    let (h, rs) = s.split_once(':').unwrap();
                    subs.push(subapp(Some(&unhex_str(h)), &list(rs)));
                }
            }
            Some(match humphrey::app::verif_route_index(&req, &subs, &default) {
                Some((Some(i), j)) => format!("sub:{}:{}", i, j),
                Some((None, j)) => format!("def:{}", j),
                None => "none".to_string(),
            })
        }
        _ => None,
    }
}
