//! C04: routing decision of get_handler through hook H2.
use crate::util::*;
use humphrey::http::headers::Headers;
use humphrey::http::{Request, Response, StatusCode};
use humphrey::SubApp;

fn list(arg: &str) -> Vec<String> {
    if arg == "-" {
        Vec::new()
    } else {
        arg.split(',').map(unhex_str).collect()
    }
}

fn subapp(host: Option<&str>, routes: &[String]) -> SubApp<()> {
    let mut s: SubApp<()> = SubApp::new();
    if let Some(h) = host {
        s.host = h.to_string();
    }
    for r in routes {
        s = s.with_stateless_route(r, |_r: Request| Response::empty(StatusCode::OK));
    }
    s
}

pub fn dispatch(name: &str, args: &[&str]) -> Option<String> {
    match name {
        // route <host|-> <uri> <default routes> <sub-apps: host:r,r|host:r,r>
        "route" => {
            let mut hs = Headers::new();
            if args[0] != "-" {
                hs.add("Host", unhex_str(args[0]));
            }
            let req = Request {
                method: humphrey::http::method::Method::Get,
                uri: unhex_str(args[1]),
                query: String::new(),
                version: "HTTP/1.1".into(),
                headers: hs,
                content: None,
                address: humphrey::http::address::Address::new("127.0.0.1:1").unwrap(),
            };
            let default = subapp(None, &list(args[2]));
            let mut subs: Vec<SubApp<()>> = Vec::new();
            if args[3] != "-" {
                for s in args[3].split('|') {
                    let (h, rs) = s.split_once(':').unwrap();
                    subs.push(subapp(Some(&unhex_str(h)), &list(rs)));
                }
            }
            Some(match humphrey::app::verif_route_index(&req, &subs, &default) {
                Some((Some(i), j)) => format!("sub:{}:{}", i, j),
                Some((None, j)) => format!("def:{}", j),
                None => "none".to_string(),
            })
        }
        // wsroute <host|-> <uri> <default ws routes> <sub-apps: host:r,r|host:r,r>: which WebSocket route handler gets the
        // stream of an upgrade request, end to end over loopback (exercises call_websocket_handler)
        "wsroute" => {
            use std::io::{Read, Write};
            let default_routes = list(args[2]);
            let mut app: humphrey::App<()> = humphrey::App::new_with_config(2, ());
            for (j, r) in default_routes.iter().enumerate() {
                let tag = format!("def:{}\n", j);
                app = app.with_websocket_route(r, move |_req: Request, mut stream: humphrey::stream::Stream, _s: std::sync::Arc<()>| {
                    let _ = stream.write_all(tag.as_bytes());
                });
            }
            if args[3] != "-" {
                for (i, s) in args[3].split('|').enumerate() {
                    let (h, rs) = s.split_once(':').unwrap();
                    let mut sub: SubApp<()> = SubApp::new();
                    for (j, r) in list(rs).iter().enumerate() {
                        let tag = format!("sub:{}:{}\n", i, j);
                        sub = sub.with_websocket_route(r, move |_req: Request, mut stream: humphrey::stream::Stream, _s: std::sync::Arc<()>| {
                            let _ = stream.write_all(tag.as_bytes());
                        });
                    }
                    app = app.with_host(&unhex_str(h), sub);
                }
            }
            let (tx, rx) = std::sync::mpsc::channel::<()>();
            let mut started = None;
            let mut app_opt = Some(app.with_shutdown(rx));
            for _ in 0..1 {
                let port = crate::c01::free_port();
                let a = app_opt.take().unwrap();
                let (dtx, drx) = std::sync::mpsc::channel::<bool>();
                std::thread::spawn(move || {
                    let r = a.run(format!("127.0.0.1:{}", port));
                    let _ = dtx.send(r.is_ok());
                });
                let t0 = std::time::Instant::now();
                while t0.elapsed() < std::time::Duration::from_secs(3) {
                    if drx.try_recv().is_ok() {
                        break;
                    }
                    if std::net::TcpStream::connect(("127.0.0.1", port)).is_ok() {
                        started = Some((port, drx));
                        break;
                    }
                    std::thread::sleep(std::time::Duration::from_millis(3));
                }
            }
            let (port, drx) = match started {
                Some(x) => x,
                None => return Some("noserver".to_string()),
            };
            let mut c = std::net::TcpStream::connect(("127.0.0.1", port)).unwrap();
            let mut req = format!("GET {} HTTP/1.1\r\n", unhex_str(args[1]));
            if args[0] != "-" {
                req.push_str(&format!("Host: {}\r\n", unhex_str(args[0])));
            }
            req.push_str("Upgrade: websocket\r\nConnection: Upgrade\r\n\r\n");
            c.write_all(req.as_bytes()).unwrap();
            c.set_read_timeout(Some(std::time::Duration::from_millis(1500))).unwrap();
            let mut got = Vec::new();
            let mut buf = [0u8; 256];
            loop {
                match c.read(&mut buf) {
                    Ok(0) | Err(_) => break,
                    Ok(n) => got.extend_from_slice(&buf[..n]),
                }
            }
            let _ = tx.send(());
            let _ = drx.recv_timeout(std::time::Duration::from_secs(3));
            let text = String::from_utf8_lossy(&got).trim().to_string();
            Some(if text.is_empty() { "none".to_string() } else { text })
        }
        _ => None,
    }
}
