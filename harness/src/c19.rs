//! C19: blacklist enforcement — verify_connection over a real loopback connection and the server's route handlers
//! called in-process (hooks H5), for every route type.
use crate::util::*;
use humphrey::http::address::Address;
use humphrey::http::headers::Headers;
use humphrey::http::Request;
use humphrey_server::config::{
    BlacklistConfig, BlacklistMode, CacheConfig, Config, HostConfig, LoadBalancerMode, LoggingConfig, RouteConfig, RouteType,
};
use humphrey_server::logger::LogLevel;
use humphrey_server::proxy::{EqMutex, LoadBalancer};
use humphrey_server::rand::Lcg;
use humphrey_server::server::AppState;
use std::io::{Read, Write};
use std::net::{IpAddr, SocketAddr, TcpListener, TcpStream};
use std::sync::{Arc, OnceLock};

fn work_dir() -> String {
    let root = std::env::var("HV_ROOT").unwrap_or_else(|_| "/verif".to_string());
    let d = format!("{}/work/c19", root);
    std::fs::create_dir_all(format!("{}/dir", d)).unwrap();
    // written once (atomically, by rename) so that runner processes working in parallel never see a partial file
    for f in ["file.txt", "dir/index.html"] {
        let path = format!("{}/{}", d, f);
        if std::fs::read(&path).map(|c| c != b"CONTENT").unwrap_or(true) {
            let tmp = format!("{}.{}.tmp", path, std::process::id());
            std::fs::write(&tmp, b"CONTENT").unwrap();
            std::fs::rename(&tmp, &path).unwrap();
        }
    }
    d
}

/// a tiny upstream answering every connection with 200 CONTENT
fn upstream() -> u16 {
    static PORT: OnceLock<u16> = OnceLock::new();
    *PORT.get_or_init(|| {
        let l = TcpListener::bind("127.0.0.1:0").unwrap();
        let port = l.local_addr().unwrap().port();
        std::thread::spawn(move || {
            for s in l.incoming().flatten() {
                let mut s = s;
                let mut buf = [0u8; 2048];
                let _ = s.read(&mut buf);
                let _ = s.write_all(b"HTTP/1.1 200 OK\r\nContent-Length: 7\r\n\r\nCONTENT");
            }
        });
        port
    })
}

fn ips(arg: &str) -> Vec<IpAddr> {
    if arg == "-" {
        Vec::new()
    } else {
        arg.split(',').map(|s| unhex_str(s).parse().unwrap()).collect()
    }
}

fn state(mode: &str, list: &str, route_type: &str, cache: bool) -> Arc<AppState> {
    let d = work_dir();
    let route = match route_type {
        "file" => RouteConfig {
            route_type: RouteType::File,
            matches: "/*".into(),
            path: Some(format!("{}/file.txt", d)),
            load_balancer: None,
            websocket_proxy: None,
        },
        "directory" => RouteConfig {
            route_type: RouteType::Directory,
            matches: "/*".into(),
            path: Some(format!("{}/dir", d)),
            load_balancer: None,
            websocket_proxy: None,
        },
        "proxy" => RouteConfig {
            route_type: RouteType::Proxy,
            matches: "/*".into(),
            path: None,
            load_balancer: Some(EqMutex::new(LoadBalancer {
                targets: vec![format!("127.0.0.1:{}", upstream())],
                mode: LoadBalancerMode::RoundRobin,
                index: 0,
                lcg: Lcg::new(),
            })),
            websocket_proxy: None,
        },
        _ => RouteConfig {
            route_type: RouteType::Redirect,
            matches: "/*".into(),
            path: Some("/elsewhere".into()),
            load_balancer: None,
            websocket_proxy: None,
        },
    };
    let config = Config {
        default_host: HostConfig { matches: "*".into(), routes: vec![route] },
        logging: LoggingConfig { level: LogLevel::Error, console: false, file: None },
        cache: CacheConfig { size_limit: if cache { 1 << 20 } else { 0 }, time_limit: 60 },
        blacklist: BlacklistConfig {
            list: ips(list),
            mode: if mode == "block" { BlacklistMode::Block } else { BlacklistMode::Forbidden },
        },
        ..Config::default()
    };
    Arc::new(AppState::from(config))
}

pub fn dispatch(name: &str, args: &[&str]) -> Option<String> {
    match name {
        // bl <mode> <list> <route type> <cache 0|1> <peer ip> <X-Forwarded-For value or -> -> dropped | status=<code> content=<0|1>
        "bl" => {
            let st = state(args[0], args[1], args[2], args[3] == "1");
            let peer_ip: IpAddr = unhex_str(args[4]).parse().unwrap();
            // 1. the connection condition, over a real connection from that source address
            let listener = match peer_ip {
                IpAddr::V4(_) => TcpListener::bind("127.0.0.1:0").unwrap(),
                IpAddr::V6(_) => TcpListener::bind("[::1]:0").unwrap(),
            };
            let target = listener.local_addr().unwrap();
            let sock = match peer_ip {
                IpAddr::V4(_) => socket_from(peer_ip, target),
                IpAddr::V6(_) => TcpStream::connect(target).unwrap(),
            };
            let (mut server_side, observed_peer) = listener.accept().unwrap();
            assert_eq!(observed_peer.ip(), peer_ip);
            let admitted = humphrey_server::server::verif_verify_connection(&mut server_side, st.clone());
            drop(sock);
            if !admitted {
                return Some("dropped".to_string());
            }
            // 2. the request, parsed by the real request parser so that the address comes from the real code
            let mut raw = b"GET / HTTP/1.1\r\nHost: x\r\n".to_vec();
            if args[5] != "-" {
                // header names are case-insensitive: the spelling varies with the value (proxies send any of these)
                let spell: [&[u8]; 4] = [b"X-Forwarded-For: ", b"x-forwarded-for: ", b"X-FORWARDED-FOR: ", b"X-forwarded-for: "];
                raw.extend(spell[args[5].bytes().map(|b| b as usize).sum::<usize>() % 4]);
                raw.extend(unhex(args[5]));
                raw.extend(b"\r\n");
            }
            raw.extend(b"\r\n");
            let mut rd = crate::http::Scripted::new(vec![raw]);
            let request = Request::from_stream(&mut rd, observed_peer).unwrap();
            // with the cache on, an unlisted client (192.0.2.200 is never on a generated list) fetches the same URI first, so
            // that the answer to the client under test may come from the cache
            if args[3] == "1" {
                let mut warm = crate::http::Scripted::new(vec![b"GET / HTTP/1.1\r\nHost: x\r\n\r\n".to_vec()]);
                let warm_req = Request::from_stream(&mut warm, "192.0.2.200:1".parse().unwrap()).unwrap();
                let _ = humphrey_server::server::verif_request_handler(warm_req, st.clone(), 0, 0);
            }
            // run twice when the cache is on so that the second answer may come from the cache
            let mut out = String::new();
            for _ in 0..(if args[3] == "1" { 2 } else { 1 }) {
                let resp = humphrey_server::server::verif_request_handler(request.clone(), st.clone(), 0, 0);
                let code: u16 = resp.status_code.into();
                let has_content = resp.body.windows(7).any(|w| w == b"CONTENT") || resp.headers.get("Location").is_some();
                out = format!("status={} content={}", code, has_content as u8);
                if code == 403 {
                    break;
                }
            }
            let _ = (Headers::new(), Address::new("127.0.0.1:1"));
            Some(out)
        }
        _ => None,
    }
}

/// connect to `target` from the given loopback source address (any address in 127.0.0.0/8 is local on Linux)
pub fn socket_from(src: IpAddr, target: SocketAddr) -> TcpStream {
    // std has no bind-before-connect; use a raw socket through libc-free approach: bind a listener trick is not possible,
    // so go through socket2-less syscalls with std::os::fd.
    use std::os::fd::FromRawFd;
    unsafe {
        let fd = socket(2 /* AF_INET */, 1 /* SOCK_STREAM */, 0);
        assert!(fd >= 0);
        let ip = match src {
            IpAddr::V4(v4) => u32::from_ne_bytes(v4.octets()),
            _ => unreachable!(),
        };
        let addr = SockaddrIn { sin_family: 2, sin_port: 0, sin_addr: ip, sin_zero: [0; 8] };
        assert_eq!(bind(fd, &addr, 16), 0);
        let tip = match target.ip() {
            IpAddr::V4(v4) => u32::from_ne_bytes(v4.octets()),
            _ => unreachable!(),
        };
        let taddr = SockaddrIn { sin_family: 2, sin_port: target.port().to_be(), sin_addr: tip, sin_zero: [0; 8] };
        assert_eq!(connect(fd, &taddr, 16), 0);
        TcpStream::from_raw_fd(fd)
    }
}

#[repr(C)]
struct SockaddrIn {
    sin_family: u16,
    sin_port: u16,
    sin_addr: u32,
    sin_zero: [u8; 8],
}

extern "C" {
    fn socket(domain: i32, ty: i32, protocol: i32) -> i32;
    fn bind(fd: i32, addr: *const SockaddrIn, len: u32) -> i32;
    fn connect(fd: i32, addr: *const SockaddrIn, len: u32) -> i32;
}
