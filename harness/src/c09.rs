//! C09: proxy_request / proxy_handler against a scripted loopback upstream; select_target under concurrency.
use crate::http::Scripted;
use crate::util::*;
use humphrey::http::proxy::proxy_request;
use humphrey::http::Request;
use humphrey_server::config::{BlacklistConfig, BlacklistMode, CacheConfig, Config, LoadBalancerMode, LoggingConfig};
use humphrey_server::logger::LogLevel;
use humphrey_server::proxy::{proxy_handler, EqMutex, LoadBalancer};
use humphrey_server::rand::Lcg;
use humphrey_server::server::AppState;
use std::io::{Read, Write};
use std::net::{SocketAddr, TcpListener};
use std::sync::mpsc::channel;
use std::sync::{Arc, Mutex};
use std::time::{Duration, Instant};

/// read one request from the proxy: until the blank line, then Content-Length bytes if announced
fn read_request(s: &mut std::net::TcpStream) -> Vec<u8> {
    let mut got = Vec::new();
    let mut buf = [0u8; 4096];
    s.set_read_timeout(Some(Duration::from_millis(400))).ok();
    loop {
        if let Some(p) = got.windows(4).position(|w| w == b"\r\n\r\n") {
            let head = String::from_utf8_lossy(&got[..p]).to_lowercase();
            let need = head
                .split("\r\n")
                .find_map(|l| l.strip_prefix("content-length: ").and_then(|v| v.trim().parse::<usize>().ok()))
                .unwrap_or(0);
            if got.len() >= p + 4 + need {
                return got;
            }
        }
        match s.read(&mut buf) {
            Ok(0) | Err(_) => return got,
            Ok(n) => got.extend_from_slice(&buf[..n]),
        }
    }
}

/// start an upstream with the given behaviour; returns its address and a receiver for what it received
fn upstream(behaviour: &str) -> (SocketAddr, std::sync::mpsc::Receiver<Vec<u8>>) {
    let (tx, rx) = channel();
    if behaviour == "refused" {
        // a port with no listener
        let l = TcpListener::bind("127.0.0.1:0").unwrap();
        let a = l.local_addr().unwrap();
        drop(l);
        return (a, rx);
    }
    let l = TcpListener::bind("127.0.0.1:0").unwrap();
    let a = l.local_addr().unwrap();
    let parts: Vec<String> = behaviour.split(':').map(|s| s.to_string()).collect();
    std::thread::spawn(move || {
        if let Ok((mut s, _)) = l.accept() {
            let mode = parts[0].as_str();
            if mode == "closeatonce" {
                let _ = tx.send(Vec::new());
                return;
            }
            let req = read_request(&mut s);
            let _ = tx.send(req);
            let data = unhex(&parts[1]);
            match mode {
                "send" => {
                    let _ = s.write_all(&data);
                    if parts[2] == "stall" {
                        std::thread::sleep(Duration::from_millis(2500));
                    }
                }
                "trickle" => {
                    let ms: u64 = parts[2].parse().unwrap();
                    for b in data {
                        if s.write_all(&[b]).is_err() {
                            break;
                        }
                        std::thread::sleep(Duration::from_millis(ms));
                    }
                }
                _ => {}
            }
        }
    });
    (a, rx)
}

fn parse_req(hexreq: &str) -> Request {
    let mut rd = Scripted::new(vec![unhex(hexreq)]);
    Request::from_stream(&mut rd, "10.1.2.3:5555".parse().unwrap()).expect("request")
}

fn show(r: &humphrey::http::Response) -> String {
    let code: u16 = r.status_code.into();
    format!("v={} code={} h={} b={}", hex(r.version.as_bytes()), code, crate::http::show_headers(&r.headers), hex(&r.body))
}

pub fn dispatch(name: &str, args: &[&str]) -> Option<String> {
    match name {
        // proxy <timeout ms> <behaviour> <request hex>
        "proxy" => {
            let timeout: u64 = args[0].parse().unwrap();
            let (addr, rx) = upstream(args[1]);
            let req = parse_req(args[2]);
            let t0 = Instant::now();
            let resp = proxy_request(&req, addr, Duration::from_millis(timeout));
            let el = t0.elapsed().as_millis();
            let seen = rx.recv_timeout(Duration::from_millis(50)).unwrap_or_default();
            Some(format!("resp {} elapsed={} upstream={}", show(&resp), el, hex(&seen)))
        }
        // proxy_handler <route pattern> <behaviour> <request hex>: through the server's handler (prefix strip, 5 s timeout)
        "proxy_handler" => {
            let (addr, rx) = upstream(args[1]);
            let req = parse_req(args[2]);
            let config = Config {
                logging: LoggingConfig { level: LogLevel::Error, console: false, file: None },
                cache: CacheConfig { size_limit: 0, time_limit: 0 },
                blacklist: BlacklistConfig { list: Vec::new(), mode: BlacklistMode::Block },
                ..Config::default()
            };
            let st = Arc::new(AppState::from(config));
            let lb = EqMutex::new(LoadBalancer {
                targets: vec![addr.to_string()],
                mode: LoadBalancerMode::RoundRobin,
                index: 0,
                lcg: Lcg::new(),
            });
            let resp = proxy_handler(req, st, &lb, &unhex_str(args[0]));
            let seen = rx.recv_timeout(Duration::from_millis(50)).unwrap_or_default();
            Some(format!("resp {} upstream={}", show(&resp), hex(&seen)))
        }
        // select <rr|random> <targets> <threads> <calls per thread>: the order in which targets were handed out (lock order)
        "select" => {
            let n: usize = args[1].parse().unwrap();
            let threads: usize = args[2].parse().unwrap();
            let calls: usize = args[3].parse().unwrap();
            let lb = Arc::new(EqMutex::new(LoadBalancer {
                targets: (0..n).map(|i| format!("t{}", i)).collect(),
                mode: if args[0] == "rr" { LoadBalancerMode::RoundRobin } else { LoadBalancerMode::Random },
                index: 0,
                lcg: Lcg::new(),
            }));
            let order: Arc<Mutex<Vec<String>>> = Arc::new(Mutex::new(Vec::new()));
            let mut hs = Vec::new();
            for _ in 0..threads {
                let lb = lb.clone();
                let order = order.clone();
                hs.push(std::thread::spawn(move || {
                    for _ in 0..calls {
                        let mut g = lb.lock().unwrap();
                        let t = g.select_target();
                        order.lock().unwrap().push(t);
                        drop(g);
                        std::thread::yield_now();
                    }
                }));
            }
            for h in hs {
                h.join().unwrap();
            }
            let v = order.lock().unwrap().clone();
            Some(v.join(","))
        }
        _ => None,
    }
}
