//! C13: JSON parser / serialiser (humphrey_json::Value).
//!
//! Value encoding (one token, prefix notation, used for arguments and for dumps):
//!   N | T | F | D<hex of number literal>; | B<16 hex digits f64 bits>; | S<hex utf8>; |
//!   A<count>;<item>... | O<count>;(K<hex utf8>;<value>)...
//! Arguments carry numbers as `D<literal>[:<display>];` (the implementation uses the literal via f64::from_str),
//! dumps carry numbers as `B<bits>;`.
use crate::util::*;
use humphrey_json::error::ParseError;
use humphrey_json::Value;

fn dump(v: &Value, out: &mut String) {
    match v {
        Value::Null => out.push('N'),
        Value::Bool(true) => out.push('T'),
        Value::Bool(false) => out.push('F'),
        Value::Number(x) => out.push_str(&format!("B{:016x};", x.to_bits())),
        Value::String(s) => {
            out.push('S');
            out.push_str(&hex(s.as_bytes()));
            out.push(';');
        }
        Value::Array(a) => {
            out.push_str(&format!("A{};", a.len()));
            for x in a {
                dump(x, out);
            }
        }
        Value::Object(o) => {
            out.push_str(&format!("O{};", o.len()));
            for (k, x) in o {
                out.push('K');
                out.push_str(&hex(k.as_bytes()));
                out.push(';');
                dump(x, out);
            }
        }
    }
}

fn take_until<'a>(s: &'a str, pos: &mut usize) -> &'a str {
    let start = *pos;
    let end = s[start..].find(';').expect("harness: bad value encoding") + start;
    *pos = end + 1;
    &s[start..end]
}

fn undump(s: &str, pos: &mut usize) -> Value {
    let tag = s.as_bytes()[*pos];
    *pos += 1;
    match tag {
        b'N' => Value::Null,
        b'T' => Value::Bool(true),
        b'F' => Value::Bool(false),
        b'D' => {
            let t = take_until(s, pos);
            let lit = t.split(':').next().unwrap();
            let lit = unhex_str(lit);
            Value::Number(lit.parse::<f64>().expect("harness: literal"))
        }
        b'B' => {
            let t = take_until(s, pos);
            Value::Number(f64::from_bits(u64::from_str_radix(t, 16).unwrap()))
        }
        b'S' => Value::String(unhex_str(take_until(s, pos))),
        b'A' => {
            let n: usize = take_until(s, pos).parse().unwrap();
            let mut a = Vec::new();
            for _ in 0..n {
                a.push(undump(s, pos));
            }
            Value::Array(a)
        }
        b'O' => {
            let n: usize = take_until(s, pos).parse().unwrap();
            let mut o = Vec::new();
            for _ in 0..n {
                assert_eq!(s.as_bytes()[*pos], b'K');
                *pos += 1;
                let k = unhex_str(take_until(s, pos));
                let v = undump(s, pos);
                o.push((k, v));
            }
            Value::Object(o)
        }
        _ => panic!("harness: bad tag"),
    }
}

fn errclass(e: ParseError) -> &'static str {
    match e {
        ParseError::InvalidToken => "tok",
        ParseError::UnexpectedEOF => "eof",
        ParseError::InvalidEscapeSequence => "esc",
        ParseError::TrailingComma => "comma",
        ParseError::RecursionDepthExceeded => "depth",
        _ => "other",
    }
}

fn show(r: Result<Value, humphrey_json::error::TracebackError>) -> String {
    match r {
        Ok(v) => {
            let mut out = String::from("ok ");
            dump(&v, &mut out);
            out
        }
        Err(e) => format!("err {}", errclass(ParseError::from(e))),
    }
}

pub fn dispatch(name: &str, args: &[&str]) -> Option<String> {
    match name {
        // jeq h<text a> h<text b>: Value's PartialEq on the two parsed documents
        "jeq" => Some(match (Value::parse(unhex_str(args[0])), Value::parse(unhex_str(args[1]))) {
            (Ok(a), Ok(b)) => format!("eq={} ne={}", (a == b) as u8, (a != b) as u8),
            _ => "err".to_string(),
        }),
        // jparse h<text>
        "jparse" => Some(show(Value::parse(unhex_str(args[0])))),
        // jparsed <max_depth> h<text>
        "jparsed" => {
            let d: usize = args[0].parse().unwrap();
            Some(show(Value::parse_max_depth(unhex_str(args[1]), d)))
        }
        // jser <indent|-> <value>  ->  h<text>
        "jser" => {
            let mut pos = 0;
            let v = undump(args[1], &mut pos);
            let text = if args[0] == "-" {
                v.serialize()
            } else {
                v.serialize_pretty(args[0].parse().unwrap())
            };
            Some(format!("h{}", hex(text.as_bytes())))
        }
        // jalloc h<text>  ->  <ok|err> <bytes requested from the allocator by Value::parse> <peak live bytes>
        "jalloc" => {
            let text = unhex_str(args[0]);
            let (ok, total, peak) = crate::x_alloc::measure(|| Value::parse(&text).is_ok());
            Some(format!("{} {} {}", if ok { "ok" } else { "err" }, total, peak))
        }
        // jsizes  ->  size_of::<Value>() size_of::<(String, Value)>()
        "jsizes" => Some(format!(
            "{} {}",
            std::mem::size_of::<Value>(),
            std::mem::size_of::<(String, Value)>()
        )),
        // fdisp h<literal>  ->  <ok|bad> h<display text> <bits of literal> <bits of display reparsed>
        // (the f64 oracle: Display of the parsed literal, and whether it parses back to the same bits)
        "fdisp" => {
            let lit = unhex_str(args[0]);
            match lit.parse::<f64>() {
                Ok(x) => {
                    let d = x.to_string();
                    let back = d.parse::<f64>().map(|y| y.to_bits()).unwrap_or(0xffff_ffff_ffff_ffff);
                    Some(format!("ok h{} {:016x} {:016x}", hex(d.as_bytes()), x.to_bits(), back))
                }
                Err(_) => Some("bad".to_string()),
            }
        }
        _ => None,
    }
}
