//! C17: humphrey_auth::AuthProvider driven by operation sequences, plus the `with_auth_route` handler in-process.
//!
//! One request line = one whole history: `auth_seq <pepper|none> <default_lifetime> <refresh_lifetime> <op> <op> ...`
//! One result line = one item per op, separated by spaces: `<result>@<clock>|<state>`.
//!
//! The database is the crate's own `impl AuthDatabase for Vec<User>`, reached through a delegating wrapper so that
//! the harness can also look at the stored users (uid, session token, expiry) after every step.
//! Real tokens / uids are canonicalised to their index of first appearance (`t0,t1,..`, `u0,u1,..`); the real clock
//! (seconds since the epoch) is reported per op so that the model can be run with the same readings.
use crate::util::*;
use humphrey::http::{Request, Response, StatusCode};
use humphrey::monitor::MonitorConfig;
use humphrey::route::SubApp;
use humphrey::stream::Stream;
use humphrey::App;
use humphrey_auth::app::{AuthApp, AuthState};
use humphrey_auth::config::AuthConfig;
use humphrey_auth::database::AuthDatabase;
use humphrey_auth::error::AuthError;
use humphrey_auth::session::Session;
use humphrey_auth::user::User;
use humphrey_auth::AuthProvider;
use std::net::{SocketAddr, TcpListener, TcpStream};
use std::panic::{catch_unwind, AssertUnwindSafe};
use std::sync::mpsc::channel;
use std::sync::{Arc, Mutex, MutexGuard};
use std::time::{Duration, SystemTime, UNIX_EPOCH};

/// Delegates every call to the crate's `Vec<User>` implementation.
#[derive(Default, Clone)]
pub struct Db(Arc<Mutex<Vec<User>>>);

impl Db {
    fn g(&self) -> MutexGuard<'_, Vec<User>> {
        self.0.lock().unwrap_or_else(|e| e.into_inner())
    }
}

impl AuthDatabase for Db {
    fn get_user_by_uid(&self, uid: impl AsRef<str>) -> Option<User> {
        self.g().get_user_by_uid(uid)
    }
    fn get_user_by_token(&self, token: impl AsRef<str>) -> Option<User> {
        // the trait's second token lookup is not called by the provider: cross-check it here against the first one
        let g = self.g();
        let u = g.get_user_by_token(token.as_ref());
        let s = g.get_session_by_token(token.as_ref());
        let us = u.as_ref().and_then(|u| u.session.clone());
        assert!(
            s.as_ref().map(|x| (x.token.clone(), x.expiry)) == us.as_ref().map(|x| (x.token.clone(), x.expiry)),
            "get_session_by_token disagrees with get_user_by_token"
        );
        u
    }
    fn get_session_by_token(&self, token: impl AsRef<str>) -> Option<Session> {
        self.g().get_session_by_token(token)
    }
    fn update_user(&mut self, user: User) -> Result<(), AuthError> {
        self.g().update_user(user)
    }
    fn add_user(&mut self, user: User) -> Result<(), AuthError> {
        self.g().add_user(user)
    }
    fn remove_user(&mut self, uid: impl AsRef<str>) -> Result<(), AuthError> {
        self.g().remove_user(uid)
    }
}

pub struct St {
    auth: Mutex<AuthProvider<Db>>,
}

impl AuthState<Db> for St {
    fn auth_provider(&self) -> MutexGuard<AuthProvider<Db>> {
        self.auth.lock().unwrap_or_else(|e| e.into_inner())
    }
}

static SLOT: Mutex<Option<Arc<SubApp<St>>>> = Mutex::new(None);
static APP_LOCK: Mutex<()> = Mutex::new(());

#[allow(clippy::too_many_arguments)]
fn grab(
    _s: Stream,
    _subs: Arc<Vec<SubApp<St>>>,
    default: Arc<SubApp<St>>,
    _eh: Arc<humphrey::app::ErrorHandler>,
    _st: Arc<St>,
    _m: MonitorConfig,
    _t: Option<Duration>,
) {
    *SLOT.lock().unwrap_or_else(|e| e.into_inner()) = Some(default);
}

/// Builds a real `App` with `with_auth_route`, runs it just long enough to get hold of its (otherwise private)
/// route table through the public custom-connection-handler interface, and shuts it down again. The returned
/// `SubApp` holds the very closure `with_auth_route` registered. Retries with a fresh state if the loopback
/// port was taken by somebody else or the machine is too busy.
fn auth_app(mk: &dyn Fn() -> (St, Db)) -> Option<(Arc<SubApp<St>>, Arc<St>, Db)> {
    let _l = APP_LOCK.lock().unwrap_or_else(|e| e.into_inner());
    for _attempt in 0..30 {
        let port = match TcpListener::bind("127.0.0.1:0").and_then(|l| l.local_addr()) {
            Ok(a) => a.port(),
            Err(_) => continue,
        };
        *SLOT.lock().unwrap_or_else(|e| e.into_inner()) = None;
        let (state, db) = mk();
        let (tx, rx) = channel::<()>();
        let app: App<St> = App::new_with_config(1, state)
            .with_custom_connection_handler(grab)
            .with_shutdown(rx)
            .with_auth_route("/private/*", |_r: Request, _s: Arc<St>, uid: String| {
                Response::new(StatusCode::OK, format!("RAN:{}", uid))
            });
        let st = app.get_state();
        let addr = format!("127.0.0.1:{}", port);
        let a2 = addr.clone();
        let th = std::thread::spawn(move || {
            let _ = app.run(a2.as_str());
        });
        let mut got = None;
        'outer: for _ in 0..1500 {
            if th.is_finished() {
                break; // bind failed: the port was taken in the meantime
            }
            if let Ok(c) = TcpStream::connect(addr.as_str()) {
                for _ in 0..3000 {
                    if let Some(s) = SLOT.lock().unwrap_or_else(|e| e.into_inner()).take() {
                        got = Some(s);
                        drop(c);
                        break 'outer;
                    }
                    if th.is_finished() {
                        break;
                    }
                    std::thread::sleep(Duration::from_millis(1));
                }
                drop(c);
                break;
            }
            std::thread::sleep(Duration::from_millis(2));
        }
        let _ = tx.send(());
        let _ = th.join();
        if let Some(g) = got {
            return Some((g, st, db));
        }
    }
    None
}

fn now() -> u64 {
    SystemTime::now().duration_since(UNIX_EPOCH).unwrap().as_secs()
}

/// Avoids starting an operation in the last few milliseconds of a second, so that all clock readings inside one
/// operation fall into the same second (reported; a straddle is still detected and marked).
fn settle() {
    loop {
        let sub = SystemTime::now().duration_since(UNIX_EPOCH).unwrap().subsec_millis();
        if sub < 985 {
            return;
        }
        std::thread::sleep(Duration::from_millis(2));
    }
}

struct Names {
    uids: Vec<String>,
    toks: Vec<String>,
    tbase: usize,
}

impl Names {
    fn uid_idx(&mut self, u: &str) -> String {
        if let Some(i) = self.uids.iter().position(|x| x == u) {
            return format!("u{}", i);
        }
        self.uids.push(u.to_string());
        // a v4 UUID in the canonical lowercase hyphenated form
        let b = u.as_bytes();
        let ok = b.len() == 36
            && b.iter().enumerate().all(|(i, c)| {
                if [8, 13, 18, 23].contains(&i) {
                    *c == b'-'
                } else {
                    c.is_ascii_digit() || (b'a'..=b'f').contains(c)
                }
            })
            && b[14] == b'4';
        format!("u{}+{}", self.uids.len() - 1, if ok { "" } else { "!badfmt" })
    }
    fn tok_idx(&mut self, t: &str) -> String {
        if let Some(i) = self.toks.iter().position(|x| x == t) {
            return format!("t{}", i);
        }
        self.toks.push(t.to_string());
        let ok = t.len() == 64 && t.bytes().all(|c| c.is_ascii_digit() || (b'a'..=b'f').contains(&c));
        format!("t{}+{}", self.toks.len() - 1, if ok { "" } else { "!badfmt" })
    }
    fn upper_or_mangle(s: &str) -> String {
        let up = s.to_uppercase();
        if up != s {
            up
        } else {
            format!("{}_", s)
        }
    }
    /// `u<i>` real uid i (made-up if not yet allocated), `U<i>` upper-cased variant, `x<i>` made-up, `e` empty
    fn uid_spec(&self, s: &str) -> String {
        let (k, rest) = s.split_at(1.min(s.len()));
        let i: usize = rest.parse().unwrap_or(0);
        let fake = format!("00000000-0000-4000-8000-{:012x}", i);
        match k {
            "u" => self.uids.get(i).cloned().unwrap_or(fake),
            "U" => self.uids.get(i).map(|u| Self::upper_or_mangle(u)).unwrap_or(fake),
            "x" => fake,
            _ => String::new(),
        }
    }
    /// `t<i>` real token i, `T<i>` upper-cased, `p<i>` first 63 characters, `s<i>` with a trailing space,
    /// `x<i>` made-up 64 hex characters, `e` empty; i is relative to the current episode (`ep`)
    fn tok_spec(&self, s: &str) -> String {
        let (k, rest) = s.split_at(1.min(s.len()));
        let i: usize = rest.parse().unwrap_or(0);
        let fake = format!("{:064x}", i);
        let j = self.tbase + i;
        match k {
            "t" => self.toks.get(j).cloned().unwrap_or(fake),
            "T" => self.toks.get(j).map(|u| Self::upper_or_mangle(u)).unwrap_or(fake),
            "p" => self.toks.get(j).map(|u| u[..63].to_string()).unwrap_or(fake),
            "s" => self.toks.get(j).map(|u| format!("{} ", u)).unwrap_or(fake),
            "x" => fake,
            _ => String::new(),
        }
    }
}

fn err_code(e: &AuthError) -> u32 {
    match e {
        AuthError::GenericError => 1,
        AuthError::UserNotFound => 2,
        AuthError::UserAlreadyExists => 3,
        AuthError::InvalidToken => 4,
        AuthError::SessionAlreadyExists => 5,
    }
}

fn mkcfg(pepper: &str, life: &str, refresh: &str) -> AuthConfig {
    let mut c = AuthConfig::default()
        .with_default_lifetime(life.parse().unwrap())
        .with_default_refresh_lifetime(refresh.parse().unwrap());
    if pepper != "none" {
        c = c.with_pepper(unhex(pepper));
    }
    c
}

fn dump(db: &Db, names: &mut Names) -> String {
    let v = db.g();
    let mut parts = Vec::new();
    for u in v.iter() {
        let ui = names.uid_idx(&u.uid);
        let s = match &u.session {
            None => "-".to_string(),
            Some(s) => format!("{}/{}", names.tok_idx(&s.token), s.expiry),
        };
        parts.push(format!("{}:{}", ui, s));
    }
    if parts.is_empty() {
        "empty".to_string()
    } else {
        parts.join(";")
    }
}

fn route_request(cookie: &str, names: &Names) -> Vec<u8> {
    // cookie spec: `none` | `<tokspec>` | `o<tokspec>` (other cookie name only) | `m<tokspec>` (several cookies)
    let mut req = String::from("GET /private/page HTTP/1.1\r\nHost: localhost\r\n");
    if cookie != "none" {
        let (k, rest) = cookie.split_at(1);
        match k {
            "o" => req.push_str(&format!("Cookie: Other={}\r\n", names.tok_spec(rest))),
            "m" => req.push_str(&format!(
                "Cookie: theme=dark; HumphreyToken={}; Other=1\r\n",
                names.tok_spec(rest)
            )),
            _ => req.push_str(&format!("Cookie: HumphreyToken={}\r\n", names.tok_spec(cookie))),
        }
    }
    req.push_str("\r\n");
    req.into_bytes()
}

fn run_seq(args: &[&str]) -> String {
    let mk = || {
        let db = Db::default();
        let provider = AuthProvider::new(db.clone()).with_config(mkcfg(args[0], args[1], args[2]));
        (St { auth: Mutex::new(provider) }, db)
    };
    let needs_route = args[3..].iter().any(|o| o.starts_with("rt:"));
    let (sub, st, db): (Option<Arc<SubApp<St>>>, Arc<St>, Db) = if needs_route {
        match auth_app(&mk) {
            Some((s, st, db)) => (Some(s), st, db),
            None => return "NOAPP".to_string(),
        }
    } else {
        let (state, db) = mk();
        (None, Arc::new(state), db)
    };
    let mut names = Names { uids: vec![], toks: vec![], tbase: 0 };
    let mut out: Vec<String> = Vec::new();
    for op in &args[3..] {
        let f: Vec<&str> = op.split(':').collect();
        if f[0] == "sl" || f[0] == "ep" {
            if f[0] == "sl" {
                std::thread::sleep(Duration::from_millis(f[1].parse().unwrap()));
            } else {
                // new episode: token specs are relative to the tokens issued from here on
                names.tbase = names.toks.len();
            }
            out.push(format!("mark@{}|{}", now(), dump(&db, &mut names)));
            continue;
        }
        settle();
        let ta = now();
        let r = catch_unwind(AssertUnwindSafe(|| -> String {
            match f[0] {
                "cu" => match st.auth_provider().create_user(unhex_str(f[1])) {
                    Ok(u) => format!("ok:{}", names.uid_idx(&u)),
                    Err(e) => format!("err:{}", err_code(&e)),
                },
                "ex" => st.auth_provider().exists(names.uid_spec(f[1])).to_string(),
                "ve" => st.auth_provider().verify(names.uid_spec(f[1]), unhex_str(f[2])).to_string(),
                "ru" => match st.auth_provider().remove_user(names.uid_spec(f[1])) {
                    Ok(()) => "ok".to_string(),
                    Err(e) => format!("err:{}", err_code(&e)),
                },
                "cs" => match st.auth_provider().create_session(names.uid_spec(f[1])) {
                    Ok(t) => format!("ok:{}", names.tok_idx(&t)),
                    Err(e) => format!("err:{}", err_code(&e)),
                },
                "cl" => match st
                    .auth_provider()
                    .create_session_with_lifetime(names.uid_spec(f[1]), f[2].parse().unwrap())
                {
                    Ok(t) => format!("ok:{}", names.tok_idx(&t)),
                    Err(e) => format!("err:{}", err_code(&e)),
                },
                "rf" => match st.auth_provider().refresh_session(names.tok_spec(f[1])) {
                    Ok(()) => "ok".to_string(),
                    Err(e) => format!("err:{}", err_code(&e)),
                },
                "is" => {
                    st.auth_provider().invalidate_session(names.tok_spec(f[1]));
                    "ok".to_string()
                }
                "iu" => {
                    st.auth_provider().invalidate_user_session(names.uid_spec(f[1]));
                    "ok".to_string()
                }
                "gu" => match st.auth_provider().get_uid_by_token(names.tok_spec(f[1])) {
                    Ok(u) => format!("ok:{}", names.uid_idx(&u)),
                    Err(e) => format!("err:{}", err_code(&e)),
                },
                "cfg" => {
                    let mut g = st.auth_provider();
                    let p = std::mem::take(&mut *g);
                    *g = p.with_config(mkcfg(f[1], f[2], f[3]));
                    "ok".to_string()
                }
                "rt" => {
                    let raw = route_request(f[1], &names);
                    let addr: SocketAddr = "127.0.0.1:9".parse().unwrap();
                    let req = match Request::from_stream(&mut &raw[..], addr) {
                        Ok(r) => r,
                        Err(_) => return "badrequest".to_string(),
                    };
                    let sub = sub.as_ref().unwrap();
                    let rh = match sub
                        .routes
                        .iter()
                        .find(|r| humphrey::krauss::wildcard_match(&r.route, &req.uri))
                    {
                        Some(r) => r,
                        None => return "noroute".to_string(),
                    };
                    let resp = rh.handler.serve(req, st.clone());
                    let code: u16 = resp.status_code.clone().into();
                    let body = String::from_utf8_lossy(&resp.body).to_string();
                    if code == 200 {
                        match body.strip_prefix("RAN:") {
                            Some(u) => format!("run:{}", names.uid_idx(u)),
                            None => format!("status:200:{}", hex(body.as_bytes())),
                        }
                    } else if code == 401 {
                        "401".to_string()
                    } else {
                        format!("status:{}", code)
                    }
                }
                _ => "BADOP".to_string(),
            }
        }))
        .unwrap_or_else(|_| "PANIC".to_string());
        let tb = now();
        let clock = if ta == tb { format!("{}", ta) } else { format!("{}~{}", ta, tb) };
        out.push(format!("{}@{}|{}", r, clock, dump(&db, &mut names)));
    }
    out.join(" ")
}

pub fn dispatch(name: &str, args: &[&str]) -> Option<String> {
    match name {
        "auth_seq" => Some(run_seq(args)),
        // cost probe: n create_user + n verify, milliseconds
        "auth_argon_ms" => {
            let n: usize = args[0].parse().unwrap();
            let mut p: AuthProvider<Vec<User>> = AuthProvider::default();
            let t0 = std::time::Instant::now();
            let mut ok = true;
            for i in 0..n {
                let u = p.create_user(format!("pw{}", i)).unwrap();
                ok &= p.verify(&u, format!("pw{}", i));
            }
            Some(format!("{} {}", ok, t0.elapsed().as_millis()))
        }
        _ => None,
    }
}
