//! Implementation runner: one request per line "fn arg arg ...", one canonical result per line.
//! Every call runs under catch_unwind; a panic prints PANIC.
use std::io::{BufRead, Write};
use std::panic::{catch_unwind, AssertUnwindSafe};

mod util;

/// Counting allocator: lets a harness function report the peak heap growth of one parser call (C03).
pub mod meter {
    use std::alloc::{GlobalAlloc, Layout, System};
    use std::sync::atomic::{AtomicUsize, Ordering};
    pub struct Counting;
    static CUR: AtomicUsize = AtomicUsize::new(0);
    static PEAK: AtomicUsize = AtomicUsize::new(0);
    unsafe impl GlobalAlloc for Counting {
        unsafe fn alloc(&self, l: Layout) -> *mut u8 {
            let p = System.alloc(l);
            if !p.is_null() {
                let c = CUR.fetch_add(l.size(), Ordering::Relaxed) + l.size();
                PEAK.fetch_max(c, Ordering::Relaxed);
            }
            p
        }
        unsafe fn dealloc(&self, p: *mut u8, l: Layout) {
            System.dealloc(p, l);
            CUR.fetch_sub(l.size(), Ordering::Relaxed);
        }
        unsafe fn realloc(&self, p: *mut u8, l: Layout, new_size: usize) -> *mut u8 {
            let q = System.realloc(p, l, new_size);
            if !q.is_null() {
                if new_size >= l.size() {
                    let c = CUR.fetch_add(new_size - l.size(), Ordering::Relaxed) + (new_size - l.size());
                    PEAK.fetch_max(c, Ordering::Relaxed);
                } else {
                    CUR.fetch_sub(l.size() - new_size, Ordering::Relaxed);
                }
            }
            q
        }
    }
    /// Start measuring: returns the baseline.
    pub fn start() -> usize {
        let c = CUR.load(Ordering::Relaxed);
        PEAK.store(c, Ordering::Relaxed);
        c
    }
    /// Peak heap growth since `start`.
    pub fn peak_since(base: usize) -> usize {
        PEAK.load(Ordering::Relaxed).saturating_sub(base)
    }
}

#[global_allocator]
static ALLOC: meter::Counting = meter::Counting;
include!(concat!(env!("OUT_DIR"), "/mods.rs"));

fn dispatch(name: &str, args: &[&str]) -> String {
    for t in TABLES {
        if let Some(r) = t(name, args) {
            return r;
        }
    }
    format!("NOHANDLER:{}", name)
}

fn main() {
    std::panic::set_hook(Box::new(|_| {}));
    let stdin = std::io::stdin();
    let stdout = std::io::stdout();
    let mut out = std::io::BufWriter::new(stdout.lock());
    for line in stdin.lock().lines() {
        let line = line.unwrap();
        let toks: Vec<&str> = line.split(' ').collect();
        if toks.is_empty() || toks[0].is_empty() {
            writeln!(out).unwrap();
            continue;
        }
        let r = catch_unwind(AssertUnwindSafe(|| dispatch(toks[0], &toks[1..])));
        match r {
            Ok(s) => writeln!(out, "{}", s).unwrap(),
            Err(_) => writeln!(out, "PANIC").unwrap(),
        }
        // flush per line: if a later call kills the process, every earlier result has already been delivered and the
        // caller can attribute the death to the right input line
        out.flush().unwrap();
    }
    out.flush().unwrap();
}
