//! Implementation runner: one request per line "fn arg arg ...", one canonical result per line.
//! Every call runs under catch_unwind; a panic prints PANIC.
use std::io::{BufRead, Write};
use std::panic::{catch_unwind, AssertUnwindSafe};

mod util;
include!(concat!(env!("OUT_DIR"), "/mods.rs"));

/// Peak-allocation meter used by the C03 parts; the counting global allocator itself lives in x_alloc.rs.
pub mod meter {
    pub use crate::x_alloc::{peak_since, start};
}

fn dispatch(name: &str, args: &[&str]) -> String {
    for t in TABLES {
        if let Some(r) = t(name, args) {
            return r;
        }
    }
    format!("NOHANDLER:{}", name)
}

fn main() {
    if std::env::var("HV_PANIC").is_err() { std::panic::set_hook(Box::new(|_| {})); }
    let stdin = std::io::stdin();
    let stdout = std::io::stdout();
    let mut out = std::io::BufWriter::new(stdout.lock());
    for line in stdin.lock().lines() {
        let line = line.unwrap();
        let toks: Vec<&str> = line.split(' ').collect();
        if toks.is_empty() || toks[0].is_empty() {
            writeln!(out).unwrap();
            continue;
        }
        let r = catch_unwind(AssertUnwindSafe(|| dispatch(toks[0], &toks[1..])));
        match r {
            Ok(s) => writeln!(out, "{}", s).unwrap(),
            Err(_) => writeln!(out, "PANIC").unwrap(),
        }
        // flush per line: if a later call kills the process, every earlier result has already been delivered and the
        // caller can attribute the death to the right input line
        out.flush().unwrap();
    }
    out.flush().unwrap();
}
