//! C06: static file handlers against real directory trees built from the case description.
use crate::util::*;
use humphrey::http::headers::Headers;
use humphrey::http::{Request, Response};
use humphrey_server::config::{CacheConfig, Config, LoggingConfig};
use humphrey_server::logger::LogLevel;
use humphrey_server::server::AppState;
use std::collections::hash_map::DefaultHasher;
use std::hash::{Hash, Hasher};
use std::sync::Arc;

/// materialise the tree (once per distinct description) and return its base directory
fn build_tree(desc: &str) -> String {
    let root = std::env::var("HV_ROOT").unwrap_or_else(|_| "/verif".to_string());
    let mut h = DefaultHasher::new();
    desc.hash(&mut h);
    let base = format!("{}/work/c06/t{:016x}", root, h.finish());
    let marker = format!("{}/.ready", base);
    if std::path::Path::new(&marker).exists() {
        return base;
    }
    let tmp = format!("{}.{}.tmp", base, std::process::id());
    let _ = std::fs::remove_dir_all(&tmp);
    std::fs::create_dir_all(&tmp).unwrap();
    if desc != "-" {
        for e in desc.split(',') {
            let mut it = e.split(':');
            let kind = it.next().unwrap();
            let path = unhex_str(it.next().unwrap());
            let full = format!("{}/{}", tmp, path);
            if kind == "d" {
                std::fs::create_dir_all(&full).unwrap();
            } else {
                if let Some(p) = std::path::Path::new(&full).parent() {
                    std::fs::create_dir_all(p).unwrap();
                }
                std::fs::write(&full, unhex(it.next().unwrap())).unwrap();
            }
        }
    }
    std::fs::write(format!("{}/.ready", tmp), b"").unwrap();
    if std::fs::rename(&tmp, &base).is_err() {
        // another runner built it first
        let _ = std::fs::remove_dir_all(&tmp);
    }
    base
}

fn request(uri: String) -> Request {
    Request {
        method: humphrey::http::method::Method::Get,
        uri,
        query: String::new(),
        version: "HTTP/1.1".into(),
        headers: Headers::new(),
        content: None,
        address: humphrey::http::address::Address::new("127.0.0.1:1").unwrap(),
    }
}

fn show(r: Response) -> String {
    let code: u16 = r.status_code.into();
    match code {
        200 => format!(
            "200 ct={} body={}",
            r.headers.get("Content-Type").map(|s| hex(s.as_bytes())).unwrap_or_else(|| "none".into()),
            hex(&r.body)
        ),
        301 => format!("301 loc={}", r.headers.get("Location").map(|s| hex(s.as_bytes())).unwrap_or_default()),
        c => format!("{}", c),
    }
}

pub fn dispatch(name: &str, args: &[&str]) -> Option<String> {
    match name {
        // static <handler> <tree> <route pattern> <uri>
        "static" => {
            let base = build_tree(args[1]);
            let dir: &'static str = Box::leak(format!("{}/www", base).into_boxed_str());
            let route = unhex_str(args[2]);
            // @BASE@ stands for the absolute path of the temporary base directory (only the harness knows it)
            let uri = unhex_str(args[3]).replace("@BASE@", &base);
            let req = request(uri);
            Some(match args[0] {
                "serve_dir" => {
                    let h = humphrey::handlers::serve_dir::<()>(dir);
                    show(h(req, Arc::new(()), &route))
                }
                // library serve_file: one fixed file, whatever is asked; the "route" argument carries the path below the base
                "serve_file" => {
                    let path: &'static str = Box::leak(format!("{}/{}", base, route).into_boxed_str());
                    let h = humphrey::handlers::serve_file::<()>(path);
                    show(h(req, Arc::new(())))
                }
                "serve_as_file_path" => {
                    let h = humphrey::handlers::serve_as_file_path::<()>(dir);
                    show(h(req, Arc::new(())))
                }
                "directory" => {
                    let config = Config {
                        logging: LoggingConfig { level: LogLevel::Error, console: false, file: None },
                        cache: CacheConfig { size_limit: 0, time_limit: 0 },
                        ..Config::default()
                    };
                    let st = Arc::new(AppState::from(config));
                    show(humphrey_server::r#static::directory_handler(req, st, dir, &route, 0))
                }
                _ => return None,
            })
        }
        _ => None,
    }
}
