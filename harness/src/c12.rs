//! C12: a real `AsyncWebsocketApp` driven by 1..8 scripted loopback clients, server-side senders and a shutdown signal.
//! Output (one line): the hook-H4 log of the poll loop, the handler-side execution log, the server-side send log and what
//! every client connection sent and received. All scripts come from the caller (tools/props/c12.py), nothing is random here.
use crate::c01::free_port;
use humphrey::App;
use humphrey_ws::async_app::{AsyncSender, AsyncStream, AsyncWebsocketApp};
use humphrey_ws::handler::async_websocket_handler;
use humphrey_ws::message::Message;
use humphrey_ws::ping::Heartbeat;
use humphrey_ws::verif_trace::{digest_parts, now_ns};
use std::io::{Read, Write};
use std::net::{SocketAddr, TcpStream};
use std::os::fd::FromRawFd;
use std::sync::atomic::{AtomicBool, AtomicU64, Ordering};
use std::sync::mpsc::channel;
use std::sync::{Arc, Mutex};
use std::time::{Duration, Instant};

// ---------------------------------------------------------------------------------------------------------------------
// server side

struct HandlerEvent {
    kind: char,
    addr: SocketAddr,
    digest: String,
    thread: String,
    sseq: u64,
    eseq: u64,
    start_ns: u128,
    end_ns: u128,
}

struct Shared {
    seq: AtomicU64,
    gid: AtomicU64,
    events: Mutex<Vec<HandlerEvent>>,
    sends: Mutex<Vec<(String, u128)>>,
    sender: Mutex<Option<AsyncSender>>,
    /// address of the current connection of client slot k (set by the client before it sends anything)
    slots: Mutex<Vec<Option<SocketAddr>>>,
    connect_sleep_ms: u64,
    greet: bool,
    joined: bool,
    left: bool,
}

impl Shared {
    fn enter(&self) -> (u64, u128) {
        (self.seq.fetch_add(1, Ordering::SeqCst), now_ns())
    }
    fn leave(&self, kind: char, addr: SocketAddr, digest: String, started: (u64, u128)) {
        let eseq = self.seq.fetch_add(1, Ordering::SeqCst);
        let end_ns = now_ns();
        let thread = std::thread::current().name().unwrap_or("?").to_string();
        self.events.lock().unwrap().push(HandlerEvent { kind, addr, digest, thread, sseq: started.0, eseq, start_ns: started.1, end_ns });
    }
    /// builds a server-side message; `send` is called with it and the time at which `send` returned is recorded
    fn server_send(&self, kind: char, target: Option<SocketAddr>, origin: &str, send: impl FnOnce(Message)) {
        let gid = self.gid.fetch_add(1, Ordering::SeqCst);
        let payload = format!("S|{}|{}|{}", kind, gid, origin);
        let d = digest_parts(true, payload.as_bytes());
        let entry = format!(
            "{},{},{},{},{}",
            gid,
            kind,
            target.map(|a| a.to_string()).unwrap_or_else(|| "-".into()),
            d,
            origin
        );
        send(Message::new(payload));
        self.sends.lock().unwrap().push((entry, now_ns()));
    }
}

fn on_connect(stream: AsyncStream, st: Arc<Shared>) {
    let started = st.enter();
    if st.connect_sleep_ms > 0 {
        std::thread::sleep(Duration::from_millis(st.connect_sleep_ms));
    }
    if st.greet {
        st.server_send('u', Some(stream.peer_addr()), "hc", |m| stream.send(m));
    }
    if st.joined {
        st.server_send('b', None, "hc", |m| stream.broadcast(m));
    }
    st.leave('c', stream.peer_addr(), "-".into(), started);
}

fn on_disconnect(stream: AsyncStream, st: Arc<Shared>) {
    let started = st.enter();
    if st.left {
        st.server_send('b', None, "hx", |m| stream.broadcast(m));
    }
    st.leave('x', stream.peer_addr(), "-".into(), started);
}

fn on_message(stream: AsyncStream, message: Message, st: Arc<Shared>) {
    let started = st.enter();
    let bytes = message.bytes().to_vec();
    let d = digest_parts(message.is_text(), &bytes);
    // payload: <cmd>|c<client>|<seq>|padding ; cmd: n nothing, e echo, a broadcast, u<k> unicast to slot k, z sleep 5 ms,
    // m echo + broadcast + unicast to slot 0
    let head: Vec<u8> = bytes.iter().copied().take_while(|b| *b != b'|').collect();
    let cmd = String::from_utf8_lossy(&head).to_string();
    let unicast_to = |k: usize| {
        let target = st.slots.lock().unwrap().get(k).copied().flatten();
        if let Some(t) = target {
            let sender = st.sender.lock().unwrap();
            if let Some(s) = sender.as_ref() {
                st.server_send('u', Some(t), "hm", |m| s.send(t, m));
            }
        }
    };
    match cmd.chars().next() {
        Some('e') => st.server_send('u', Some(stream.peer_addr()), "hm", |m| stream.send(m)),
        Some('a') => st.server_send('b', None, "hm", |m| stream.broadcast(m)),
        Some('u') => unicast_to(cmd[1..].parse().unwrap_or(0)),
        Some('z') => std::thread::sleep(Duration::from_millis(5)),
        Some('m') => {
            st.server_send('u', Some(stream.peer_addr()), "hm", |m| stream.send(m));
            st.server_send('b', None, "hm", |m| stream.broadcast(m));
            unicast_to(0);
        }
        _ => {}
    }
    st.leave('m', stream.peer_addr(), d, started);
}

// ---------------------------------------------------------------------------------------------------------------------
// client side

fn mask_frame(fin: bool, opcode: u8, payload: &[u8], key: [u8; 4]) -> Vec<u8> {
    let mut f = vec![(if fin { 0x80 } else { 0 }) | opcode];
    let n = payload.len();
    if n < 126 {
        f.push(0x80 | n as u8);
    } else if n < 65536 {
        f.push(0x80 | 126);
        f.extend_from_slice(&(n as u16).to_be_bytes());
    } else {
        f.push(0x80 | 127);
        f.extend_from_slice(&(n as u64).to_be_bytes());
    }
    f.extend_from_slice(&key);
    f.extend(payload.iter().enumerate().map(|(i, b)| b ^ key[i % 4]));
    f
}

struct ConnRecord {
    client: usize,
    local: SocketAddr,
    sent: Vec<String>,
    recv: Arc<Mutex<Vec<String>>>,
    /// 'q' sent a Close frame, 'r' closed the socket without one, 'v' vanished (socket open, silent), 'a' alive at the end,
    /// 't' reset (RST)
    end: char,
    t_open: u128,
    t_last_write: u128,
    pending_tail: Option<Vec<u8>>,
    /// 0 still open / told to stop, 1 clean EOF, 2 read error (reset)
    got_eof: Arc<AtomicU64>,
    got_close: Arc<AtomicBool>,
    garbage: Arc<AtomicBool>,
}

struct Conn {
    write: Arc<Mutex<TcpStream>>,
    silent: Arc<AtomicBool>,
    stop: Arc<AtomicBool>,
    reader: Option<std::thread::JoinHandle<()>>,
    rec: ConnRecord,
}

/// a connection the script is done with: its record, and (unless it was closed) the socket kept open until the end
struct Parked {
    rec: ConnRecord,
    keep: Option<Arc<Mutex<TcpStream>>>,
    stop: Arc<AtomicBool>,
    reader: Option<std::thread::JoinHandle<()>>,
}

fn parked(c: Conn, keep: bool) -> Parked {
    Parked { rec: c.rec, keep: if keep { Some(c.write) } else { None }, stop: c.stop, reader: c.reader }
}

fn read_exact_stop(s: &mut TcpStream, buf: &mut [u8], stop: &AtomicBool) -> Result<(), u64> {
    // Err(1) = clean EOF, Err(2) = read error, Err(0) = told to stop
    let mut got = 0;
    while got < buf.len() {
        match s.read(&mut buf[got..]) {
            Ok(0) => return Err(1),
            Ok(n) => got += n,
            Err(ref e) if e.kind() == std::io::ErrorKind::WouldBlock || e.kind() == std::io::ErrorKind::TimedOut => {
                if stop.load(Ordering::SeqCst) {
                    return Err(0);
                }
            }
            Err(_) => return Err(2),
        }
    }
    Ok(())
}

fn reader_loop(
    mut s: TcpStream,
    write: Arc<Mutex<TcpStream>>,
    recv: Arc<Mutex<Vec<String>>>,
    silent: Arc<AtomicBool>,
    stop: Arc<AtomicBool>,
    got_eof: Arc<AtomicU64>,
    got_close: Arc<AtomicBool>,
    garbage: Arc<AtomicBool>,
) {
    s.set_read_timeout(Some(Duration::from_millis(20))).ok();
    loop {
        let mut h = [0u8; 2];
        if let Err(eof) = read_exact_stop(&mut s, &mut h, &stop) {
            got_eof.store(eof, Ordering::SeqCst);
            return;
        }
        let opcode = h[0] & 0x0f;
        if h[1] & 0x80 != 0 || ![0u8, 1, 2, 8, 9, 10].contains(&opcode) {
            garbage.store(true, Ordering::SeqCst);
            return;
        }
        let mut len = (h[1] & 0x7f) as u64;
        if len == 126 {
            let mut b = [0u8; 2];
            if let Err(eof) = read_exact_stop(&mut s, &mut b, &stop) {
                got_eof.store(if eof == 0 { 0 } else { 2 }, Ordering::SeqCst);
                return;
            }
            len = u16::from_be_bytes(b) as u64;
        } else if len == 127 {
            let mut b = [0u8; 8];
            if let Err(eof) = read_exact_stop(&mut s, &mut b, &stop) {
                got_eof.store(if eof == 0 { 0 } else { 2 }, Ordering::SeqCst);
                return;
            }
            len = u64::from_be_bytes(b);
        }
        if len > 1 << 20 {
            garbage.store(true, Ordering::SeqCst);
            return;
        }
        let mut payload = vec![0u8; len as usize];
        if let Err(eof) = read_exact_stop(&mut s, &mut payload, &stop) {
            got_eof.store(if eof == 0 { 0 } else { 2 }, Ordering::SeqCst);
            return;
        }
        match opcode {
            1 | 2 => recv.lock().unwrap().push(digest_parts(opcode == 1, &payload)),
            8 => got_close.store(true, Ordering::SeqCst),
            9 => {
                if !silent.load(Ordering::SeqCst) {
                    let f = mask_frame(true, 10, &payload, [7, 7, 7, 7]);
                    let _ = write.lock().unwrap().write_all(&f);
                }
            }
            _ => {}
        }
    }
}

extern "C" {
    fn socket(domain: i32, ty: i32, protocol: i32) -> i32;
    fn setsockopt(fd: i32, level: i32, name: i32, value: *const u8, len: u32) -> i32;
    fn bind(fd: i32, addr: *const u8, len: u32) -> i32;
    fn connect(fd: i32, addr: *const u8, len: u32) -> i32;
    fn close(fd: i32) -> i32;
}

fn sockaddr_in(port: u16) -> [u8; 16] {
    let mut a = [0u8; 16];
    a[0] = 2; // AF_INET (little-endian sa_family)
    a[2..4].copy_from_slice(&port.to_be_bytes());
    a[4..8].copy_from_slice(&[127, 0, 0, 1]);
    a
}

/// connect to 127.0.0.1:port from a chosen local port (0 = any), SO_REUSEADDR set (Linux x86-64/aarch64 constants)
fn connect_from(local_port: u16, port: u16) -> Option<TcpStream> {
    if local_port == 0 {
        return TcpStream::connect(("127.0.0.1", port)).ok();
    }
    unsafe {
        let fd = socket(2, 1, 0);
        if fd < 0 {
            return None;
        }
        let one = 1i32.to_ne_bytes();
        setsockopt(fd, 1, 2, one.as_ptr(), 4); // SOL_SOCKET, SO_REUSEADDR
        let la = sockaddr_in(local_port);
        if bind(fd, la.as_ptr(), 16) != 0 {
            close(fd);
            return None;
        }
        let ra = sockaddr_in(port);
        if connect(fd, ra.as_ptr(), 16) != 0 {
            close(fd);
            return None;
        }
        Some(TcpStream::from_raw_fd(fd))
    }
}

fn set_linger_zero(s: &TcpStream) {
    use std::os::fd::AsRawFd;
    let l: [i32; 2] = [1, 0];
    let mut b = [0u8; 8];
    b[..4].copy_from_slice(&l[0].to_ne_bytes());
    b[4..].copy_from_slice(&l[1].to_ne_bytes());
    unsafe {
        setsockopt(s.as_raw_fd(), 1, 13, b.as_ptr(), 8); // SO_LINGER
    }
}

fn ws_connect(port: u16, local_port: u16, client: usize) -> Option<Conn> {
    let mut s = connect_from(local_port, port)?;
    s.set_nodelay(true).ok();
    let req = format!(
        "GET /ws HTTP/1.1\r\nHost: localhost\r\nUpgrade: websocket\r\nConnection: Upgrade\r\nSec-WebSocket-Key: dGhlIHNhbXBsZSBub25jZQ==\r\nSec-WebSocket-Version: 13\r\n\r\n"
    );
    s.write_all(req.as_bytes()).ok()?;
    // read exactly the response head, byte by byte (nothing after it may be consumed here)
    s.set_read_timeout(Some(Duration::from_millis(3000))).ok();
    let mut head = Vec::new();
    let mut b = [0u8; 1];
    while !head.ends_with(b"\r\n\r\n") {
        match s.read(&mut b) {
            Ok(1) => head.push(b[0]),
            _ => return None,
        }
        if head.len() > 4096 {
            return None;
        }
    }
    if !head.starts_with(b"HTTP/1.1 101") {
        return None;
    }
    let local = s.local_addr().ok()?;
    let write = Arc::new(Mutex::new(s.try_clone().ok()?));
    let recv = Arc::new(Mutex::new(Vec::new()));
    let silent = Arc::new(AtomicBool::new(false));
    let stop = Arc::new(AtomicBool::new(false));
    let got_eof = Arc::new(AtomicU64::new(0));
    let got_close = Arc::new(AtomicBool::new(false));
    let garbage = Arc::new(AtomicBool::new(false));
    let reader = {
        let (w, r, si, st, ge, gc, ga) =
            (write.clone(), recv.clone(), silent.clone(), stop.clone(), got_eof.clone(), got_close.clone(), garbage.clone());
        std::thread::spawn(move || reader_loop(s, w, r, si, st, ge, gc, ga))
    };
    Some(Conn {
        write,
        silent,
        stop,
        reader: Some(reader),
        rec: ConnRecord {
            client,
            local,
            sent: Vec::new(),
            recv,
            end: 'a',
            t_open: now_ns(),
            t_last_write: 0,
            pending_tail: None,
            got_eof,
            got_close,
            garbage,
        },
    })
}

fn payload_for(cmd: &str, client: usize, seq: usize, len: usize, binary: bool) -> Vec<u8> {
    let mut p = format!("{}|c{}|{}|", cmd, client, seq).into_bytes();
    while p.len() < len {
        p.push(b'a' + (p.len() % 23) as u8);
    }
    if binary {
        p.push(0xff);
    }
    p
}

/// One client: runs its script; returns the records of all its connections (finished ones and the live one).
fn run_client(client: usize, script: &str, port: u16, shared: Arc<Shared>, live: Arc<Mutex<Vec<Parked>>>) {
    let mut cur: Option<Conn> = None;
    let mut seq = 0usize;
    let mut key = [client as u8 + 1, 0x5a, 0xc3, 0x11];
    let mut last_local_port = 0u16;
    let park = |c: Conn, keep: bool| live.lock().unwrap().push(parked(c, keep));
    for step in script.split('.') {
        if step.is_empty() || step == "-" {
            continue;
        }
        let (op, arg) = step.split_at(1);
        match op {
            "d" => std::thread::sleep(Duration::from_millis(arg.parse().unwrap_or(1))),
            "w" => std::thread::sleep(Duration::from_micros(arg.parse().unwrap_or(100))),
            // C = connect; Cs = connect again from the local port of the previous connection
            "C" => {
                if let Some(c) = cur.take() {
                    park(c, true);
                }
                let lp = if arg == "s" { last_local_port } else { 0 };
                let mut c = ws_connect(port, lp, client);
                if c.is_none() && lp != 0 {
                    c = ws_connect(port, 0, client);
                }
                if let Some(c) = c {
                    last_local_port = c.rec.local.port();
                    shared.slots.lock().unwrap()[client] = Some(c.rec.local);
                    cur = Some(c);
                }
            }
            // T<cmd>:<len> text, B<cmd>:<len> binary, F<cmd>:<len>:<k> fragmented (one write), G… fragmented (one write per
            // frame), M<cmd>:<len>:<k> k messages in one write
            "T" | "B" | "F" | "G" | "M" => {
                if let Some(c) = cur.as_mut() {
                    let parts: Vec<&str> = arg.split(':').collect();
                    let cmd = parts.first().copied().unwrap_or("n");
                    let len: usize = parts.get(1).and_then(|x| x.parse().ok()).unwrap_or(0);
                    let k: usize = parts.get(2).and_then(|x| x.parse().ok()).unwrap_or(2).max(1);
                    let binary = op == "B";
                    let mut writes: Vec<Vec<u8>> = Vec::new();
                    let mut next = |c: &mut Conn, seq: &mut usize, key: &mut [u8; 4]| -> Vec<u8> {
                        let p = payload_for(cmd, client, *seq, len, binary);
                        *seq += 1;
                        key[1] = key[1].wrapping_add(17);
                        c.rec.sent.push(digest_parts(!binary, &p));
                        p
                    };
                    match op {
                        "T" | "B" => {
                            let p = next(c, &mut seq, &mut key);
                            writes.push(mask_frame(true, if binary { 2 } else { 1 }, &p, key));
                        }
                        "M" => {
                            let mut w = Vec::new();
                            for _ in 0..k {
                                let p = next(c, &mut seq, &mut key);
                                w.extend(mask_frame(true, 1, &p, key));
                            }
                            writes.push(w);
                        }
                        _ => {
                            let p = next(c, &mut seq, &mut key);
                            let k = k.min(p.len().max(1));
                            let per = (p.len() + k - 1) / k.max(1);
                            let chunks: Vec<&[u8]> = if p.is_empty() { vec![&p[..]] } else { p.chunks(per.max(1)).collect() };
                            let mut frames = Vec::new();
                            for (i, ch) in chunks.iter().enumerate() {
                                frames.push(mask_frame(i + 1 == chunks.len(), if i == 0 { 1 } else { 0 }, ch, key));
                            }
                            if op == "F" {
                                writes.push(frames.concat());
                            } else {
                                writes = frames;
                            }
                        }
                    }
                    for w in writes {
                        let _ = c.write.lock().unwrap().write_all(&w);
                    }
                    c.rec.t_last_write = now_ns();
                }
            }
            // H<cmd>:<len>: first frame (not final) of a two-frame message; h: its final frame
            "H" => {
                if let Some(c) = cur.as_mut() {
                    let parts: Vec<&str> = arg.split(':').collect();
                    let cmd = parts.first().copied().unwrap_or("n");
                    let len: usize = parts.get(1).and_then(|x| x.parse().ok()).unwrap_or(8).max(8);
                    let p = payload_for(cmd, client, seq, len, false);
                    seq += 1;
                    c.rec.sent.push(digest_parts(true, &p));
                    let (a, b) = p.split_at(p.len() / 2);
                    let _ = c.write.lock().unwrap().write_all(&mask_frame(false, 1, a, key));
                    c.rec.pending_tail = Some(b.to_vec());
                }
            }
            "h" => {
                if let Some(c) = cur.as_mut() {
                    if let Some(b) = c.rec.pending_tail.take() {
                        let _ = c.write.lock().unwrap().write_all(&mask_frame(true, 0, &b, key));
                        c.rec.t_last_write = now_ns();
                    }
                }
            }
            "P" => {
                if let Some(c) = cur.as_mut() {
                    let _ = c.write.lock().unwrap().write_all(&mask_frame(true, 9, b"", key));
                }
            }
            // Q: Close frame, then wait until the server closes (or 300 ms), then drop the socket
            "Q" => {
                if let Some(mut c) = cur.take() {
                    let _ = c.write.lock().unwrap().write_all(&mask_frame(true, 8, b"", key));
                    c.rec.t_last_write = now_ns();
                    c.rec.end = 'q';
                    let t = Instant::now();
                    while c.rec.got_eof.load(Ordering::SeqCst) == 0 && t.elapsed() < Duration::from_millis(300) {
                        std::thread::sleep(Duration::from_millis(2));
                    }
                    c.stop.store(true, Ordering::SeqCst);
                    if let Some(r) = c.reader.take() {
                        let _ = r.join();
                    }
                    let _ = c.write.lock().unwrap().shutdown(std::net::Shutdown::Both);
                    park(c, false);
                }
            }
            // R: close the socket without a Close frame (FIN); X: reset it (RST)
            "R" | "X" => {
                if let Some(mut c) = cur.take() {
                    c.rec.end = if op == "R" { 'r' } else { 't' };
                    c.stop.store(true, Ordering::SeqCst);
                    if let Some(r) = c.reader.take() {
                        let _ = r.join();
                    }
                    if op == "X" {
                        // the reader's descriptor went with its thread; this is the last one: linger 0 + close = RST
                        set_linger_zero(&c.write.lock().unwrap());
                    } else {
                        let _ = c.write.lock().unwrap().shutdown(std::net::Shutdown::Both);
                    }
                    park(c, false);
                }
            }
            // V: vanish — stop answering pings and stop reading, keep the socket open
            "V" => {
                if let Some(mut c) = cur.take() {
                    c.rec.end = 'v';
                    c.silent.store(true, Ordering::SeqCst);
                    c.stop.store(true, Ordering::SeqCst);
                    if let Some(r) = c.reader.take() {
                        let _ = r.join();
                    }
                    park(c, true);
                }
            }
            _ => {}
        }
    }
    if let Some(c) = cur.take() {
        park(c, true);
    }
}

fn run_external(script: &str, shared: Arc<Shared>) {
    for step in script.split('.') {
        if step.is_empty() || step == "-" {
            continue;
        }
        let (op, arg) = step.split_at(1);
        match op {
            "d" => std::thread::sleep(Duration::from_millis(arg.parse().unwrap_or(1))),
            "b" => {
                let sender = shared.sender.lock().unwrap();
                if let Some(s) = sender.as_ref() {
                    shared.server_send('b', None, "x", |m| s.broadcast(m));
                }
            }
            "u" => {
                let k: usize = arg.parse().unwrap_or(0);
                let target = shared.slots.lock().unwrap().get(k).copied().flatten();
                if let Some(t) = target {
                    let sender = shared.sender.lock().unwrap();
                    if let Some(s) = sender.as_ref() {
                        shared.server_send('u', Some(t), "x", |m| s.send(t, m));
                    }
                }
            }
            _ => {}
        }
    }
}

// ---------------------------------------------------------------------------------------------------------------------

/// Does this process own a socket listening on `port`? (/proc/net/tcp lists the listening sockets of the namespace with
/// their inodes, /proc/self/fd the sockets of this process.)
fn we_listen_on(port: u16) -> bool {
    let mut inodes = Vec::new();
    if let Ok(t) = std::fs::read_to_string("/proc/net/tcp") {
        for l in t.lines().skip(1) {
            let f: Vec<&str> = l.split_whitespace().collect();
            if f.len() > 9 && f[3] == "0A" {
                if let Some(p) = f[1].rsplit(':').next() {
                    if u16::from_str_radix(p, 16).ok() == Some(port) {
                        inodes.push(format!("socket:[{}]", f[9]));
                    }
                }
            }
        }
    } else {
        return true; // cannot tell: assume so
    }
    if let Ok(d) = std::fs::read_dir("/proc/self/fd") {
        for e in d.flatten() {
            if let Ok(l) = std::fs::read_link(e.path()) {
                if inodes.iter().any(|i| l.to_string_lossy() == *i) {
                    return true;
                }
            }
        }
    }
    false
}

pub fn dispatch(name: &str, args: &[&str]) -> Option<String> {
    match name {
        // c12 <pool> <poll_us|none> <hb off|int_ms:timeout_ms> <link ext|int> <csleep_ms:flags> <settle_ms> <ext script> <client script>*
        "c12" => {
            let pool: usize = args[0].parse().unwrap();
            let poll = if args[1] == "none" { None } else { Some(Duration::from_micros(args[1].parse().unwrap())) };
            let hb = if args[2] == "off" {
                None
            } else {
                let (a, b) = args[2].split_once(':').unwrap();
                Some((a.parse::<u64>().unwrap(), b.parse::<u64>().unwrap()))
            };
            let internal = args[3] == "int";
            let (csleep, flags) = args[4].split_once(':').unwrap();
            let settle: u64 = args[5].parse().unwrap();
            let ext_script = args[6].to_string();
            let scripts: Vec<String> = args[7..].iter().map(|s| s.to_string()).collect();
            let mut attempts = 0;
            let (shared, port, sd_tx, app_sd_tx, done_rx, http_done, run_id) = loop {
                let shared_value = Shared {
                    seq: AtomicU64::new(0),
                    gid: AtomicU64::new(0),
                    events: Mutex::new(Vec::new()),
                    sends: Mutex::new(Vec::new()),
                    sender: Mutex::new(None),
                    slots: Mutex::new(vec![None; scripts.len().max(1)]),
                    connect_sleep_ms: csleep.parse().unwrap(),
                    greet: flags.contains('g'),
                    joined: flags.contains('j'),
                    left: flags.contains('l'),
                };
                // the app
                let port = free_port();
                let (sd_tx, sd_rx) = channel::<()>();
                let (app_sd_tx, app_sd_rx) = channel::<()>();
                let (done_tx, done_rx) = channel::<()>();
                let mut ws: AsyncWebsocketApp<Shared> = if internal {
                    AsyncWebsocketApp::new_with_config(shared_value, pool, 4)
                } else {
                    AsyncWebsocketApp::new_unlinked_with_config(shared_value, pool)
                };
                let shared: Arc<Shared> = ws.get_state();
                ws = ws.with_polling_interval(poll).with_shutdown(sd_rx);
                if let Some((i, t)) = hb {
                    ws = ws.with_heartbeat(Heartbeat::new(Duration::from_millis(i), Duration::from_millis(t)));
                }
                // flags c / m / x: that handler is NOT installed
                if !flags.contains('c') {
                    ws.on_connect(on_connect);
                }
                if !flags.contains('x') {
                    ws.on_disconnect(on_disconnect);
                }
                if !flags.contains('m') {
                    ws.on_message(on_message);
                }
                *shared.sender.lock().unwrap() = Some(ws.sender());
                let mut http_done = None;
                if internal {
                    ws = ws.with_address(("127.0.0.1", port));
                } else {
                    let hook = ws.connect_hook().unwrap();
                    let http: App<()> = App::new_with_config(4, ()).with_websocket_route("/*", async_websocket_handler(hook)).with_shutdown(app_sd_rx);
                    let (htx, hrx) = channel::<()>();
                    std::thread::spawn(move || {
                        let _ = http.run(("127.0.0.1", port));
                        let _ = htx.send(());
                    });
                    http_done = Some(hrx);
                }
                let run_thread = std::thread::spawn(move || {
                    ws.run();
                    let _ = done_tx.send(());
                });
                let run_id = run_thread.thread().id();
                // wait until the port accepts connections
                let t = Instant::now();
                let mut up = false;
                while t.elapsed() < Duration::from_secs(3) {
                    if let Ok(s) = TcpStream::connect(("127.0.0.1", port)) {
                        drop(s);
                        up = true;
                        break;
                    }
                    std::thread::sleep(Duration::from_millis(2));
                }
                // the listener must be OURS: between free_port()'s probe and the App's own bind another process may have taken
                // the port, and then the clients would talk to a foreign server
                if up && we_listen_on(port) {
                    break (shared, port, sd_tx, app_sd_tx, done_rx, http_done, run_id);
                }
                sd_tx.send(()).ok();
                app_sd_tx.send(()).ok();
                let _ = done_rx.recv_timeout(Duration::from_secs(2));
                let _ = humphrey_ws::verif_trace::take(run_id);
                attempts += 1;
                if attempts >= 6 {
                    return Some("noserver".into());
                }
            };
            // clients and the external sender
            let live: Arc<Mutex<Vec<Parked>>> = Arc::new(Mutex::new(Vec::new()));
            let mut threads = Vec::new();
            for (k, sc) in scripts.iter().enumerate() {
                let (sc, sh, lv) = (sc.clone(), shared.clone(), live.clone());
                threads.push(std::thread::spawn(move || run_client(k, &sc, port, sh, lv)));
            }
            {
                let sh = shared.clone();
                threads.push(std::thread::spawn(move || run_external(&ext_script, sh)));
            }
            for t in threads {
                let _ = t.join();
            }
            std::thread::sleep(Duration::from_millis(settle));
            // shutdown
            let t_sig = Instant::now();
            let sig_ns = now_ns();
            sd_tx.send(()).ok();
            let returned = done_rx.recv_timeout(Duration::from_secs(4)).ok().map(|_| t_sig.elapsed().as_millis());
            app_sd_tx.send(()).ok();
            if let Some(h) = http_done {
                let _ = h.recv_timeout(Duration::from_secs(3));
            }
            // is the listening port still served after `run` has returned? (internal link: the inner App has no shutdown)
            let listen_after = returned.is_some() && {
                std::thread::sleep(Duration::from_millis(5));
                TcpStream::connect(("127.0.0.1", port)).is_ok()
            };
            let hook = humphrey_ws::verif_trace::take(run_id);
            // every dispatched handler must get to run: wait for the handler log to reach the number of dispatches
            let dispatched = hook.iter().filter(|e| e.starts_with("d,")).count();
            let t = Instant::now();
            while shared.events.lock().unwrap().len() < dispatched && t.elapsed() < Duration::from_secs(3) {
                std::thread::sleep(Duration::from_millis(2));
            }
            // the server side of every stream is closed now (if run returned): let the readers drain to EOF
            let mut conns = std::mem::take(&mut *live.lock().unwrap());
            let t = Instant::now();
            for c in conns.iter_mut() {
                if let Some(r) = c.reader.take() {
                    while returned.is_some() && !r.is_finished() && t.elapsed() < Duration::from_millis(1500) {
                        std::thread::sleep(Duration::from_millis(2));
                    }
                    c.stop.store(true, Ordering::SeqCst);
                    let _ = r.join();
                }
            }
            let ev = shared.events.lock().unwrap();
            let e_s: Vec<String> = ev
                .iter()
                .map(|e| format!("{},{},{},{},{},{},{},{}", e.kind, e.addr, e.digest, e.thread, e.sseq, e.eseq, e.start_ns, e.end_ns))
                .collect();
            let c_s: Vec<String> = conns
                .iter()
                .map(|c| {
                    format!(
                        "{},{},{},{}{}{},{},{},{},{}",
                        c.rec.client,
                        c.rec.local,
                        c.rec.end,
                        c.rec.got_eof.load(Ordering::SeqCst),
                        c.rec.got_close.load(Ordering::SeqCst) as u8,
                        c.rec.garbage.load(Ordering::SeqCst) as u8,
                        c.rec.sent.join("+"),
                        c.rec.recv.lock().unwrap().join("+"),
                        c.rec.t_open,
                        c.rec.t_last_write
                    )
                })
                .collect();
            let dash = |v: Vec<String>| if v.is_empty() { "-".to_string() } else { v.join(";") };
            let sends: Vec<String> = shared.sends.lock().unwrap().iter().map(|(e, t)| format!("{},{}", e, t)).collect();
            Some(format!(
                "ok returned={} sig={} listen_after={} H={} E={} S={} C={}",
                returned.map(|m| m.to_string()).unwrap_or_else(|| "never".into()),
                sig_ns,
                listen_after as u8,
                dash(hook),
                dash(e_s),
                dash(sends),
                dash(c_s)
            ))
        }
        _ => None,
    }
}
