//! C18 (core crate parts): percent-encoding and HTTP dates, through the public API only.
use crate::util::*;
use humphrey::http::date::DateTime;
use humphrey::percent::{PercentDecode, PercentEncode};

fn date_line(t: i64) -> String {
    let d = DateTime::from(t);
    // the public fields, then the formatted string (hex), then get_timestamp
    let s = d.to_string();
    format!(
        "{} {} {} {} {} {} {} {} h{}",
        d.get_timestamp(),
        d.year,
        d.month,
        d.day,
        d.weekday,
        d.hour,
        d.minute,
        d.second,
        hex(s.as_bytes())
    )
}

pub fn dispatch(name: &str, args: &[&str]) -> Option<String> {
    match name {
        // bytes -> percent-encoded string (as hex of its UTF-8 bytes)
        "pct_enc" => {
            let b = unhex(args[0]);
            Some(format!("h{}", hex(b.percent_encode().as_bytes())))
        }
        // &str (argument must be UTF-8) -> none | some:<hex>
        "pct_dec" => {
            let s = unhex_str(args[0]);
            Some(match s.percent_decode() {
                Some(v) => format!("some:h{}", hex(&v)),
                None => "none".to_string(),
            })
        }
        // bytes -> decode(encode(bytes)) in one call (round trip through the real String)
        "pct_rt" => {
            let b = unhex(args[0]);
            let e = b.percent_encode();
            Some(match e.percent_decode() {
                Some(v) => format!("some:h{}", hex(&v)),
                None => "none".to_string(),
            })
        }
        "date" => {
            let t: i64 = args[0].parse().ok()?;
            Some(date_line(t))
        }
        _ => None,
    }
}
