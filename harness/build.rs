// Generates the module list and dispatch table from src/c*.rs / src/x_*.rs so that adding a property module
// never requires editing a shared file.
use std::io::Write;
fn main() {
    let mut names: Vec<String> = std::fs::read_dir("src")
        .unwrap()
        .filter_map(|e| e.ok())
        .map(|e| e.file_name().into_string().unwrap())
        .filter(|n| n.ends_with(".rs") && n != "main.rs" && n != "util.rs")
        .map(|n| n.trim_end_matches(".rs").to_string())
        .collect();
    names.sort();
    let out = std::env::var("OUT_DIR").unwrap();
    let src = std::env::var("CARGO_MANIFEST_DIR").unwrap();
    let mut f = std::fs::File::create(format!("{}/mods.rs", out)).unwrap();
    for n in &names {
        writeln!(f, "#[path = \"{}/src/{}.rs\"] mod {};", src, n, n).unwrap();
    }
    writeln!(f, "pub const TABLES: &[fn(&str, &[&str]) -> Option<String>] = &[").unwrap();
    for n in &names {
        writeln!(f, "    {}::dispatch,", n).unwrap();
    }
    writeln!(f, "];").unwrap();
    println!("cargo:rerun-if-changed=src");
}
