(* C01: theorems about the connection-loop model (Conn.v).
   Part 1: what every response carries (respond_headers).  Part 2: one iteration of the loop (step lemmas, keep-alive iff).
   Part 3: fuel.  Part 4: known findings F01 / F32 as theorems.  Part 5: one response per request on aligned input. *)
From Coq Require Import Lia Arith.
From Hv Require Import Prelude Bytes StreamBuf StreamBufProofs TablesHttp Http HttpStreamProofs Krauss Conn ConnSpec
  StreamAlignProofs.
Open Scope N_scope.
Arguments N.eqb : simpl never.
Arguments N.leb : simpl never.
Arguments N.ltb : simpl never.

(* ================================================================================================================ *)
(* Part 1: headers                                                                                                    *)
(* ================================================================================================================ *)

Lemma hget_app n a b : hget n (a ++ b) = match hget n a with Some v => Some v | None => hget n b end.
Proof.
  induction a as [|[n' v] a IH]; cbn [hget app]; [reflexivity|].
  destruct (hname_eqb n n'); [reflexivity|exact IH].
Qed.

(* "insert unless present", the shape of every automatic header *)
Definition add_if_absent (n : N) (v : bytes) (hs : headers) : headers :=
  if has n hs then hs else hs ++ [(HKnown n, v)].
Definition add_opt (n : N) (o : option bytes) (hs : headers) : headers :=
  match o with Some v => add_if_absent n v hs | None => hs end.

Lemma hget_add_if_absent m n v hs :
  hget (HKnown m) (add_if_absent n v hs) =
  match hget (HKnown m) hs with Some w => Some w | None => if m =? n then Some v else None end.
Proof.
  unfold add_if_absent, has. destruct (hget (HKnown n) hs) as [w|] eqn:En.
  - destruct (hget (HKnown m) hs) as [w'|] eqn:Em; [reflexivity|].
    destruct (m =? n) eqn:E; [|reflexivity]. apply N.eqb_eq in E. subst. congruence.
  - rewrite hget_app. destruct (hget (HKnown m) hs); [reflexivity|]. cbn [hget hname_eqb].
    destruct (m =? n); reflexivity.
Qed.

Lemma hget_add_opt m n o hs :
  hget (HKnown m) (add_opt n o hs) =
  match hget (HKnown m) hs with Some w => Some w | None => if m =? n then o else None end.
Proof.
  destruct o as [v|]; cbn [add_opt].
  - apply hget_add_if_absent.
  - destruct (hget (HKnown m) hs); [reflexivity|]. destruct (m =? n); reflexivity.
Qed.

Lemma cors_set_eq c hs :
  cors_set c hs =
  add_opt H_AccessControlAllowHeaders (c_headers c)
    (add_opt H_AccessControlAllowMethods (c_methods c)
       (add_opt H_AccessControlAllowOrigin (c_origin c) hs)).
Proof. reflexivity. Qed.

Lemma add_default_headers_eq date conn r :
  s_headers (add_default_headers date conn r) =
  add_if_absent H_ContentLength (dec_render (N.of_nat (length (s_body r))))
    (add_if_absent H_Date date
       (add_if_absent H_Server str_Humphrey
          (add_if_absent H_Connection (match conn with Some c => c | None => str_Close end) (s_headers r)))).
Proof. reflexivity. Qed.

(* hget through cors_set, for any known header *)
Lemma hget_cors_set m c hs :
  hget (HKnown m) (cors_set c hs) =
  match hget (HKnown m) hs with
  | Some w => Some w
  | None => if m =? H_AccessControlAllowOrigin then c_origin c
            else if m =? H_AccessControlAllowMethods then c_methods c
            else if m =? H_AccessControlAllowHeaders then c_headers c else None
  end.
Proof.
  rewrite cors_set_eq, !hget_add_opt. destruct (hget (HKnown m) hs) as [w|]; [reflexivity|].
  destruct (m =? H_AccessControlAllowOrigin) eqn:E1.
  - destruct (c_origin c); [reflexivity|]. apply N.eqb_eq in E1. subst. reflexivity.
  - destruct (m =? H_AccessControlAllowMethods) eqn:E2; [|reflexivity].
    destruct (c_methods c); [reflexivity|]. apply N.eqb_eq in E2. subst. reflexivity.
Qed.

Lemma hget_add_default_headers m date conn r :
  hget (HKnown m) (s_headers (add_default_headers date conn r)) =
  match hget (HKnown m) (s_headers r) with
  | Some w => Some w
  | None => if m =? H_Connection then Some (match conn with Some c => c | None => str_Close end)
            else if m =? H_Server then Some str_Humphrey
            else if m =? H_Date then Some date
            else if m =? H_ContentLength then Some (dec_render (N.of_nat (length (s_body r)))) else None
  end.
Proof.
  rewrite add_default_headers_eq, !hget_add_if_absent. destruct (hget (HKnown m) (s_headers r)); [reflexivity|].
  destruct (m =? H_Connection); [reflexivity|]. destruct (m =? H_Server); [reflexivity|].
  destruct (m =? H_Date); reflexivity.
Qed.

(* what the modelled handlers put into their own header list: nothing but (for HOwn) Server and Connection *)
Lemma run_handler_headers b req resp m : run_handler b req = Some resp ->
  m <> H_Server -> m <> H_Connection -> hget (HKnown m) (s_headers resp) = None.
Proof.
  intros H Hs Hc. destruct b; cbn [run_handler] in H; try discriminate; injection H as <-; cbn [s_headers hget];
    try reflexivity.
  cbn [hname_eqb]. apply N.eqb_neq in Hs, Hc. now rewrite Hs, Hc.
Qed.

(* the part of respond_headers that speaks about one response *)
Definition carries (date : bytes) (version : bytes) (c : cors) (resp : response) : Prop :=
  s_version resp = version /\
  hget (HKnown H_Date) (s_headers resp) = Some date /\
  (exists s, hget (HKnown H_Server) (s_headers resp) = Some s) /\
  (exists k, hget (HKnown H_Connection) (s_headers resp) = Some k) /\
  self_delimiting resp /\
  (forall v, c_origin c = Some v -> hget (HKnown H_AccessControlAllowOrigin) (s_headers resp) = Some v) /\
  (forall v, c_methods c = Some v -> hget (HKnown H_AccessControlAllowMethods) (s_headers resp) = Some v) /\
  (forall v, c_headers c = Some v -> hget (HKnown H_AccessControlAllowHeaders) (s_headers resp) = Some v).

Lemma error_response_carries date conn code v :
  carries date v cors_none (with_version v (add_default_headers date conn (error_response code))).
Proof.
  unfold carries. cbn [with_version s_version s_headers s_body].
  rewrite !hget_add_default_headers. cbn [error_response s_headers hget s_body].
  repeat split; try (eexists; reflexivity); try discriminate.
  left. unfold self_delimiting. cbn [with_version s_headers s_body]. rewrite hget_add_default_headers. reflexivity.
Qed.

Theorem respond_carries rs date req resp : respond rs date req = Some resp ->
  carries date (r_version req)
    (match find_route rs (r_uri req) with Some r => cr_cors r | None => cors_none end) resp.
Proof.
  unfold respond. intro H.
  destruct (r_method req =? M_OPTIONS).
  - destruct (find_route rs (r_uri req)) as [r|].
    + injection H as <-. unfold carries, self_delimiting. cbn [s_version s_headers s_body s_status].
      rewrite !hget_cors_set. cbn [hget hname_eqb].
      repeat split; try (eexists; reflexivity); auto.
    + injection H as <-. apply error_response_carries.
  - destruct (find_route rs (r_uri req)) as [r|].
    + destruct (run_handler (cr_beh r) req) as [h|] eqn:Eh; [|discriminate]. injection H as <-.
      assert (Hn : forall m, m <> H_Server -> m <> H_Connection -> hget (HKnown m) (s_headers h) = None)
        by (intros m; apply (run_handler_headers _ _ _ m Eh)).
      unfold carries, self_delimiting. cbn [with_version s_version s_headers s_body s_status].
      rewrite !hget_add_default_headers. cbn [s_headers s_body]. rewrite !hget_cors_set.
      rewrite (Hn H_Date), (Hn H_ContentLength), (Hn H_AccessControlAllowOrigin),
        (Hn H_AccessControlAllowMethods), (Hn H_AccessControlAllowHeaders) by discriminate.
      repeat split; try reflexivity.
      * destruct (hget (HKnown H_Server) (s_headers h)); eexists; reflexivity.
      * destruct (hget (HKnown H_Connection) (s_headers h)); eexists; reflexivity.
      * left. reflexivity.
      * intros v ->. reflexivity.
      * intros v ->. reflexivity.
      * intros v ->. reflexivity.
    + injection H as <-. apply error_response_carries.
Qed.

(* the statement in the form used by the property file *)
Theorem respond_headers : forall (rs : list croute) (date : bytes) (req : request) (resp : response),
  respond rs date req = Some resp ->
  s_version resp = r_version req /\
  hget (HKnown H_Date) (s_headers resp) = Some date /\
  (exists s, hget (HKnown H_Server) (s_headers resp) = Some s) /\
  (hget (HKnown H_ContentLength) (s_headers resp) = Some (dec_render (N.of_nat (length (s_body resp))))
   \/ (s_status resp = status_index 204 /\ s_body resp = [])) /\
  (forall r, find_route rs (r_uri req) = Some r ->
     (forall v, c_origin (cr_cors r) = Some v -> hget (HKnown H_AccessControlAllowOrigin) (s_headers resp) = Some v) /\
     (forall v, c_methods (cr_cors r) = Some v -> hget (HKnown H_AccessControlAllowMethods) (s_headers resp) = Some v) /\
     (forall v, c_headers (cr_cors r) = Some v -> hget (HKnown H_AccessControlAllowHeaders) (s_headers resp) = Some v)).
Proof.
  intros rs date req resp H. destruct (respond_carries rs date req resp H) as (Hv & Hd & Hs & _ & Hsd & Ho & Hm & Hh).
  repeat split; try assumption; intros; rewrite H0 in *; auto.
Qed.

(* the 400 / 408 responses the loop writes itself *)
Theorem error_frames_headers : forall (date : bytes) (code : N),
  let resp := add_default_headers date None (error_response code) in
  s_version resp = str_HTTP11 /\ s_status resp = status_index code /\
  hget (HKnown H_Date) (s_headers resp) = Some date /\
  hget (HKnown H_Server) (s_headers resp) = Some str_Humphrey /\
  hget (HKnown H_Connection) (s_headers resp) = Some str_Close /\
  hget (HKnown H_ContentLength) (s_headers resp) = Some (dec_render (N.of_nat (length (s_body resp)))).
Proof.
  intros date code resp. subst resp. rewrite !hget_add_default_headers. cbn [error_response s_headers hget s_body].
  repeat split; reflexivity.
Qed.

(* ================================================================================================================ *)
(* Part 4 (known findings, stated as theorems)                                                                        *)
(* ================================================================================================================ *)

(* F32: the serialiser appends CRLF after every non-empty body, i.e. two bytes follow the Content-Length-delimited body *)
Theorem conn_stray_crlf_refuted : forall r : response, s_body r <> [] ->
  exists head, serialize_response r = head ++ s_body r ++ [13; 10].
Proof.
  intros r H. unfold serialize_response. destruct (s_body r) as [|b0 b]; [congruence|].
  exists (s_version r ++ [SP] ++ dec_render (status_code (s_status r)) ++ [SP] ++ status_phrase (s_status r) ++
          concat (map (fun h => CRLF ++ render_header h) (hsort (s_headers r))) ++ CRLF ++ CRLF).
  repeat rewrite <- app_assoc. reflexivity.
Qed.

(* F01: two complete keep-alive requests delivered by ONE read: the second is never answered, although the same two
   requests delivered by two reads are both answered *)
Theorem conn_readahead_refuted :
  exists (rs : list croute) (date : bytes) (p : peer) (r1 r2 : bytes),
    complete_keepalive_request ipv4_parse p r1 = true /\ complete_keepalive_request ipv4_parse p r2 = true /\
    length (fst (serve_conn ipv4_parse rs date p [Some r1; Some r2])) = 2%nat /\
    length (fst (serve_conn ipv4_parse rs date p [Some (r1 ++ r2)])) = 1%nat /\
    snd (serve_conn ipv4_parse rs date p [Some (r1 ++ r2)]) = EClosedByClient.
Proof.
  exists [{| cr_pat := [47;42]; cr_beh := HFixed [104;105]; cr_cors := cors_none |}], [68], {| p_ip := [49]; p_port := 1 |}.
  exists [71;69;84;32;47;97;32;72;84;84;80;47;49;46;49;13;10;67;111;110;110;101;99;116;105;111;110;58;32;107;101;101;112;45;97;108;105;118;101;13;10;13;10].
  exists [71;69;84;32;47;98;32;72;84;84;80;47;49;46;49;13;10;67;111;110;110;101;99;116;105;111;110;58;32;107;101;101;112;45;97;108;105;118;101;13;10;13;10].
  vm_compute. repeat split; reflexivity.
Qed.

(* ================================================================================================================ *)
(* Part 2: one iteration of the loop                                                                                  *)
(* ================================================================================================================ *)

Section Step.
Variables (ipp : bytes -> option bytes) (rs : list croute) (date : bytes) (p : peer).

Lemma conn_loop_unfold f inp out : starts_with_timeout inp = false ->
  conn_loop (S f) ipp rs date p inp out =
  match parse_request_chunked ipp p (fst (take_chunks inp)) with
  | Err e =>
    if e =? E_Request then (out ++ [frame_400 date], EBadRequest)
    else if e =? E_Disconnected then (out, EClosedByClient)
    else (out, EStreamError)
  | Crash _ => (out, EPanic)
  | Ok (req, br) =>
    if is_upgrade req then (out, EUpgrade) else
    match respond rs date req with
    | None => (out, EPanic)
    | Some resp =>
      if keep_alive_of req
      then conn_loop f ipp rs date p (map Some (inner br) ++ snd (take_chunks inp)) (out ++ [serialize_response resp])
      else (out ++ [serialize_response resp], ENoKeepAlive)
    end
  end.
Proof.
  intro H. destruct inp as [|[c|] inp']; [| |discriminate]; cbn [conn_loop]; destruct (take_chunks _) as [cs later];
    reflexivity.
Qed.

(* a wait longer than the timeout: 408, close *)
Theorem conn_step_timeout : forall f inp out,
  conn_loop (S f) ipp rs date p (None :: inp) out = (out ++ [frame_408 date], ETimeout).
Proof. reflexivity. Qed.

(* a well-formed request whose handler returns: its response is appended; the loop goes on iff it asked for keep-alive,
   and it goes on with exactly the reads the BufReader had not yet pulled from the socket *)
Theorem conn_step_request : forall f inp out req br resp,
  starts_with_timeout inp = false ->
  parse_request_chunked ipp p (fst (take_chunks inp)) = Ok (req, br) ->
  is_upgrade req = false -> respond rs date req = Some resp ->
  conn_loop (S f) ipp rs date p inp out =
  if keep_alive_of req
  then conn_loop f ipp rs date p (map Some (inner br) ++ snd (take_chunks inp)) (out ++ [serialize_response resp])
  else (out ++ [serialize_response resp], ENoKeepAlive).
Proof. intros f inp out req br resp H0 HP HU HR. rewrite (conn_loop_unfold _ _ _ H0), HP, HU, HR. reflexivity. Qed.

Theorem conn_keepalive_iff : forall f inp out req br resp,
  starts_with_timeout inp = false ->
  parse_request_chunked ipp p (fst (take_chunks inp)) = Ok (req, br) ->
  is_upgrade req = false -> respond rs date req = Some resp ->
  (keep_alive_of req = true ->
     conn_loop (S f) ipp rs date p inp out =
     conn_loop f ipp rs date p (map Some (inner br) ++ snd (take_chunks inp)) (out ++ [serialize_response resp])) /\
  (keep_alive_of req = false ->
     conn_loop (S f) ipp rs date p inp out = (out ++ [serialize_response resp], ENoKeepAlive)).
Proof.
  intros f inp out req br resp H0 HP HU HR. rewrite (conn_step_request _ _ _ _ _ _ H0 HP HU HR).
  split; intros ->; reflexivity.
Qed.

(* malformed request: 400, close *)
Theorem conn_step_bad_request : forall f inp out,
  starts_with_timeout inp = false ->
  parse_request_chunked ipp p (fst (take_chunks inp)) = Err E_Request ->
  conn_loop (S f) ipp rs date p inp out = (out ++ [frame_400 date], EBadRequest).
Proof. intros f inp out H0 HP. rewrite (conn_loop_unfold _ _ _ H0), HP. reflexivity. Qed.

(* the client closed while the server waited for a request: nothing is written *)
Theorem conn_step_closed : forall f inp out,
  starts_with_timeout inp = false ->
  parse_request_chunked ipp p (fst (take_chunks inp)) = Err E_Disconnected ->
  conn_loop (S f) ipp rs date p inp out = (out, EClosedByClient).
Proof. intros f inp out H0 HP. rewrite (conn_loop_unfold _ _ _ H0), HP. reflexivity. Qed.

(* the stream ended inside a request: nothing is written *)
Theorem conn_step_stream_error : forall f inp out,
  starts_with_timeout inp = false ->
  parse_request_chunked ipp p (fst (take_chunks inp)) = Err E_Stream ->
  conn_loop (S f) ipp rs date p inp out = (out, EStreamError).
Proof. intros f inp out H0 HP. rewrite (conn_loop_unfold _ _ _ H0), HP. reflexivity. Qed.

(* a panicking handler: nothing is appended, only this connection ends *)
Theorem conn_step_panic : forall f inp out req br,
  starts_with_timeout inp = false ->
  parse_request_chunked ipp p (fst (take_chunks inp)) = Ok (req, br) ->
  is_upgrade req = false -> respond rs date req = None ->
  conn_loop (S f) ipp rs date p inp out = (out, EPanic).
Proof. intros f inp out req br H0 HP HU HR. rewrite (conn_loop_unfold _ _ _ H0), HP, HU, HR. reflexivity. Qed.

Theorem conn_step_upgrade : forall f inp out req br,
  starts_with_timeout inp = false ->
  parse_request_chunked ipp p (fst (take_chunks inp)) = Ok (req, br) ->
  is_upgrade req = true ->
  conn_loop (S f) ipp rs date p inp out = (out, EUpgrade).
Proof. intros f inp out req br H0 HP HU. rewrite (conn_loop_unfold _ _ _ H0), HP, HU. reflexivity. Qed.

(* respond returns None only through a panicking handler on the matched route *)
Theorem respond_none_iff_panic : forall req,
  respond rs date req = None <->
  (r_method req <> M_OPTIONS /\ exists r, find_route rs (r_uri req) = Some r /\ cr_beh r = HPanic).
Proof.
  intro req. unfold respond. destruct (r_method req =? M_OPTIONS) eqn:EM.
  - apply N.eqb_eq in EM. split.
    + destruct (find_route rs (r_uri req)); discriminate.
    + intros [H _]. congruence.
  - apply N.eqb_neq in EM. destruct (find_route rs (r_uri req)) as [r|].
    + split.
      * destruct (cr_beh r) eqn:EB; cbn [run_handler]; try discriminate. intros _. split; [assumption|]. now exists r.
      * intros (_ & r' & [= <-] & ->). reflexivity.
    + split; [discriminate|]. intros (_ & r' & Hr & _). discriminate.
Qed.

(* ================================================================================================================ *)
(* Part 3: the fuel never runs out; the result does not depend on it; the accumulator is only appended to            *)
(* ================================================================================================================ *)

Lemma take_chunks_spec inp :
  inp = map Some (fst (take_chunks inp)) ++ snd (take_chunks inp) /\
  match snd (take_chunks inp) with Some _ :: _ => False | _ => True end.
Proof.
  induction inp as [|[c|] inp IH]; cbn [take_chunks]; [split; [reflexivity|exact I] | | split; [reflexivity|exact I]].
  destruct (take_chunks inp) as [cs rest]. cbn [fst snd map app] in *. destruct IH as [IH1 IH2].
  split; [now rewrite <- IH1 | assumption].
Qed.

Lemma take_chunks_app_some cs inp :
  take_chunks (map Some cs ++ inp) = (cs ++ fst (take_chunks inp), snd (take_chunks inp)).
Proof.
  induction cs as [|c cs IH]; cbn [map app take_chunks]; [now destruct (take_chunks inp)|].
  rewrite IH. reflexivity.
Qed.

Lemma wf_input_app a b : wf_input (a ++ b) <-> wf_input a /\ wf_input b.
Proof. apply Forall_app. Qed.

Lemma wf_input_map_some cs : wf_input (map Some cs) <-> wf_chunks cs.
Proof.
  unfold wf_input, wf_chunks. rewrite Forall_map. split; intro H; (eapply Forall_impl; [|exact H]); cbn; intros a Ha.
  - intros ->. now apply Ha.
  - intros [= ->]. now apply Ha.
Qed.

Lemma in_bytes_app a b : in_bytes (a ++ b) = (in_bytes a + in_bytes b)%nat.
Proof. induction a as [|x a IH]; cbn [in_bytes fold_right app]; [reflexivity|]. fold (in_bytes (a ++ b)) (in_bytes a). lia. Qed.

Lemma in_bytes_map_some cs : in_bytes (map Some cs) = length (concat cs).
Proof.
  induction cs as [|c cs IH]; cbn [in_bytes fold_right map concat]; [reflexivity|].
  fold (in_bytes (map Some cs)). rewrite app_length. lia.
Qed.

Lemma in_bytes_le_weight inp : (in_bytes inp <= input_weight inp)%nat.
Proof.
  induction inp as [|x inp IH]; cbn [in_bytes input_weight fold_right]; [lia|].
  fold (in_bytes inp) (input_weight inp). lia.
Qed.

(* the flat parser consumes at least the first byte *)
Lemma parse_request_flat_progress l r rest : parse_request_flat ipp p l = Ok (r, rest) -> (length rest < length l)%nat.
Proof.
  unfold parse_request_flat. destruct l as [|first l0]; [discriminate|].
  pose proof (read_until_flat_length LF l0) as HL.
  destruct (read_until_flat LF l0) as [line l1]. cbn [fst snd] in HL.
  destruct (parse_start_line (first :: line)) as [[[[m uri] query] version]|]; [|discriminate].
  destruct (header_loop_flat (S (length l1)) l1 []) as [[hs l2]|e|w] eqn:EH; try discriminate.
  apply header_loop_flat_rest in EH.
  unfold body_of_flat. destruct (hget (HKnown H_ContentLength) hs).
  - destruct (parse_usize b); [|discriminate].
    destruct (read_exact_flat_N n l2) as [[d r3]|] eqn:ER; [|discriminate].
    apply read_exact_flat_N_length in ER. intros [= <- <-]. cbn [length] in *. lia.
  - intros [= <- <-]. cbn [length] in *. lia.
Qed.

(* every iteration that continues has consumed at least one byte of the client's input *)
Lemma conn_continue_smaller inp req br : wf_input inp ->
  parse_request_chunked ipp p (fst (take_chunks inp)) = Ok (req, br) ->
  wf_input (map Some (inner br) ++ snd (take_chunks inp)) /\
  (in_bytes (map Some (inner br) ++ snd (take_chunks inp)) < in_bytes inp)%nat.
Proof.
  intros W HP. destruct (take_chunks_spec inp) as [Hi _].
  set (cs := fst (take_chunks inp)) in *. set (later := snd (take_chunks inp)) in *.
  rewrite Hi in W. apply wf_input_app in W. destruct W as [Wc Wl]. apply wf_input_map_some in Wc.
  pose proof (parse_request_chunked_refines ipp p cs Wc) as R. rewrite HP in R.
  destruct (parse_request_flat ipp p (concat cs)) as [[r' l]|e|w] eqn:EF; cbn [orel] in R; try contradiction.
  destruct R as (_ & Hc & Wb). apply parse_request_flat_progress in EF.
  split.
  - apply wf_input_app. split; [now apply wf_input_map_some | assumption].
  - assert (HB : in_bytes inp = in_bytes (map Some cs ++ later)) by (now rewrite <- Hi).
    rewrite HB, !in_bytes_app, !in_bytes_map_some.
    assert (length (concat (inner br)) <= length l)%nat by (rewrite <- Hc; unfold contents; rewrite app_length; lia).
    lia.
Qed.

Lemma conn_loop_fuel_indep : forall f f' inp out, wf_input inp ->
  (in_bytes inp < f)%nat -> (in_bytes inp < f')%nat ->
  conn_loop f ipp rs date p inp out = conn_loop f' ipp rs date p inp out.
Proof.
  induction f as [|f IH]; intros f' inp out W H1 H2; [lia|]. destruct f' as [|f']; [lia|].
  destruct (starts_with_timeout inp) eqn:E0.
  - destruct inp as [|[c|] inp']; try discriminate. reflexivity.
  - rewrite !(conn_loop_unfold _ _ _ E0).
    destruct (parse_request_chunked ipp p (fst (take_chunks inp))) as [[req br]|e|w] eqn:EP; try reflexivity.
    destruct (conn_continue_smaller inp req br W EP) as [W' Hlt].
    destruct (is_upgrade req); [reflexivity|]. destruct (respond rs date req); [|reflexivity].
    destruct (keep_alive_of req); [|reflexivity]. apply IH; [assumption|lia|lia].
Qed.

Lemma conn_loop_enough : forall f inp out, wf_input inp -> (in_bytes inp < f)%nat ->
  snd (conn_loop f ipp rs date p inp out) <> EFuel.
Proof.
  induction f as [|f IH]; intros inp out W H1; [lia|].
  destruct (starts_with_timeout inp) eqn:E0.
  - destruct inp as [|[c|] inp']; discriminate.
  - rewrite (conn_loop_unfold _ _ _ E0).
    destruct (parse_request_chunked ipp p (fst (take_chunks inp))) as [[req br]|e|w] eqn:EP.
    + destruct (conn_continue_smaller inp req br W EP) as [W' Hlt].
      destruct (is_upgrade req); [cbn; discriminate|]. destruct (respond rs date req); [|cbn; discriminate].
      destruct (keep_alive_of req); [|cbn; discriminate]. apply IH; [assumption|lia].
    + destruct (e =? E_Request); [cbn; discriminate|]. destruct (e =? E_Disconnected); cbn; discriminate.
    + cbn. discriminate.
Qed.

(* the loop only ever appends to what was already written *)
Lemma conn_loop_out : forall f inp out,
  conn_loop f ipp rs date p inp out =
  (out ++ fst (conn_loop f ipp rs date p inp []), snd (conn_loop f ipp rs date p inp [])).
Proof.
  induction f as [|f IH]; intros inp out; [cbn; now rewrite app_nil_r|].
  destruct (starts_with_timeout inp) eqn:E0.
  - destruct inp as [|[c|] inp']; try discriminate. reflexivity.
  - rewrite !(conn_loop_unfold _ _ _ E0).
    destruct (parse_request_chunked ipp p (fst (take_chunks inp))) as [[req br]|e|w] eqn:EP.
    + destruct (is_upgrade req); [cbn; now rewrite app_nil_r|].
      destruct (respond rs date req); [|cbn; now rewrite app_nil_r].
      destruct (keep_alive_of req); [|reflexivity].
      rewrite (IH _ (out ++ _)), (IH _ ([] ++ _)). cbn [fst snd app]. now rewrite <- app_assoc.
    + destruct (e =? E_Request); [reflexivity|]. destruct (e =? E_Disconnected); cbn; now rewrite app_nil_r.
    + cbn. now rewrite app_nil_r.
Qed.

Theorem serve_conn_terminates : forall inp, wf_input inp -> snd (serve_conn ipp rs date p inp) <> EFuel.
Proof.
  intros inp W. unfold serve_conn. apply conn_loop_enough; [assumption|]. pose proof (in_bytes_le_weight inp). lia.
Qed.

(* serve_conn is the loop run with any sufficient fuel *)
Lemma serve_conn_eq f inp : wf_input inp -> (in_bytes inp < f)%nat ->
  conn_loop f ipp rs date p inp [] = serve_conn ipp rs date p inp.
Proof.
  intros W H. unfold serve_conn. apply conn_loop_fuel_indep; [assumption|assumption|].
  pose proof (in_bytes_le_weight inp). lia.
Qed.

End Step.

(* ================================================================================================================ *)
(* Part 5: one response per request, in order, nothing dropped or re-interpreted, on aligned input                    *)
(* ================================================================================================================ *)
Section Main.
Variables (ipp : bytes -> option bytes) (rs : list croute) (date : bytes) (p : peer).

Lemma aligned_input_cons cs css tail : aligned_input (cs :: css) tail = map Some cs ++ aligned_input css tail.
Proof. unfold aligned_input. cbn [map concat]. now rewrite <- app_assoc. Qed.

Lemma wf_aligned_input css reqs tail : Forall2 (one_request ipp p) css reqs -> wf_input tail ->
  wf_input (aligned_input css tail).
Proof.
  induction 1 as [|cs req css reqs [Wc _] _ IH]; intro Wt; [exact Wt|].
  rewrite aligned_input_cons. apply wf_input_app. split; [now apply wf_input_map_some | now apply IH].
Qed.

Lemma wf_take_chunks inp : wf_input inp -> wf_chunks (fst (take_chunks inp)) /\ wf_input (snd (take_chunks inp)).
Proof.
  intro W. destruct (take_chunks_spec inp) as [Hi _]. rewrite Hi in W. apply wf_input_app in W.
  destruct W as [W1 W2]. split; [now apply wf_input_map_some | assumption].
Qed.

Lemma conn_loop_aligned : forall css reqs, Forall2 (one_request ipp p) css reqs ->
  forall tail f out, wf_input tail -> (in_bytes (aligned_input css tail) < f)%nat ->
  conn_loop f ipp rs date p (aligned_input css tail) out =
  (out ++ fst (expected rs date reqs (serve_conn ipp rs date p tail)),
   snd (expected rs date reqs (serve_conn ipp rs date p tail))).
Proof.
  induction 1 as [|cs req css reqs [Wc HF] HA IH]; intros tail f out Wt Hf.
  - unfold aligned_input in *. cbn [map concat app expected] in *.
    rewrite conn_loop_out, (serve_conn_eq ipp rs date p f tail Wt Hf). reflexivity.
  - pose proof (wf_aligned_input css reqs tail HA Wt) as Wr.
    rewrite aligned_input_cons in *.
    destruct f as [|f]; [lia|].
    assert (E0 : starts_with_timeout (map Some cs ++ aligned_input css tail) = false)
      by (destruct cs; [discriminate HF|reflexivity]).
    destruct (wf_take_chunks _ Wr) as [Wm _].
    destruct (parse_request_chunked_exact ipp p cs _ req Wc Wm HF) as (br & HP & _ & Hin).
    rewrite (conn_loop_unfold _ _ _ _ _ _ _ E0), take_chunks_app_some. cbn [fst snd]. rewrite HP.
    cbn [expected]. destruct (is_upgrade req); [cbn [fst snd]; now rewrite app_nil_r|].
    destruct (respond rs date req) as [resp|]; [|cbn [fst snd]; now rewrite app_nil_r].
    destruct (keep_alive_of req); [|reflexivity].
    rewrite Hin, <- (proj1 (take_chunks_spec (aligned_input css tail))).
    rewrite IH; [|assumption|].
    + cbn [fst snd]. rewrite <- app_assoc. reflexivity.
    + rewrite in_bytes_app, in_bytes_map_some in Hf. apply parse_request_flat_progress in HF. lia.
Qed.

(* THE MAIN THEOREM.  Request i arrives as the reads cs_i (each exactly one complete request for the flat parser), then
   `tail`.  The connection writes what the specification `expected` says for the parsed requests — one response per
   request, in request order, for the maximal prefix that stays open — and then behaves on `tail` as a fresh wait would. *)
Theorem conn_one_response_per_request : forall (css : list chunks) (reqs : list request) (tail : list (option bytes)),
  Forall2 (one_request ipp p) css reqs -> wf_input tail ->
  serve_conn ipp rs date p (aligned_input css tail) = expected rs date reqs (serve_conn ipp rs date p tail).
Proof.
  intros css reqs tail HA Wt. unfold serve_conn at 1.
  rewrite (conn_loop_aligned css reqs HA tail); [|assumption|].
  - cbn [app]. now destruct (expected rs date reqs (serve_conn ipp rs date p tail)).
  - pose proof (in_bytes_le_weight (aligned_input css tail)). lia.
Qed.

Lemma serve_conn_nil : serve_conn ipp rs date p [] = ([], EClosedByClient).
Proof. reflexivity. Qed.

Lemma serve_conn_timeout t : serve_conn ipp rs date p (None :: t) = ([frame_408 date], ETimeout).
Proof. reflexivity. Qed.

(* the client closes after its last request *)
Corollary conn_output_closed : forall css reqs, Forall2 (one_request ipp p) css reqs ->
  fst (serve_conn ipp rs date p (aligned_input css [])) = expected_out rs date reqs /\
  snd (serve_conn ipp rs date p (aligned_input css [])) = expected_ending rs date reqs.
Proof.
  intros css reqs HA. rewrite (conn_one_response_per_request css reqs [] HA (Forall_nil _)), serve_conn_nil. auto.
Qed.

(* ---- what `expected` is: the responses of the maximal prefix of requests that keep the connection open ---- *)
Lemma stays_open_dec req : {stays_open rs date req} + {~ stays_open rs date req}.
Proof.
  unfold stays_open. destruct (is_upgrade req); [right; intros (H & _); discriminate|].
  destruct (respond rs date req); [|right; intros (_ & H & _); congruence].
  destruct (keep_alive_of req); [left; repeat split; discriminate | right; intros (_ & _ & H); discriminate].
Qed.

Lemma expected_all_open reqs k : Forall (stays_open rs date) reqs ->
  expected rs date reqs k = (flat_map (response_of rs date) reqs ++ fst k, snd k).
Proof.
  induction 1 as [|req reqs (HU & HR & HK) _ IH]; cbn [expected flat_map app]; [now destruct k|].
  unfold response_of at 1. rewrite HU, HK. destruct (respond rs date req) as [resp|]; [|congruence].
  rewrite IH. reflexivity.
Qed.

Lemma expected_first_stop reqs1 req reqs2 k : Forall (stays_open rs date) reqs1 -> ~ stays_open rs date req ->
  expected rs date (reqs1 ++ req :: reqs2) k =
  (flat_map (response_of rs date) reqs1 ++ (if is_upgrade req then [] else response_of rs date req),
   stop_ending rs date req).
Proof.
  intros H Hn. induction H as [|r reqs1 (HU & HR & HK) _ IH]; cbn [expected flat_map app].
  - unfold stop_ending, response_of, stays_open in *. destruct (is_upgrade req); [reflexivity|].
    destruct (respond rs date req); [|reflexivity]. destruct (keep_alive_of req); [|reflexivity].
    exfalso. apply Hn. repeat split; discriminate.
  - unfold response_of at 1. rewrite HU, HK. destruct (respond rs date r) as [resp|]; [|congruence].
    rewrite IH. reflexivity.
Qed.

Lemma response_of_open_length req : stays_open rs date req -> length (response_of rs date req) = 1%nat.
Proof. intros (_ & HR & _). unfold response_of. destruct (respond rs date req); [reflexivity|congruence]. Qed.

Lemma flat_map_open_length reqs : Forall (stays_open rs date) reqs ->
  length (flat_map (response_of rs date) reqs) = length reqs.
Proof.
  induction 1 as [|req reqs H _ IH]; cbn [flat_map length]; [reflexivity|].
  rewrite app_length, IH, (response_of_open_length req H). reflexivity.
Qed.

Lemma expected_ending_closed_iff reqs :
  snd (expected rs date reqs ([], EClosedByClient)) = EClosedByClient <-> Forall (stays_open rs date) reqs.
Proof.
  induction reqs as [|req reqs IH]; cbn [expected]; [split; [constructor|reflexivity]|].
  split.
  - destruct (is_upgrade req) eqn:EU; [discriminate|]. destruct (respond rs date req) eqn:ER; [|discriminate].
    destruct (keep_alive_of req) eqn:EK; [|discriminate]. cbn [snd]. intro H.
    constructor; [unfold stays_open; rewrite EU, ER, EK; repeat split; discriminate|].
    now apply IH.
  - intro H. inversion H as [|? ? (HU & HR & HK) Hrest]; subst. rewrite HU, HK.
    destruct (respond rs date req); [|congruence]. cbn [snd]. now apply IH.
Qed.

(* every request answered, in order, exactly one response each; the connection is still open when the client closes it *)
Theorem conn_all_answered : forall css reqs, Forall2 (one_request ipp p) css reqs ->
  Forall (stays_open rs date) reqs ->
  serve_conn ipp rs date p (aligned_input css []) = (flat_map (response_of rs date) reqs, EClosedByClient) /\
  length (fst (serve_conn ipp rs date p (aligned_input css []))) = length reqs.
Proof.
  intros css reqs HA HO.
  rewrite (conn_one_response_per_request css reqs [] HA (Forall_nil _)), serve_conn_nil, (expected_all_open _ _ HO).
  cbn [fst snd]. rewrite app_nil_r. split; [reflexivity|]. now apply flat_map_open_length.
Qed.

(* the headline form: request i is answered by output element i, which is the serialisation of a response carrying the
   request's version, the clock's Date, a Server header, the route's CORS values, and which is self-delimiting *)
Theorem conn_responses_in_order : forall css reqs, Forall2 (one_request ipp p) css reqs ->
  Forall (stays_open rs date) reqs ->
  Forall2 (fun req o => exists resp, respond rs date req = Some resp /\ o = serialize_response resp /\
                        carries date (r_version req)
                          (match find_route rs (r_uri req) with Some r => cr_cors r | None => cors_none end) resp)
          reqs (fst (serve_conn ipp rs date p (aligned_input css []))).
Proof.
  intros css reqs HA HO. destruct (conn_all_answered css reqs HA HO) as [-> _]. cbn [fst].
  clear HA. induction HO as [|req reqs (HU & HR & HK) _ IH]; cbn [flat_map]; [constructor|].
  unfold response_of at 1. destruct (respond rs date req) as [resp|] eqn:ER; [|congruence]. cbn [app].
  constructor; [|exact IH]. exists resp. split; [exact ER|]. split; [reflexivity|]. now apply respond_carries.
Qed.

(* the first request after which the connection does not stay open ends it; later requests are not looked at *)
Theorem conn_stops_at_first : forall css reqs1 req reqs2 tail,
  Forall2 (one_request ipp p) css (reqs1 ++ req :: reqs2) -> wf_input tail ->
  Forall (stays_open rs date) reqs1 -> ~ stays_open rs date req ->
  serve_conn ipp rs date p (aligned_input css tail) =
  (flat_map (response_of rs date) reqs1 ++ (if is_upgrade req then [] else response_of rs date req),
   stop_ending rs date req).
Proof.
  intros css reqs1 req reqs2 tail HA Wt HO Hn.
  rewrite (conn_one_response_per_request css _ tail HA Wt). now apply expected_first_stop.
Qed.

(* the connection is still open after the last response iff every request was well-formed, answered and keep-alive *)
Theorem conn_stays_open_iff : forall css reqs, Forall2 (one_request ipp p) css reqs ->
  (snd (serve_conn ipp rs date p (aligned_input css [])) = EClosedByClient <-> Forall (stays_open rs date) reqs).
Proof.
  intros css reqs HA. rewrite (conn_one_response_per_request css reqs [] HA (Forall_nil _)), serve_conn_nil.
  apply expected_ending_closed_iff.
Qed.

(* two segmentations that respect request boundaries and carry the same request byte strings give the same output *)
Lemma one_request_same_bytes : forall css1 reqs, Forall2 (one_request ipp p) css1 reqs ->
  forall css2, Forall wf_chunks css2 -> map (@concat N) css1 = map (@concat N) css2 ->
  Forall2 (one_request ipp p) css2 reqs.
Proof.
  induction 1 as [|cs req css reqs [Wc HF] _ IH]; intros css2 W2 E; destruct css2 as [|cs2 css2]; try discriminate;
    [constructor|].
  cbn [map] in E. injection E as E1 E2. inversion W2; subst. constructor.
  - split; [assumption|]. now rewrite <- E1.
  - now apply IH.
Qed.

Theorem conn_segmentation_independent : forall css1 css2 reqs tail,
  Forall2 (one_request ipp p) css1 reqs -> Forall wf_chunks css2 ->
  map (@concat N) css1 = map (@concat N) css2 -> wf_input tail ->
  serve_conn ipp rs date p (aligned_input css1 tail) = serve_conn ipp rs date p (aligned_input css2 tail).
Proof.
  intros css1 css2 reqs tail HA W2 E Wt.
  rewrite (conn_one_response_per_request css1 reqs tail HA Wt).
  rewrite (conn_one_response_per_request css2 reqs tail (one_request_same_bytes _ _ HA _ W2 E) Wt). reflexivity.
Qed.

(* the i-th parsed request is the flat parse of exactly the bytes of the reads cs_i: bytes of one request are never
   dropped and never interpreted as part of another (the reader in front of the next request is empty-handed) *)
Theorem conn_bytes_not_reinterpreted : forall cs req later,
  one_request ipp p cs req -> wf_input later ->
  exists br, parse_request_chunked ipp p (fst (take_chunks (map Some cs ++ later))) = Ok (req, br) /\
             buf br = [] /\ map Some (inner br) ++ snd (take_chunks (map Some cs ++ later)) = later.
Proof.
  intros cs req later [Wc HF] Wl. rewrite take_chunks_app_some. cbn [fst snd].
  destruct (wf_take_chunks _ Wl) as [Wm _].
  destruct (parse_request_chunked_exact ipp p cs _ req Wc Wm HF) as (br & HP & Hb & Hin).
  exists br. rewrite Hin, <- (proj1 (take_chunks_spec later)). auto.
Qed.

(* ---- after the last kept-alive request: a malformed request is answered 400, a timed-out wait 408; then close ---- *)
Lemma serve_conn_bad_request cs : parse_request_chunked ipp p cs = Err E_Request ->
  serve_conn ipp rs date p (map Some cs) = ([frame_400 date], EBadRequest).
Proof.
  intro H. unfold serve_conn. rewrite conn_loop_unfold by (destruct cs; reflexivity).
  pose proof (take_chunks_app_some cs []) as T. rewrite app_nil_r in T. rewrite T. cbn [take_chunks fst snd].
  rewrite app_nil_r, H. reflexivity.
Qed.

Theorem conn_then_bad_request : forall css reqs bad,
  Forall2 (one_request ipp p) css reqs -> Forall (stays_open rs date) reqs ->
  wf_chunks bad -> parse_request_chunked ipp p bad = Err E_Request ->
  serve_conn ipp rs date p (aligned_input css (map Some bad)) =
  (flat_map (response_of rs date) reqs ++ [frame_400 date], EBadRequest).
Proof.
  intros css reqs bad HA HO Wb HB.
  rewrite (conn_one_response_per_request css reqs _ HA (proj2 (wf_input_map_some bad) Wb)).
  rewrite (serve_conn_bad_request bad HB). now apply expected_all_open.
Qed.

Theorem conn_then_timeout : forall css reqs t,
  Forall2 (one_request ipp p) css reqs -> Forall (stays_open rs date) reqs -> wf_input t ->
  serve_conn ipp rs date p (aligned_input css (None :: t)) =
  (flat_map (response_of rs date) reqs ++ [frame_408 date], ETimeout).
Proof.
  intros css reqs t HA HO Wt.
  rewrite (conn_one_response_per_request css reqs (None :: t) HA); [|constructor; [discriminate|assumption]].
  rewrite serve_conn_timeout. now apply expected_all_open.
Qed.

(* F01 in general: one read of at most cap bytes delivers a complete request r1 followed by ANY further bytes r2
   (typically the next pipelined request(s)).  The connection behaves exactly as if r2 had never been sent: r2 is
   neither answered nor rejected — it is dropped with the first request's BufReader. *)
Theorem conn_readahead_general : forall r1 r2 req,
  (length (r1 ++ r2) <= cap)%nat -> parse_request_flat ipp p r1 = Ok (req, []) ->
  serve_conn ipp rs date p [Some (r1 ++ r2)] = expected rs date [req] ([], EClosedByClient) /\
  serve_conn ipp rs date p [Some (r1 ++ r2)] = serve_conn ipp rs date p [Some r1].
Proof.
  intros r1 r2 req Hc HF.
  assert (G : forall r2', (length (r1 ++ r2') <= cap)%nat ->
              serve_conn ipp rs date p [Some (r1 ++ r2')] = expected rs date [req] ([], EClosedByClient)).
  { intros r2' Hc'. destruct (parse_request_chunked_coalesced ipp p r1 r2' req Hc' HF) as (br & HP & _ & Hin).
    unfold serve_conn. rewrite conn_loop_unfold by reflexivity. cbn [take_chunks fst snd].
    match goal with |- context [parse_request_chunked ipp p ?c] =>
      replace (parse_request_chunked ipp p c) with (Ok (req, br)) by (symmetry; exact HP) end.
    cbn [expected]. destruct (is_upgrade req); [reflexivity|]. destruct (respond rs date req); [|reflexivity].
    destruct (keep_alive_of req); [|reflexivity]. rewrite Hin. cbn [map app input_weight fold_right].
    rewrite Nat.add_0_r, Nat.add_1_r. reflexivity. }
  split; [now apply G|]. rewrite (G r2 Hc). specialize (G []). rewrite app_nil_r in G. rewrite G; [reflexivity|].
  rewrite app_length in Hc. lia.
Qed.

End Main.

(* ================================================================================================================ *)
(* Example data for the non-vacuity examples in props/C01_loop.v                                                      *)
(* ================================================================================================================ *)
Definition ex_routes : list croute :=
  [ {| cr_pat := [47;101;99;104;111]; cr_beh := HEcho;
       cr_cors := {| c_origin := Some [42]; c_methods := Some [71;69;84;44;32;80;79;83;84]; c_headers := Some [88;45;75;101;121] |} |};
    {| cr_pat := [47;112;97;110;105;99]; cr_beh := HPanic; cr_cors := cors_none |};
    {| cr_pat := [47;42]; cr_beh := HFixed [104;105]; cr_cors := cors_none |} ].
Definition ex_peer : peer := {| p_ip := [49]; p_port := 1 |}.
(* "GET /a HTTP/1.1\r\nConnection: keep-alive\r\n\r\n" *)
Definition ex_get_ka : bytes :=
  [71;69;84;32;47;97;32;72;84;84;80;47;49;46;49;13;10;67;111;110;110;101;99;116;105;111;110;58;32;107;101;101;112;45;97;108;105;118;101;13;10;13;10].
(* "POST /echo HTTP/1.1\r\nConnection: Keep-Alive\r\nContent-Length: 9000\r\n\r\n" followed by 9000 bytes: one read longer
   than the BufReader capacity *)
Definition ex_post_big : bytes :=
  [80;79;83;84;32;47;101;99;104;111;32;72;84;84;80;47;49;46;49;13;10;67;111;110;110;101;99;116;105;111;110;58;32;75;101;101;112;45;65;108;105;118;101;13;10;67;111;110;116;101;110;116;45;76;101;110;103;116;104;58;32;57;48;48;48;13;10;13;10]
  ++ repeat 97 (N.to_nat 9000).
(* "GET /b HTTP/1.0\r\n\r\n" *)
Definition ex_get_close : bytes := [71;69;84;32;47;98;32;72;84;84;80;47;49;46;48;13;10;13;10].
(* "OPTIONS /echo HTTP/1.1\r\nConnection: keep-alive\r\n\r\n" *)
Definition ex_options : bytes :=
  [79;80;84;73;79;78;83;32;47;101;99;104;111;32;72;84;84;80;47;49;46;49;13;10;67;111;110;110;101;99;116;105;111;110;58;32;107;101;101;112;45;97;108;105;118;101;13;10;13;10].
(* "GET /panic HTTP/1.1\r\nConnection: keep-alive\r\n\r\n" *)
Definition ex_get_panic : bytes :=
  [71;69;84;32;47;112;97;110;105;99;32;72;84;84;80;47;49;46;49;13;10;67;111;110;110;101;99;116;105;111;110;58;32;107;101;101;112;45;97;108;105;118;101;13;10;13;10].
(* "BAD\r\n\r\n" *)
Definition ex_bad : bytes := [66;65;68;13;10;13;10].

(* the parsed request of a complete request byte string (examples only) *)
Definition ex_req (r : bytes) : request :=
  match parse_request_flat ipv4_parse ex_peer r with
  | Ok (q, _) => q
  | _ => {| r_method := 0; r_uri := []; r_query := []; r_version := []; r_headers := []; r_content := None;
            r_addr := {| a_origin := []; a_proxies := []; a_port := 0 |} |}
  end.
