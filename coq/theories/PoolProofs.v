(* PoolProofs.v — invariants and theorems about the thread pool LTS (C08). *)
From Hv Require Import Prelude Pool.
From Coq Require Import Lia Permutation Arith.

(* ------------------------------------------------------------------------------------------------ *)
(* basics *)

Lemma upd_same : forall f w v, upd f w v w = v.
Proof. intros; unfold upd; now rewrite Nat.eqb_refl. Qed.

Lemma upd_other : forall f w v x, x <> w -> upd f w v x = f x.
Proof. intros f w v x Hx; unfold upd. destruct (Nat.eqb x w) eqn:E; [apply Nat.eqb_eq in E; contradiction|reflexivity]. Qed.

Lemma upd_cases : forall f w v x, (x = w /\ upd f w v x = v) \/ (x <> w /\ upd f w v x = f x).
Proof. intros. destruct (Nat.eq_dec x w) as [->|Hn]; [left; split; [reflexivity|apply upd_same]|right; split; [assumption|now apply upd_other]]. Qed.

Definition ids_of (v : wstate) : list nat := match v with Running id => [id] | _ => [] end.

Lemma running_upto_upd_ge : forall k f w v, k <= w -> running_upto k (upd f w v) = running_upto k f.
Proof.
  induction k as [|k IH]; intros f w v Hk; cbn [running_upto]; [reflexivity|].
  rewrite upd_other by lia. rewrite IH by lia. reflexivity.
Qed.

Lemma running_upto_upd : forall k f w v, w < k ->
  Permutation (ids_of (f w) ++ running_upto k (upd f w v)) (ids_of v ++ running_upto k f).
Proof.
  induction k as [|k IH]; intros f w v Hw; [lia|].
  cbn [running_upto].
  destruct (Nat.eq_dec w k) as [->|Hne].
  - rewrite upd_same. rewrite running_upto_upd_ge by lia.
    destruct (f k) eqn:Ef; destruct v; cbn [ids_of app]; try apply Permutation_refl;
      try (apply perm_skip; apply Permutation_refl).
    all: try (apply perm_swap).
  - rewrite upd_other by lia.
    assert (Hlt : w < k) by lia. specialize (IH f w v Hlt).
    destruct (f k) eqn:Ef; try exact IH.
    (* f k = Running id *)
    eapply Permutation_trans; [apply Permutation_sym, Permutation_middle|].
    eapply Permutation_trans; [|apply Permutation_middle].
    apply perm_skip. exact IH.
Qed.

Lemma sumw_upd_ge : forall k f w v, k <= w -> sumw k (upd f w v) = sumw k f.
Proof.
  induction k as [|k IH]; intros f w v Hk; cbn [sumw]; [reflexivity|].
  rewrite upd_other by lia. rewrite IH by lia. reflexivity.
Qed.

Lemma sumw_upd : forall k f w v, w < k -> sumw k (upd f w v) + weight (f w) = sumw k f + weight v.
Proof.
  induction k as [|k IH]; intros f w v Hw; [lia|].
  cbn [sumw]. destruct (Nat.eq_dec w k) as [->|Hne].
  - rewrite upd_same, sumw_upd_ge by lia. lia.
  - rewrite upd_other by lia. assert (Hlt : w < k) by lia. specialize (IH f w v Hlt). lia.
Qed.

Lemma count_upto_upd_ge : forall k p f w v, k <= w -> count_upto k p (upd f w v) = count_upto k p f.
Proof.
  induction k as [|k IH]; intros p f w v Hk; cbn [count_upto]; [reflexivity|].
  rewrite upd_other by lia. rewrite IH by lia. reflexivity.
Qed.

Lemma count_upto_upd : forall k p f w v, w < k ->
  count_upto k p (upd f w v) + (if p (f w) then 1 else 0) = count_upto k p f + (if p v then 1 else 0).
Proof.
  induction k as [|k IH]; intros p f w v Hw; [lia|].
  cbn [count_upto]. destruct (Nat.eq_dec w k) as [->|Hne].
  - rewrite upd_same, count_upto_upd_ge by lia. lia.
  - rewrite upd_other by lia. assert (Hlt : w < k) by lia. specialize (IH p f w v Hlt). lia.
Qed.

Lemma count_upto_all : forall k p f, (forall w, w < k -> p (f w) = true) -> count_upto k p f = k.
Proof.
  induction k as [|k IH]; intros p f H; cbn [count_upto]; [reflexivity|].
  rewrite H by lia. rewrite IH; [lia|]. intros; apply H; lia.
Qed.

Lemma count_upto_le : forall k p f, count_upto k p f <= k.
Proof. induction k as [|k IH]; intros; cbn [count_upto]; [lia|]. specialize (IH p f). destruct (p (f k)); lia. Qed.

Lemma running_upto_none : forall k f, (forall w, w < k -> is_running (f w) = false) -> running_upto k f = [].
Proof.
  induction k as [|k IH]; intros f H; cbn [running_upto]; [reflexivity|].
  pose proof (H k ltac:(lia)) as Hk. destruct (f k); try discriminate Hk; apply IH; intros; apply H; lia.
Qed.

Lemma running_upto_in : forall k f id, In id (running_upto k f) -> exists w, w < k /\ f w = Running id.
Proof.
  induction k as [|k IH]; intros f id Hin; cbn [running_upto] in Hin; [contradiction|].
  destruct (f k) eqn:Ef; try (destruct (IH _ _ Hin) as (w & Hw & Hf); exists w; split; [lia|assumption]).
  destruct Hin as [<-|Hin]; [exists k; split; [lia|assumption]|].
  destruct (IH _ _ Hin) as (w & Hw & Hf); exists w; split; [lia|assumption].
Qed.

Lemma in_running_upto : forall k f w id, w < k -> f w = Running id -> In id (running_upto k f).
Proof.
  induction k as [|k IH]; intros f w id Hw Hf; [lia|]. cbn [running_upto].
  destruct (Nat.eq_dec w k) as [->|Hne].
  - rewrite Hf. now left.
  - assert (Hin : In id (running_upto k f)) by (eapply IH; [|eassumption]; lia).
    destruct (f k); try assumption. now right.
Qed.

(* queue shape *)
Fixpoint has_shutdown (q : list msg) : bool :=
  match q with [] => false | Task _ :: q' => has_shutdown q' | Shutdown :: _ => true end.

(* no task is queued behind a Shutdown message *)
Fixpoint qok (q : list msg) : Prop :=
  match q with
  | [] => True
  | Task _ :: q' => qok q'
  | Shutdown :: q' => qtasks q' = []
  end.

Lemma qtasks_app : forall a b, qtasks (a ++ b) = qtasks a ++ qtasks b.
Proof. induction a as [|[id|] a IH]; intros; cbn [qtasks app]; [reflexivity|now rewrite IH|apply IH]. Qed.

Lemma qok_notasks : forall q, qtasks q = [] -> qok q.
Proof. induction q as [|[id|] q IH]; cbn [qtasks qok]; intros H; [exact I|discriminate|exact H]. Qed.

Lemma qok_app_shutdown : forall q, qok q -> qok (q ++ [Shutdown]).
Proof.
  induction q as [|[id|] q IH]; cbn [qok app]; intros H; [reflexivity|now apply IH|].
  rewrite qtasks_app, H. reflexivity.
Qed.

Lemma qok_app_task : forall q id, has_shutdown q = false -> qok (q ++ [Task id]).
Proof. induction q as [|[i|] q IH]; cbn [qok app has_shutdown]; intros id H; [exact I|now apply IH|discriminate]. Qed.

Lemma has_shutdown_app_task : forall q id, has_shutdown q = false -> has_shutdown (q ++ [Task id]) = false.
Proof. induction q as [|[i|] q IH]; cbn [app has_shutdown]; intros id H; [reflexivity|now apply IH|discriminate]. Qed.

Lemma qok_tail : forall m q, qok (m :: q) -> qok q.
Proof. intros [id|] q H; cbn [qok] in H; [exact H|now apply qok_notasks]. Qed.

Lemma existsb_eqb_false : forall id l, existsb (Nat.eqb id) l = false -> ~ In id l.
Proof.
  intros id l H Hin. assert (existsb (Nat.eqb id) l = true); [|congruence].
  apply existsb_exists. exists id. split; [assumption|apply Nat.eqb_refl].
Qed.

(* ------------------------------------------------------------------------------------------------ *)
(* step inversion *)

Ltac step_inv H :=
  unfold step, step_old, step_gen in H; try discriminate H;
  repeat match type of H with
         | context [match ?x with _ => _ end] => destruct x eqn:?; try discriminate H
         end;
  try (injection H as <-).

Ltac simp := cbn [nthreads handle sender queue lock ws rchan rec_handle joining submitted done panicked init app] in *.

(* ------------------------------------------------------------------------------------------------ *)
(* the inductive invariant (I1-I5 of the design plus bookkeeping) *)

Record Inv (s : state) : Prop := {
  i_lock1 : forall w, lock s = Some w -> ws s w = InRecv;
  i_lock2 : forall w, ws s w = InRecv -> lock s = Some w;
  i_dead : forall w, ws s w = Dead <-> In w (rchan s);
  i_rnodup : NoDup (rchan s);
  i_qok : qok (queue s);
  i_started : handle s = HStarted ->
              has_shutdown (queue s) = false /\ sender s = true /\ forall w, w < nthreads s -> ws s w <> Exited;
  i_new : handle s = HNew -> s = init;
  i_range : forall w, nthreads s <= w -> ws s w = Exited;
  i_perm : Permutation (qtasks (queue s) ++ running s ++ done s ++ panicked s) (submitted s);
  i_nodup : NoDup (submitted s);
  i_exit : forall w, w < nthreads s -> ws s w = Exited -> qtasks (queue s) = [];
  i_zero : nthreads s = 0 ->
           queue s = [] /\ submitted s = [] /\ (handle s = HNew \/ handle s = HDropping \/ handle s = HDropped);
  i_sender : handle s = HStopped -> sender s = true;
  i_dropped : handle s = HDropped -> sender s = false /\ joining s = false;
  i_join : joining s = true -> handle s = HDropping;
}.

Lemma inv_init : Inv init.
Proof.
  constructor; simp; intros; try discriminate; try tauto; try constructor; try reflexivity; try lia.
  all: try discriminate; auto; try contradiction.
Qed.

Lemma lt_of_not_exited : forall s w, Inv s -> ws s w <> Exited -> w < nthreads s.
Proof. intros s w HI Hne. destruct (Nat.lt_ge_cases w (nthreads s)) as [H|H]; [assumption|]. now apply (i_range s HI) in H. Qed.

Ltac wcase x w :=
  match goal with
  | |- context [upd ?f w ?v x] => destruct (upd_cases f w v x) as [[-> ->]|[? ->]]
  | H : context [upd ?f w ?v x] |- _ =>
      revert H; destruct (upd_cases f w v x) as [[-> ->]|[? ->]]; intro H
  end.

Ltac t_old HI := intros;
  first [ now apply (i_lock1 _ HI) | now apply (i_lock2 _ HI) | now apply (i_dead _ HI) | exact (i_rnodup _ HI)
        | exact (i_qok _ HI) | now apply (i_started _ HI) | now apply (i_new _ HI) | now apply (i_range _ HI)
        | exact (i_perm _ HI) | exact (i_nodup _ HI) | (eapply (i_exit _ HI); eassumption)
        | now apply (i_zero _ HI) | now apply (i_sender _ HI) | now apply (i_dropped _ HI)
        | now apply (i_join _ HI) | now apply HI ].
Ltac t_new HI := let H := fresh "Hn" in intro H; apply (i_new _ HI) in H; subst; simp; congruence.
Ltac t_range HI w := let x := fresh "x" in let Hx := fresh "Hx" in
  intros x Hx; wcase x w; [lia|now apply HI].
Ltac t_started HI w := let H := fresh "Hst" in let Hne := fresh "Hne" in let x := fresh "x" in let Hx := fresh "Hx" in
  intro H; destruct (i_started _ HI H) as (? & ? & Hne); repeat split; try assumption;
  intros x Hx; wcase x w; [congruence|now apply Hne].
Ltac t_exit HI w := let x := fresh "x" in let Hx := fresh "Hx" in let He := fresh "He" in
  intros x Hx He; wcase x w; [congruence|eapply (i_exit _ HI); eassumption].
(* worker w leaves / enters states other than InRecv, lock unchanged *)
Ltac t_lock1 HI w := let x := fresh "x" in let Hx := fresh "Hx" in
  intros x Hx; wcase x w; [apply (i_lock1 _ HI) in Hx; congruence|now apply HI].
Ltac t_lock2 HI w := let x := fresh "x" in let Hx := fresh "Hx" in
  intros x Hx; wcase x w; [congruence|now apply HI].
(* worker w moves between states other than Dead, rchan unchanged *)
Ltac t_dead HI w := let x := fresh "x" in let Hin := fresh "Hin" in
  intros x; wcase x w; [split; [congruence|intros Hin; apply (i_dead _ HI) in Hin; congruence]|apply HI].
Ltac t_zero HI := let H := fresh "Hz" in intro H; destruct (i_zero _ HI H) as (? & ? & ?); repeat split; auto; congruence.

Lemma step_inv_preserved : forall old s l s', Inv s -> step_gen old s l = Some s' -> Inv s'.
Proof.
  intros old s l s' HI Hs.
  destruct l as [n|id| | | |w|w r|w|w|w|w| | |w].
  - (* Start *)
    step_inv Hs. apply Nat.leb_le in Heqb.
    pose proof (i_new s HI Heqh) as E. subst s.
    assert (Hf : forall w v, (if Nat.ltb w n then Idle else Exited) = v -> v = Idle \/ v = Exited)
      by (intros w v <-; destruct (Nat.ltb w n); auto).
    constructor; simp.
    + discriminate.
    + intros w H. apply Hf in H. destruct H; discriminate.
    + intros w. split; [|contradiction]. intros H. apply Hf in H. destruct H; discriminate.
    + constructor.
    + exact I.
    + intros _. repeat split; try reflexivity. intros w Hw. apply Nat.ltb_lt in Hw. rewrite Hw. discriminate.
    + discriminate.
    + intros w H. apply Nat.ltb_ge in H. now rewrite H.
    + unfold running; simp. rewrite running_upto_none; [constructor|].
      intros w Hw. destruct (Nat.ltb w n); reflexivity.
    + constructor.
    + intros w H H0. apply Nat.ltb_lt in H. rewrite H in H0. discriminate.
    + lia.
    + discriminate.
    + discriminate.
    + discriminate.
  - (* Execute *)
    step_inv Hs. apply existsb_eqb_false in Heqb.
    destruct (i_started s HI Heqh) as (Hns & Hsd & Hne).
    constructor; simp.
    + t_old HI.
    + t_old HI.
    + t_old HI.
    + t_old HI.
    + apply qok_app_task; assumption.
    + intros _. repeat split; [now apply has_shutdown_app_task|assumption|assumption].
    + congruence.
    + t_old HI.
    + rewrite qtasks_app; cbn [qtasks]. unfold running; simp.
      rewrite <- app_assoc. cbn [app].
      eapply Permutation_trans; [apply Permutation_sym, Permutation_middle|].
      eapply Permutation_trans; [|apply Permutation_cons_append].
      apply perm_skip. apply (i_perm s HI).
    + apply (Permutation_NoDup (Permutation_cons_append (submitted s) id)).
      constructor; [assumption|apply HI].
    + intros x Hx He. exfalso. eapply Hne; eassumption.
    + intros Hz. destruct (i_zero s HI Hz) as (_ & _ & [E|[E|E]]); congruence.
    + congruence.
    + congruence.
    + intros H. apply (i_join s HI) in H. congruence.
  - (* ExecuteRejected *)
    step_inv Hs; assumption.
  - (* Stop *)
    assert (Hh : handle s = HStarted \/ handle s = HStopped) by (step_inv Hs; auto).
    assert (E : s' = mk (nthreads s) HStopped (sender s) (queue s ++ [Shutdown]) (lock s) (ws s) (rchan s)
                   false (joining s) (submitted s) (done s) (panicked s)) by (step_inv Hs; reflexivity).
    subst s'. clear Hs.
    constructor; simp.
    + t_old HI.
    + t_old HI.
    + t_old HI.
    + t_old HI.
    + apply qok_app_shutdown, HI.
    + discriminate.
    + discriminate.
    + t_old HI.
    + rewrite qtasks_app; cbn [qtasks]. rewrite app_nil_r. apply (i_perm s HI).
    + t_old HI.
    + intros x Hx He. rewrite qtasks_app; cbn [qtasks]. rewrite app_nil_r. eapply (i_exit s HI); eassumption.
    + intros Hz. destruct (i_zero s HI Hz) as (_ & _ & [E|[E|E]]); destruct Hh; congruence.
    + intros _. destruct Hh as [Hh|Hh]; [now destruct (i_started s HI Hh) as (_ & ? & _)|now apply (i_sender s HI)].
    + discriminate.
    + intros H. apply (i_join s HI) in H. destruct Hh; congruence.
  - (* StopRejected *)
    step_inv Hs; assumption.
  - (* Acquire *)
    step_inv Hs.
    assert (Hw : w < nthreads s) by (apply lt_of_not_exited; [assumption|congruence]).
    constructor; simp.
    + intros x Hx. injection Hx as <-. apply upd_same.
    + intros x Hx. wcase x w; [reflexivity|]. apply (i_lock2 s HI) in Hx. congruence.
    + t_dead HI w.
    + t_old HI.
    + t_old HI.
    + t_started HI w.
    + t_new HI.
    + t_range HI w.
    + unfold running; simp.
      pose proof (running_upto_upd (nthreads s) (ws s) w InRecv Hw) as P. rewrite Heqw0 in P. cbn [ids_of app] in P.
      eapply Permutation_trans; [|apply (i_perm s HI)].
      apply Permutation_app_head. apply Permutation_app_tail. exact P.
    + t_old HI.
    + t_exit HI w.
    + t_old HI.
    + t_old HI.
    + t_old HI.
    + t_old HI.
  - (* Recv *)
    step_inv Hs; match goal with H : Nat.eqb _ w = true |- _ => apply Nat.eqb_eq in H; subst end.
    + (* closed *)
      match goal with H : queue s = _ |- _ => rename H into Hq end.
      match goal with H : _ = true |- _ => rename H into Hr end.
      assert (Hw : w < nthreads s) by (apply lt_of_not_exited; [assumption|congruence]).
      apply andb_prop in Hr. destruct Hr as [Hsd _]. apply negb_true_iff in Hsd.
      unfold after_recv.
      constructor; simp.
      * discriminate.
      * intros x Hx. wcase x w; [congruence|]. apply (i_lock2 s HI) in Hx. congruence.
      * t_dead HI w.
      * t_old HI.
      * exact I.
      * intros Hst. destruct (i_started s HI Hst) as (_ & ? & _). congruence.
      * t_new HI.
      * intros x Hx. wcase x w; [reflexivity|now apply HI].
      * unfold running; simp.
        pose proof (running_upto_upd (nthreads s) (ws s) w Exited Hw) as P. rewrite Heqw0 in P.
        cbn [ids_of app] in P.
        pose proof (i_perm s HI) as Q'. rewrite Hq in Q'. cbn [qtasks] in Q'.
        eapply Permutation_trans; [|exact Q'].
        cbn [qtasks app]. apply Permutation_app_tail. exact P.
      * t_old HI.
      * reflexivity.
      * intros Hz. destruct (i_zero s HI Hz) as (_ & E & Hh). repeat split; assumption.
      * t_old HI.
      * t_old HI.
      * t_old HI.
    + (* task *)
      match goal with H : queue s = _ |- _ => rename H into Hq end.
      match goal with H : _ = true |- _ => rename H into Hr end.
      assert (Hw : w < nthreads s) by (apply lt_of_not_exited; [assumption|congruence]).
      destruct r as [i| |]; cbn [rres_eqb] in Hr; try discriminate. apply Nat.eqb_eq in Hr; subst i.
      unfold after_recv. constructor; simp.
      * discriminate.
      * intros x Hx. wcase x w; [congruence|]. apply (i_lock2 s HI) in Hx. congruence.
      * t_dead HI w.
      * t_old HI.
      * pose proof (i_qok s HI) as Q. rewrite Hq in Q. exact Q.
      * intros Hst. destruct (i_started s HI Hst) as (Hns & ? & Hne). rewrite Hq in Hns. cbn [has_shutdown] in Hns.
        repeat split; try assumption. intros x Hx. wcase x w; [congruence|now apply Hne].
      * t_new HI.
      * t_range HI w.
      * unfold running; simp.
        pose proof (running_upto_upd (nthreads s) (ws s) w (Running id) Hw) as P. rewrite Heqw0 in P.
        cbn [ids_of app] in P.
        pose proof (i_perm s HI) as Q. rewrite Hq in Q. cbn [qtasks app] in Q.
        eapply Permutation_trans; [|exact Q].
        eapply Permutation_trans; [|apply Permutation_sym, Permutation_middle].
        apply Permutation_app_head.
        change (id :: running s ++ done s ++ panicked s) with ((id :: running s) ++ done s ++ panicked s).
        apply Permutation_app_tail. exact P.
      * t_old HI.
      * intros x Hx He. wcase x w; [congruence|].
        pose proof (i_exit s HI x Hx He) as E. rewrite Hq in E. discriminate.
      * intros Hz. destruct (i_zero s HI Hz) as (E & _). congruence.
      * t_old HI.
      * t_old HI.
      * t_old HI.
    + (* shutdown *)
      match goal with H : queue s = _ |- _ => rename H into Hq end.
      match goal with H : _ = true |- _ => rename H into Hr end.
      assert (Hw : w < nthreads s) by (apply lt_of_not_exited; [assumption|congruence]).
      unfold after_recv. pose proof (i_qok s HI) as Q. rewrite Hq in Q. cbn [qok] in Q.
      constructor; simp.
      * discriminate.
      * intros x Hx. wcase x w; [congruence|]. apply (i_lock2 s HI) in Hx. congruence.
      * t_dead HI w.
      * t_old HI.
      * now apply qok_notasks.
      * intros Hst. destruct (i_started s HI Hst) as (Hns & ? & Hne). rewrite Hq in Hns. discriminate.
      * t_new HI.
      * intros x Hx. wcase x w; [reflexivity|now apply HI].
      * unfold running; simp.
        pose proof (running_upto_upd (nthreads s) (ws s) w Exited Hw) as P. rewrite Heqw0 in P.
        cbn [ids_of app] in P.
        pose proof (i_perm s HI) as Q'. rewrite Hq in Q'. cbn [qtasks] in Q'.
        eapply Permutation_trans; [|exact Q'].
        apply Permutation_app_head. apply Permutation_app_tail. exact P.
      * t_old HI.
      * intros; assumption.
      * intros Hz. destruct (i_zero s HI Hz) as (E & _). congruence.
      * t_old HI.
      * t_old HI.
      * t_old HI.
  - (* Finish *)
    step_inv Hs.
    assert (Hw : w < nthreads s) by (apply lt_of_not_exited; [assumption|congruence]).
    constructor; simp.
    + t_lock1 HI w.
    + t_lock2 HI w.
    + t_dead HI w.
    + t_old HI.
    + t_old HI.
    + t_started HI w.
    + t_new HI.
    + t_range HI w.
    + unfold running; simp.
      pose proof (running_upto_upd (nthreads s) (ws s) w Idle Hw) as P. rewrite Heqw0 in P. cbn [ids_of app] in P.
      eapply Permutation_trans; [|apply (i_perm s HI)].
      apply Permutation_app_head.
      eapply Permutation_trans; [apply Permutation_sym, Permutation_middle|].
      change (id :: running_upto (nthreads s) (upd (ws s) w Idle) ++ done s ++ panicked s)
        with ((id :: running_upto (nthreads s) (upd (ws s) w Idle)) ++ done s ++ panicked s).
      apply Permutation_app_tail. exact P.
    + t_old HI.
    + t_exit HI w.
    + t_old HI.
    + t_old HI.
    + t_old HI.
    + t_old HI.
  - (* Panic *)
    step_inv Hs.
    assert (Hw : w < nthreads s) by (apply lt_of_not_exited; [assumption|congruence]).
    constructor; simp.
    + t_lock1 HI w.
    + t_lock2 HI w.
    + t_dead HI w.
    + t_old HI.
    + t_old HI.
    + t_started HI w.
    + t_new HI.
    + t_range HI w.
    + unfold running; simp.
      pose proof (running_upto_upd (nthreads s) (ws s) w Unwinding Hw) as P. rewrite Heqw0 in P.
      cbn [ids_of app] in P.
      eapply Permutation_trans; [|apply (i_perm s HI)].
      apply Permutation_app_head.
      rewrite !app_assoc.
      eapply Permutation_trans; [apply Permutation_sym, Permutation_middle|].
      rewrite <- !app_assoc.
      change (id :: running_upto (nthreads s) (upd (ws s) w Unwinding) ++ done s ++ panicked s)
        with ((id :: running_upto (nthreads s) (upd (ws s) w Unwinding)) ++ done s ++ panicked s).
      apply Permutation_app_tail. exact P.
    + t_old HI.
    + t_exit HI w.
    + t_old HI.
    + t_old HI.
    + t_old HI.
    + t_old HI.
  - (* Notify *)
    step_inv Hs.
    assert (Hw : w < nthreads s) by (apply lt_of_not_exited; [assumption|congruence]).
    assert (Hnin : ~ In w (rchan s)) by (intros Hin; apply (i_dead s HI) in Hin; congruence).
    constructor; simp.
    + t_lock1 HI w.
    + t_lock2 HI w.
    + intros x. wcase x w.
      * split; [intros _; apply in_or_app; right; now left|reflexivity].
      * rewrite in_app_iff. cbn [In]. rewrite (i_dead s HI x). intuition congruence.
    + apply (Permutation_NoDup (Permutation_cons_append (rchan s) w)). constructor; [assumption|apply HI].
    + t_old HI.
    + t_started HI w.
    + t_new HI.
    + t_range HI w.
    + unfold running; simp.
      pose proof (running_upto_upd (nthreads s) (ws s) w Dead Hw) as P. rewrite Heqw0 in P. cbn [ids_of app] in P.
      eapply Permutation_trans; [|apply (i_perm s HI)].
      apply Permutation_app_head. apply Permutation_app_tail. exact P.
    + t_old HI.
    + t_exit HI w.
    + t_old HI.
    + t_old HI.
    + t_old HI.
    + t_old HI.
  - (* Recover *)
    step_inv Hs. apply Nat.eqb_eq in Heqb; subst n.
    assert (Hw : w < nthreads s) by (apply lt_of_not_exited; [assumption|congruence]).
    pose proof (i_rnodup s HI) as ND. rewrite Heql in ND. inversion ND as [|? ? Hnin ND']; subst.
    constructor; simp.
    + t_lock1 HI w.
    + t_lock2 HI w.
    + intros x. wcase x w.
      * split; [discriminate|contradiction].
      * rewrite (i_dead s HI x), Heql. cbn [In]. intuition congruence.
    + assumption.
    + t_old HI.
    + t_started HI w.
    + t_new HI.
    + t_range HI w.
    + unfold running; simp.
      pose proof (running_upto_upd (nthreads s) (ws s) w Idle Hw) as P. rewrite Heqw0 in P. cbn [ids_of app] in P.
      eapply Permutation_trans; [|apply (i_perm s HI)].
      apply Permutation_app_head. apply Permutation_app_tail. exact P.
    + t_old HI.
    + t_exit HI w.
    + t_old HI.
    + t_old HI.
    + t_old HI.
    + t_old HI.
  - (* DropBegin *)
    assert (Hh : handle s = HNew \/ handle s = HStarted \/ handle s = HStopped) by (step_inv Hs; auto).
    assert (E : s' = mk (nthreads s) HDropping (sender s) (queue s) (lock s) (ws s) (rchan s)
                   false (if old then rec_handle s else false) (submitted s) (done s) (panicked s))
      by (step_inv Hs; reflexivity).
    subst s'. clear Hs.
    constructor; simp.
    + t_old HI.
    + t_old HI.
    + t_old HI.
    + t_old HI.
    + t_old HI.
    + discriminate.
    + discriminate.
    + t_old HI.
    + apply (i_perm s HI).
    + t_old HI.
    + intros; eapply (i_exit s HI); eassumption.
    + intros Hz. destruct (i_zero s HI Hz) as (? & ? & ?). repeat split; auto.
    + discriminate.
    + discriminate.
    + reflexivity.
  - (* DropEnd *)
    step_inv Hs.
    constructor; simp.
    + t_old HI.
    + t_old HI.
    + t_old HI.
    + t_old HI.
    + t_old HI.
    + discriminate.
    + discriminate.
    + t_old HI.
    + apply (i_perm s HI).
    + t_old HI.
    + intros; eapply (i_exit s HI); eassumption.
    + intros Hz. destruct (i_zero s HI Hz) as (? & ? & ?). repeat split; auto.
    + discriminate.
    + auto.
    + congruence.
  - (* LockPoisoned *)
    discriminate Hs.
Qed.

(* ------------------------------------------------------------------------------------------------ *)
(* runs *)

Lemma run_gen_app : forall old a b s,
  run_gen old s (a ++ b) = match run_gen old s a with Some s' => run_gen old s' b | None => None end.
Proof.
  induction a as [|l a IH]; intros b s; cbn [run_gen app]; [reflexivity|].
  destruct (step_gen old s l); [apply IH|reflexivity].
Qed.

Lemma run_gen_inv : forall old tr s s', Inv s -> run_gen old s tr = Some s' -> Inv s'.
Proof.
  induction tr as [|l tr IH]; intros s s' HI H; cbn [run_gen] in H.
  - now injection H as <-.
  - destruct (step_gen old s l) eqn:E; [|discriminate]. eapply IH; [|eassumption]. eapply step_inv_preserved; eassumption.
Qed.

Lemma reachable_inv : forall tr s, run init tr = Some s -> Inv s.
Proof. intros tr s H. eapply run_gen_inv; [apply inv_init|exact H]. Qed.

Lemma reachable_old_inv : forall tr s, run_old init tr = Some s -> Inv s.
Proof. intros tr s H. eapply run_gen_inv; [apply inv_init|exact H]. Qed.

Lemma accepts_run : forall tr, accepts tr = true <-> exists s, run init tr = Some s.
Proof.
  intros tr. unfold accepts. destruct (run init tr) as [s|]; split; intros H; try discriminate; eauto.
  destruct H as [s H]. discriminate.
Qed.

Lemma first_reject_from_none : forall tr s k, first_reject_from s tr k = None <-> exists s', run s tr = Some s'.
Proof.
  induction tr as [|l tr IH]; intros s k; cbn [first_reject_from]; unfold run; cbn [run_gen]; fold (run).
  - split; eauto.
  - unfold step. destruct (step_gen false s l) as [s1|]; [apply IH|].
    split; [discriminate|intros [s' H]; discriminate].
Qed.

Lemma first_reject_accepts : forall tr, first_reject tr = None <-> accepts tr = true.
Proof. intros tr. unfold first_reject. rewrite first_reject_from_none, accepts_run. reflexivity. Qed.

(* ------------------------------------------------------------------------------------------------ *)
(* exactly once *)

Lemma exactly_once_inv : forall s, Inv s ->
  NoDup (submitted s) /\
  Permutation (qtasks (queue s) ++ running s ++ done s ++ panicked s) (submitted s) /\
  NoDup (qtasks (queue s) ++ running s ++ done s ++ panicked s).
Proof.
  intros s HI. split; [apply HI|]. split; [apply HI|].
  eapply Permutation_NoDup; [apply Permutation_sym, (i_perm s HI)|apply HI].
Qed.

Lemma NoDup_app_r : forall (A : Type) (a b : list A), NoDup (a ++ b) -> NoDup b.
Proof. induction a as [|x a IH]; intros b H; [exact H|]. inversion H; subst. now apply IH. Qed.

Lemma NoDup_app_l : forall (A : Type) (a b : list A), NoDup (a ++ b) -> NoDup a.
Proof.
  induction a as [|x a IH]; intros b H; [constructor|]. inversion H as [|? ? Hn Hd]; subst. constructor.
  - intros Hin. apply Hn. apply in_or_app. now left.
  - eapply IH; eassumption.
Qed.

Lemma NoDup_app_disj : forall (A : Type) (a b : list A) x, NoDup (a ++ b) -> In x a -> ~ In x b.
Proof.
  induction a as [|y a IH]; intros b x H Hin; [contradiction|]. inversion H as [|? ? Hn Hd]; subst.
  destruct Hin as [->|Hin]; [|eapply IH; eassumption].
  intros Hb. apply Hn. apply in_or_app. now right.
Qed.

(* a finished task is finished once, is not queued, not running, and did not also panic *)
Lemma done_once : forall s, Inv s ->
  NoDup (done s) /\
  (forall id, In id (done s) ->
     In id (submitted s) /\ ~ In id (qtasks (queue s)) /\ ~ In id (running s) /\ ~ In id (panicked s)).
Proof.
  intros s HI. destruct (exactly_once_inv s HI) as (ND & P & ND').
  split.
  - apply NoDup_app_r in ND'. apply NoDup_app_r in ND'. now apply NoDup_app_l in ND'.
  - intros id Hin. split; [|split; [|split]].
    + eapply Permutation_in; [exact P|]. apply in_or_app; right. apply in_or_app; right. apply in_or_app; now left.
    + intros Hq. eapply NoDup_app_disj; [exact ND'|exact Hq|].
      apply in_or_app; right. apply in_or_app; now left.
    + intros Hr. apply NoDup_app_r in ND'. eapply NoDup_app_disj; [exact ND'|exact Hr|]. apply in_or_app; now left.
    + intros Hp. apply NoDup_app_r in ND'. apply NoDup_app_r in ND'. eapply NoDup_app_disj; [exact ND'|exact Hin|exact Hp].
Qed.

(* `done` only grows, by the id the finishing worker was running *)
Lemma done_grows : forall old s l s', step_gen old s l = Some s' ->
  done s' = done s \/ exists w id, l = Finish w /\ ws s w = Running id /\ done s' = id :: done s.
Proof.
  intros old s l s' Hs. destruct l; step_inv Hs; simp; unfold after_recv; simp; auto.
  right. eauto.
Qed.

(* ------------------------------------------------------------------------------------------------ *)
(* the receiver mutex *)

Lemma lock_holder_in_recv : forall s, Inv s -> forall w, lock s = Some w -> ws s w = InRecv.
Proof. intros s HI. apply HI. Qed.

Lemma lock_free_while_running_inv : forall s, Inv s -> forall w id, ws s w = Running id -> lock s <> Some w.
Proof. intros s HI w id Hr Hl. apply (i_lock1 s HI) in Hl. congruence. Qed.

(* ------------------------------------------------------------------------------------------------ *)
(* n tasks at the same time *)

Definition conc_trace (n : nat) : list label :=
  Start n :: map Execute (seq 0 n) ++ flat_map (fun w => [Acquire w; Recv w (RTask w)]) (seq 0 n).

Definition st_exec (n k : nat) : state :=
  mk n HStarted true (map Task (seq 0 k)) None (fun w => if Nat.ltb w n then Idle else Exited) [] true false
     (seq 0 k) [] [].

Lemma existsb_seq_fresh : forall k, existsb (Nat.eqb k) (seq 0 k) = false.
Proof.
  intros k. destruct (existsb (Nat.eqb k) (seq 0 k)) eqn:E; [|reflexivity].
  apply existsb_exists in E. destruct E as (x & Hin & Hx). apply in_seq in Hin. apply Nat.eqb_eq in Hx. lia.
Qed.

Lemma run_executes : forall n j k, run (st_exec n k) (map Execute (seq k j)) = Some (st_exec n (k + j)).
Proof.
  intros n. induction j as [|j IH]; intros k; cbn [seq map].
  - unfold run; cbn [run_gen]. now rewrite Nat.add_0_r.
  - unfold run; cbn [run_gen]. unfold step_gen at 1. cbn [handle st_exec submitted].
    rewrite existsb_seq_fresh. fold (run).
    replace (mk (nthreads (st_exec n k)) HStarted (sender (st_exec n k)) (queue (st_exec n k) ++ [Task k])
                (lock (st_exec n k)) (ws (st_exec n k)) (rchan (st_exec n k)) (rec_handle (st_exec n k))
                (joining (st_exec n k)) (seq 0 k ++ [k]) (done (st_exec n k)) (panicked (st_exec n k)))
      with (st_exec n (S k)).
    + rewrite IH. f_equal. f_equal. lia.
    + unfold st_exec; cbn [nthreads sender queue lock ws rchan rec_handle joining done panicked].
      rewrite (seq_S k 0), map_app. reflexivity.
Qed.

Definition Pconc (n k : nat) (s : state) : Prop :=
  nthreads s = n /\ handle s = HStarted /\ lock s = None /\ queue s = map Task (seq k (n - k)) /\
  (forall w, w < k -> ws s w = Running w) /\ (forall w, k <= w < n -> ws s w = Idle) /\ rchan s = [].

Lemma conc_one : forall n k s, Pconc n k s -> k < n ->
  exists s', run s [Acquire k; Recv k (RTask k)] = Some s' /\ Pconc n (S k) s'.
Proof.
  intros n k s (Hn & Hh & Hl & Hq & Hrun & Hidle & Hrc) Hk.
  assert (Hik : ws s k = Idle) by (apply Hidle; lia).
  assert (Hseq : seq k (n - k) = k :: seq (S k) (n - S k)).
  { replace (n - k) with (S (n - S k)) by lia. reflexivity. }
  unfold run; cbn [run_gen]. unfold step_gen at 1. rewrite Hik, Hl.
  unfold step_gen at 1. simp. rewrite upd_same, Nat.eqb_refl, Hq, Hseq. cbn [map rres_eqb]. rewrite Nat.eqb_refl.
  eexists; split; [reflexivity|].
  unfold Pconc, after_recv; simp. repeat split; try assumption.
  - intros w Hw. destruct (upd_cases (upd (ws s) k InRecv) k (Running k) w) as [[-> ->]|[Hne ->]]; [reflexivity|].
    rewrite upd_other by assumption. apply Hrun. lia.
  - intros w Hw. rewrite !upd_other by lia. apply Hidle. lia.
Qed.

Lemma conc_many : forall n j k s, Pconc n k s -> k + j = n ->
  exists s', run s (flat_map (fun w => [Acquire w; Recv w (RTask w)]) (seq k j)) = Some s' /\ Pconc n n s'.
Proof.
  intros n. induction j as [|j IH]; intros k s HP Hkj; cbn [seq flat_map].
  - exists s. split; [reflexivity|]. assert (k = n) by lia. subst k. exact HP.
  - destruct (conc_one n k s HP ltac:(lia)) as (s1 & Hr1 & HP1).
    destruct (IH (S k) s1 HP1 ltac:(lia)) as (s2 & Hr2 & HP2).
    exists s2. split; [|exact HP2].
    change ([Acquire k; Recv k (RTask k)] ++ flat_map (fun w => [Acquire w; Recv w (RTask w)]) (seq (S k) j))
      with ([Acquire k; Recv k (RTask k)] ++ flat_map (fun w => [Acquire w; Recv w (RTask w)]) (seq (S k) j)).
    unfold run in *. rewrite run_gen_app, Hr1. exact Hr2.
Qed.

Lemma n_concurrent : forall n, 1 <= n ->
  exists s, run init (conc_trace n) = Some s /\ nthreads s = n /\
            (forall w, w < n -> ws s w = Running w) /\ running_count s = n /\ lock s = None.
Proof.
  intros n Hn. unfold conc_trace.
  assert (H1 : step init (Start n) = Some (st_exec n 0)).
  { unfold step, step_gen; simp. destruct (Nat.leb 1 n) eqn:E; [reflexivity|]. apply Nat.leb_gt in E. lia. }
  assert (HP : Pconc n 0 (st_exec n n)).
  { unfold Pconc, st_exec; simp. rewrite Nat.sub_0_r. repeat split; try reflexivity.
    - intros w Hw; lia.
    - intros w Hw. destruct (Nat.ltb w n) eqn:E; [reflexivity|]. apply Nat.ltb_ge in E. lia. }
  (* the queue of st_exec n n is seq 0 n, while Pconc 0 wants seq 0 (n - 0): same *)
  destruct (conc_many n n 0 (st_exec n n) HP ltac:(lia)) as (s & Hr & (Hnn & Hh & Hl & Hq & Hrun & _)).
  exists s. split.
  - unfold run in *. cbn [run_gen]. unfold step in H1. rewrite H1. rewrite run_gen_app.
    pose proof (run_executes n n 0) as HE. unfold run in HE. rewrite HE. cbn [Nat.add]. exact Hr.
  - repeat split; try assumption.
    unfold running_count. rewrite Hnn. apply count_upto_all. intros w Hw. rewrite (Hrun w Hw). reflexivity.
Qed.

(* ------------------------------------------------------------------------------------------------ *)
(* panic isolation *)

(* everything a step of worker w (Panic / Notify) or the recovery of w leaves alone *)
Definition same_but_worker (w : nat) (s s' : state) : Prop :=
  (forall x, x <> w -> ws s' x = ws s x) /\ queue s' = queue s /\ lock s' = lock s /\ done s' = done s /\
  handle s' = handle s /\ sender s' = sender s /\ submitted s' = submitted s /\ nthreads s' = nthreads s.

Lemma panic_touches_only_w : forall old s w s', step_gen old s (Panic w) = Some s' ->
  same_but_worker w s s' /\ rchan s' = rchan s /\ ws s' w = Unwinding /\
  exists id, ws s w = Running id /\ panicked s' = id :: panicked s.
Proof.
  intros old s w s' Hs. step_inv Hs. unfold same_but_worker; simp.
  repeat split; try reflexivity; [intros x Hx; now apply upd_other|apply upd_same|eauto].
Qed.

Lemma notify_touches_only_w : forall old s w s', step_gen old s (Notify w) = Some s' ->
  same_but_worker w s s' /\ rchan s' = rchan s ++ [w] /\ ws s' w = Dead /\ panicked s' = panicked s.
Proof.
  intros old s w s' Hs. step_inv Hs. unfold same_but_worker; simp.
  repeat split; try reflexivity; [intros x Hx; now apply upd_other|apply upd_same].
Qed.

Lemma recover_touches_only_w : forall old s w s', step_gen old s (Recover w) = Some s' ->
  same_but_worker w s s' /\ rchan s = w :: rchan s' /\ ws s' w = Idle /\ panicked s' = panicked s.
Proof.
  intros old s w s' Hs. step_inv Hs. apply Nat.eqb_eq in Heqb; subst. unfold same_but_worker; simp.
  repeat split; try reflexivity; [intros x Hx; now apply upd_other|apply upd_same].
Qed.

(* a running task can panic at any time; the notification then goes through *)
Lemma panic_then_notify : forall old s w id, ws s w = Running id ->
  exists s1 s2, step_gen old s (Panic w) = Some s1 /\ step_gen old s1 (Notify w) = Some s2 /\
                rchan s2 = rchan s ++ [w] /\ ws s2 w = Dead /\ queue s2 = queue s /\ done s2 = done s /\
                (forall x, x <> w -> ws s2 x = ws s x).
Proof.
  intros old s w id Hr. unfold step_gen at 1. rewrite Hr. eexists; eexists; split; [reflexivity|].
  unfold step_gen; simp. rewrite upd_same. split; [reflexivity|]. simp.
  repeat split; try reflexivity; [apply upd_same|].
  intros x Hx. now rewrite !upd_other by assumption.
Qed.

(* the recovery thread is never blocked: the head of its channel can always be recovered *)
Lemma recover_head_enabled : forall old s h r, Inv s -> rchan s = h :: r ->
  exists s', step_gen old s (Recover h) = Some s'.
Proof.
  intros old s h r HI Hr.
  assert (Hd : ws s h = Dead) by (apply (i_dead s HI); rewrite Hr; now left).
  unfold step_gen. rewrite Hr, Hd, Nat.eqb_refl. eauto.
Qed.

(* a pending recovery request is only consumed by its own Recover step *)
Lemma pending_stays : forall old s l s' w, Inv s -> step_gen old s l = Some s' -> In w (rchan s) ->
  l <> Recover w -> In w (rchan s').
Proof.
  intros old s l s' w HI Hs Hin Hl. destruct l; step_inv Hs; unfold after_recv; simp; try assumption.
  - apply (i_new s HI) in Heqh. subst s. contradiction.
  - apply in_or_app; now left.
  - apply Nat.eqb_eq in Heqb; subst. destruct Hin as [<-|Hin]; [congruence|assumption].
Qed.

(* recovering everything that is pending *)
Lemma recover_all : forall old r s, Inv s -> rchan s = r ->
  exists s', run_gen old s (map Recover r) = Some s' /\ rchan s' = [] /\
             (forall w, In w r -> ws s' w = Idle) /\ (forall w, ~ In w r -> ws s' w = ws s w) /\
             queue s' = queue s /\ done s' = done s /\ handle s' = handle s /\ nthreads s' = nthreads s /\
             lock s' = lock s.
Proof.
  intros old. induction r as [|h r IH]; intros s HI Hr; cbn [map run_gen].
  - exists s. repeat split; auto. intros w [].
  - destruct (recover_head_enabled old s h r HI Hr) as (s1 & Hs1). rewrite Hs1.
    pose proof (step_inv_preserved old s (Recover h) s1 HI Hs1) as HI1.
    destruct (recover_touches_only_w old s h s1 Hs1) as ((Hoth & Hq & Hl & Hd & Hh & _ & _ & Hn) & Hrc & Hidle & _).
    assert (Hr1 : rchan s1 = r) by (rewrite Hr in Hrc; now injection Hrc).
    destruct (IH s1 HI1 Hr1) as (s2 & Hrun & Hr2 & Hin2 & Hnot2 & Hq2 & Hd2 & Hh2 & Hn2 & Hl2).
    exists s2. split; [exact Hrun|]. split; [exact Hr2|].
    assert (Hnd : ~ In h r).
    { pose proof (i_rnodup s HI) as ND. rewrite Hr in ND. now inversion ND. }
    repeat split; try congruence.
    + intros w [<-|Hin]; [|now apply Hin2]. rewrite Hnot2 by assumption. exact Hidle.
    + intros w Hn'. rewrite Hnot2 by (intros Hc; apply Hn'; now right). apply Hoth. intros ->. apply Hn'. now left.
Qed.

(* while the pool is started every worker is usable, or on its way to being replaced *)
Lemma started_workers : forall s, Inv s -> handle s = HStarted -> forall w, w < nthreads s ->
  usable (ws s w) = true \/ ws s w = Unwinding \/ (ws s w = Dead /\ In w (rchan s)).
Proof.
  intros s HI Hh w Hw. destruct (i_started s HI Hh) as (_ & _ & Hne). specialize (Hne w Hw).
  destruct (ws s w) eqn:E; cbn [usable]; auto.
  all: try (right; right; split; [reflexivity|]; apply (i_dead s HI); exact E); try congruence.
Qed.

Lemma restores_n_workers : forall old s, Inv s -> handle s = HStarted ->
  (forall w, ws s w <> Unwinding) ->
  exists s', run_gen old s (map Recover (rchan s)) = Some s' /\ rchan s' = [] /\
             count_upto (nthreads s') usable (ws s') = nthreads s /\ queue s' = queue s /\ done s' = done s.
Proof.
  intros old s HI Hh Hnu.
  destruct (recover_all old (rchan s) s HI eq_refl) as (s' & Hrun & Hr & Hin & Hnot & Hq & Hd & Hh' & Hn & _).
  exists s'. repeat split; try assumption.
  rewrite Hn. apply count_upto_all. intros w Hw.
  destruct (in_dec Nat.eq_dec w (rchan s)) as [Hi|Hi].
  - rewrite (Hin w Hi). reflexivity.
  - rewrite (Hnot w Hi). destruct (started_workers s HI Hh w Hw) as [H|[H|[_ H]]]; [exact H| |contradiction].
    exfalso. eapply Hnu; eassumption.
Qed.

(* ------------------------------------------------------------------------------------------------ *)
(* termination *)

Lemma worker_step_lt : forall old s l s', Inv s -> step_gen old s l = Some s' -> worker_label l = true ->
  measure s' < measure s.
Proof.
  intros old s l s' HI Hs Hl. destruct l; try discriminate Hl; step_inv Hs; unfold measure, after_recv; simp.
  - (* Acquire *)
    assert (Hw : w < nthreads s) by (apply lt_of_not_exited; [assumption|congruence]).
    pose proof (sumw_upd (nthreads s) (ws s) w InRecv Hw) as E. rewrite Heqw0 in E. cbn [weight] in E. lia.
  - (* Recv closed *)
    assert (Hw : w < nthreads s) by (apply lt_of_not_exited; [assumption|congruence]).
    pose proof (sumw_upd (nthreads s) (ws s) w Exited Hw) as E. rewrite Heqw0 in E. cbn [weight] in E.
    match goal with H : queue s = _ |- _ => rewrite H end. cbn [length]. lia.
  - (* Recv task *)
    assert (Hw : w < nthreads s) by (apply lt_of_not_exited; [assumption|congruence]).
    pose proof (sumw_upd (nthreads s) (ws s) w (Running id) Hw) as E. rewrite Heqw0 in E. cbn [weight] in E.
    match goal with H : queue s = _ |- _ => rewrite H end. cbn [length]. lia.
  - (* Recv shutdown *)
    assert (Hw : w < nthreads s) by (apply lt_of_not_exited; [assumption|congruence]).
    pose proof (sumw_upd (nthreads s) (ws s) w Exited Hw) as E. rewrite Heqw0 in E. cbn [weight] in E.
    match goal with H : queue s = _ |- _ => rewrite H end. cbn [length]. lia.
  - (* Finish *)
    assert (Hw : w < nthreads s) by (apply lt_of_not_exited; [assumption|congruence]).
    pose proof (sumw_upd (nthreads s) (ws s) w Idle Hw) as E. rewrite Heqw0 in E. cbn [weight] in E. lia.
  - (* Panic *)
    assert (Hw : w < nthreads s) by (apply lt_of_not_exited; [assumption|congruence]).
    pose proof (sumw_upd (nthreads s) (ws s) w Unwinding Hw) as E. rewrite Heqw0 in E. cbn [weight] in E. lia.
  - (* Notify *)
    assert (Hw : w < nthreads s) by (apply lt_of_not_exited; [assumption|congruence]).
    pose proof (sumw_upd (nthreads s) (ws s) w Dead Hw) as E. rewrite Heqw0 in E. cbn [weight] in E. lia.
  - (* Recover *)
    assert (Hw : w < nthreads s) by (apply lt_of_not_exited; [assumption|congruence]).
    pose proof (sumw_upd (nthreads s) (ws s) w Idle Hw) as E. rewrite Heqw0 in E. cbn [weight] in E. lia.
Qed.

(* once the pool is gone only workers and the recovery thread move *)
Lemma dropped_only_workers : forall old s l s', handle s = HDropped -> step_gen old s l = Some s' ->
  worker_label l = true /\ handle s' = HDropped.
Proof.
  intros old s l s' Hh Hs. destruct l; step_inv Hs; unfold after_recv; simp; try congruence; auto.
Qed.

Lemma worker_run_bounded : forall old tr s s', Inv s -> Forall (fun l => worker_label l = true) tr ->
  run_gen old s tr = Some s' -> length tr + measure s' <= measure s.
Proof.
  intros old. induction tr as [|l tr IH]; intros s s' HI Hall Hr; cbn [run_gen length] in *.
  - injection Hr as <-. lia.
  - inversion Hall as [|? ? Hl Hall']; subst. destruct (step_gen old s l) as [s1|] eqn:E; [|discriminate].
    pose proof (worker_step_lt old s l s1 HI E Hl) as Hlt.
    pose proof (step_inv_preserved old s l s1 HI E) as HI1.
    specialize (IH s1 s' HI1 Hall' Hr). lia.
Qed.

Lemma dropped_run_bounded : forall old tr s s', Inv s -> handle s = HDropped ->
  run_gen old s tr = Some s' -> length tr + measure s' <= measure s /\ handle s' = HDropped.
Proof.
  intros old. induction tr as [|l tr IH]; intros s s' HI Hh Hr; cbn [run_gen length] in *.
  - injection Hr as <-. split; [lia|assumption].
  - destruct (step_gen old s l) as [s1|] eqn:E; [|discriminate].
    destruct (dropped_only_workers old s l s1 Hh E) as (Hl & Hh1).
    pose proof (worker_step_lt old s l s1 HI E Hl) as Hlt.
    pose proof (step_inv_preserved old s l s1 HI E) as HI1.
    destruct (IH s1 s' HI1 Hh1 Hr) as (Hb & Hh'). split; [lia|assumption].
Qed.

(* the end state: nothing left to do, nothing lost *)
Definition finished (s : state) : Prop :=
  all_exited s /\ qtasks (queue s) = [] /\ running s = [] /\ lock s = None /\ rchan s = [] /\
  Permutation (done s ++ panicked s) (submitted s).

Lemma find_live : forall k (f : nat -> wstate),
  (forall w, w < k -> f w = Exited) \/ (exists w, w < k /\ f w <> Exited).
Proof.
  induction k as [|k IH]; intros f; [left; intros; lia|].
  destruct (IH f) as [Hall|(w & Hw & Hne)]; [|right; exists w; split; [lia|assumption]].
  destruct (f k) eqn:E; try (right; exists k; split; [lia|congruence]).
  left. intros w Hw. destruct (Nat.eq_dec w k) as [->|Hne]; [assumption|apply Hall; lia].
Qed.

Lemma recv_enabled : forall old s w, ws s w = InRecv -> lock s = Some w -> sender s = false ->
  exists r s', step_gen old s (Recv w r) = Some s'.
Proof.
  intros old s w Hw Hl Hsd. destruct (queue s) as [|[id|] q] eqn:Eq.
  - exists RClosed. unfold step_gen. rewrite Hw, Hl, Nat.eqb_refl, Eq, Hsd. cbn. eauto.
  - exists (RTask id). unfold step_gen. rewrite Hw, Hl, Nat.eqb_refl, Eq. cbn [rres_eqb]. rewrite Nat.eqb_refl. eauto.
  - exists RShutdown. unfold step_gen. rewrite Hw, Hl, Nat.eqb_refl, Eq. cbn. eauto.
Qed.

(* progress: with the Sender gone, either everything is finished or some thread can move *)
Lemma dropped_progress : forall old s, Inv s -> handle s = HDropped ->
  finished s \/ exists l s', step_gen old s l = Some s'.
Proof.
  intros old s HI Hh. destruct (i_dropped s HI Hh) as (Hsd & _).
  destruct (find_live (nthreads s) (ws s)) as [Hall|(w & Hw & Hne)].
  - left.
    assert (Hall' : all_exited s).
    { intros w. destruct (Nat.lt_ge_cases w (nthreads s)); [now apply Hall|now apply (i_range s HI)]. }
    assert (Hq : qtasks (queue s) = []).
    { destruct (nthreads s) as [|k] eqn:En.
      - destruct (i_zero s HI En) as (-> & _). reflexivity.
      - apply (i_exit s HI 0); [lia|apply Hall'; lia]. }
    assert (Hr : running s = []).
    { unfold running. apply running_upto_none. intros w _. now rewrite Hall'. }
    assert (Hl : lock s = None).
    { destruct (lock s) as [h|] eqn:El; [|reflexivity]. apply (i_lock1 s HI) in El. rewrite Hall' in El. discriminate. }
    assert (Hc : rchan s = []).
    { destruct (rchan s) as [|h r] eqn:Er; [reflexivity|].
      assert (Hd : ws s h = Dead) by (apply (i_dead s HI); rewrite Er; now left). rewrite Hall' in Hd. discriminate. }
    repeat split; try assumption.
    pose proof (i_perm s HI) as P. rewrite Hq, Hr in P. exact P.
  - right. destruct (ws s w) eqn:E.
    + (* Idle *)
      destruct (lock s) as [h|] eqn:El.
      * pose proof (i_lock1 s HI h El) as Hh'.
        destruct (recv_enabled old s h Hh' El Hsd) as (r & s' & Hs). eauto.
      * exists (Acquire w). unfold step_gen. rewrite E, El. eauto.
    + (* InRecv *)
      pose proof (i_lock2 s HI w E) as El.
      destruct (recv_enabled old s w E El Hsd) as (r & s' & Hs). eauto.
    + exists (Finish w). unfold step_gen. rewrite E. eauto.
    + exists (Notify w). unfold step_gen. rewrite E. eauto.
    + assert (Hin : In w (rchan s)) by (now apply (i_dead s HI)).
      destruct (rchan s) as [|h r] eqn:Er; [contradiction|].
      destruct (recover_head_enabled old s h r HI Er) as (s' & Hs). eauto.
    + congruence.
Qed.

Lemma finished_stuck : forall old s, finished s -> handle s = HDropped -> forall l, step_gen old s l = None.
Proof.
  intros old s (Hall & _ & _ & _ & Hc & _) Hh l.
  destruct (step_gen old s l) as [s'|] eqn:E; [|reflexivity]. exfalso.
  destruct l; step_inv E; try congruence; rewrite Hall in *; discriminate.
Qed.

(* from every state after the drop, a finished state is reached; all runs are bounded by the measure *)
Lemma dropped_reaches_finished : forall old m s, measure s <= m -> Inv s -> handle s = HDropped ->
  exists tr s', run_gen old s tr = Some s' /\ finished s'.
Proof.
  intros old. induction m as [|m IH]; intros s Hm HI Hh.
  - destruct (dropped_progress old s HI Hh) as [Hf|(l & s1 & Hs)]; [exists [], s; split; [reflexivity|assumption]|].
    destruct (dropped_only_workers old s l s1 Hh Hs) as (Hl & _).
    pose proof (worker_step_lt old s l s1 HI Hs Hl). lia.
  - destruct (dropped_progress old s HI Hh) as [Hf|(l & s1 & Hs)]; [exists [], s; split; [reflexivity|assumption]|].
    destruct (dropped_only_workers old s l s1 Hh Hs) as (Hl & Hh1).
    pose proof (worker_step_lt old s l s1 HI Hs Hl) as Hlt.
    pose proof (step_inv_preserved old s l s1 HI Hs) as HI1.
    destruct (IH s1 ltac:(lia) HI1 Hh1) as (tr & s' & Hr & Hf).
    exists (l :: tr), s'. split; [|assumption]. cbn [run_gen]. now rewrite Hs.
Qed.

(* the caller is never blocked (new code): stop() and both halves of drop are always enabled in turn *)
Lemma stop_enabled : forall s, handle s = HStarted \/ handle s = HStopped -> exists s', step s Stop = Some s'.
Proof. intros s [H|H]; unfold step, step_gen; rewrite H; eauto. Qed.

Lemma drop_begin_enabled : forall s, handle s = HNew \/ handle s = HStarted \/ handle s = HStopped ->
  exists s', step s DropBegin = Some s' /\ handle s' = HDropping /\ joining s' = false.
Proof. intros s [H|[H|H]]; unfold step, step_gen; rewrite H; eexists; split; try reflexivity; auto. Qed.

Lemma dropping_stable : forall old s l s', handle s = HDropping -> step_gen old s l = Some s' -> l <> DropEnd ->
  handle s' = HDropping /\ joining s' = joining s /\ worker_label l = true.
Proof.
  intros old s l s' Hh Hs Hl. destruct l; step_inv Hs; unfold after_recv; simp; try congruence; auto.
Qed.

Lemma drop_end_enabled_after : forall tr s s', handle s = HDropping -> joining s = false ->
  Forall (fun l => l <> DropEnd) tr -> run s tr = Some s' -> exists s'', step s' DropEnd = Some s''.
Proof.
  induction tr as [|l tr IH]; intros s s' Hh Hj Hall Hr; unfold run in *; cbn [run_gen] in Hr.
  - injection Hr as <-. unfold step, step_gen. rewrite Hh, Hj. eauto.
  - inversion Hall as [|? ? Hl Hall']; subst. destruct (step_gen false s l) as [s1|] eqn:E; [|discriminate].
    destruct (dropping_stable false s l s1 Hh E Hl) as (Hh1 & Hj1 & _).
    eapply IH; [exact Hh1|congruence|exact Hall'|exact Hr].
Qed.

(* old code: Drop of a started, not stopped pool never completes *)
Definition old_witness : list label := [Start 2; Execute 0; DropBegin].

Lemma old_join_forever : forall tr s s', handle s = HDropping -> joining s = true -> run_old s tr = Some s' ->
  handle s' = HDropping /\ joining s' = true /\ step_old s' DropEnd = None.
Proof.
  induction tr as [|l tr IH]; intros s s' Hh Hj Hr; unfold run_old in *; cbn [run_gen] in Hr.
  - injection Hr as <-. repeat split; try assumption. unfold step_old, step_gen. rewrite Hh, Hj. reflexivity.
  - destruct (step_gen true s l) as [s1|] eqn:E; [|discriminate].
    assert (Hl : l <> DropEnd).
    { intros ->. unfold step_gen in E. rewrite Hh, Hj in E. discriminate. }
    destruct (dropping_stable true s l s1 Hh E Hl) as (Hh1 & Hj1 & _).
    eapply IH; [exact Hh1|congruence|exact Hr].
Qed.

(* ------------------------------------------------------------------------------------------------ *)
(* statements as used by props/C08.v *)

Lemma exactly_once : forall tr s, run init tr = Some s ->
  NoDup (submitted s) /\
  Permutation (qtasks (queue s) ++ running s ++ done s ++ panicked s) (submitted s) /\
  NoDup (qtasks (queue s) ++ running s ++ done s ++ panicked s) /\
  NoDup (done s) /\
  (forall id, In id (done s) ->
     In id (submitted s) /\ ~ In id (qtasks (queue s)) /\ ~ In id (running s) /\ ~ In id (panicked s)).
Proof.
  intros tr s Hr. pose proof (reachable_inv tr s Hr) as HI.
  destruct (exactly_once_inv s HI) as (A & B & C). destruct (done_once s HI) as (D & E). auto.
Qed.

Lemma lock_free_while_running : forall tr s, run init tr = Some s ->
  (forall w, lock s = Some w -> ws s w = InRecv) /\
  (forall w id, ws s w = Running id -> lock s <> Some w).
Proof.
  intros tr s Hr. pose proof (reachable_inv tr s Hr) as HI. split.
  - apply (i_lock1 s HI).
  - apply (lock_free_while_running_inv s HI).
Qed.

Lemma n_concurrent_reachable : forall n, 1 <= n ->
  exists tr s, run init tr = Some s /\ nthreads s = n /\ (forall w, w < n -> ws s w = Running w) /\
               running_count s = n /\ lock s = None.
Proof. intros n Hn. destruct (n_concurrent n Hn) as (s & H). exists (conc_trace n), s. exact H. Qed.

Lemma at_most_n_running : forall s, running_count s <= nthreads s.
Proof. intros s. apply count_upto_le. Qed.

Lemma panic_isolated : forall tr s, run init tr = Some s ->
  (* a panic, its notification and the recovery change nothing but the worker concerned and the recovery channel *)
  (forall w s', step s (Panic w) = Some s' ->
     (forall x, x <> w -> ws s' x = ws s x) /\ queue s' = queue s /\ lock s' = lock s /\ done s' = done s /\
     rchan s' = rchan s /\ ws s' w = Unwinding) /\
  (forall w s', step s (Notify w) = Some s' ->
     (forall x, x <> w -> ws s' x = ws s x) /\ queue s' = queue s /\ lock s' = lock s /\ done s' = done s /\
     rchan s' = rchan s ++ [w] /\ ws s' w = Dead) /\
  (forall w s', step s (Recover w) = Some s' ->
     (forall x, x <> w -> ws s' x = ws s x) /\ queue s' = queue s /\ lock s' = lock s /\ done s' = done s /\
     rchan s = w :: rchan s' /\ ws s' w = Idle) /\
  (* a running task may panic at any moment (first run or after a restart), and the notification follows *)
  (forall w id, ws s w = Running id ->
     exists s1 s2, step s (Panic w) = Some s1 /\ step s1 (Notify w) = Some s2 /\ rchan s2 = rchan s ++ [w] /\
                   queue s2 = queue s /\ done s2 = done s /\ forall x, x <> w -> ws s2 x = ws s x) /\
  (* the recovery thread is never blocked, and a request stays pending until it is served *)
  (forall h r, rchan s = h :: r -> exists s', step s (Recover h) = Some s') /\
  (forall l s' w, step s l = Some s' -> In w (rchan s) -> l <> Recover w -> In w (rchan s')) /\
  (* serving all pending requests restores n usable workers, without touching the queue *)
  (handle s = HStarted -> (forall w, ws s w <> Unwinding) ->
     exists s', run s (map Recover (rchan s)) = Some s' /\ rchan s' = [] /\
                count_upto (nthreads s') usable (ws s') = nthreads s /\ queue s' = queue s /\ done s' = done s).
Proof.
  intros tr s Hr. pose proof (reachable_inv tr s Hr) as HI.
  repeat split.
  - apply (panic_touches_only_w false s w s' H).
  - apply (panic_touches_only_w false s w s' H).
  - apply (panic_touches_only_w false s w s' H).
  - apply (panic_touches_only_w false s w s' H).
  - apply (panic_touches_only_w false s w s' H).
  - apply (panic_touches_only_w false s w s' H).
  - apply (notify_touches_only_w false s w s' H).
  - apply (notify_touches_only_w false s w s' H).
  - apply (notify_touches_only_w false s w s' H).
  - apply (notify_touches_only_w false s w s' H).
  - apply (notify_touches_only_w false s w s' H).
  - apply (notify_touches_only_w false s w s' H).
  - apply (recover_touches_only_w false s w s' H).
  - apply (recover_touches_only_w false s w s' H).
  - apply (recover_touches_only_w false s w s' H).
  - apply (recover_touches_only_w false s w s' H).
  - apply (recover_touches_only_w false s w s' H).
  - apply (recover_touches_only_w false s w s' H).
  - intros w id Hw. destruct (panic_then_notify false s w id Hw) as (s1 & s2 & A & B & C & _ & D & E & F).
    exists s1, s2. unfold step. repeat split; assumption.
  - intros h r Hc. exact (recover_head_enabled false s h r HI Hc).
  - intros l s' w Hs Hin Hl. exact (pending_stays false s l s' w HI Hs Hin Hl).
  - intros Hh Hnu. exact (restores_n_workers false s HI Hh Hnu).
Qed.

Lemma shutdown_terminates : forall tr s, run init tr = Some s -> handle s = HDropped ->
  (forall l s', step s l = Some s' -> worker_label l = true /\ handle s' = HDropped /\ measure s' < measure s) /\
  (forall tr' s', run s tr' = Some s' -> length tr' + measure s' <= measure s) /\
  (forall tr' s', run s tr' = Some s' -> (forall l, step s' l = None) -> finished s') /\
  (exists tr' s', run s tr' = Some s' /\ finished s' /\ forall l, step s' l = None).
Proof.
  intros tr s Hr Hh. pose proof (reachable_inv tr s Hr) as HI.
  split; [|split; [|split]].
  - intros l s' Hs. destruct (dropped_only_workers false s l s' Hh Hs) as (Hl & Hh').
    repeat split; try assumption. exact (worker_step_lt false s l s' HI Hs Hl).
  - intros tr' s' Hr'. apply (dropped_run_bounded false tr' s s' HI Hh Hr').
  - intros tr' s' Hr' Hstuck.
    pose proof (run_gen_inv false tr' s s' HI Hr') as HI'.
    destruct (dropped_run_bounded false tr' s s' HI Hh Hr') as (_ & Hh').
    destruct (dropped_progress false s' HI' Hh') as [Hf|(l & s2 & Hs)]; [assumption|].
    unfold step in Hstuck. rewrite Hstuck in Hs. discriminate.
  - destruct (dropped_reaches_finished false (measure s) s (le_n _) HI Hh) as (tr' & s' & Hr' & Hf).
    exists tr', s'. split; [assumption|]. split; [assumption|].
    destruct (dropped_run_bounded false tr' s s' HI Hh Hr') as (_ & Hh').
    intros l. apply (finished_stuck false s' Hf Hh').
Qed.

(* before the drop the measure argument holds as well: workers and recovery cannot run forever on their own *)
Lemma workers_cannot_run_forever : forall tr s, run init tr = Some s ->
  forall tr' s', Forall (fun l => worker_label l = true) tr' -> run s tr' = Some s' ->
  length tr' + measure s' <= measure s.
Proof.
  intros tr s Hr tr' s' Hall Hr'. pose proof (reachable_inv tr s Hr) as HI.
  exact (worker_run_bounded false tr' s s' HI Hall Hr').
Qed.

Lemma caller_never_blocked : forall tr s, run init tr = Some s ->
  (handle s = HStarted \/ handle s = HStopped -> exists s', step s Stop = Some s') /\
  (handle s = HNew \/ handle s = HStarted \/ handle s = HStopped ->
     exists s1, step s DropBegin = Some s1 /\
       forall tr' s2, Forall (fun l => l <> DropEnd) tr' -> run s1 tr' = Some s2 ->
         exists s3, step s2 DropEnd = Some s3 /\ handle s3 = HDropped /\ sender s3 = false).
Proof.
  intros tr s Hr. split; [apply stop_enabled|].
  intros Hh. destruct (drop_begin_enabled s Hh) as (s1 & Hs1 & Hh1 & Hj1).
  exists s1. split; [assumption|]. intros tr' s2 Hall Hr2.
  destruct (drop_end_enabled_after tr' s1 s2 Hh1 Hj1 Hall Hr2) as (s3 & Hs3).
  exists s3. split; [assumption|]. unfold step in Hs3. step_inv Hs3. simp. auto.
Qed.

Lemma drop_without_stop_refuted :
  exists tr s, run_old init tr = Some s /\ handle s = HDropping /\
               forall tr' s', run_old s tr' = Some s' -> step_old s' DropEnd = None.
Proof.
  exists old_witness. eexists. split; [vm_compute; reflexivity|]. split; [reflexivity|].
  intros tr' s' Hr'. eapply old_join_forever; [| |exact Hr']; reflexivity.
Qed.

Lemma old_differs_only_in_drop : forall s l, l <> DropBegin -> step_old s l = step s l.
Proof. intros s l Hl. destruct l; try reflexivity. congruence. Qed.

Lemma old_drop_after_stop_ok : forall s, handle s = HStopped -> rec_handle s = false ->
  step_old s DropBegin = step s DropBegin.
Proof. intros s Hh Hr. unfold step_old, step, step_gen. rewrite Hh, Hr. reflexivity. Qed.

Lemma lock_never_poisoned : forall s w, step s (LockPoisoned w) = None.
Proof. reflexivity. Qed.

(* ------------------------------------------------------------------------------------------------ *)
(* work conservation: whenever no worker and not the recovery thread can move, nothing is queued or running *)

Lemma recv_enabled_nonempty : forall old s w m q, ws s w = InRecv -> lock s = Some w -> queue s = m :: q ->
  exists r s', step_gen old s (Recv w r) = Some s'.
Proof.
  intros old s w m q Hw Hl Hq. destruct m as [id|].
  - exists (RTask id). unfold step_gen. rewrite Hw, Hl, Nat.eqb_refl, Hq. cbn [rres_eqb]. rewrite Nat.eqb_refl. eauto.
  - exists RShutdown. unfold step_gen. rewrite Hw, Hl, Nat.eqb_refl, Hq. cbn. eauto.
Qed.

Lemma quiescent_no_work : forall old s, Inv s ->
  (forall l, worker_label l = true -> step_gen old s l = None) ->
  qtasks (queue s) = [] /\ running s = [] /\ rchan s = [] /\ Permutation (done s ++ panicked s) (submitted s).
Proof.
  intros old s HI Hstuck.
  assert (Hr : running s = []).
  { unfold running. apply running_upto_none. intros w Hw. destruct (ws s w) eqn:E; try reflexivity.
    assert (H : step_gen old s (Finish w) = None) by (apply Hstuck; reflexivity).
    unfold step_gen in H. rewrite E in H. discriminate. }
  assert (Hc : rchan s = []).
  { destruct (rchan s) as [|h r] eqn:Er; [reflexivity|].
    destruct (recover_head_enabled old s h r HI Er) as (s' & Hs).
    rewrite (Hstuck (Recover h) eq_refl) in Hs. discriminate. }
  assert (Hq : qtasks (queue s) = []).
  { destruct (queue s) as [|m q] eqn:Eq; [reflexivity|]. rewrite <- Eq.
    destruct (find_live (nthreads s) (ws s)) as [Hall|(w & Hw & Hne)].
    - destruct (nthreads s) as [|k] eqn:En.
      + destruct (i_zero s HI En) as (E0 & _). rewrite E0. reflexivity.
      + apply (i_exit s HI 0); [lia|apply Hall; lia].
    - exfalso. destruct (ws s w) eqn:E.
      + destruct (lock s) as [h|] eqn:El.
        * pose proof (i_lock1 s HI h El) as Hh.
          destruct (recv_enabled_nonempty old s h m q Hh El Eq) as (r & s' & Hs).
          rewrite (Hstuck (Recv h r) eq_refl) in Hs. discriminate.
        * assert (H : step_gen old s (Acquire w) = None) by (apply Hstuck; reflexivity).
          unfold step_gen in H. rewrite E, El in H. discriminate.
      + pose proof (i_lock2 s HI w E) as El.
        destruct (recv_enabled_nonempty old s w m q E El Eq) as (r & s' & Hs).
        rewrite (Hstuck (Recv w r) eq_refl) in Hs. discriminate.
      + assert (H : step_gen old s (Finish w) = None) by (apply Hstuck; reflexivity).
        unfold step_gen in H. rewrite E in H. discriminate.
      + assert (H : step_gen old s (Notify w) = None) by (apply Hstuck; reflexivity).
        unfold step_gen in H. rewrite E in H. discriminate.
      + assert (Hin : In w (rchan s)) by (now apply (i_dead s HI)). rewrite Hc in Hin. contradiction.
      + congruence. }
  repeat split; try assumption.
  pose proof (i_perm s HI) as P. rewrite Hq, Hr in P. exact P.
Qed.

(* ------------------------------------------------------------------------------------------------ *)
(* FIFO: tasks are handed to workers in submission order *)


Lemma rres_eqb_eq : forall a b, rres_eqb a b = true -> a = b.
Proof.
  intros [i| |] [j| |] H; cbn in H; try discriminate; try reflexivity. apply Nat.eqb_eq in H. now subst.
Qed.

Lemma step_fifo : forall old s l s', Inv s -> step_gen old s l = Some s' ->
  qtasks (queue s) ++ exec_of l = recv_of l ++ qtasks (queue s') /\
  submitted s' = submitted s ++ exec_of l.
Proof.
  intros old s l s' HI Hs.
  destruct l; step_inv Hs; unfold after_recv; simp; cbn [exec_of recv_of app];
    rewrite ?app_nil_r, ?qtasks_app; cbn [qtasks]; rewrite ?app_nil_r; auto.
  - apply (i_new s HI) in Heqh. subst s. auto.
  - apply andb_prop in Heqb0. destruct Heqb0 as [_ Hr]. apply rres_eqb_eq in Hr. subst r. auto.
  - apply rres_eqb_eq in Heqb0. subst r. auto.
  - apply rres_eqb_eq in Heqb0. subst r. auto.
Qed.

Lemma run_fifo : forall old tr s s', Inv s -> run_gen old s tr = Some s' ->
  qtasks (queue s) ++ flat_map exec_of tr = flat_map recv_of tr ++ qtasks (queue s') /\
  submitted s' = submitted s ++ flat_map exec_of tr.
Proof.
  intros old. induction tr as [|l tr IH]; intros s s' HI Hr; cbn [run_gen flat_map] in *.
  - injection Hr as <-. rewrite !app_nil_r. auto.
  - destruct (step_gen old s l) as [s1|] eqn:E; [|discriminate].
    destruct (step_fifo old s l s1 HI E) as (A & B).
    destruct (IH s1 s' (step_inv_preserved old s l s1 HI E) Hr) as (C & D).
    split.
    + rewrite app_assoc, A, <- app_assoc, C, app_assoc. reflexivity.
    + rewrite D, B, app_assoc. reflexivity.
Qed.

(* the ids handed to workers so far, in the order of the Recv steps, followed by the ids still queued, are the
   submitted ids in submission order *)
Lemma fifo_order : forall tr s, run init tr = Some s ->
  flat_map recv_of tr ++ qtasks (queue s) = submitted s /\ submitted s = flat_map exec_of tr.
Proof.
  intros tr s Hr. destruct (run_fifo false tr init s inv_init Hr) as (A & B). cbn in A, B. split; congruence.
Qed.

Lemma no_pending_work_when_quiescent : forall tr s, run init tr = Some s ->
  (forall l, worker_label l = true -> step s l = None) ->
  qtasks (queue s) = [] /\ running s = [] /\ rchan s = [] /\ Permutation (done s ++ panicked s) (submitted s).
Proof. intros tr s Hr Hq. exact (quiescent_no_work false s (reachable_inv tr s Hr) Hq). Qed.

(* every submitted id is handed to a worker at most once along a trace, and exactly once when nothing is left queued *)
Lemma each_task_received_once : forall tr s, run init tr = Some s ->
  NoDup (flat_map recv_of tr) /\ (qtasks (queue s) = [] -> flat_map recv_of tr = submitted s).
Proof.
  intros tr s Hr. destruct (fifo_order tr s Hr) as (A & _).
  pose proof (i_nodup s (reachable_inv tr s Hr)) as ND. rewrite <- A in ND.
  split; [now apply NoDup_app_l in ND|]. intros Hq. rewrite Hq, app_nil_r in A. exact A.
Qed.

(* a pending recovery request is served after the requests queued before it: "Recover w is eventually enabled" *)
Lemma recover_eventually : forall old l1 s w l2, Inv s -> rchan s = l1 ++ w :: l2 ->
  exists s1 s2, run_gen old s (map Recover l1) = Some s1 /\ step_gen old s1 (Recover w) = Some s2 /\
                ws s2 w = Idle /\ queue s2 = queue s /\ done s2 = done s /\ rchan s2 = l2.
Proof.
  intros old. induction l1 as [|h l1 IH]; intros s w l2 HI Hr; cbn [map run_gen app] in *.
  - destruct (recover_head_enabled old s w l2 HI Hr) as (s2 & Hs2).
    exists s, s2. split; [reflexivity|]. split; [exact Hs2|].
    destruct (recover_touches_only_w old s w s2 Hs2) as ((_ & Hq & _ & Hd & _) & Hrc & Hi & _).
    repeat split; try assumption. rewrite Hr in Hrc. now injection Hrc.
  - destruct (recover_head_enabled old s h (l1 ++ w :: l2) HI Hr) as (s' & Hs'). rewrite Hs'.
    pose proof (step_inv_preserved old s (Recover h) s' HI Hs') as HI'.
    destruct (recover_touches_only_w old s h s' Hs') as ((_ & Hq & _ & Hd & _) & Hrc & _ & _).
    assert (Hr' : rchan s' = l1 ++ w :: l2) by (rewrite Hr in Hrc; now injection Hrc).
    destruct (IH s' w l2 HI' Hr') as (s1 & s2 & A & B & C & D & E & F).
    exists s1, s2. repeat split; try assumption; congruence.
Qed.

Lemma recover_eventually_reachable : forall tr s, run init tr = Some s -> forall l1 w l2, rchan s = l1 ++ w :: l2 ->
  exists s1 s2, run s (map Recover l1) = Some s1 /\ step s1 (Recover w) = Some s2 /\
                ws s2 w = Idle /\ queue s2 = queue s /\ done s2 = done s /\ rchan s2 = l2.
Proof. intros tr s Hr l1 w l2 Hc. exact (recover_eventually false l1 s w l2 (reachable_inv tr s Hr) Hc). Qed.
