(* PoolProofs.v — invariants and theorems about the thread pool LTS (C08). *)
From Hv Require Import Prelude Pool.
From Coq Require Import Lia Permutation Arith.

(* ------------------------------------------------------------------------------------------------ *)
(* basics *)

Lemma upd_same : forall f w v, upd f w v w = v.
Proof. intros; unfold upd; now rewrite Nat.eqb_refl. Qed.

Lemma upd_other : forall f w v x, x <> w -> upd f w v x = f x.
Proof. intros f w v x Hx; unfold upd. destruct (Nat.eqb x w) eqn:E; [apply Nat.eqb_eq in E; contradiction|reflexivity]. Qed.

Lemma upd_cases : forall f w v x, (x = w /\ upd f w v x = v) \/ (x <> w /\ upd f w v x = f x).
Proof. intros. destruct (Nat.eq_dec x w) as [->|Hn]; [left; split; [reflexivity|apply upd_same]|right; split; [assumption|now apply upd_other]]. Qed.

Definition ids_of (v : wstate) : list nat := match v with Running id => [id] | _ => [] end.

Lemma running_upto_upd_ge : forall k f w v, k <= w -> running_upto k (upd f w v) = running_upto k f.
Proof.
  induction k as [|k IH]; intros f w v Hk; cbn [running_upto]; [reflexivity|].
  rewrite upd_other by lia. rewrite IH by lia. reflexivity.
Qed.

Lemma running_upto_upd : forall k f w v, w < k ->
  Permutation (ids_of (f w) ++ running_upto k (upd f w v)) (ids_of v ++ running_upto k f).
Proof.
  induction k as [|k IH]; intros f w v Hw; [lia|].
  cbn [running_upto].
  destruct (Nat.eq_dec w k) as [->|Hne].
  - rewrite upd_same. rewrite running_upto_upd_ge by lia.
    destruct (f k) eqn:Ef; destruct v; cbn [ids_of app]; try apply Permutation_refl;
      try (apply perm_skip; apply Permutation_refl).
    all: try (apply perm_swap).
  - rewrite upd_other by lia.
    assert (Hlt : w < k) by lia. specialize (IH f w v Hlt).
    destruct (f k) eqn:Ef; try exact IH.
    (* f k = Running id *)
    eapply Permutation_trans; [apply Permutation_sym, Permutation_middle|].
    eapply Permutation_trans; [|apply Permutation_middle].
    apply perm_skip. exact IH.
Qed.

Lemma sumw_upd_ge : forall k f w v, k <= w -> sumw k (upd f w v) = sumw k f.
Proof.
  induction k as [|k IH]; intros f w v Hk; cbn [sumw]; [reflexivity|].
  rewrite upd_other by lia. rewrite IH by lia. reflexivity.
Qed.

Lemma sumw_upd : forall k f w v, w < k -> sumw k (upd f w v) + weight (f w) = sumw k f + weight v.
Proof.
  induction k as [|k IH]; intros f w v Hw; [lia|].
  cbn [sumw]. destruct (Nat.eq_dec w k) as [->|Hne].
  - rewrite upd_same, sumw_upd_ge by lia. lia.
  - rewrite upd_other by lia. assert (Hlt : w < k) by lia. specialize (IH f w v Hlt). lia.
Qed.

Lemma count_upto_upd_ge : forall k p f w v, k <= w -> count_upto k p (upd f w v) = count_upto k p f.
Proof.
  induction k as [|k IH]; intros p f w v Hk; cbn [count_upto]; [reflexivity|].
  rewrite upd_other by lia. rewrite IH by lia. reflexivity.
Qed.

Lemma count_upto_upd : forall k p f w v, w < k ->
  count_upto k p (upd f w v) + (if p (f w) then 1 else 0) = count_upto k p f + (if p v then 1 else 0).
Proof.
  induction k as [|k IH]; intros p f w v Hw; [lia|].
  cbn [count_upto]. destruct (Nat.eq_dec w k) as [->|Hne].
  - rewrite upd_same, count_upto_upd_ge by lia. lia.
  - rewrite upd_other by lia. assert (Hlt : w < k) by lia. specialize (IH p f w v Hlt). lia.
Qed.

Lemma count_upto_all : forall k p f, (forall w, w < k -> p (f w) = true) -> count_upto k p f = k.
Proof.
  induction k as [|k IH]; intros p f H; cbn [count_upto]; [reflexivity|].
  rewrite H by lia. rewrite IH; [lia|]. intros; apply H; lia.
Qed.

Lemma count_upto_le : forall k p f, count_upto k p f <= k.
Proof. induction k as [|k IH]; intros; cbn [count_upto]; [lia|]. specialize (IH p f). destruct (p (f k)); lia. Qed.

Lemma running_upto_none : forall k f, (forall w, w < k -> is_running (f w) = false) -> running_upto k f = [].
Proof.
  induction k as [|k IH]; intros f H; cbn [running_upto]; [reflexivity|].
  pose proof (H k ltac:(lia)) as Hk. destruct (f k); try discriminate Hk; apply IH; intros; apply H; lia.
Qed.

Lemma running_upto_in : forall k f id, In id (running_upto k f) -> exists w, w < k /\ f w = Running id.
Proof.
  induction k as [|k IH]; intros f id Hin; cbn [running_upto] in Hin; [contradiction|].
  destruct (f k) eqn:Ef; try (destruct (IH _ _ Hin) as (w & Hw & Hf); exists w; split; [lia|assumption]).
  destruct Hin as [<-|Hin]; [exists k; split; [lia|assumption]|].
  destruct (IH _ _ Hin) as (w & Hw & Hf); exists w; split; [lia|assumption].
Qed.

Lemma in_running_upto : forall k f w id, w < k -> f w = Running id -> In id (running_upto k f).
Proof.
  induction k as [|k IH]; intros f w id Hw Hf; [lia|]. cbn [running_upto].
  destruct (Nat.eq_dec w k) as [->|Hne].
  - rewrite Hf. now left.
  - assert (Hin : In id (running_upto k f)) by (eapply IH; [|eassumption]; lia).
    destruct (f k); try assumption. now right.
Qed.

(* queue shape *)
Fixpoint has_shutdown (q : list msg) : bool :=
  match q with [] => false | Task _ :: q' => has_shutdown q' | Shutdown :: _ => true end.

(* no task is queued behind a Shutdown message *)
Fixpoint qok (q : list msg) : Prop :=
  match q with
  | [] => True
  | Task _ :: q' => qok q'
  | Shutdown :: q' => qtasks q' = []
  end.

Lemma qtasks_app : forall a b, qtasks (a ++ b) = qtasks a ++ qtasks b.
Proof. induction a as [|[id|] a IH]; intros; cbn [qtasks app]; [reflexivity|now rewrite IH|apply IH]. Qed.

Lemma qok_notasks : forall q, qtasks q = [] -> qok q.
Proof. induction q as [|[id|] q IH]; cbn [qtasks qok]; intros H; [exact I|discriminate|exact H]. Qed.

Lemma qok_app_shutdown : forall q, qok q -> qok (q ++ [Shutdown]).
Proof.
  induction q as [|[id|] q IH]; cbn [qok app]; intros H; [reflexivity|now apply IH|].
  rewrite qtasks_app, H. reflexivity.
Qed.

Lemma qok_app_task : forall q id, has_shutdown q = false -> qok (q ++ [Task id]).
Proof. induction q as [|[i|] q IH]; cbn [qok app has_shutdown]; intros id H; [exact I|now apply IH|discriminate]. Qed.

Lemma has_shutdown_app_task : forall q id, has_shutdown q = false -> has_shutdown (q ++ [Task id]) = false.
Proof. induction q as [|[i|] q IH]; cbn [app has_shutdown]; intros id H; [reflexivity|now apply IH|discriminate]. Qed.

Lemma qok_tail : forall m q, qok (m :: q) -> qok q.
Proof. intros [id|] q H; cbn [qok] in H; [exact H|now apply qok_notasks]. Qed.

Lemma existsb_eqb_false : forall id l, existsb (Nat.eqb id) l = false -> ~ In id l.
Proof.
  intros id l H Hin. assert (existsb (Nat.eqb id) l = true); [|congruence].
  apply existsb_exists. exists id. split; [assumption|apply Nat.eqb_refl].
Qed.

(* ------------------------------------------------------------------------------------------------ *)
(* step inversion *)

Ltac step_inv H :=
  unfold step, step_old, step_gen in H;
  repeat match type of H with
         | context [match ?x with _ => _ end] => destruct x eqn:?; try discriminate H
         end;
  try (injection H as <-).

Ltac simp := cbn [nthreads handle sender queue lock ws rchan rec_handle joining submitted done panicked init app] in *.

(* ------------------------------------------------------------------------------------------------ *)
(* the inductive invariant (I1-I5 of the design plus bookkeeping) *)

Record Inv (s : state) : Prop := {
  i_lock1 : forall w, lock s = Some w -> ws s w = InRecv;
  i_lock2 : forall w, ws s w = InRecv -> lock s = Some w;
  i_dead : forall w, ws s w = Dead <-> In w (rchan s);
  i_rnodup : NoDup (rchan s);
  i_qok : qok (queue s);
  i_started : handle s = HStarted ->
              has_shutdown (queue s) = false /\ sender s = true /\ forall w, w < nthreads s -> ws s w <> Exited;
  i_new : handle s = HNew -> s = init;
  i_range : forall w, nthreads s <= w -> ws s w = Exited;
  i_perm : Permutation (qtasks (queue s) ++ running s ++ done s ++ panicked s) (submitted s);
  i_nodup : NoDup (submitted s);
  i_exit : forall w, w < nthreads s -> ws s w = Exited -> qtasks (queue s) = [];
  i_zero : nthreads s = 0 ->
           queue s = [] /\ submitted s = [] /\ (handle s = HNew \/ handle s = HDropping \/ handle s = HDropped);
  i_sender : handle s = HStopped -> sender s = true;
  i_dropped : handle s = HDropped -> sender s = false /\ joining s = false;
  i_join : joining s = true -> handle s = HDropping;
}.

Lemma inv_init : Inv init.
Proof.
  constructor; simp; intros; try discriminate; try tauto; try constructor; try reflexivity; try lia.
  all: try discriminate; auto; try contradiction.
Qed.

Lemma lt_of_not_exited : forall s w, Inv s -> ws s w <> Exited -> w < nthreads s.
Proof. intros s w HI Hne. destruct (Nat.lt_ge_cases w (nthreads s)) as [H|H]; [assumption|]. now apply (i_range s HI) in H. Qed.

Ltac wcase x w :=
  match goal with
  | |- context [upd ?f w ?v x] => destruct (upd_cases f w v x) as [[-> ->]|[? ->]]
  | H : context [upd ?f w ?v x] |- _ =>
      revert H; destruct (upd_cases f w v x) as [[-> ->]|[? ->]]; intro H
  end.

Ltac t_old HI := intros;
  first [ now apply (i_lock1 _ HI) | now apply (i_lock2 _ HI) | now apply (i_dead _ HI) | exact (i_rnodup _ HI)
        | exact (i_qok _ HI) | now apply (i_started _ HI) | now apply (i_new _ HI) | now apply (i_range _ HI)
        | exact (i_perm _ HI) | exact (i_nodup _ HI) | (eapply (i_exit _ HI); eassumption)
        | now apply (i_zero _ HI) | now apply (i_sender _ HI) | now apply (i_dropped _ HI)
        | now apply (i_join _ HI) | now apply HI ].
Ltac t_new HI := let H := fresh "Hn" in intro H; apply (i_new _ HI) in H; subst; simp; congruence.
Ltac t_range HI w := let x := fresh "x" in let Hx := fresh "Hx" in
  intros x Hx; wcase x w; [lia|now apply HI].
Ltac t_started HI w := let H := fresh "Hst" in let Hne := fresh "Hne" in let x := fresh "x" in let Hx := fresh "Hx" in
  intro H; destruct (i_started _ HI H) as (? & ? & Hne); repeat split; try assumption;
  intros x Hx; wcase x w; [congruence|now apply Hne].
Ltac t_exit HI w := let x := fresh "x" in let Hx := fresh "Hx" in let He := fresh "He" in
  intros x Hx He; wcase x w; [congruence|eapply (i_exit _ HI); eassumption].
(* worker w leaves / enters states other than InRecv, lock unchanged *)
Ltac t_lock1 HI w := let x := fresh "x" in let Hx := fresh "Hx" in
  intros x Hx; wcase x w; [apply (i_lock1 _ HI) in Hx; congruence|now apply HI].
Ltac t_lock2 HI w := let x := fresh "x" in let Hx := fresh "Hx" in
  intros x Hx; wcase x w; [congruence|now apply HI].
(* worker w moves between states other than Dead, rchan unchanged *)
Ltac t_dead HI w := let x := fresh "x" in let Hin := fresh "Hin" in
  intros x; wcase x w; [split; [congruence|intros Hin; apply (i_dead _ HI) in Hin; congruence]|apply HI].
Ltac t_zero HI := let H := fresh "Hz" in intro H; destruct (i_zero _ HI H) as (? & ? & ?); repeat split; auto; congruence.

Lemma step_inv_preserved : forall old s l s', Inv s -> step_gen old s l = Some s' -> Inv s'.
Proof.
  intros old s l s' HI Hs.
  destruct l as [n|id| | | |w|w r|w|w|w|w| | |w].
  - (* Start *)
    step_inv Hs. apply Nat.leb_le in Heqb.
    pose proof (i_new s HI Heqh) as E. subst s.
    assert (Hf : forall w v, (if Nat.ltb w n then Idle else Exited) = v -> v = Idle \/ v = Exited)
      by (intros w v <-; destruct (Nat.ltb w n); auto).
    constructor; simp.
    + discriminate.
    + intros w H. apply Hf in H. destruct H; discriminate.
    + intros w. split; [|contradiction]. intros H. apply Hf in H. destruct H; discriminate.
    + constructor.
    + exact I.
    + intros _. repeat split; try reflexivity. intros w Hw. apply Nat.ltb_lt in Hw. rewrite Hw. discriminate.
    + discriminate.
    + intros w H. apply Nat.ltb_ge in H. now rewrite H.
    + unfold running; simp. rewrite running_upto_none; [constructor|].
      intros w Hw. destruct (Nat.ltb w n); reflexivity.
    + constructor.
    + intros w H H0. apply Nat.ltb_lt in H. rewrite H in H0. discriminate.
    + lia.
    + discriminate.
    + discriminate.
    + discriminate.
  - (* Execute *)
    step_inv Hs. apply existsb_eqb_false in Heqb.
    destruct (i_started s HI Heqh) as (Hns & Hsd & Hne).
    constructor; simp.
    + t_old HI.
    + t_old HI.
    + t_old HI.
    + t_old HI.
    + apply qok_app_task; assumption.
    + intros _. repeat split; [now apply has_shutdown_app_task|assumption|assumption].
    + congruence.
    + t_old HI.
    + rewrite qtasks_app; cbn [qtasks]. unfold running; simp.
      rewrite <- app_assoc. cbn [app].
      eapply Permutation_trans; [apply Permutation_sym, Permutation_middle|].
      eapply Permutation_trans; [|apply Permutation_cons_append].
      apply perm_skip. apply (i_perm s HI).
    + apply (Permutation_NoDup (Permutation_cons_append (submitted s) id)).
      constructor; [assumption|apply HI].
    + intros x Hx He. exfalso. eapply Hne; eassumption.
    + intros Hz. destruct (i_zero s HI Hz) as (_ & _ & [E|[E|E]]); congruence.
    + congruence.
    + congruence.
    + intros H. apply (i_join s HI) in H. congruence.
  - (* ExecuteRejected *)
    step_inv Hs; assumption.
  - (* Stop *)
    assert (Hh : handle s = HStarted \/ handle s = HStopped) by (step_inv Hs; auto).
    assert (E : s' = mk (nthreads s) HStopped (sender s) (queue s ++ [Shutdown]) (lock s) (ws s) (rchan s)
                   false (joining s) (submitted s) (done s) (panicked s)) by (step_inv Hs; reflexivity).
    subst s'. clear Hs.
    constructor; simp.
    + t_old HI.
    + t_old HI.
    + t_old HI.
    + t_old HI.
    + apply qok_app_shutdown, HI.
    + discriminate.
    + discriminate.
    + t_old HI.
    + rewrite qtasks_app; cbn [qtasks]. rewrite app_nil_r. apply (i_perm s HI).
    + t_old HI.
    + intros x Hx He. rewrite qtasks_app; cbn [qtasks]. rewrite app_nil_r. eapply (i_exit s HI); eassumption.
    + intros Hz. destruct (i_zero s HI Hz) as (_ & _ & [E|[E|E]]); destruct Hh; congruence.
    + intros _. destruct Hh as [Hh|Hh]; [now destruct (i_started s HI Hh) as (_ & ? & _)|now apply (i_sender s HI)].
    + discriminate.
    + intros H. apply (i_join s HI) in H. destruct Hh; congruence.
  - (* StopRejected *)
    step_inv Hs; assumption.
  - (* Acquire *)
    step_inv Hs.
    assert (Hw : w < nthreads s) by (apply lt_of_not_exited; [assumption|congruence]).
    constructor; simp.
    + intros x Hx. injection Hx as <-. apply upd_same.
    + intros x Hx. wcase x w; [reflexivity|]. apply (i_lock2 s HI) in Hx. congruence.
    + t_dead HI w.
    + t_old HI.
    + t_old HI.
    + t_started HI w.
    + t_new HI.
    + t_range HI w.
    + unfold running; simp.
      pose proof (running_upto_upd (nthreads s) (ws s) w InRecv Hw) as P. rewrite Heqw0 in P. cbn [ids_of app] in P.
      eapply Permutation_trans; [|apply (i_perm s HI)].
      apply Permutation_app_head. apply Permutation_app_tail. exact P.
    + t_old HI.
    + t_exit HI w.
    + t_old HI.
    + t_old HI.
    + t_old HI.
    + t_old HI.
  - (* Recv *)
    step_inv Hs; match goal with H : Nat.eqb _ w = true |- _ => apply Nat.eqb_eq in H; subst end.
    + (* closed *)
      match goal with H : queue s = _ |- _ => rename H into Hq end.
      match goal with H : _ = true |- _ => rename H into Hr end.
      assert (Hw : w < nthreads s) by (apply lt_of_not_exited; [assumption|congruence]).
      apply andb_prop in Hr. destruct Hr as [Hsd _]. apply negb_true_iff in Hsd.
      unfold after_recv.
      constructor; simp.
      * discriminate.
      * intros x Hx. wcase x w; [congruence|]. apply (i_lock2 s HI) in Hx. congruence.
      * t_dead HI w.
      * t_old HI.
      * exact I.
      * intros Hst. destruct (i_started s HI Hst) as (_ & ? & _). congruence.
      * t_new HI.
      * intros x Hx. wcase x w; [reflexivity|now apply HI].
      * unfold running; simp.
        pose proof (running_upto_upd (nthreads s) (ws s) w Exited Hw) as P. rewrite Heqw0 in P.
        cbn [ids_of app] in P.
        pose proof (i_perm s HI) as Q'. rewrite Hq in Q'. cbn [qtasks] in Q'.
        eapply Permutation_trans; [|exact Q'].
        cbn [qtasks app]. apply Permutation_app_tail. exact P.
      * t_old HI.
      * reflexivity.
      * intros Hz. destruct (i_zero s HI Hz) as (_ & E & Hh). repeat split; assumption.
      * t_old HI.
      * t_old HI.
      * t_old HI.
    + (* task *)
      match goal with H : queue s = _ |- _ => rename H into Hq end.
      match goal with H : _ = true |- _ => rename H into Hr end.
      assert (Hw : w < nthreads s) by (apply lt_of_not_exited; [assumption|congruence]).
      destruct r as [i| |]; cbn [rres_eqb] in Hr; try discriminate. apply Nat.eqb_eq in Hr; subst i.
      unfold after_recv. constructor; simp.
      * discriminate.
      * intros x Hx. wcase x w; [congruence|]. apply (i_lock2 s HI) in Hx. congruence.
      * t_dead HI w.
      * t_old HI.
      * pose proof (i_qok s HI) as Q. rewrite Hq in Q. exact Q.
      * intros Hst. destruct (i_started s HI Hst) as (Hns & ? & Hne). rewrite Hq in Hns. cbn [has_shutdown] in Hns.
        repeat split; try assumption. intros x Hx. wcase x w; [congruence|now apply Hne].
      * t_new HI.
      * t_range HI w.
      * unfold running; simp.
        pose proof (running_upto_upd (nthreads s) (ws s) w (Running id) Hw) as P. rewrite Heqw0 in P.
        cbn [ids_of app] in P.
        pose proof (i_perm s HI) as Q. rewrite Hq in Q. cbn [qtasks app] in Q.
        eapply Permutation_trans; [|exact Q].
        eapply Permutation_trans; [|apply Permutation_sym, Permutation_middle].
        apply Permutation_app_head.
        change (id :: running s ++ done s ++ panicked s) with ((id :: running s) ++ done s ++ panicked s).
        apply Permutation_app_tail. exact P.
      * t_old HI.
      * intros x Hx He. wcase x w; [congruence|].
        pose proof (i_exit s HI x Hx He) as E. rewrite Hq in E. discriminate.
      * intros Hz. destruct (i_zero s HI Hz) as (E & _). congruence.
      * t_old HI.
      * t_old HI.
      * t_old HI.
    + (* shutdown *)
      match goal with H : queue s = _ |- _ => rename H into Hq end.
      match goal with H : _ = true |- _ => rename H into Hr end.
      assert (Hw : w < nthreads s) by (apply lt_of_not_exited; [assumption|congruence]).
      unfold after_recv. pose proof (i_qok s HI) as Q. rewrite Hq in Q. cbn [qok] in Q.
      constructor; simp.
      * discriminate.
      * intros x Hx. wcase x w; [congruence|]. apply (i_lock2 s HI) in Hx. congruence.
      * t_dead HI w.
      * t_old HI.
      * now apply qok_notasks.
      * intros Hst. destruct (i_started s HI Hst) as (Hns & ? & Hne). rewrite Hq in Hns. discriminate.
      * t_new HI.
      * intros x Hx. wcase x w; [reflexivity|now apply HI].
      * unfold running; simp.
        pose proof (running_upto_upd (nthreads s) (ws s) w Exited Hw) as P. rewrite Heqw0 in P.
        cbn [ids_of app] in P.
        pose proof (i_perm s HI) as Q'. rewrite Hq in Q'. cbn [qtasks] in Q'.
        eapply Permutation_trans; [|exact Q'].
        apply Permutation_app_head. apply Permutation_app_tail. exact P.
      * t_old HI.
      * intros; assumption.
      * intros Hz. destruct (i_zero s HI Hz) as (E & _). congruence.
      * t_old HI.
      * t_old HI.
      * t_old HI.
  - (* Finish *)
    step_inv Hs.
    assert (Hw : w < nthreads s) by (apply lt_of_not_exited; [assumption|congruence]).
    constructor; simp.
    + t_lock1 HI w.
    + t_lock2 HI w.
    + t_dead HI w.
    + t_old HI.
    + t_old HI.
    + t_started HI w.
    + t_new HI.
    + t_range HI w.
    + unfold running; simp.
      pose proof (running_upto_upd (nthreads s) (ws s) w Idle Hw) as P. rewrite Heqw0 in P. cbn [ids_of app] in P.
      eapply Permutation_trans; [|apply (i_perm s HI)].
      apply Permutation_app_head.
      eapply Permutation_trans; [apply Permutation_sym, Permutation_middle|].
      change (id :: running_upto (nthreads s) (upd (ws s) w Idle) ++ done s ++ panicked s)
        with ((id :: running_upto (nthreads s) (upd (ws s) w Idle)) ++ done s ++ panicked s).
      apply Permutation_app_tail. exact P.
    + t_old HI.
    + t_exit HI w.
    + t_old HI.
    + t_old HI.
    + t_old HI.
    + t_old HI.
  - (* Panic *)
    step_inv Hs.
    assert (Hw : w < nthreads s) by (apply lt_of_not_exited; [assumption|congruence]).
    constructor; simp.
    + t_lock1 HI w.
    + t_lock2 HI w.
    + t_dead HI w.
    + t_old HI.
    + t_old HI.
    + t_started HI w.
    + t_new HI.
    + t_range HI w.
    + unfold running; simp.
      pose proof (running_upto_upd (nthreads s) (ws s) w Unwinding Hw) as P. rewrite Heqw0 in P.
      cbn [ids_of app] in P.
      eapply Permutation_trans; [|apply (i_perm s HI)].
      apply Permutation_app_head.
      rewrite !app_assoc.
      eapply Permutation_trans; [apply Permutation_sym, Permutation_middle|].
      rewrite <- !app_assoc.
      change (id :: running_upto (nthreads s) (upd (ws s) w Unwinding) ++ done s ++ panicked s)
        with ((id :: running_upto (nthreads s) (upd (ws s) w Unwinding)) ++ done s ++ panicked s).
      apply Permutation_app_tail. exact P.
    + t_old HI.
    + t_exit HI w.
    + t_old HI.
    + t_old HI.
    + t_old HI.
    + t_old HI.
  - (* Notify *)
    step_inv Hs.
    assert (Hw : w < nthreads s) by (apply lt_of_not_exited; [assumption|congruence]).
    assert (Hnin : ~ In w (rchan s)) by (intros Hin; apply (i_dead s HI) in Hin; congruence).
    constructor; simp.
    + t_lock1 HI w.
    + t_lock2 HI w.
    + intros x. wcase x w.
      * split; [intros _; apply in_or_app; right; now left|reflexivity].
      * rewrite in_app_iff. cbn [In]. rewrite (i_dead s HI x). intuition congruence.
    + apply (Permutation_NoDup (Permutation_cons_append (rchan s) w)). constructor; [assumption|apply HI].
    + t_old HI.
    + t_started HI w.
    + t_new HI.
    + t_range HI w.
    + unfold running; simp.
      pose proof (running_upto_upd (nthreads s) (ws s) w Dead Hw) as P. rewrite Heqw0 in P. cbn [ids_of app] in P.
      eapply Permutation_trans; [|apply (i_perm s HI)].
      apply Permutation_app_head. apply Permutation_app_tail. exact P.
    + t_old HI.
    + t_exit HI w.
    + t_old HI.
    + t_old HI.
    + t_old HI.
    + t_old HI.
  - (* Recover *)
    step_inv Hs. apply Nat.eqb_eq in Heqb; subst n.
    assert (Hw : w < nthreads s) by (apply lt_of_not_exited; [assumption|congruence]).
    pose proof (i_rnodup s HI) as ND. rewrite Heql in ND. inversion ND as [|? ? Hnin ND']; subst.
    constructor; simp.
    + t_lock1 HI w.
    + t_lock2 HI w.
    + intros x. wcase x w.
      * split; [discriminate|contradiction].
      * rewrite (i_dead s HI x), Heql. cbn [In]. intuition congruence.
    + assumption.
    + t_old HI.
    + t_started HI w.
    + t_new HI.
    + t_range HI w.
    + unfold running; simp.
      pose proof (running_upto_upd (nthreads s) (ws s) w Idle Hw) as P. rewrite Heqw0 in P. cbn [ids_of app] in P.
      eapply Permutation_trans; [|apply (i_perm s HI)].
      apply Permutation_app_head. apply Permutation_app_tail. exact P.
    + t_old HI.
    + t_exit HI w.
    + t_old HI.
    + t_old HI.
    + t_old HI.
    + t_old HI.
  - (* DropBegin *)
    assert (Hh : handle s = HNew \/ handle s = HStarted \/ handle s = HStopped) by (step_inv Hs; auto).
    assert (E : s' = mk (nthreads s) HDropping (sender s) (queue s) (lock s) (ws s) (rchan s)
                   false (if old then rec_handle s else false) (submitted s) (done s) (panicked s))
      by (step_inv Hs; reflexivity).
    subst s'. clear Hs.
    constructor; simp.
    + t_old HI.
    + t_old HI.
    + t_old HI.
    + t_old HI.
    + t_old HI.
    + discriminate.
    + discriminate.
    + t_old HI.
    + apply (i_perm s HI).
    + t_old HI.
    + intros; eapply (i_exit s HI); eassumption.
    + intros Hz. destruct (i_zero s HI Hz) as (? & ? & ?). repeat split; auto.
    + discriminate.
    + discriminate.
    + reflexivity.
  - (* DropEnd *)
    step_inv Hs.
    constructor; simp.
    + t_old HI.
    + t_old HI.
    + t_old HI.
    + t_old HI.
    + t_old HI.
    + discriminate.
    + discriminate.
    + t_old HI.
    + apply (i_perm s HI).
    + t_old HI.
    + intros; eapply (i_exit s HI); eassumption.
    + intros Hz. destruct (i_zero s HI Hz) as (? & ? & ?). repeat split; auto.
    + discriminate.
    + auto.
    + congruence.
  - (* LockPoisoned *)
    discriminate Hs.
Qed.
