(* Big-endian bit strings: the view in which RFC 3174 (§2-§4: "bit string", "word", padding) and RFC 4648 (§4:
   "24-bit groups ... treated as 4 concatenated 6-bit groups") are written. Used only by the SPECIFICATIONS of
   SHA-1 and Base64 (C18); the models of the Rust code never mention bit lists. Definitions only. *)
From Hv Require Import Prelude.
Open Scope N_scope.

Definition bit (b : bool) : N := if b then 1 else 0.

(* value of a bit string read most-significant bit first *)
Definition val_be (l : list bool) : N := fold_left (fun a b => 2 * a + bit b) l 0.

(* the w low-order bits of n, most significant first *)
Fixpoint bits_be (w : nat) (n : N) : list bool :=
  match w with
  | O => []
  | S w' => N.testbit n (N.of_nat w') :: bits_be w' n
  end.

(* cut a string into consecutive groups of k (the last one may be shorter); fuel = length *)
Fixpoint groups_fuel {A} (fuel k : nat) (l : list A) : list (list A) :=
  match fuel with
  | O => []
  | S f => match l with
           | [] => []
           | _ => firstn k l :: groups_fuel f k (skipn k l)
           end
  end.
Definition groups {A} (k : nat) (l : list A) : list (list A) := groups_fuel (length l) k l.

(* only the complete groups *)
Definition full_groups {A} (k : nat) (l : list A) : list (list A) :=
  filter (fun g => Nat.eqb (length g) k) (groups k l).

(* a short group extended with zero bits on the right *)
Definition pad_right (k : nat) (g : list bool) : list bool := g ++ repeat false (k - length g).
