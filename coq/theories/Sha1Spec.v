(* RFC 3174 (US Secure Hash Algorithm 1) transcribed: §2-§3 words and operations, §4 padding ON BIT STRINGS,
   §5 functions and constants, §6.1 method 1 with a fresh 80-word sequence W(0..79) per block.
   Written from the RFC text, not from sha1.rs: the message is a bit string, padding is characterised as in §4
   ("1", then the least number of "0"s that brings the length to 448 mod 512, then the 64-bit length), words are
   32-bit groups of the padded bit string read big-endian, the digest is the 160-bit string H0..H4 cut into octets.
   Definitions only. *)
From Hv Require Import Prelude BitsBE.
Open Scope N_scope.

(* ---- §3 Operations on Words (a word is a 32-bit quantity, here 0 <= X < 2^32) ---- *)
Definition AND (x y : N) : N := N.land x y.                      (* bitwise logical "and" *)
Definition OR (x y : N) : N := N.lor x y.                        (* bitwise logical "inclusive-or" *)
Definition XOR (x y : N) : N := N.lxor x y.                      (* bitwise logical "exclusive-or" *)
Definition NOT (x : N) : N := N.lnot x 32.                       (* bitwise logical "complement" of a word *)
Definition ADD (x y : N) : N := (x + y) mod 2 ^ 32.              (* c. Z = (X + Y) mod 2^32 *)
(* d. the circular left shift S^n(X) = (X << n) OR (X >> 32-n), X << n discarding the left-most n bits *)
Definition S (n : N) (x : N) : N := OR ((N.shiftl x n) mod 2 ^ 32) (N.shiftr x (32 - n)).

(* ---- §4 Message Padding ----
   "a. '1' is appended.  b. '0's are appended. The number of '0's will depend on the original length of the message.
    The last 64 bits of the last 512-bit block are reserved for the length l of the original message.
    c. Obtain the 2-word representation of l ... Append these two words to the padded message."
   The padded message is a multiple of 512 bits, so the number of "0"s is the least k with l + 1 + k = 448 mod 512. *)
Definition zero_count (l : N) : N :=
  match find (fun k => (l + 1 + k) mod 512 =? 448) (map N.of_nat (seq 0 512)) with
  | Some k => k
  | None => 0            (* never: some k < 512 always works *)
  end.

Definition pad_bits (msg : list bool) : list bool :=
  let l := N.of_nat (length msg) in
  msg ++ [true] ++ repeat false (N.to_nat (zero_count l)) ++ bits_be 64 l.

(* ---- §5 Functions and Constants Used ---- *)
Definition f (t : nat) (B C D : N) : N :=
  if (t <=? 19)%nat then OR (AND B C) (AND (NOT B) D)
  else if (t <=? 39)%nat then XOR (XOR B C) D
  else if (t <=? 59)%nat then OR (OR (AND B C) (AND B D)) (AND C D)
  else XOR (XOR B C) D.

Definition K (t : nat) : N :=
  if (t <=? 19)%nat then 0x5A827999
  else if (t <=? 39)%nat then 0x6ED9EBA1
  else if (t <=? 59)%nat then 0x8F1BBCDC
  else 0xCA62C1D6.

(* ---- §6.1 Method 1 ---- *)
Definition hwords : Type := (N * N * N * N * N)%type.
Definition H_init : hwords := (0x67452301, 0xEFCDAB89, 0x98BADCFE, 0x10325476, 0xC3D2E1F0).

(* a. W(0..15) = the block.  b. For t = 16 to 79 let W(t) = S^1(W(t-3) XOR W(t-8) XOR W(t-14) XOR W(t-16)). *)
Definition W_next (W : list N) : N :=
  let t := length W in
  S 1 (XOR (XOR (XOR (nth (t - 3) W 0) (nth (t - 8) W 0)) (nth (t - 14) W 0)) (nth (t - 16) W 0)).
Definition schedule (block : list N) : list N :=
  fold_left (fun W _ => W ++ [W_next W]) (seq 16 64) block.

(* d. For t = 0 to 79 do  TEMP = S^5(A) + f(t;B,C,D) + E + W(t) + K(t);  E = D; D = C; C = S^30(B); B = A; A = TEMP *)
Definition step (W : list N) (st : hwords) (t : nat) : hwords :=
  let '(A, B, C, D, E) := st in
  let TEMP := ADD (ADD (ADD (ADD (S 5 A) (f t B C D)) E) (nth t W 0)) (K t) in
  (TEMP, A, S 30 B, C, D).

(* c. A = H0, ..., E = H4.   e. H0 = H0 + A, ..., H4 = H4 + E. *)
Definition process_block (H : hwords) (block : list N) : hwords :=
  let W := schedule block in
  let '(A, B, C, D, E) := fold_left (step W) (seq 0 80) H in
  let '(H0, H1, H2, H3, H4) := H in
  (ADD H0 A, ADD H1 B, ADD H2 C, ADD H3 D, ADD H4 E).

(* §2: a word is 32 bits, a block is 16 words; the padded message is M(1), ..., M(n) *)
Definition words_of_bits (bits : list bool) : list N := map val_be (groups 32 bits).

(* the message digest is the 160-bit string H0 H1 H2 H3 H4, returned as 20 octets *)
Definition sha1_bits (msg : list bool) : list N :=
  let M := groups 16 (words_of_bits (pad_bits msg)) in
  let '(H0, H1, H2, H3, H4) := fold_left process_block M H_init in
  map val_be (groups 8 (flat_map (bits_be 32) [H0; H1; H2; H3; H4])).

(* a message of octets is the bit string of its octets, most significant bit first *)
Definition sha1_spec (m : list N) : list N := sha1_bits (flat_map (bits_be 8) m).
