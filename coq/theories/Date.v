(* Model of humphrey/src/http/date.rs (C18, HTTP-date part): `impl From<i64> for DateTime` (the musl __secs_to_tm
   algorithm anchored at 2000-03-01) and `impl ToString for DateTime` (IMF-fixdate).  Definitions only.

   i64 values are Z; Rust `/` and `%` on i64 truncate towards zero = Z.quot / Z.rem.  The constants and tables come from
   TablesDate.v (generated from date.rs on every run).  Panic sites modelled as Crash:
     1  `timestamp - MARCH_01_2000` overflows i64 (debug build)
     2  `DAYS_IN_MONTHS[months]` index out of range in the month loop
     3  `DAYS[self.weekday as usize]`      4  `MONTHS[self.month as usize]`  in to_string
   The final `as u16` / `as u8` casts wrap silently (modelled as mod 2^16 / mod 2^8). *)
From Hv Require Import Prelude TablesDate.
Open Scope Z_scope.

Record datetime : Type := mkDT {
  dt_timestamp : Z; dt_year : Z; dt_month : Z; dt_day : Z; dt_weekday : Z;
  dt_hour : Z; dt_minute : Z; dt_second : Z }.

Definition i64_min : Z := -9223372036854775808.
Definition i64_max : Z := 9223372036854775807.
Definition in_i64 (z : Z) : bool := (i64_min <=? z) && (z <=? i64_max).
Definition as_u16 (z : Z) : Z := z mod 65536.
Definition as_u8 (z : Z) : Z := z mod 256.

(* let mut days = seconds / DAY; let mut remaining_seconds = seconds % 86400;
   if remaining_seconds < 0 { remaining_seconds += 86400; days -= 1; }          -> (days, remaining_seconds) *)
Definition split_time (seconds : Z) : Z * Z :=
  let days := Z.quot seconds DAY in
  let rs := Z.rem seconds 86400 in
  if rs <? 0 then (days - 1, rs + 86400) else (days, rs).

(* let mut weekday = (days + 3) % 7; if weekday < 0 { weekday += 7; } *)
Definition weekday_of (days : Z) : Z :=
  let w := Z.rem (days + 3) 7 in
  if w <? 0 then w + 7 else w.

(* the 400/100/4/1-year decomposition -> (year before the month correction, remaining_days) *)
Definition year_day (days : Z) : Z * Z :=
  let y400 := Z.quot days DAYS_400_YEARS in
  let r := Z.rem days DAYS_400_YEARS in
  let y400' := if r <? 0 then y400 - 1 else y400 in
  let r0 := if r <? 0 then r + DAYS_400_YEARS else r in
  let y100 := Z.quot r0 DAYS_100_YEARS in
  let y100' := if y100 =? 4 then y100 - 1 else y100 in
  let r1 := r0 - y100' * DAYS_100_YEARS in
  let y4 := Z.quot r1 DAYS_4_YEARS in
  let y4' := if y4 =? 25 then y4 - 1 else y4 in
  let r2 := r1 - y4' * DAYS_4_YEARS in
  let ry := Z.quot r2 365 in
  let ry' := if ry =? 4 then ry - 1 else ry in
  let r3 := r2 - ry' * 365 in
  (ry' + 4 * y4' + 100 * y100' + 400 * y400' + 2000, r3).

(* let mut months = 0; while DAYS_IN_MONTHS[months] <= remaining_days { remaining_days -= DAYS_IN_MONTHS[months]; months += 1; }
   `tbl` is the part of the table from index `months` on; running off its end is the index panic. *)
Fixpoint month_loop (tbl : list Z) (months : Z) (remaining_days : Z) : outcome (Z * Z) :=
  match tbl with
  | [] => Crash 2
  | dim :: rest =>
    if dim <=? remaining_days then month_loop rest (months + 1) (remaining_days - dim)
    else Ok (months, remaining_days)
  end.

(* let mut month = months + 2; if month >= 12 { month -= 12; year += 1; }  let day = remaining_days + 1;
   result relative to `year`: (year increment, month (0-based), day) *)
Definition month_day (remaining_days : Z) : outcome (Z * Z * Z) :=
  match month_loop DAYS_IN_MONTHS 0 remaining_days with
  | Ok (months, rd) =>
    let month := months + 2 in
    if 12 <=? month then Ok (1, month - 12, rd + 1) else Ok (0, month, rd + 1)
  | Err e => Err e
  | Crash w => Crash w
  end.

(* date part as a function of the day count since 2000-03-01: (year, month 0-based, day), all still i64 *)
Definition date_part (days : Z) : outcome (Z * Z * Z) :=
  let '(year, rd) := year_day days in
  match month_day rd with
  | Ok (yinc, month, day) => Ok (year + yinc, month, day)
  | Err e => Err e
  | Crash w => Crash w
  end.

Definition from_timestamp (timestamp : Z) : outcome datetime :=
  let seconds := timestamp - MARCH_01_2000 in
  if negb (in_i64 seconds) then Crash 1 else
  let '(days, remaining_seconds) := split_time seconds in
  let weekday := weekday_of days in
  match date_part days with
  | Ok (year, month, day) =>
    let hour := Z.quot remaining_seconds 3600 in
    let minute := Z.rem (Z.quot remaining_seconds 60) 60 in
    let second := Z.rem remaining_seconds 60 in
    Ok (mkDT timestamp (as_u16 year) (as_u8 month) (as_u8 day) (as_u8 weekday)
             (as_u8 hour) (as_u8 minute) (as_u8 second))
  | Err e => Err e
  | Crash w => Crash w
  end.

(* ---- to_string: format!("{}, {:02} {:02} {} {:02}:{:02}:{:02} GMT", DAYS[weekday], day, MONTHS[month], year, h, m, s) ---- *)
Definition digit (d : Z) : N := Z.to_N (48 + d).

(* {:02} on a u8: at least two digits, zero padded *)
Definition fmt_02 (v : Z) : list N :=
  if v <? 10 then [48%N; digit v]
  else if v <? 100 then [digit (v / 10); digit (v mod 10)]
  else [digit (v / 100); digit (v / 10 mod 10); digit (v mod 10)].

(* {} on a u16: no padding *)
Definition fmt_u16 (v : Z) : list N :=
  if v <? 10 then [digit v]
  else if v <? 100 then [digit (v / 10); digit (v mod 10)]
  else if v <? 1000 then [digit (v / 100); digit (v / 10 mod 10); digit (v mod 10)]
  else if v <? 10000 then [digit (v / 1000); digit (v / 100 mod 10); digit (v / 10 mod 10); digit (v mod 10)]
  else [digit (v / 10000); digit (v / 1000 mod 10); digit (v / 100 mod 10); digit (v / 10 mod 10); digit (v mod 10)].

(* {:02} on a &str: minimum width 2, padded on the right with spaces (the `0` flag only affects numbers) *)
Definition fmt_str02 (s : list N) : list N := s ++ repeat 32%N (2 - length s).

Definition to_string (d : datetime) : outcome (list N) :=
  match nth_error DAYS (Z.to_nat (dt_weekday d)) with
  | None => Crash 3
  | Some wd =>
    match nth_error MONTHS (Z.to_nat (dt_month d)) with
    | None => Crash 4
    | Some mo =>
      Ok (wd ++ [44; 32]%N ++ fmt_02 (dt_day d) ++ [32%N] ++ fmt_str02 mo ++ [32%N] ++ fmt_u16 (dt_year d) ++ [32%N]
             ++ fmt_02 (dt_hour d) ++ [58%N] ++ fmt_02 (dt_minute d) ++ [58%N] ++ fmt_02 (dt_second d)
             ++ [32; 71; 77; 84]%N)
    end
  end.

(* DateTime::from(t).to_string() *)
Definition http_date (timestamp : Z) : outcome (list N) :=
  match from_timestamp timestamp with
  | Ok d => to_string d
  | Err e => Err e
  | Crash w => Crash w
  end.

(* ================= the calendar the model is compared with (independent of the code) ================= *)
(* civil date: year, month 1..12, day 1..31 *)
Record cdate : Type := mkC { c_year : Z; c_month : Z; c_day : Z }.

(* Gregorian leap rule *)
Definition is_leap (y : Z) : bool :=
  (y mod 4 =? 0) && (negb (y mod 100 =? 0) || (y mod 400 =? 0)).

Definition month_length (leap : bool) (m : Z) : Z :=
  match m with
  | 1 => 31 | 2 => if leap then 29 else 28 | 3 => 31 | 4 => 30 | 5 => 31 | 6 => 30
  | 7 => 31 | 8 => 31 | 9 => 30 | 10 => 31 | 11 => 30 | _ => 31
  end.

Definition days_in_month (y m : Z) : Z := month_length (is_leap y) m.

Definition next_day (c : cdate) : cdate :=
  if c_day c <? days_in_month (c_year c) (c_month c) then mkC (c_year c) (c_month c) (c_day c + 1)
  else if c_month c <? 12 then mkC (c_year c) (c_month c + 1) 1
  else mkC (c_year c + 1) 1 1.

(* day-by-day counting from 1970-01-01 *)
Fixpoint civil_nat (n : nat) : cdate :=
  match n with
  | O => mkC 1970 1 1
  | S k => next_day (civil_nat k)
  end.
Definition civil (n : Z) : cdate := civil_nat (Z.to_nat n).

(* weekday by counting: 1970-01-01 was a Thursday (Sunday = 0) *)
Fixpoint weekday_nat (n : nat) : Z :=
  match n with
  | O => 4
  | S k => let w := weekday_nat k in if w =? 6 then 0 else w + 1
  end.
Definition weekday_count (n : Z) : Z := weekday_nat (Z.to_nat n).

(* RFC 7231 section 7.1.1.1 IMF-fixdate = day-name "," SP 2DIGIT SP month SP 4DIGIT SP 2DIGIT ":" 2DIGIT ":" 2DIGIT SP "GMT" *)
Definition d2 (v : Z) : list N := [digit (v / 10); digit (v mod 10)].
Definition d4 (v : Z) : list N := [digit (v / 1000); digit (v / 100 mod 10); digit (v / 10 mod 10); digit (v mod 10)].

Definition rfc_day_name (w : Z) : list N :=
  match w with
  | 0 => [83; 117; 110]%N (* Sun *) | 1 => [77; 111; 110]%N (* Mon *) | 2 => [84; 117; 101]%N (* Tue *)
  | 3 => [87; 101; 100]%N (* Wed *) | 4 => [84; 104; 117]%N (* Thu *) | 5 => [70; 114; 105]%N (* Fri *)
  | _ => [83; 97; 116]%N (* Sat *)
  end.

Definition rfc_month_name (m : Z) : list N :=
  match m with
  | 1 => [74; 97; 110]%N (* Jan *) | 2 => [70; 101; 98]%N (* Feb *) | 3 => [77; 97; 114]%N (* Mar *)
  | 4 => [65; 112; 114]%N (* Apr *) | 5 => [77; 97; 121]%N (* May *) | 6 => [74; 117; 110]%N (* Jun *)
  | 7 => [74; 117; 108]%N (* Jul *) | 8 => [65; 117; 103]%N (* Aug *) | 9 => [83; 101; 112]%N (* Sep *)
  | 10 => [79; 99; 116]%N (* Oct *) | 11 => [78; 111; 118]%N (* Nov *) | _ => [68; 101; 99]%N (* Dec *)
  end.

Definition imf_fixdate (c : cdate) (weekday hour minute second : Z) : list N :=
  rfc_day_name weekday ++ [44; 32]%N ++ d2 (c_day c) ++ [32%N] ++ rfc_month_name (c_month c) ++ [32%N]
    ++ d4 (c_year c) ++ [32%N] ++ d2 hour ++ [58%N] ++ d2 minute ++ [58%N] ++ d2 second ++ [32; 71; 77; 84]%N.

(* first timestamp after 9999-12-31 23:59:59 *)
Definition ts_end_9999 : Z := 253402300800.
