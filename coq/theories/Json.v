(* Model of humphrey-json/src/{value.rs, parser.rs, serialize.rs} (C13; the C03 JSON clause rides on it).
   Strings are lists of Unicode scalar values (the Rust code iterates Peekable<Chars>).
   Definitions only.

   Numbers.  The Rust code hands the validated literal text to f64::from_str and prints with f64's Display.
   IEEE doubles are NOT modelled: the number type is an abstract type F, and parsing/printing are the Section
   variables fparse / fdisplay (hypotheses about them are stated where theorems need them, see JsonProofs.v).
   The extracted model is run with F := the literal text itself (fparse = Some, fdisplay = id).

   `lg` ("legacy") selects the three behaviours of the tree before the fix: commits F22 (no number-grammar check),
   F23 (object members without a comma), F25 (sign accepted in \uXXXX).  lg = false is the code as it is now; lg = true is
   kept only for the `..._refuted` witnesses and to let the check recognise a regression.  *)
From Hv Require Import Prelude TablesJson.
Open Scope N_scope.

Definition str := list N.

(* ---- error classes (ParseError kinds) and panic sites ---- *)
Definition E_TOK : N := 1.    (* InvalidToken *)
Definition E_EOF : N := 2.    (* UnexpectedEOF *)
Definition E_ESC : N := 3.    (* InvalidEscapeSequence *)
Definition E_COMMA : N := 4.  (* TrailingComma *)
Definition E_DEPTH : N := 5.  (* RecursionDepthExceeded *)
Definition E_FUEL : N := 99.  (* model artefact: fuel exhausted (excluded by parse_fuel_sufficient) *)

Definition C_DEC_DEPTH : N := 1.  (* dec_depth: `self.depth -= 1` with depth = 0 (usize underflow) *)
Definition C_STACK : N := 2.      (* ghost assertion: parse_value entered with depth > max_depth (unbounded recursion) *)

(* ---- characters ---- *)
Definition ch_dq : N := 0x22.      (* double quote *)
Definition ch_bslash : N := 0x5c.  (* \ *)
Definition ch_lbrack : N := 0x5b.  (* [ *)
Definition ch_rbrack : N := 0x5d.  (* ] *)
Definition ch_lbrace : N := 0x7b.  (* { *)
Definition ch_rbrace : N := 0x7d.  (* } *)
Definition ch_comma : N := 0x2c.
Definition ch_colon : N := 0x3a.
Definition ch_u : N := 0x75.

Definition s_null : str := [0x6e; 0x75; 0x6c; 0x6c].
Definition s_true : str := [0x74; 0x72; 0x75; 0x65].
Definition s_false : str := [0x66; 0x61; 0x6c; 0x73; 0x65].

Fixpoint str_eqb (a b : str) : bool :=
  match a, b with
  | [], [] => true
  | x :: a', y :: b' => (x =? y) && str_eqb a' b'
  | _, _ => false
  end.

(* parser.rs :: is_whitespace *)
Definition is_ws (c : N) : bool := (c =? 0x20) || (c =? 0x09) || (c =? 0x0a) || (c =? 0x0d).

(* parser.rs :: is_literal *)
Definition is_literal (c : N) : bool :=
  negb (is_ws c) && negb (c =? ch_comma) && negb (c =? ch_rbrace) && negb (c =? ch_rbrack).

(* parser.rs :: flush_whitespace *)
Fixpoint flush_ws (s : str) : str :=
  match s with
  | c :: r => if is_ws c then flush_ws r else s
  | [] => []
  end.

(* the `while peek is_literal { push(next) }` loop of parse_literal *)
Fixpoint span_literal (s : str) : str * str :=
  match s with
  | c :: r => if is_literal c then let (a, b) := span_literal r in (c :: a, b) else ([], s)
  | [] => ([], [])
  end.

(* ---- \uXXXX ---- *)
Definition hexval (c : N) : option N :=
  if (0x30 <=? c) && (c <=? 0x39) then Some (c - 0x30)
  else if (0x61 <=? c) && (c <=? 0x66) then Some (c - 0x57)
  else if (0x41 <=? c) && (c <=? 0x46) then Some (c - 0x37)
  else None.

(* parse_hex_escape after fix F25: all four characters are ASCII hex digits, then from_str_radix(16) *)
Definition hex4 (a b c d : N) : option N :=
  match hexval a, hexval b, hexval c, hexval d with
  | Some x, Some y, Some z, Some w => Some (((x * 16 + y) * 16 + z) * 16 + w)
  | _, _, _, _ => None
  end.

(* before F25: u16::from_str_radix alone, which also accepts a leading `+` *)
Definition hex4_legacy (a b c d : N) : option N :=
  if a =? 0x2b then
    match hexval b, hexval c, hexval d with
    | Some y, Some z, Some w => Some ((y * 16 + z) * 16 + w)
    | _, _, _ => None
    end
  else hex4 a b c d.

Definition hex4x (lg : bool) := if lg then hex4_legacy else hex4.

(* char::from_u32(code as u32) is None exactly for surrogate code units *)
Definition is_surrogate (code : N) : bool := (0xD800 <=? code) && (code <=? 0xDFFF).

(* char::decode_utf16([code, code_2]).next(), for `code` a surrogate: Some = Ok(char), None = Err(unpaired) *)
Definition decode_pair (code code2 : N) : option N :=
  if 0xDC00 <=? code then None                                     (* unpaired low surrogate *)
  else if (code2 <? 0xDC00) || (0xDFFF <? code2) then None         (* not followed by a low surrogate *)
  else Some ((code mod 0x400) * 0x400 + (code2 mod 0x400) + 0x10000).

(* the character class of the last arm of parse_string (RFC 8259 `unescaped`) *)
Definition unescapedb (c : N) : bool :=
  ((0x20 <=? c) && (c <=? 0x21)) || ((0x23 <=? c) && (c <=? 0x5b)) || ((0x5d <=? c) && (c <=? 0x10ffff)).

(* the one-character escapes of parse_string *)
Definition simple_escape (c : N) : option N :=
  if c =? 0x22 then Some 0x22
  else if c =? 0x5c then Some 0x5c
  else if c =? 0x2f then Some 0x2f
  else if c =? 0x62 then Some 0x08
  else if c =? 0x66 then Some 0x0c
  else if c =? 0x6e then Some 0x0a
  else if c =? 0x72 then Some 0x0d
  else if c =? 0x74 then Some 0x09
  else None.

Definition push_char (d : N) (x : outcome (str * str)) : outcome (str * str) :=
  match x with
  | Ok (o, rest) => Ok (d :: o, rest)
  | Err e => Err e
  | Crash w => Crash w
  end.

(* parser.rs :: parse_string, after the opening quote. One call = one iteration of the `loop`; `bs` is the `backslash`
   flag. Returns the decoded string and the input after the closing quote. The accumulated `string` is implicit
   (the result of the remaining iterations is prefixed with the pushed character). *)
Fixpoint string_loop (lg : bool) (bs : bool) (s : str) {struct s} : outcome (str * str) :=
  match s with
  | [] => Err E_EOF                                       (* self.next()? *)
  | c :: r =>
    if bs then
      match simple_escape c with
      | Some d => push_char d (string_loop lg false r)
      | None =>
        if c =? ch_u then
          match r with
          | h1 :: h2 :: h3 :: h4 :: r4 =>
            match hex4x lg h1 h2 h3 h4 with
            | None => Err E_ESC
            | Some code =>
              if negb (is_surrogate code) then push_char code (string_loop lg false r4)
              else
                match r4 with
                | [] => Err E_EOF
                | b1 :: r5 =>
                  if negb (b1 =? ch_bslash) then Err E_ESC
                  else
                    match r5 with
                    | [] => Err E_EOF
                    | u1 :: r6 =>
                      if negb (u1 =? ch_u) then Err E_ESC
                      else
                        match r6 with
                        | g1 :: g2 :: g3 :: g4 :: r10 =>
                          match hex4x lg g1 g2 g3 g4 with
                          | None => Err E_ESC
                          | Some code2 =>
                            match decode_pair code code2 with
                            | Some ch => push_char ch (string_loop lg false r10)
                            | None => Err E_ESC
                            end
                          end
                        | _ => Err E_EOF
                        end
                    end
                end
            end
          | _ => Err E_EOF
          end
        else Err E_ESC
      end
    else if c =? ch_bslash then string_loop lg true r
    else if c =? ch_dq then Ok ([], r)
    else if unescapedb c then push_char c (string_loop lg false r)
    else Err E_TOK
  end.

(* ---- number grammar check: parser.rs :: is_number (added by fix F22), section by section ---- *)
Definition is_digit (c : N) : bool := (0x30 <=? c) && (c <=? 0x39).
Definition is_digit19 (c : N) : bool := (0x31 <=? c) && (c <=? 0x39).

Fixpoint skip_digits (s : str) : str :=
  match s with
  | c :: r => if is_digit c then skip_digits r else s
  | [] => []
  end.

(* one mandatory digit then any number of digits *)
Definition digits1_then (k : str -> bool) (s : str) : bool :=
  match s with
  | d :: r => if is_digit d then k (skip_digits r) else false
  | [] => false
  end.

Definition num_end (s : str) : bool := match s with [] => true | _ => false end.   (* chars.next().is_none() *)

Definition num_exp (s : str) : bool :=
  match s with
  | c :: r =>
    if (c =? 0x65) || (c =? 0x45) then
      let r1 := match r with
                | c1 :: r' => if (c1 =? 0x2b) || (c1 =? 0x2d) then r' else r
                | [] => r
                end in
      digits1_then num_end r1
    else num_end s
  | [] => true
  end.

Definition num_frac (s : str) : bool :=
  match s with
  | c :: r => if c =? 0x2e then digits1_then num_exp r else num_exp s
  | [] => num_exp s
  end.

Definition num_int (s : str) : bool :=
  match s with
  | c :: r =>
    if c =? 0x30 then num_frac r
    else if is_digit19 c then num_frac (skip_digits r)
    else false
  | [] => false
  end.

Definition is_json_number (s : str) : bool :=
  match s with
  | c :: r => if c =? 0x2d then num_int r else num_int s
  | [] => false
  end.

(* F22: before the fix every literal went straight to f64::from_str *)
Definition number_ok (lg : bool) (s : str) : bool := if lg then true else is_json_number s.

(* F23: `object.is_empty() || trailing_comma` (the quiet_assert added by the fix) *)
Definition member_sep_ok (lg : bool) (empty tc : bool) : bool := lg || empty || tc.

Definition fuel_for (s : str) : nat := 2 * length s + 2.

Section Model.
  Variable F : Type.                   (* f64 *)
  Variable fparse : str -> option F.   (* <f64 as FromStr>::from_str *)
  Variable fdisplay : F -> str.        (* <f64 as Display>::fmt *)

  (* value.rs :: Value *)
  Inductive value : Type :=
  | VNull
  | VBool (b : bool)
  | VNum (x : F)
  | VStr (s : str)
  | VArr (l : list value)
  | VObj (m : list (str * value)).

  (* nesting depth: scalars 0, a container one more than its deepest child *)
  Fixpoint depth (v : value) : N :=
    match v with
    | VArr l => 1 + fold_right (fun x a => N.max (depth x) a) 0 l
    | VObj m => 1 + fold_right (fun kv a => match kv with (_, x) => N.max (depth x) a end) 0 m
    | _ => 0
    end.

  Variable lg : bool.       (* legacy behaviour (before F22/F23/F25) *)
  Variable maxd : N.        (* Parser::max_depth *)

  (* parser.rs :: parse_literal(c) with the rest of the input *)
  Definition parse_literal (c : N) (r : str) : outcome (value * str) :=
    let (lit, rest) := span_literal r in
    let s := c :: lit in
    if str_eqb s s_null then Ok (VNull, rest)
    else if str_eqb s s_true then Ok (VBool true, rest)
    else if str_eqb s s_false then Ok (VBool false, rest)
    else if number_ok lg s then
      match fparse s with
      | Some x => Ok (VNum x, rest)
      | None => Err E_TOK
      end
    else Err E_TOK.

  (* dec_depth after a container has been closed; `d1` is self.depth at that point *)
  Definition dec_depth {A} (d1 : N) (x : outcome A) : outcome A :=
    if d1 =? 0 then Crash C_DEC_DEPTH else x.

  (* parser.rs :: parse_value / parse_array / parse_object.
     array_loop, object_loop: one call = one iteration of the respective `loop`, entered after inc_depth; the vector built
     so far is implicit (the result is the list of the remaining elements), what the code reads off it is carried as flags:
     first = array.is_empty(); empty = object.is_empty(); tc = trailing_comma.
     `depth` is self.depth. Every call costs one unit of fuel; fuel_for is always enough. *)
  Fixpoint parse_value (fuel : nat) (depth : N) (s : str) {struct fuel} : outcome (value * str) :=
    match fuel with
    | O => Err E_FUEL
    | S f =>
      if maxd <? depth then Crash C_STACK else
      match flush_ws s with
      | [] => Err E_EOF
      | c :: r =>
        if c =? ch_dq then
          match string_loop lg false r with
          | Ok (o, rest) => Ok (VStr o, rest)
          | Err e => Err e
          | Crash w => Crash w
          end
        else if c =? ch_lbrack then
          if depth =? maxd then Err E_DEPTH               (* inc_depth *)
          else
            match array_loop f (depth + 1) true r with
            | Ok (vs, rest) => dec_depth (depth + 1) (Ok (VArr vs, rest))
            | Err e => Err e
            | Crash w => Crash w
            end
        else if c =? ch_lbrace then
          if depth =? maxd then Err E_DEPTH
          else
            match object_loop f (depth + 1) false true r with
            | Ok (ms, rest) => dec_depth (depth + 1) (Ok (VObj ms, rest))
            | Err e => Err e
            | Crash w => Crash w
            end
        else parse_literal c r
      end
    end
  with array_loop (fuel : nat) (depth : N) (first : bool) (s : str) {struct fuel} : outcome (list value * str) :=
    match fuel with
    | O => Err E_FUEL
    | S f =>
      match flush_ws s with
      | [] => Err E_EOF
      | c :: r =>
        if c =? ch_rbrack then
          if first then Ok ([], r) else Err E_COMMA
        else
          match parse_value f depth (c :: r) with
          | Ok (v, s2) =>
            match flush_ws s2 with
            | [] => Err E_EOF
            | c' :: r' =>
              if c' =? ch_comma then
                match array_loop f depth false r' with
                | Ok (vs, rest) => Ok (v :: vs, rest)
                | Err e => Err e
                | Crash w => Crash w
                end
              else if c' =? ch_rbrack then Ok ([v], r')
              else Err E_TOK
            end
          | Err e => Err e
          | Crash w => Crash w
          end
      end
    end
  with object_loop (fuel : nat) (depth : N) (tc empty : bool) (s : str) {struct fuel}
       : outcome (list (str * value) * str) :=
    match fuel with
    | O => Err E_FUEL
    | S f =>
      match flush_ws s with
      | [] => Err E_EOF
      | c :: r =>
        if c =? ch_rbrace then
          if tc then Err E_COMMA else Ok ([], r)
        else if c =? ch_comma then
          if tc then Err E_TOK
          else if empty then Err E_TOK
          else object_loop f depth true empty r
        else if negb (member_sep_ok lg empty tc) then Err E_TOK      (* fix F23 *)
        else if negb (c =? ch_dq) then Err E_TOK
        else
          match string_loop lg false r with
          | Ok (k, s2) =>
            match flush_ws s2 with
            | [] => Err E_EOF
            | c2 :: r2 =>
              if negb (c2 =? ch_colon) then Err E_TOK
              else
                match parse_value f depth (flush_ws r2) with
                | Ok (v, s5) =>
                  match object_loop f depth false false s5 with
                  | Ok (ms, rest) => Ok ((k, v) :: ms, rest)
                  | Err e => Err e
                  | Crash w => Crash w
                  end
                | Err e => Err e
                | Crash w => Crash w
                end
            end
          | Err e => Err e
          | Crash w => Crash w
          end
      end
    end.

  (* Value::parse_max_depth: parse_value then expect_eof *)
  Definition parse_with_fuel (fuel : nat) (s : str) : outcome value :=
    match parse_value fuel 0 s with
    | Ok (v, rest) =>
      match flush_ws rest with
      | [] => Ok v
      | _ :: _ => Err E_TOK
      end
    | Err e => Err e
    | Crash w => Crash w
    end.

  Definition parse_max_depth (s : str) : outcome value := parse_with_fuel (fuel_for s) s.

  (* ---------------- allocation meter for Value::parse (C03) ----------------
     An upper bound on the total number of bytes requested from the allocator by the parser, as a function that follows the
     same control flow as the parser above (it calls the parser functions for the branch decisions) and charges at every
     allocation site of parser.rs:
       String::with_capacity(256) in parse_string                        STRING_CAP
       string.push(c)                                                    CHAR_COST = 4 bytes * 4 (amortised doubling)
       hex: String = [..4 chars..].collect() in parse_hex_escape         HEX_TMP = 8 + 16
       String::from(c) + push in parse_literal                           LIT_BASE + CHAR_COST per character
       Vec::with_capacity(16) in parse_array / parse_object              ARRAY_CAP * VALUE_SIZE / OBJECT_CAP * MEMBER_SIZE
       array.push / object.push                                          4 * element size (amortised doubling)
       key: .as_str().unwrap().to_string()                               4 bytes per character
     VALUE_SIZE = size_of::<Value>(), MEMBER_SIZE = size_of::<(String, Value)>() on a 64-bit target (the harness reports the
     real sizes and the real allocation totals; the check compares). *)
  Definition VALUE_SIZE : N := 32.
  Definition MEMBER_SIZE : N := 56.
  Definition CHAR_COST : N := 16.
  Definition HEX_TMP : N := 24.
  Definition LIT_BASE : N := 8.
  Definition slen (s : str) : N := N.of_nat (length s).

  Fixpoint string_cost (bs : bool) (s : str) {struct s} : N :=
    match s with
    | [] => 0
    | c :: r =>
      if bs then
        match simple_escape c with
        | Some d => CHAR_COST + string_cost false r
        | None =>
          if c =? ch_u then
            match r with
            | h1 :: h2 :: h3 :: h4 :: r4 =>
              HEX_TMP +
              match hex4x lg h1 h2 h3 h4 with
              | None => 0
              | Some code =>
                if negb (is_surrogate code) then CHAR_COST + string_cost false r4
                else
                  match r4 with
                  | [] => 0
                  | b1 :: r5 =>
                    if negb (b1 =? ch_bslash) then 0
                    else
                      match r5 with
                      | [] => 0
                      | u1 :: r6 =>
                        if negb (u1 =? ch_u) then 0
                        else
                          match r6 with
                          | g1 :: g2 :: g3 :: g4 :: r10 =>
                            HEX_TMP +
                            match hex4x lg g1 g2 g3 g4 with
                            | None => 0
                            | Some code2 =>
                              match decode_pair code code2 with
                              | Some ch => CHAR_COST + string_cost false r10
                              | None => 0
                              end
                            end
                          | _ => 0
                          end
                      end
                  end
              end
            | _ => 0
            end
          else 0
        end
      else if c =? ch_bslash then string_cost true r
      else if c =? ch_dq then 0
      else if unescapedb c then CHAR_COST + string_cost false r
      else 0
    end.

  Fixpoint cost_value (fuel : nat) (depth : N) (s : str) {struct fuel} : N :=
    match fuel with
    | O => 0
    | S f =>
      match flush_ws s with
      | [] => 0
      | c :: r =>
        if c =? ch_dq then STRING_CAP + string_cost false r
        else if c =? ch_lbrack then
          if depth =? maxd then 0 else ARRAY_CAP * VALUE_SIZE + cost_array f (depth + 1) true r
        else if c =? ch_lbrace then
          if depth =? maxd then 0 else OBJECT_CAP * MEMBER_SIZE + cost_object f (depth + 1) false true r
        else LIT_BASE + CHAR_COST * (1 + slen (fst (span_literal r)))
      end
    end
  with cost_array (fuel : nat) (depth : N) (first : bool) (s : str) {struct fuel} : N :=
    match fuel with
    | O => 0
    | S f =>
      match flush_ws s with
      | [] => 0
      | c :: r =>
        if c =? ch_rbrack then 0
        else
          cost_value f depth (c :: r) +
          match parse_value f depth (c :: r) with
          | Ok (v, s2) =>
            4 * VALUE_SIZE +
            match flush_ws s2 with
            | [] => 0
            | c' :: r' => if c' =? ch_comma then cost_array f depth false r' else 0
            end
          | _ => 0
          end
      end
    end
  with cost_object (fuel : nat) (depth : N) (tc empty : bool) (s : str) {struct fuel} : N :=
    match fuel with
    | O => 0
    | S f =>
      match flush_ws s with
      | [] => 0
      | c :: r =>
        if c =? ch_rbrace then 0
        else if c =? ch_comma then
          if tc then 0 else if empty then 0 else cost_object f depth true empty r
        else if negb (member_sep_ok lg empty tc) then 0
        else if negb (c =? ch_dq) then 0
        else
          STRING_CAP + string_cost false r +
          match string_loop lg false r with
          | Ok (k, s2) =>
            4 * slen k +
            match flush_ws s2 with
            | [] => 0
            | c2 :: r2 =>
              if negb (c2 =? ch_colon) then 0
              else
                cost_value f depth (flush_ws r2) +
                match parse_value f depth (flush_ws r2) with
                | Ok (v, s5) => 4 * MEMBER_SIZE + cost_object f depth false false s5
                | _ => 0
                end
            end
          | _ => 0
          end
      end
    end.

  Definition parse_cost (s : str) : N := cost_value (fuel_for s) 0 s.

  (* ---------------- serialize.rs ---------------- *)

  Definition hex_digit (n : N) : N := if n <? 10 then 0x30 + n else 0x57 + n.   (* {:x}: lower case *)

  (* write!(string, backslash-u{:04x}, b) for b < 0x10000 *)
  Definition u_escape (b : N) : str :=
    [0x5c; 0x75; hex_digit (b / 4096 mod 16); hex_digit (b / 256 mod 16); hex_digit (b / 16 mod 16); hex_digit (b mod 16)].

  (* one iteration of the loop of string_to_string *)
  Definition esc_char (c : N) : str :=
    if c =? 0x22 then [0x5c; 0x22]
    else if c =? 0x5c then [0x5c; 0x5c]
    else if c =? 0x2f then [0x5c; 0x2f]
    else if c =? 0x08 then [0x5c; 0x62]
    else if c =? 0x0c then [0x5c; 0x66]
    else if c =? 0x0a then [0x5c; 0x6e]
    else if c =? 0x0d then [0x5c; 0x72]
    else if c =? 0x09 then [0x5c; 0x74]
    else if unescapedb c then [c]
    else if c <? 0x10000 then u_escape c
    else (* encode_utf16; unreachable for scalar values, they are all matched by the range arm above *)
      let c' := c - 0x10000 in
      u_escape (0xD800 + c' / 0x400) ++ u_escape (0xDC00 + c' mod 0x400).

  Definition string_to_string (s : str) : str := ch_dq :: flat_map esc_char s ++ [ch_dq].

  Definition spaces (n : N) : str := repeat 0x20 (N.to_nat n).

  (* `if inner.ends_with(',') { inner.pop(); }` *)
  Definition pop_comma (s : str) : str :=
    if last s 0 =? ch_comma then removelast s else s.

  (* close a container: optional newline + indentation, then the closing bracket *)
  Definition close_with (inner : str) (indent : option (N * N)) (closer : N) : str :=
    match indent with
    | Some (ind, _) => inner ++ [0x0a] ++ spaces ind ++ [closer]
    | None => inner ++ [closer]
    end.

  (* array_to_string over the already serialised elements *)
  Definition array_to_string (items : list str) (indent : option (N * N)) : str :=
    match items with
    | [] => [ch_lbrack; ch_rbrack]
    | _ =>
      let inner := fold_left (fun acc s =>
                     match indent with
                     | Some (ind, size) => acc ++ [0x0a] ++ spaces (ind + size) ++ s ++ [ch_comma]
                     | None => acc ++ s ++ [ch_comma]
                     end) items [ch_lbrack] in
      close_with (pop_comma inner) indent ch_rbrack
    end.

  (* object_to_string over the already serialised (key, value) pairs *)
  Definition object_to_string (items : list (str * str)) (indent : option (N * N)) : str :=
    match items with
    | [] => [ch_lbrace; ch_rbrace]
    | _ =>
      let inner := fold_left (fun acc kv =>
                     match kv with (k, v) =>
                     match indent with
                     | Some (ind, size) => acc ++ [0x0a] ++ spaces (ind + size) ++ k ++ [ch_colon; 0x20] ++ v ++ [ch_comma]
                     | None => acc ++ k ++ [ch_colon] ++ v ++ [ch_comma]
                     end end) items [ch_lbrace] in
      close_with (pop_comma inner) indent ch_rbrace
    end.

  Fixpoint serialize (v : value) : str :=
    match v with
    | VNull => s_null
    | VBool b => if b then s_true else s_false
    | VNum x => fdisplay x
    | VStr s => string_to_string s
    | VArr l => array_to_string (map serialize l) None
    | VObj m => object_to_string (map (fun kv => match kv with (k, x) => (string_to_string k, serialize x) end) m) None
    end.

  Fixpoint serialize_pretty_indent (indent size : N) (v : value) : str :=
    match v with
    | VNull => s_null
    | VBool b => if b then s_true else s_false
    | VNum x => fdisplay x
    | VStr s => string_to_string s
    | VArr l => array_to_string (map (serialize_pretty_indent (indent + size) size) l) (Some (indent, size))
    | VObj m => object_to_string
                  (map (fun kv => match kv with (k, x) =>
                          (string_to_string k, serialize_pretty_indent (indent + size) size x) end) m)
                  (Some (indent, size))
    end.

  Definition serialize_pretty (size : N) (v : value) : str := serialize_pretty_indent 0 size v.

End Model.

Arguments VNull {F}.
Arguments VBool {F} b.
Arguments VNum {F} x.
Arguments VStr {F} s.
Arguments VArr {F} l.
Arguments VObj {F} m.
Arguments depth {F} v.

(* Value::parse = parse_max_depth with the constant read from the source (TablesJson.MAX_DEPTH) *)
Definition parse {F} (fparse : str -> option F) (s : str) : outcome (value F) :=
  parse_max_depth F fparse false MAX_DEPTH s.

(* the tree as it was before F22/F23/F25 *)
Definition parse_legacy {F} (fparse : str -> option F) (s : str) : outcome (value F) :=
  parse_max_depth F fparse true MAX_DEPTH s.

(* ---- instance used by the extracted runner: F := the literal text ---- *)
Definition xparse (maxd : N) (s : str) : outcome (value str) := parse_max_depth str (fun l => Some l) false maxd s.
Definition xparse_legacy (maxd : N) (s : str) : outcome (value str) := parse_max_depth str (fun l => Some l) true maxd s.
Definition xserialize (v : value str) : str := serialize str (fun l => l) v.
Definition xserialize_pretty (n : N) (v : value str) : str := serialize_pretty str (fun l => l) n v.
Definition xmax_depth : N := MAX_DEPTH.
Definition xparse_cost (maxd : N) (s : str) : N := parse_cost str (fun l => Some l) false maxd s.
