(* Proofs about the JSON model (Json.v) against the RFC 8259 relation (JsonSpec.v). *)
From Coq Require Import Lia.
From Hv Require Import Prelude TablesJson Json JsonSpec.
Open Scope N_scope.

(* ------------------------------------------------------------------------------------------------ *)
(* boolean comparisons -> propositions *)

Ltac b2p :=
  repeat match goal with
  | H : (_ && _) = true |- _ => apply andb_true_iff in H; destruct H
  | H : (_ || _) = false |- _ => apply orb_false_iff in H; destruct H
  | H : negb _ = true |- _ => apply negb_true_iff in H
  | H : negb _ = false |- _ => apply negb_false_iff in H
  | H : (_ =? _) = true |- _ => apply N.eqb_eq in H
  | H : (_ =? _) = false |- _ => apply N.eqb_neq in H
  | H : (_ <=? _) = true |- _ => apply N.leb_le in H
  | H : (_ <=? _) = false |- _ => apply N.leb_gt in H
  | H : (_ <? _) = true |- _ => apply N.ltb_lt in H
  | H : (_ <? _) = false |- _ => apply N.ltb_ge in H
  end.

(* decide a closed boolean combination of N comparisons from linear facts *)
Ltac nbool :=
  repeat match goal with
  | |- (_ && _) = true => apply andb_true_iff; split
  | |- (_ || _) = false => apply orb_false_iff; split
  | |- negb _ = true => apply negb_true_iff
  | |- negb _ = false => apply negb_false_iff
  | |- (_ =? _) = true => apply N.eqb_eq
  | |- (_ =? _) = false => apply N.eqb_neq
  | |- (_ <=? _) = true => apply N.leb_le
  | |- (_ <=? _) = false => apply N.leb_gt
  | |- (_ <? _) = true => apply N.ltb_lt
  | |- (_ <? _) = false => apply N.ltb_ge
  end; try lia.

Ltac nfalse := apply andb_false_iff; first [left; nbool; fail | right; nbool; fail].

Lemma eqb_false_of_neq (a b : N) : a <> b -> (a =? b) = false.
Proof. intro H. apply N.eqb_neq. exact H. Qed.

(* ------------------------------------------------------------------------------------------------ *)
(* whitespace *)

Lemma is_ws_true (c : N) : is_ws c = true <-> ws_char c.
Proof.
  unfold is_ws, ws_char. split.
  - intro H. destruct (c =? 0x20) eqn:E1; [b2p; auto|].
    destruct (c =? 0x09) eqn:E2; [b2p; auto|].
    destruct (c =? 0x0a) eqn:E3; [b2p; auto|].
    destruct (c =? 0x0d) eqn:E4; [b2p; auto|]. discriminate H.
  - intros [H|[H|[H|H]]]; subst; reflexivity.
Qed.

Lemma is_ws_false (c : N) : is_ws c = false <-> ~ ws_char c.
Proof.
  rewrite <- is_ws_true. destruct (is_ws c); split; intro H; try reflexivity; try discriminate.
  exfalso. apply H. reflexivity.
Qed.

Definition starts_non_ws (t : str) : Prop := match t with [] => True | c :: _ => is_ws c = false end.

Lemma flush_ws_app (w t : str) : WS w -> starts_non_ws t -> flush_ws (w ++ t) = t.
Proof.
  intros Hw Ht. induction Hw as [|c w Hc Hw IH]; cbn [app flush_ws].
  - destruct t as [|c r]; [reflexivity|]. cbn [flush_ws]. cbn in Ht. rewrite Ht. reflexivity.
  - apply is_ws_true in Hc. rewrite Hc. exact IH.
Qed.

Lemma flush_ws_split (s : str) : exists w, s = w ++ flush_ws s /\ WS w.
Proof.
  induction s as [|c r IH]; cbn [flush_ws].
  - exists []. split; [reflexivity|constructor].
  - destruct (is_ws c) eqn:E.
    + destruct IH as (w & Hs & Hw). exists (c :: w). split.
      * cbn [app]. f_equal. exact Hs.
      * constructor; [apply is_ws_true; exact E | exact Hw].
    + exists []. split; [reflexivity|constructor].
Qed.

Lemma flush_ws_head (s : str) (c : N) (r : str) : flush_ws s = c :: r -> is_ws c = false.
Proof.
  induction s as [|x s IH]; cbn [flush_ws]; [discriminate|].
  destruct (is_ws x) eqn:E; [exact IH|]. intro H. injection H as -> _. exact E.
Qed.

Lemma flush_ws_nil_WS (s : str) : flush_ws s = [] -> WS s.
Proof.
  intro H. destruct (flush_ws_split s) as (w & Hs & Hw). rewrite H, app_nil_r in Hs. subst. exact Hw.
Qed.

Lemma WS_flush_nil (w : str) : WS w -> flush_ws w = [].
Proof. intro H. rewrite <- (app_nil_r w). apply flush_ws_app; [exact H|exact I]. Qed.

Lemma flush_ws_length (s : str) : (length (flush_ws s) <= length s)%nat.
Proof.
  destruct (flush_ws_split s) as (w & Hs & _). rewrite Hs at 2. rewrite app_length. lia.
Qed.

Lemma flush_ws_non_ws (s : str) : starts_non_ws s -> flush_ws s = s.
Proof. intro H. apply (flush_ws_app [] s); [constructor|exact H]. Qed.

Lemma WS_app (a b : str) : WS a -> WS b -> WS (a ++ b).
Proof. intros. apply Forall_app. split; assumption. Qed.

(* ------------------------------------------------------------------------------------------------ *)
(* string equality *)

Lemma str_eqb_eq (a b : str) : str_eqb a b = true <-> a = b.
Proof.
  revert b. induction a as [|x a IH]; intros [|y b]; cbn [str_eqb]; split; intro H; try reflexivity; try discriminate.
  - apply andb_true_iff in H. destruct H as [H1 H2]. apply N.eqb_eq in H1. apply IH in H2. subst. reflexivity.
  - injection H as -> ->. rewrite N.eqb_refl. apply IH. reflexivity.
Qed.

Lemma str_eqb_neq (a b : str) : a <> b -> str_eqb a b = false.
Proof.
  intro H. destruct (str_eqb a b) eqn:E; [|reflexivity]. apply str_eqb_eq in E. contradiction.
Qed.

(* ------------------------------------------------------------------------------------------------ *)
(* literals: the span of non-delimiter characters *)

Definition delim (b : str) : Prop := match b with [] => True | c :: _ => is_literal c = false end.

Lemma span_literal_app (a b : str) :
  Forall (fun c => is_literal c = true) a -> delim b -> span_literal (a ++ b) = (a, b).
Proof.
  intros Ha Hb. induction Ha as [|c a Hc Ha IH]; cbn [app span_literal].
  - destruct b as [|c r]; [reflexivity|]. cbn [span_literal]. cbn in Hb. rewrite Hb. reflexivity.
  - rewrite Hc, IH. reflexivity.
Qed.

Lemma span_literal_split (s a b : str) : span_literal s = (a, b) -> s = a ++ b.
Proof.
  revert a b. induction s as [|c r IH]; intros a b; cbn [span_literal].
  - intro H. injection H as <- <-. reflexivity.
  - destruct (is_literal c).
    + destruct (span_literal r) as [a' b'] eqn:E. intro H. injection H as <- <-.
      cbn [app]. f_equal. apply IH. reflexivity.
    + intro H. injection H as <- <-. reflexivity.
Qed.

Lemma span_literal_length (s a b : str) : span_literal s = (a, b) -> (length b <= length s)%nat.
Proof. intro H. apply span_literal_split in H. subst. rewrite app_length. lia. Qed.

Lemma is_literal_false_of_ws (c : N) : ws_char c -> is_literal c = false.
Proof. intro H. unfold is_literal. apply is_ws_true in H. rewrite H. reflexivity. Qed.

Lemma delim_ws_app (w b : str) : WS w -> delim b -> delim (w ++ b).
Proof.
  intros Hw Hb. destruct Hw as [|c w Hc Hw]; [exact Hb|]. cbn. apply is_literal_false_of_ws. exact Hc.
Qed.

(* ------------------------------------------------------------------------------------------------ *)
(* numbers: the validator added by fix F22 decides exactly the RFC 8259 number grammar *)

Lemma is_digit_true (c : N) : is_digit c = true <-> digit c.
Proof.
  unfold is_digit, digit. split; intro H.
  - b2p. lia.
  - nbool.
Qed.

Definition starts_non_digit (r : str) : Prop := match r with [] => True | c :: _ => is_digit c = false end.

Lemma skip_digits_app (ds r : str) : Forall digit ds -> starts_non_digit r -> skip_digits (ds ++ r) = r.
Proof.
  intros Hd Hr. induction Hd as [|c ds Hc Hd IH]; cbn [app skip_digits].
  - destruct r as [|c r]; [reflexivity|]. cbn [skip_digits]. cbn in Hr. rewrite Hr. reflexivity.
  - apply is_digit_true in Hc. rewrite Hc. exact IH.
Qed.

Lemma skip_digits_split (s : str) : exists ds, s = ds ++ skip_digits s /\ Forall digit ds.
Proof.
  induction s as [|c r IH]; cbn [skip_digits].
  - exists []. split; [reflexivity|constructor].
  - destruct (is_digit c) eqn:E.
    + destruct IH as (ds & Hs & Hd). exists (c :: ds). split.
      * cbn [app]. f_equal. exact Hs.
      * constructor; [apply is_digit_true; exact E|exact Hd].
    + exists []. split; [reflexivity|constructor].
Qed.

Lemma skip_digits_nil (s : str) : skip_digits s = [] -> Forall digit s.
Proof.
  intro H. destruct (skip_digits_split s) as (ds & Hs & Hd). rewrite H, app_nil_r in Hs. subst. exact Hd.
Qed.

Lemma digits_skip_nil (ds : str) : Forall digit ds -> skip_digits ds = [].
Proof. intro H. rewrite <- (app_nil_r ds). apply skip_digits_app; [exact H|exact I]. Qed.

Lemma num_end_true (s : str) : num_end s = true <-> s = [].
Proof. destruct s; cbn; split; intro H; try reflexivity; discriminate. Qed.

Lemma JExp_starts_non_digit (e : str) : JExp e -> starts_non_digit e.
Proof.
  intros [->|(c & sg & ds & -> & Hc & _)]; [exact I|].
  cbn. unfold is_digit. destruct Hc; subst; reflexivity.
Qed.

Lemma num_exp_spec (s : str) : num_exp s = true <-> JExp s.
Proof.
  split.
  - intro H. destruct s as [|c r]; [left; reflexivity|]. cbn [num_exp] in H.
    destruct ((c =? 0x65) || (c =? 0x45)) eqn:Ec; [|discriminate H].
    right.
    assert (Hc : c = 0x65 \/ c = 0x45).
    { apply orb_true_iff in Ec. destruct Ec as [E|E]; apply N.eqb_eq in E; auto. }
    assert (Hgen : forall r1, digits1_then num_end r1 = true -> digits1 r1).
    { intros r1 K. destruct r1 as [|d r2]; [discriminate K|]. cbn [digits1_then] in K.
      destruct (is_digit d) eqn:Ed; [|discriminate K]. apply num_end_true in K. apply skip_digits_nil in K.
      split; [discriminate|]. constructor; [apply is_digit_true; exact Ed|exact K]. }
    destruct r as [|c1 r'].
    + cbn in H. discriminate H.
    + destruct ((c1 =? 0x2b) || (c1 =? 0x2d)) eqn:Es.
      * apply Hgen in H. apply orb_true_iff in Es.
        exists c, [c1], r'. split; [reflexivity|]. split; [exact Hc|]. split; [|exact H].
        destruct Es as [E|E]; apply N.eqb_eq in E; subst; auto.
      * apply Hgen in H. exists c, [], (c1 :: r'). split; [reflexivity|]. split; [exact Hc|]. split; [auto|exact H].
  - intros [->|(c & sg & ds & -> & Hc & Hsg & (Hne & Hd))]; [reflexivity|].
    destruct ds as [|d ds']; [contradiction Hne; reflexivity|].
    pose proof (Forall_inv Hd) as Hd0. pose proof (Forall_inv_tail Hd) as Hd1.
    assert (Ed : is_digit d = true) by (apply is_digit_true; exact Hd0).
    assert (Hk : digits1_then num_end (d :: ds') = true).
    { cbn [digits1_then]. rewrite Ed. rewrite digits_skip_nil by exact Hd1. reflexivity. }
    assert (Ec : (c =? 0x65) || (c =? 0x45) = true) by (destruct Hc; subst; reflexivity).
    cbn [num_exp]. rewrite Ec.
    destruct Hsg as [ -> | [ -> | -> ] ]; cbn [app].
    + assert (Es : (d =? 0x2b) || (d =? 0x2d) = false).
      { unfold digit in Hd0. nbool. }
      rewrite Es. exact Hk.
    + replace ((0x2b =? 0x2b) || (0x2b =? 0x2d)) with true by reflexivity. exact Hk.
    + replace ((0x2d =? 0x2b) || (0x2d =? 0x2d)) with true by reflexivity. exact Hk.
Qed.

Lemma JExp_not_dot (e : str) : JExp e -> match e with c :: _ => (c =? 0x2e) = false | [] => True end.
Proof.
  intros [->|(c & sg & ds & -> & Hc & _)]; [exact I|]. destruct Hc; subst; reflexivity.
Qed.

Definition JFracExp (s : str) : Prop := exists f e, s = f ++ e /\ JFrac f /\ JExp e.

Lemma num_frac_spec (s : str) : num_frac s = true <-> JFracExp s.
Proof.
  split.
  - intro H. destruct s as [|c r].
    + exists [], []. split; [reflexivity|]. split; left; reflexivity.
    + cbn [num_frac] in H. destruct (c =? 0x2e) eqn:Ec.
      * apply N.eqb_eq in Ec. subst c.
        destruct r as [|d r2]; [discriminate H|]. cbn [digits1_then] in H.
        destruct (is_digit d) eqn:Ed; [|discriminate H].
        destruct (skip_digits_split r2) as (ds & Hs & Hd).
        exists (0x2e :: d :: ds), (skip_digits r2). split.
        { cbn [app]. f_equal. f_equal. exact Hs. }
        split.
        { right. exists (d :: ds). split; [reflexivity|]. split; [discriminate|].
          constructor; [apply is_digit_true; exact Ed|exact Hd]. }
        { apply num_exp_spec. exact H. }
      * exists [], (c :: r). split; [reflexivity|]. split; [left; reflexivity|]. apply num_exp_spec. exact H.
  - intros (f & e & -> & Hf & He). destruct Hf as [->|(ds & -> & (Hne & Hd))].
    + cbn [app]. pose proof (JExp_not_dot e He) as Hnd. apply num_exp_spec in He.
      destruct e as [|c r]; [reflexivity|]. cbn [num_frac]. rewrite Hnd. exact He.
    + destruct ds as [|d ds']; [contradiction Hne; reflexivity|].
      pose proof (Forall_inv Hd) as Hd0. pose proof (Forall_inv_tail Hd) as Hd1.
      cbn [app num_frac]. replace (0x2e =? 0x2e) with true by reflexivity.
      cbn [digits1_then]. apply is_digit_true in Hd0. rewrite Hd0.
      rewrite skip_digits_app; [apply num_exp_spec; exact He|exact Hd1|apply JExp_starts_non_digit; exact He].
Qed.

Lemma JFracExp_starts_non_digit (s : str) : JFracExp s -> starts_non_digit s.
Proof.
  intros (f & e & -> & Hf & He). destruct Hf as [->|(ds & -> & _)].
  - cbn [app]. apply JExp_starts_non_digit. exact He.
  - reflexivity.
Qed.

Definition JIntFracExp (s : str) : Prop := exists i r, s = i ++ r /\ JInt i /\ JFracExp r.

Lemma num_int_spec (s : str) : num_int s = true <-> JIntFracExp s.
Proof.
  split.
  - intro H. destruct s as [|c r]; [discriminate H|]. cbn [num_int] in H.
    destruct (c =? 0x30) eqn:E0.
    + apply N.eqb_eq in E0. subst c. exists [0x30], r. split; [reflexivity|]. split; [left; reflexivity|].
      apply num_frac_spec. exact H.
    + destruct (is_digit19 c) eqn:E19; [|discriminate H].
      destruct (skip_digits_split r) as (ds & Hs & Hd).
      exists (c :: ds), (skip_digits r). split; [cbn [app]; f_equal; exact Hs|]. split.
      * right. exists c, ds. split; [reflexivity|]. split; [|exact Hd].
        unfold is_digit19 in E19. unfold digit19. b2p. lia.
      * apply num_frac_spec. exact H.
  - intros (i & r & -> & Hi & Hr). pose proof (JFracExp_starts_non_digit r Hr) as Hnd.
    apply num_frac_spec in Hr. destruct Hi as [->|(d & ds & -> & Hd & Hds)].
    + cbn [app num_int]. replace (0x30 =? 0x30) with true by reflexivity. exact Hr.
    + cbn [app num_int]. unfold digit19 in Hd.
      assert (E0 : (d =? 0x30) = false) by nbool. rewrite E0.
      assert (E19 : is_digit19 d = true) by (unfold is_digit19; nbool). rewrite E19.
      rewrite skip_digits_app; [exact Hr|exact Hds|exact Hnd].
Qed.

Lemma JNumber_alt (s : str) : JNumber s <-> exists m r, s = m ++ r /\ JMinus m /\ JIntFracExp r.
Proof.
  split.
  - intros (m & i & f & e & -> & Hm & Hi & Hf & He). exists m, (i ++ f ++ e). split; [reflexivity|]. split; [exact Hm|].
    exists i, (f ++ e). split; [reflexivity|]. split; [exact Hi|]. exists f, e. auto.
  - intros (m & r & -> & Hm & (i & r' & -> & Hi & (f & e & -> & Hf & He))). exists m, i, f, e. auto.
Qed.

Theorem is_json_number_spec (s : str) : is_json_number s = true <-> JNumber s.
Proof.
  rewrite JNumber_alt. split.
  - intro H. destruct s as [|c r]; [discriminate H|]. cbn [is_json_number] in H.
    destruct (c =? 0x2d) eqn:Ec.
    + apply N.eqb_eq in Ec. subst c. exists [0x2d], r. split; [reflexivity|]. split; [right; reflexivity|].
      apply num_int_spec. exact H.
    + exists [], (c :: r). split; [reflexivity|]. split; [left; reflexivity|]. apply num_int_spec. exact H.
  - intros (m & r & -> & Hm & Hr). destruct Hm as [->| ->].
    + cbn [app]. pose proof Hr as Hr'. apply num_int_spec in Hr'.
      destruct r as [|c r0]; [discriminate Hr'|]. cbn [is_json_number].
      assert (Ec : (c =? 0x2d) = false).
      { destruct Hr as (i & r1 & Hs & Hi & _). destruct Hi as [->|(d & ds & -> & Hd & _)].
        - injection Hs as -> _. reflexivity.
        - injection Hs as -> _. unfold digit19 in Hd. nbool. }
      rewrite Ec. exact Hr'.
    + cbn [app is_json_number]. replace (0x2d =? 0x2d) with true by reflexivity. apply num_int_spec. exact Hr.
Qed.

(* characters of a number are literal characters, and a number is none of the three names *)
Definition numchar (c : N) : Prop := digit c \/ c = 0x2d \/ c = 0x2b \/ c = 0x2e \/ c = 0x65 \/ c = 0x45.

Lemma numchar_is_literal (c : N) : numchar c -> is_literal c = true.
Proof.
  unfold numchar, digit. intro H. unfold is_literal, is_ws, ch_comma, ch_rbrace, ch_rbrack.
  destruct H as [H|[H|[H|[H|[H|H]]]]]; try (subst; reflexivity).
  assert ((c =? 0x20) = false) as -> by nbool. assert ((c =? 0x09) = false) as -> by nbool.
  assert ((c =? 0x0a) = false) as -> by nbool. assert ((c =? 0x0d) = false) as -> by nbool.
  assert ((c =? 0x2c) = false) as -> by nbool. assert ((c =? 0x7d) = false) as -> by nbool.
  assert ((c =? 0x5d) = false) as -> by nbool. reflexivity.
Qed.

Lemma digits_numchars (ds : str) : Forall digit ds -> Forall numchar ds.
Proof. intro H. eapply Forall_impl; [|exact H]. intros c Hc. left. exact Hc. Qed.

Ltac disj := repeat match goal with |- _ \/ _ => first [left; (reflexivity || lia) | right] end; try (reflexivity || lia).

Lemma JNumber_numchars (s : str) : JNumber s -> Forall numchar s.
Proof.
  intros (m & i & f & e & -> & Hm & Hi & Hf & He).
  apply Forall_app; split; [|apply Forall_app; split; [|apply Forall_app; split]].
  - destruct Hm as [ -> | -> ]; [constructor|]. constructor; [|constructor]. unfold numchar. disj.
  - destruct Hi as [ -> |(d & ds & -> & Hd & Hds)].
    + constructor; [|constructor]. left. unfold digit. lia.
    + constructor; [left; unfold digit, digit19 in *; lia|apply digits_numchars; exact Hds].
  - destruct Hf as [ -> |(ds & -> & (_ & Hd))]; [constructor|].
    constructor; [unfold numchar; disj|apply digits_numchars; exact Hd].
  - destruct He as [ -> |(c & sg & ds & -> & Hc & Hsg & (_ & Hd))]; [constructor|].
    constructor; [unfold numchar; destruct Hc; subst; disj|].
    apply Forall_app. split; [|apply digits_numchars; exact Hd].
    destruct Hsg as [ -> | [ -> | -> ] ]; [constructor| |]; (constructor; [unfold numchar; disj|constructor]).
Qed.

Lemma JNumber_head (s : str) : JNumber s -> exists c r, s = c :: r /\ (c = 0x2d \/ digit c).
Proof.
  intros (m & i & f & e & -> & Hm & Hi & _).
  destruct Hm as [->| ->].
  - destruct Hi as [->|(d & ds & -> & Hd & _)]; cbn [app].
    + eexists _, _. split; [reflexivity|]. right. unfold digit. lia.
    + eexists _, _. split; [reflexivity|]. right. unfold digit, digit19 in *. lia.
  - eexists _, _. split; [reflexivity|]. left. reflexivity.
Qed.

(* ------------------------------------------------------------------------------------------------ *)
(* string bodies *)

Lemma hexval_spec (c n : N) : hexval c = Some n <-> hexdigit c n.
Proof.
  unfold hexval, hexdigit. split.
  - intro H.
    destruct ((0x30 <=? c) && (c <=? 0x39)) eqn:E1; [injection H as <-; b2p; left; lia|].
    destruct ((0x61 <=? c) && (c <=? 0x66)) eqn:E2; [injection H as <-; b2p; right; right; lia|].
    destruct ((0x41 <=? c) && (c <=? 0x46)) eqn:E3; [injection H as <-; b2p; right; left; lia|].
    discriminate H.
  - intros [[H ->]|[[H ->]|[H ->]]].
    + assert ((0x30 <=? c) && (c <=? 0x39) = true) as -> by nbool. reflexivity.
    + assert ((0x30 <=? c) && (c <=? 0x39) = false) as ->.
      { nfalse. }
      assert ((0x61 <=? c) && (c <=? 0x66) = false) as ->.
      { nfalse. }
      assert ((0x41 <=? c) && (c <=? 0x46) = true) as -> by nbool. reflexivity.
    + assert ((0x30 <=? c) && (c <=? 0x39) = false) as ->.
      { nfalse. }
      assert ((0x61 <=? c) && (c <=? 0x66) = true) as -> by nbool. reflexivity.
Qed.

Lemma hex4_spec (a b c d code : N) : hex4 a b c d = Some code <-> hex4_is a b c d code.
Proof.
  unfold hex4, hex4_is. split.
  - intro H. destruct (hexval a) as [x|] eqn:Ea; [|discriminate H].
    destruct (hexval b) as [y|] eqn:Eb; [|discriminate H].
    destruct (hexval c) as [z|] eqn:Ec; [|discriminate H].
    destruct (hexval d) as [w|] eqn:Ed; [|discriminate H].
    injection H as <-. exists x, y, z, w.
    repeat split; try (apply hexval_spec; assumption). lia.
  - intros (x & y & z & w & Ha & Hb & Hc & Hd & ->).
    apply hexval_spec in Ha, Hb, Hc, Hd. rewrite Ha, Hb, Hc, Hd. f_equal. lia.
Qed.

Lemma hex4_is_bound (a b c d code : N) : hex4_is a b c d code -> code <= 0xFFFF.
Proof.
  intros (x & y & z & w & Ha & Hb & Hc & Hd & ->). unfold hexdigit in *. lia.
Qed.

Lemma is_surrogate_true (c : N) : is_surrogate c = true <-> surrogate c.
Proof. unfold is_surrogate, surrogate. split; intro H; [b2p; lia|nbool]. Qed.

Lemma is_surrogate_false (c : N) : is_surrogate c = false <-> ~ surrogate c.
Proof.
  rewrite <- is_surrogate_true. destruct (is_surrogate c); split; intro H; try reflexivity; try discriminate.
  exfalso. apply H. reflexivity.
Qed.

Lemma decode_pair_spec (hi lo ch : N) :
  surrogate hi ->
  (decode_pair hi lo = Some ch <->
   high_surrogate hi /\ low_surrogate lo /\ ch = 0x10000 + (hi - 0xD800) * 0x400 + (lo - 0xDC00)).
Proof.
  unfold decode_pair, surrogate, high_surrogate, low_surrogate. intro Hs. split.
  - intro H. destruct (0xDC00 <=? hi) eqn:E1; [discriminate H|].
    destruct ((lo <? 0xDC00) || (0xDFFF <? lo)) eqn:E2; [discriminate H|].
    injection H as <-. b2p. repeat split; try lia.
    assert (hi mod 1024 = hi - 55296) as ->. { symmetry. apply (N.mod_unique hi 1024 54); lia. }
    assert (lo mod 1024 = lo - 56320) as ->. { symmetry. apply (N.mod_unique lo 1024 55); lia. }
    lia.
  - intros (H1 & H2 & ->).
    assert ((0xDC00 <=? hi) = false) as -> by nbool.
    assert ((lo <? 0xDC00) || (0xDFFF <? lo) = false) as -> by nbool.
    f_equal.
    assert (hi mod 1024 = hi - 55296) as ->. { symmetry. apply (N.mod_unique hi 1024 54); lia. }
    assert (lo mod 1024 = lo - 56320) as ->. { symmetry. apply (N.mod_unique lo 1024 55); lia. }
    lia.
Qed.

Lemma unescapedb_true (c : N) : unescapedb c = true <-> unescaped c.
Proof.
  unfold unescapedb, unescaped. split.
  - intro H. destruct ((0x20 <=? c) && (c <=? 0x21)) eqn:E1; [b2p; lia|].
    destruct ((0x23 <=? c) && (c <=? 0x5b)) eqn:E2; [b2p; lia|].
    destruct ((0x5d <=? c) && (c <=? 0x10ffff)) eqn:E3; [b2p; lia|]. discriminate H.
  - intros [H|[H|H]].
    + assert ((0x20 <=? c) && (c <=? 0x21) = true) as -> by nbool. reflexivity.
    + assert ((0x23 <=? c) && (c <=? 0x5b) = true) as -> by nbool. rewrite orb_true_r. reflexivity.
    + assert ((0x5d <=? c) && (c <=? 0x10ffff) = true) as -> by nbool. apply orb_true_r.
Qed.

Lemma simple_escape_spec (c d : N) : simple_escape c = Some d <-> escape_of c d.
Proof.
  unfold simple_escape, escape_of. split.
  - intro H.
    repeat match type of H with
           | (if ?x =? ?y then _ else _) = _ =>
             destruct (x =? y) eqn:?; [injection H as <-; b2p; subst; tauto|]
           end.
    discriminate H.
  - intros [[-> ->]|[[-> ->]|[[-> ->]|[[-> ->]|[[-> ->]|[[-> ->]|[[-> ->]|[-> ->]]]]]]]]; reflexivity.
Qed.

Lemma escape_of_not_u (c d : N) : escape_of c d -> c <> 0x75.
Proof. unfold escape_of. intros H E. subst c. repeat destruct H as [H|H]; destruct H as [H _]; discriminate H. Qed.

Lemma push_char_ok (d : N) (x : outcome (str * str)) (o rest : str) :
  push_char d x = Ok (o, rest) -> exists o', x = Ok (o', rest) /\ o = d :: o'.
Proof.
  destruct x as [[o' r']| |]; cbn [push_char]; intro H; try discriminate H.
  injection H as <- <-. exists o'. split; reflexivity.
Qed.

(* one-step equations of the string loop *)
Lemma sl_plain (lg : bool) (c : N) (r : str) :
  string_loop lg false (c :: r) =
  if c =? ch_bslash then string_loop lg true r
  else if c =? ch_dq then Ok ([], r)
  else if unescapedb c then push_char c (string_loop lg false r)
  else Err E_TOK.
Proof. reflexivity. Qed.

Lemma sl_escape (lg : bool) (c d : N) (r : str) :
  simple_escape c = Some d -> string_loop lg true (c :: r) = push_char d (string_loop lg false r).
Proof. intro H. cbn [string_loop]. rewrite H. reflexivity. Qed.

Lemma sl_u (lg : bool) (r : str) :
  string_loop lg true (ch_u :: r) =
  match r with
  | h1 :: h2 :: h3 :: h4 :: r4 =>
    match hex4x lg h1 h2 h3 h4 with
    | None => Err E_ESC
    | Some code =>
      if negb (is_surrogate code) then push_char code (string_loop lg false r4)
      else
        match r4 with
        | [] => Err E_EOF
        | b1 :: r5 =>
          if negb (b1 =? ch_bslash) then Err E_ESC
          else
            match r5 with
            | [] => Err E_EOF
            | u1 :: r6 =>
              if negb (u1 =? ch_u) then Err E_ESC
              else
                match r6 with
                | g1 :: g2 :: g3 :: g4 :: r10 =>
                  match hex4x lg g1 g2 g3 g4 with
                  | None => Err E_ESC
                  | Some code2 =>
                    match decode_pair code code2 with
                    | Some ch => push_char ch (string_loop lg false r10)
                    | None => Err E_ESC
                    end
                  end
                | _ => Err E_EOF
                end
            end
        end
    end
  | _ => Err E_EOF
  end.
Proof. reflexivity. Qed.

Lemma sl_bad_escape (lg : bool) (c : N) (r : str) :
  simple_escape c = None -> (c =? ch_u) = false -> string_loop lg true (c :: r) = Err E_ESC.
Proof. intros H1 H2. cbn [string_loop]. rewrite H1, H2. reflexivity. Qed.

Lemma string_loop_sound_n (n : nat) :
  forall s bs o rest, (length s <= n)%nat -> string_loop false bs s = Ok (o, rest) ->
  exists b, s = b ++ 0x22 :: rest /\ JChars false (if bs then 0x5c :: b else b) o.
Proof.
  induction n as [|n IH]; intros s bs o rest Hlen H.
  - destruct s; [|cbn in Hlen; lia]. destruct bs; discriminate H.
  - destruct s as [|c r]; [destruct bs; discriminate H|]. cbn [length] in Hlen.
    destruct bs.
    + (* after a backslash *)
      destruct (simple_escape c) as [d|] eqn:Ese.
      * rewrite (sl_escape _ _ _ _ Ese) in H. apply push_char_ok in H. destruct H as (o' & H & ->).
        apply IH in H; [|lia]. destruct H as (b & -> & Hb). exists (c :: b). split; [reflexivity|].
        apply jc_escape; [apply simple_escape_spec; exact Ese|exact Hb].
      * destruct (c =? ch_u) eqn:Eu; [|rewrite (sl_bad_escape _ _ _ Ese Eu) in H; discriminate H].
        apply N.eqb_eq in Eu. subst c. rewrite sl_u in H.
        destruct r as [|h1 [|h2 [|h3 [|h4 r4]]]]; try discriminate H.
        cbn [hex4x] in H. destruct (hex4 h1 h2 h3 h4) as [code|] eqn:Eh; [|discriminate H].
        apply hex4_spec in Eh. cbn [length] in Hlen.
        destruct (is_surrogate code) eqn:Esur; cbn [negb] in H.
        -- destruct r4 as [|b1 r5]; [discriminate H|].
           destruct (b1 =? ch_bslash) eqn:Eb1; cbn [negb] in H; [|discriminate H].
           destruct r5 as [|u1 r6]; [discriminate H|].
           destruct (u1 =? ch_u) eqn:Eu1; cbn [negb] in H; [|discriminate H].
           destruct r6 as [|g1 [|g2 [|g3 [|g4 r10]]]]; try discriminate H.
           destruct (hex4 g1 g2 g3 g4) as [code2|] eqn:Eg; [|discriminate H].
           apply hex4_spec in Eg.
           destruct (decode_pair code code2) as [ch|] eqn:Edp; [|discriminate H].
           apply is_surrogate_true in Esur. apply (decode_pair_spec _ _ _ Esur) in Edp. destruct Edp as (Hhi & Hlo & ->).
           apply push_char_ok in H. destruct H as (o' & H & ->).
           cbn [length] in Hlen. apply IH in H; [|lia]. destruct H as (b & -> & Hb).
           apply N.eqb_eq in Eb1, Eu1. subst b1 u1.
           exists (ch_u :: h1 :: h2 :: h3 :: h4 :: ch_bslash :: ch_u :: g1 :: g2 :: g3 :: g4 :: b).
           split; [reflexivity|]. apply jc_pair; assumption.
        -- apply push_char_ok in H. destruct H as (o' & H & ->).
           apply IH in H; [|lia]. destruct H as (b & -> & Hb).
           exists (ch_u :: h1 :: h2 :: h3 :: h4 :: b). split; [reflexivity|].
           apply jc_u; [exact Eh|apply is_surrogate_false; exact Esur|exact Hb].
    + rewrite sl_plain in H. destruct (c =? ch_bslash) eqn:Ebs.
      * apply N.eqb_eq in Ebs. subst c. apply IH in H; [|lia]. destruct H as (b & -> & Hb).
        exists (ch_bslash :: b). split; [reflexivity|exact Hb].
      * destruct (c =? ch_dq) eqn:Edq.
        -- apply N.eqb_eq in Edq. subst c. injection H as <- <-. exists []. split; [reflexivity|constructor].
        -- destruct (unescapedb c) eqn:Eun; [|discriminate H].
           apply push_char_ok in H. destruct H as (o' & H & ->).
           apply IH in H; [|lia]. destruct H as (b & -> & Hb). exists (c :: b). split; [reflexivity|].
           apply jc_unescaped; [apply unescapedb_true; exact Eun|exact Hb].
Qed.

Lemma string_loop_sound (s o rest : str) :
  string_loop false false s = Ok (o, rest) -> exists b, s = b ++ 0x22 :: rest /\ JChars false b o.
Proof. intro H. apply (string_loop_sound_n (length s) s false o rest) in H; [exact H|lia]. Qed.

Lemma string_loop_complete (b o : str) :
  JChars false b o -> forall rest, string_loop false false (b ++ 0x22 :: rest) = Ok (o, rest).
Proof.
  induction 1 as [|c t o Hc _ IH|c d t o He _ IH|h1 h2 h3 h4 code t o Hh Hns _ IH
                  |h1 h2 h3 h4 g1 g2 g3 g4 hi lo t o Hh Hg Hhi Hlo _ IH|h1 h2 h3 h4 code t o Hl _ _ _ _]; intro rest.
  - reflexivity.
  - cbn [app]. rewrite sl_plain. unfold unescaped in Hc.
    assert ((c =? ch_bslash) = false) as -> by (unfold ch_bslash; nbool).
    assert ((c =? ch_dq) = false) as -> by (unfold ch_dq; nbool).
    assert (unescapedb c = true) as -> by (apply unescapedb_true; exact Hc).
    rewrite IH. reflexivity.
  - cbn [app]. rewrite sl_plain. replace (0x5c =? ch_bslash) with true by reflexivity.
    apply simple_escape_spec in He. rewrite (sl_escape _ _ _ _ He). rewrite IH. reflexivity.
  - cbn [app]. rewrite sl_plain. replace (0x5c =? ch_bslash) with true by reflexivity.
    change 0x75 with ch_u. rewrite sl_u. cbn [hex4x]. apply hex4_spec in Hh. rewrite Hh.
    apply is_surrogate_false in Hns. rewrite Hns. cbn [negb]. rewrite IH. reflexivity.
  - cbn [app]. rewrite sl_plain. replace (0x5c =? ch_bslash) with true by reflexivity.
    change 0x75 with ch_u. rewrite sl_u. cbn [hex4x]. apply hex4_spec in Hh, Hg. rewrite Hh.
    assert (Hs : surrogate hi) by (unfold surrogate, high_surrogate in *; lia).
    pose proof Hs as Hs'. apply is_surrogate_true in Hs'. rewrite Hs'. cbn [negb].
    replace (0x5c =? ch_bslash) with true by reflexivity. cbn [negb].
    replace (ch_u =? ch_u) with true by reflexivity. cbn [negb]. rewrite Hg.
    assert (decode_pair hi lo = Some (0x10000 + (hi - 0xD800) * 0x400 + (lo - 0xDC00))) as ->.
    { apply (decode_pair_spec _ _ _ Hs). auto. }
    rewrite IH. reflexivity.
  - discriminate Hl.
Qed.

(* a key or string value never changes the set of literal delimiters: useful head facts *)
Lemma JChars_mono (b o : str) : JChars false b o -> JChars true b o.
Proof.
  induction 1; [apply jc_nil|apply jc_unescaped|eapply jc_escape|apply jc_u|apply jc_pair|discriminate]; eassumption.
Qed.

(* ------------------------------------------------------------------------------------------------ *)
(* the parser against the grammar *)

Ltac norm_app := repeat (progress (rewrite <- ?app_assoc; cbn [app])).
Ltac len := repeat (progress (rewrite ?app_length in *; cbn [length] in *)).

Section Parser.
  Variable F : Type.
  Variable fparse : str -> option F.
  Variable maxd : N.

  Notation pv := (parse_value F fparse false maxd).
  Notation al := (array_loop F fparse false maxd).
  Notation ol := (object_loop F fparse false maxd).
  Notation JV := (JValue F fparse false).
  Notation JE := (JElems F fparse false).
  Notation JM := (JMembers F fparse false).

  Definition depth_list (l : list (value F)) : N := fold_right (fun x a => N.max (depth x) a) 0 l.
  Definition depth_members (m : list (str * value F)) : N :=
    fold_right (fun kv a => match kv with (_, x) => N.max (depth x) a end) 0 m.

  Lemma depth_arr (l : list (value F)) : depth (VArr l) = 1 + depth_list l.
  Proof. reflexivity. Qed.
  Lemma depth_obj (m : list (str * value F)) : depth (VObj m) = 1 + depth_members m.
  Proof. reflexivity. Qed.
  Lemma depth_list_cons (v : value F) l : depth_list (v :: l) = N.max (depth v) (depth_list l).
  Proof. reflexivity. Qed.
  Lemma depth_members_cons k (v : value F) m : depth_members ((k, v) :: m) = N.max (depth v) (depth_members m).
  Proof. reflexivity. Qed.

  (* one-step equations of the three mutually recursive functions *)
  Lemma pv_eq (f : nat) (d : N) (s : str) :
    pv (S f) d s =
    if maxd <? d then Crash C_STACK else
    match flush_ws s with
    | [] => Err E_EOF
    | c :: r =>
      if c =? ch_dq then
        match string_loop false false r with
        | Ok (o, rest) => Ok (VStr o, rest)
        | Err e => Err e
        | Crash w => Crash w
        end
      else if c =? ch_lbrack then
        if d =? maxd then Err E_DEPTH
        else
          match al f (d + 1) true r with
          | Ok (vs, rest) => dec_depth (d + 1) (Ok (VArr vs, rest))
          | Err e => Err e
          | Crash w => Crash w
          end
      else if c =? ch_lbrace then
        if d =? maxd then Err E_DEPTH
        else
          match ol f (d + 1) false true r with
          | Ok (ms, rest) => dec_depth (d + 1) (Ok (VObj ms, rest))
          | Err e => Err e
          | Crash w => Crash w
          end
      else parse_literal F fparse false c r
    end.
  Proof. reflexivity. Qed.

  Lemma al_eq (f : nat) (d : N) (first : bool) (s : str) :
    al (S f) d first s =
    match flush_ws s with
    | [] => Err E_EOF
    | c :: r =>
      if c =? ch_rbrack then
        if first then Ok ([], r) else Err E_COMMA
      else
        match pv f d (c :: r) with
        | Ok (v, s2) =>
          match flush_ws s2 with
          | [] => Err E_EOF
          | c' :: r' =>
            if c' =? ch_comma then
              match al f d false r' with
              | Ok (vs, rest) => Ok (v :: vs, rest)
              | Err e => Err e
              | Crash w => Crash w
              end
            else if c' =? ch_rbrack then Ok ([v], r')
            else Err E_TOK
          end
        | Err e => Err e
        | Crash w => Crash w
        end
    end.
  Proof. reflexivity. Qed.

  Lemma ol_eq (f : nat) (d : N) (tc empty : bool) (s : str) :
    ol (S f) d tc empty s =
    match flush_ws s with
    | [] => Err E_EOF
    | c :: r =>
      if c =? ch_rbrace then
        if tc then Err E_COMMA else Ok ([], r)
      else if c =? ch_comma then
        if tc then Err E_TOK
        else if empty then Err E_TOK
        else ol f d true empty r
      else if negb (member_sep_ok false empty tc) then Err E_TOK
      else if negb (c =? ch_dq) then Err E_TOK
      else
        match string_loop false false r with
        | Ok (k, s2) =>
          match flush_ws s2 with
          | [] => Err E_EOF
          | c2 :: r2 =>
            if negb (c2 =? ch_colon) then Err E_TOK
            else
              match pv f d (flush_ws r2) with
              | Ok (v, s5) =>
                match ol f d false false s5 with
                | Ok (ms, rest) => Ok ((k, v) :: ms, rest)
                | Err e => Err e
                | Crash w => Crash w
                end
              | Err e => Err e
              | Crash w => Crash w
              end
          end
        | Err e => Err e
        | Crash w => Crash w
        end
    end.
  Proof. reflexivity. Qed.

  (* ---- literals ---- *)
  Lemma parse_literal_sound (c : N) (r : str) (v : value F) (rest : str) :
    parse_literal F fparse false c r = Ok (v, rest) ->
    exists t, c :: r = t ++ rest /\ JV t v /\ depth v = 0.
  Proof.
    unfold parse_literal. destruct (span_literal r) as [lit rest'] eqn:E. apply span_literal_split in E. subst r.
    destruct (str_eqb (c :: lit) s_null) eqn:E1.
    { apply str_eqb_eq in E1. intro H. injection H as <- <-. exists s_null. rewrite <- E1.
      split; [reflexivity|]. split; [rewrite E1; constructor|reflexivity]. }
    destruct (str_eqb (c :: lit) s_true) eqn:E2.
    { apply str_eqb_eq in E2. intro H. injection H as <- <-. exists s_true. rewrite <- E2.
      split; [reflexivity|]. split; [rewrite E2; constructor|reflexivity]. }
    destruct (str_eqb (c :: lit) s_false) eqn:E3.
    { apply str_eqb_eq in E3. intro H. injection H as <- <-. exists s_false. rewrite <- E3.
      split; [reflexivity|]. split; [rewrite E3; constructor|reflexivity]. }
    cbn [number_ok]. destruct (is_json_number (c :: lit)) eqn:En; [|discriminate].
    destruct (fparse (c :: lit)) as [x|] eqn:Ef; [|discriminate].
    intro H. injection H as <- <-. exists (c :: lit). split; [reflexivity|]. split; [|reflexivity].
    apply jv_number; [apply is_json_number_spec; exact En|exact Ef].
  Qed.

  Lemma parse_literal_name (name : str) (v : value F) (c : N) (r rest : str) :
    name = c :: r -> Forall (fun c => is_literal c = true) r -> delim rest ->
    (if str_eqb name s_null then Ok (VNull, rest)
     else if str_eqb name s_true then Ok (VBool true, rest)
     else if str_eqb name s_false then Ok (VBool false, rest)
     else if number_ok false name then
            match fparse name with Some x => Ok (VNum x, rest) | None => Err E_TOK end
          else Err E_TOK) = Ok (v, rest) ->
    parse_literal F fparse false c (r ++ rest) = Ok (v, rest).
  Proof.
    intros -> Hl Hd H. unfold parse_literal. rewrite (span_literal_app r rest Hl Hd). exact H.
  Qed.

  Lemma parse_literal_number (s : str) (x : F) (c : N) (r rest : str) :
    JNumber s -> fparse s = Some x -> s = c :: r -> delim rest ->
    parse_literal F fparse false c (r ++ rest) = Ok (VNum x, rest).
  Proof.
    intros Hn Hf Hs Hd. pose proof (JNumber_numchars s Hn) as Hc. pose proof (JNumber_head s Hn) as (c' & r' & Hs' & Hh).
    apply (parse_literal_name s); [exact Hs| |exact Hd|].
    - subst s. apply Forall_inv_tail in Hc. eapply Forall_impl; [|exact Hc]. intros a Ha. apply numchar_is_literal. exact Ha.
    - assert (N1 : str_eqb s s_null = false).
      { apply str_eqb_neq. intro K. rewrite K in Hs'. injection Hs' as <- _. unfold digit in Hh. lia. }
      assert (N2 : str_eqb s s_true = false).
      { apply str_eqb_neq. intro K. rewrite K in Hs'. injection Hs' as <- _. unfold digit in Hh. lia. }
      assert (N3 : str_eqb s s_false = false).
      { apply str_eqb_neq. intro K. rewrite K in Hs'. injection Hs' as <- _. unfold digit in Hh. lia. }
      rewrite N1, N2, N3. cbn [number_ok]. apply is_json_number_spec in Hn. rewrite Hn, Hf. reflexivity.
  Qed.

  (* ---- first character of a value ---- *)
  Lemma JValue_head (t : str) (v : value F) :
    JV t v -> exists c r, t = c :: r /\ is_ws c = false /\ c <> ch_rbrack.
  Proof.
    intro H. destruct H; try (eexists _, _; split; [reflexivity|]; split; [reflexivity|discriminate]).
    destruct (JNumber_head s H) as (c & r & -> & Hc). exists c, r. split; [reflexivity|].
    unfold digit in Hc. split.
    - unfold is_ws. nbool.
    - unfold ch_rbrack. lia.
  Qed.

  Lemma JValue_starts_non_ws (t : str) (v : value F) (rest : str) : JV t v -> starts_non_ws (t ++ rest).
  Proof. intro H. destruct (JValue_head t v H) as (c & r & -> & Hc & _). exact Hc. Qed.

  (* ---- soundness ---- *)
  Definition sound_v (fuel : nat) : Prop :=
    forall d s v rest, d <= maxd -> pv fuel d s = Ok (v, rest) ->
    exists w t, s = w ++ t ++ rest /\ WS w /\ JV t v /\ d + depth v <= maxd.

  Definition sound_a (fuel : nat) : Prop :=
    forall d first s vs rest, d <= maxd -> al fuel d first s = Ok (vs, rest) ->
    exists b, s = b ++ 0x5d :: rest /\ d + depth_list vs <= maxd /\
              ((vs = [] /\ first = true /\ WS b) \/ JE b vs).

  Definition sound_o (fuel : nat) : Prop :=
    forall d tc empty s ms rest, d <= maxd -> ol fuel d tc empty s = Ok (ms, rest) ->
    exists b, s = b ++ 0x7d :: rest /\ d + depth_members ms <= maxd /\
              (if tc then JM b ms
               else if empty then (ms = [] /\ WS b) \/ JM b ms
               else (ms = [] /\ WS b) \/ exists w b', b = w ++ 0x2c :: b' /\ WS w /\ JM b' ms).

  Lemma sound_step_v (f : nat) : sound_a f -> sound_o f -> sound_v (S f).
  Proof.
    intros IHa IHo d s v rest Hd H. rewrite pv_eq in H.
    destruct (maxd <? d) eqn:Emd; [discriminate H|].
    destruct (flush_ws_split s) as (w & Hs & Hw).
    destruct (flush_ws s) as [|c r] eqn:Ef; [discriminate H|].
    destruct (c =? ch_dq) eqn:Edq.
    { (* string *)
      apply N.eqb_eq in Edq. subst c.
      destruct (string_loop false false r) as [[o rest']| |] eqn:Es; try discriminate H.
      injection H as <- <-. apply string_loop_sound in Es. destruct Es as (b & -> & Hb).
      exists w, (ch_dq :: b ++ [0x22]). split; [rewrite Hs; norm_app; reflexivity|].
      split; [exact Hw|]. split; [apply jv_string; exact Hb|cbn [depth]; lia]. }
    destruct (c =? ch_lbrack) eqn:Elb.
    { (* array *)
      apply N.eqb_eq in Elb. subst c.
      destruct (d =? maxd) eqn:Edm; [discriminate H|]. b2p.
      destruct (al f (d + 1) true r) as [[vs rest']| |] eqn:Ea; try discriminate H.
      unfold dec_depth in H. assert (Hz : (d + 1 =? 0) = false) by nbool. rewrite Hz in H. injection H as <- <-.
      apply IHa in Ea; [|lia]. destruct Ea as (b & -> & Hdep & Hb).
      exists w, (ch_lbrack :: b ++ [0x5d]). split; [rewrite Hs; norm_app; reflexivity|].
      split; [exact Hw|]. split; [|rewrite depth_arr; lia].
      destruct Hb as [(-> & _ & Hb)|Hb]; [apply jv_array_empty; exact Hb|apply jv_array; exact Hb]. }
    destruct (c =? ch_lbrace) eqn:Elc.
    { (* object *)
      apply N.eqb_eq in Elc. subst c.
      destruct (d =? maxd) eqn:Edm; [discriminate H|]. b2p.
      destruct (ol f (d + 1) false true r) as [[ms rest']| |] eqn:Eo; try discriminate H.
      unfold dec_depth in H. assert (Hz : (d + 1 =? 0) = false) by nbool. rewrite Hz in H. injection H as <- <-.
      apply IHo in Eo; [|lia]. destruct Eo as (b & -> & Hdep & Hb). cbn iota in Hb.
      exists w, (ch_lbrace :: b ++ [0x7d]). split; [rewrite Hs; norm_app; reflexivity|].
      split; [exact Hw|]. split; [|rewrite depth_obj; lia].
      destruct Hb as [(-> & Hb)|Hb]; [apply jv_object_empty; exact Hb|apply jv_object; exact Hb]. }
    (* literal *)
    apply parse_literal_sound in H. destruct H as (t & Ht & Hv & Hdep).
    exists w, t. split; [rewrite Hs, Ht; reflexivity|]. split; [exact Hw|]. split; [exact Hv|]. b2p. lia.
  Qed.

  Lemma sound_step_a (f : nat) : sound_v f -> sound_a f -> sound_a (S f).
  Proof.
    intros IHv IHa d first s vs rest Hd H. rewrite al_eq in H.
    destruct (flush_ws_split s) as (w1 & Hs & Hw1).
    destruct (flush_ws s) as [|c r] eqn:Ef; [discriminate H|].
    destruct (c =? ch_rbrack) eqn:Erb.
    { apply N.eqb_eq in Erb. subst c. destruct first; [|discriminate H]. injection H as <- <-.
      exists w1. split; [exact Hs|]. split; [cbn; lia|]. left. auto. }
    destruct (pv f d (c :: r)) as [[v s2]| |] eqn:Ev; try discriminate H.
    apply IHv in Ev; [|exact Hd]. destruct Ev as (w & t & Hcr & Hw & Hv & Hdv).
    destruct (flush_ws_split s2) as (w2 & Hs2 & Hw2).
    destruct (flush_ws s2) as [|c' r'] eqn:Ef2; [discriminate H|].
    destruct (c' =? ch_comma) eqn:Eco.
    { apply N.eqb_eq in Eco. subst c'.
      destruct (al f d false r') as [[vs' rest']| |] eqn:Ea; try discriminate H.
      injection H as <- <-. apply IHa in Ea; [|exact Hd]. destruct Ea as (b & -> & Hdep & Hb).
      destruct Hb as [(_ & Hfalse & _)|Hb]; [discriminate Hfalse|].
      exists ((w1 ++ w) ++ t ++ w2 ++ 0x2c :: b).
      split; [rewrite Hs, Hcr, Hs2; norm_app; reflexivity|].
      split; [rewrite depth_list_cons; lia|]. right.
      apply je_cons; [apply WS_app; assumption|exact Hv|exact Hw2|exact Hb]. }
    destruct (c' =? ch_rbrack) eqn:Erb2; [|discriminate H].
    apply N.eqb_eq in Erb2. subst c'. injection H as <- <-.
    exists ((w1 ++ w) ++ t ++ w2). split; [rewrite Hs, Hcr, Hs2; norm_app; reflexivity|].
    split; [rewrite depth_list_cons; cbn [depth_list fold_right]; lia|]. right.
    apply je_last; [apply WS_app; assumption|exact Hv|exact Hw2].
  Qed.

  Lemma sound_step_o (f : nat) : sound_v f -> sound_o f -> sound_o (S f).
  Proof.
    intros IHv IHo d tc empty s ms rest Hd H. rewrite ol_eq in H.
    destruct (flush_ws_split s) as (w1 & Hs & Hw1).
    destruct (flush_ws s) as [|c r] eqn:Ef; [discriminate H|].
    destruct (c =? ch_rbrace) eqn:Erb.
    { apply N.eqb_eq in Erb. subst c. destruct tc; [discriminate H|]. injection H as <- <-.
      exists w1. split; [exact Hs|]. split; [cbn; lia|]. destruct empty; left; auto. }
    destruct (c =? ch_comma) eqn:Eco.
    { apply N.eqb_eq in Eco. subst c. destruct tc; [discriminate H|]. destruct empty; [discriminate H|].
      apply IHo in H; [|exact Hd]. destruct H as (b & -> & Hdep & Hb). cbn iota in Hb.
      exists (w1 ++ 0x2c :: b). split; [rewrite Hs; norm_app; reflexivity|]. split; [exact Hdep|].
      right. exists w1, b. auto. }
    destruct (member_sep_ok false empty tc) eqn:Esep; cbn [negb] in H; [|discriminate H].
    destruct (c =? ch_dq) eqn:Edq; cbn [negb] in H; [|discriminate H].
    apply N.eqb_eq in Edq. subst c.
    destruct (string_loop false false r) as [[k s2]| |] eqn:Es; try discriminate H.
    apply string_loop_sound in Es. destruct Es as (kb & -> & Hk).
    destruct (flush_ws_split s2) as (w2 & Hs2 & Hw2).
    destruct (flush_ws s2) as [|c2 r2] eqn:Ef2; [discriminate H|].
    destruct (c2 =? ch_colon) eqn:Ecol; cbn [negb] in H; [|discriminate H].
    apply N.eqb_eq in Ecol. subst c2.
    destruct (flush_ws_split r2) as (w3 & Hr2 & Hw3).
    destruct (pv f d (flush_ws r2)) as [[v s5]| |] eqn:Ev; try discriminate H.
    apply IHv in Ev; [|exact Hd]. destruct Ev as (w & t & Hfr & Hw & Hv & Hdv).
    destruct (ol f d false false s5) as [[ms' rest']| |] eqn:Eo; try discriminate H.
    injection H as <- <-. apply IHo in Eo; [|exact Hd]. destruct Eo as (b5 & -> & Hdep & Hb5). cbn iota in Hb5.
    assert (Hgoal : exists b, s = b ++ 0x7d :: rest' /\ JM b ((k, v) :: ms')).
    { destruct Hb5 as [(-> & Hb5)|(w4 & b' & -> & Hw4 & Hb')].
      - exists (w1 ++ 0x22 :: kb ++ 0x22 :: w2 ++ 0x3a :: (w3 ++ w) ++ t ++ b5).
        split; [rewrite Hs, Hs2, Hr2, Hfr; norm_app; reflexivity|].
        apply jm_last; try assumption. apply WS_app; assumption.
      - exists (w1 ++ 0x22 :: kb ++ 0x22 :: w2 ++ 0x3a :: (w3 ++ w) ++ t ++ w4 ++ 0x2c :: b').
        split; [rewrite Hs, Hs2, Hr2, Hfr; norm_app; reflexivity|].
        apply jm_cons; try assumption. apply WS_app; assumption. }
    destruct Hgoal as (b & Hb & HJ). exists b. split; [exact Hb|]. split; [rewrite depth_members_cons; lia|].
    unfold member_sep_ok in Esep. cbn [orb] in Esep.
    destruct tc; [exact HJ|]. destruct empty; [right; exact HJ|discriminate Esep].
  Qed.

  Lemma sound_all (fuel : nat) : sound_v fuel /\ sound_a fuel /\ sound_o fuel.
  Proof.
    induction fuel as [|f (IHv & IHa & IHo)].
    - repeat split; intro; intros; discriminate.
    - split; [apply sound_step_v; assumption|]. split; [apply sound_step_a; assumption|apply sound_step_o; assumption].
  Qed.

  Theorem parse_with_fuel_sound (fuel : nat) (s : str) (v : value F) :
    parse_with_fuel F fparse false maxd fuel s = Ok v -> JText fparse s v /\ depth v <= maxd.
  Proof.
    unfold parse_with_fuel. intro H.
    destruct (pv fuel 0 s) as [[v' rest]| |] eqn:E; try discriminate H.
    destruct (flush_ws rest) eqn:Er; [|discriminate H]. injection H as ->.
    apply (proj1 (sound_all fuel)) in E; [|lia]. destruct E as (w & t & -> & Hw & Hv & Hd).
    split; [|lia]. exists w, t, rest. split; [reflexivity|]. split; [exact Hw|]. split; [exact Hv|].
    apply flush_ws_nil_WS. exact Er.
  Qed.
  (* ---- completeness ---- *)
  Definition complete_v (t : str) (v : value F) : Prop :=
    forall fuel d w rest, WS w -> delim rest -> d + depth v <= maxd ->
      (2 * length (w ++ t ++ rest) + 2 <= fuel)%nat -> pv fuel d (w ++ t ++ rest) = Ok (v, rest).

  Definition complete_a (b : str) (vs : list (value F)) : Prop :=
    forall fuel d first rest, d + depth_list vs <= maxd ->
      (2 * length (b ++ 0x5d%N :: rest) + 3 <= fuel)%nat -> al fuel d first (b ++ 0x5d :: rest) = Ok (vs, rest).

  Definition complete_o (b : str) (ms : list (str * value F)) : Prop :=
    forall fuel d tc empty rest, member_sep_ok false empty tc = true -> d + depth_members ms <= maxd ->
      (2 * length (b ++ 0x7d%N :: rest) + 3 <= fuel)%nat -> ol fuel d tc empty (b ++ 0x7d :: rest) = Ok (ms, rest).

  Lemma pv_literal (f : nat) (d : N) (w : str) (c : N) (r rest : str) (v : value F) :
    WS w -> is_ws c = false -> c <> ch_dq -> c <> ch_lbrack -> c <> ch_lbrace -> d <= maxd ->
    parse_literal F fparse false c (r ++ rest) = Ok (v, rest) ->
    pv (S f) d (w ++ (c :: r) ++ rest) = Ok (v, rest).
  Proof.
    intros Hw Hc N1 N2 N3 Hd H. rewrite pv_eq.
    assert ((maxd <? d) = false) as -> by nbool.
    rewrite flush_ws_app; [|exact Hw|exact Hc]. cbn [app].
    rewrite (eqb_false_of_neq _ _ N1), (eqb_false_of_neq _ _ N2), (eqb_false_of_neq _ _ N3). exact H.
  Qed.

  Lemma complete_name (name : str) (v : value F) (c : N) (r : str) :
    name = c :: r -> is_ws c = false -> c <> ch_dq -> c <> ch_lbrack -> c <> ch_lbrace ->
    Forall (fun c => is_literal c = true) r -> depth v = 0 ->
    (forall rest : str, (if str_eqb name s_null then Ok (VNull, rest)
     else if str_eqb name s_true then Ok (VBool true, rest)
     else if str_eqb name s_false then Ok (VBool false, rest)
     else if number_ok false name then
            match fparse name with Some x => Ok (VNum x, rest) | None => Err E_TOK end
          else Err E_TOK) = Ok (v, rest)) ->
    complete_v name v.
  Proof.
    intros Hn Hc N1 N2 N3 Hl Hdv H fuel d w rest Hw Hd Hdep Hfuel.
    destruct fuel as [|f]; [lia|]. subst name.
    apply pv_literal; try assumption; [lia|].
    apply (parse_literal_name (c :: r)); [reflexivity|exact Hl|exact Hd|apply H].
  Qed.

  Lemma delim_rbrack (rest : str) : delim (0x5d :: rest).
  Proof. reflexivity. Qed.
  Lemma delim_rbrace (rest : str) : delim (0x7d :: rest).
  Proof. reflexivity. Qed.
  Lemma delim_comma (rest : str) : delim (0x2c :: rest).
  Proof. reflexivity. Qed.

  Lemma complete_all :
    (forall t v, JV t v -> complete_v t v) /\
    (forall b vs, JE b vs -> complete_a b vs) /\
    (forall b ms, JM b ms -> complete_o b ms).
  Proof.
    apply JValue_mutind.
    - (* null *)
      apply (complete_name s_null VNull 0x6e [0x75; 0x6c; 0x6c]); try reflexivity; try discriminate.
      repeat constructor.
    - apply (complete_name s_true (VBool true) 0x74 [0x72; 0x75; 0x65]); try reflexivity; try discriminate.
      repeat constructor.
    - apply (complete_name s_false (VBool false) 0x66 [0x61; 0x6c; 0x73; 0x65]); try reflexivity; try discriminate.
      repeat constructor.
    - (* number *)
      intros s x Hn Hf fuel d w rest Hw Hd Hdep Hfuel.
      destruct fuel as [|f]; [lia|].
      destruct (JNumber_head s Hn) as (c & r & -> & Hc).
      assert (Hc' : 0x2d <= c <= 0x39) by (unfold digit in Hc; lia).
      apply pv_literal; try assumption.
      + unfold is_ws. nbool.
      + unfold ch_dq. lia.
      + unfold ch_lbrack. lia.
      + unfold ch_lbrace. lia.
      + cbn [depth] in Hdep. lia.
      + apply (parse_literal_number (c :: r)); auto.
    - (* string *)
      intros b o Hb fuel d w rest Hw Hd Hdep Hfuel.
      destruct fuel as [|f]; [lia|]. rewrite pv_eq.
      assert ((maxd <? d) = false) as -> by (cbn [depth] in Hdep; nbool).
      rewrite flush_ws_app; [|exact Hw|reflexivity]. cbn [app].
      change (0x22 =? ch_dq) with true. cbn iota. rewrite <- app_assoc. cbn [app].
      rewrite (string_loop_complete b o Hb). reflexivity.
    - (* empty array *)
      intros w0 Hw0 fuel d w rest Hw Hd Hdep Hfuel. rewrite depth_arr in Hdep. cbn in Hdep.
      destruct fuel as [|f]; [lia|]. rewrite pv_eq.
      assert ((maxd <? d) = false) as -> by nbool.
      rewrite flush_ws_app; [|exact Hw|reflexivity]. cbn [app].
      change (0x5b =? ch_dq) with false. change (0x5b =? ch_lbrack) with true. cbn iota.
      assert ((d =? maxd) = false) as -> by nbool.
      len. destruct f as [|f]; [lia|]. rewrite <- app_assoc. cbn [app]. rewrite al_eq.
      rewrite flush_ws_app; [|exact Hw0|reflexivity].
      change (0x5d =? ch_rbrack) with true. cbn iota. unfold dec_depth.
      assert ((d + 1 =? 0) = false) as -> by nbool. reflexivity.
    - (* array *)
      intros b vs Hb IH fuel d w rest Hw Hd Hdep Hfuel. rewrite depth_arr in Hdep.
      destruct fuel as [|f]; [lia|]. rewrite pv_eq.
      assert ((maxd <? d) = false) as -> by nbool.
      rewrite flush_ws_app; [|exact Hw|reflexivity]. cbn [app].
      change (0x5b =? ch_dq) with false. change (0x5b =? ch_lbrack) with true. cbn iota.
      assert ((d =? maxd) = false) as -> by nbool.
      rewrite <- app_assoc. cbn [app]. rewrite IH; [|lia|len; lia].
      unfold dec_depth. assert ((d + 1 =? 0) = false) as -> by nbool. reflexivity.
    - (* empty object *)
      intros w0 Hw0 fuel d w rest Hw Hd Hdep Hfuel. rewrite depth_obj in Hdep. cbn in Hdep.
      destruct fuel as [|f]; [lia|]. rewrite pv_eq.
      assert ((maxd <? d) = false) as -> by nbool.
      rewrite flush_ws_app; [|exact Hw|reflexivity]. cbn [app].
      change (0x7b =? ch_dq) with false. change (0x7b =? ch_lbrack) with false. change (0x7b =? ch_lbrace) with true. cbn iota.
      assert ((d =? maxd) = false) as -> by nbool.
      len. destruct f as [|f]; [lia|]. rewrite <- app_assoc. cbn [app]. rewrite ol_eq.
      rewrite flush_ws_app; [|exact Hw0|reflexivity].
      change (0x7d =? ch_rbrace) with true. cbn iota. unfold dec_depth.
      assert ((d + 1 =? 0) = false) as -> by nbool. reflexivity.
    - (* object *)
      intros b ms Hb IH fuel d w rest Hw Hd Hdep Hfuel. rewrite depth_obj in Hdep.
      destruct fuel as [|f]; [lia|]. rewrite pv_eq.
      assert ((maxd <? d) = false) as -> by nbool.
      rewrite flush_ws_app; [|exact Hw|reflexivity]. cbn [app].
      change (0x7b =? ch_dq) with false. change (0x7b =? ch_lbrack) with false. change (0x7b =? ch_lbrace) with true. cbn iota.
      assert ((d =? maxd) = false) as -> by nbool.
      rewrite <- app_assoc. cbn [app]. rewrite IH; [|reflexivity|lia|len; lia].
      unfold dec_depth. assert ((d + 1 =? 0) = false) as -> by nbool. reflexivity.
    - (* last element *)
      intros w1 t v w2 Hw1 Hv IHv Hw2 fuel d first rest Hdep Hfuel. rewrite depth_list_cons in Hdep.
      destruct fuel as [|f]; [lia|]. rewrite al_eq. norm_app.
      destruct (JValue_head t v Hv) as (c & r0 & -> & Hc & Hnrb).
      rewrite flush_ws_app; [|exact Hw1|exact Hc]. cbn [app].
      rewrite (eqb_false_of_neq _ _ Hnrb).
      change (c :: r0 ++ w2 ++ 0x5d :: rest) with ([] ++ (c :: r0) ++ w2 ++ 0x5d :: rest).
      rewrite IHv; [|constructor|apply delim_ws_app; [exact Hw2|apply delim_rbrack]|lia|len; lia].
      rewrite flush_ws_app; [|exact Hw2|reflexivity].
      change (0x5d =? ch_comma) with false. change (0x5d =? ch_rbrack) with true. reflexivity.
    - (* element, comma, more *)
      intros w1 t v w2 b vs Hw1 Hv IHv Hw2 Hb IHb fuel d first rest Hdep Hfuel. rewrite depth_list_cons in Hdep.
      destruct fuel as [|f]; [lia|]. rewrite al_eq. norm_app.
      destruct (JValue_head t v Hv) as (c & r0 & -> & Hc & Hnrb).
      rewrite flush_ws_app; [|exact Hw1|exact Hc]. cbn [app].
      rewrite (eqb_false_of_neq _ _ Hnrb).
      change (c :: r0 ++ w2 ++ 0x2c :: b ++ 0x5d :: rest) with ([] ++ (c :: r0) ++ w2 ++ 0x2c :: b ++ 0x5d :: rest).
      rewrite IHv; [|constructor|apply delim_ws_app; [exact Hw2|apply delim_comma]|lia|len; lia].
      rewrite flush_ws_app; [|exact Hw2|reflexivity].
      change (0x2c =? ch_comma) with true. cbn iota.
      rewrite IHb; [reflexivity|lia|len; lia].
    - (* last member *)
      intros w1 kb k w2 w3 t v w4 Hw1 Hk Hw2 Hw3 Hv IHv Hw4 fuel d tc empty rest Hsep Hdep Hfuel.
      rewrite depth_members_cons in Hdep.
      destruct fuel as [|f]; [lia|]. rewrite ol_eq. norm_app.
      rewrite flush_ws_app; [|exact Hw1|reflexivity].
      change (0x22 =? ch_rbrace) with false. change (0x22 =? ch_comma) with false. rewrite Hsep.
      change (0x22 =? ch_dq) with true. cbn [negb]. cbn iota.
      rewrite (string_loop_complete kb k Hk).
      rewrite flush_ws_app; [|exact Hw2|reflexivity].
      change (0x3a =? ch_colon) with true. cbn [negb]. cbn iota.
      rewrite flush_ws_app; [|exact Hw3|apply (JValue_starts_non_ws t v); exact Hv].
      change (t ++ w4 ++ 0x7d :: rest) with ([] ++ t ++ w4 ++ 0x7d :: rest).
      rewrite IHv; [|constructor|apply delim_ws_app; [exact Hw4|apply delim_rbrace]|lia|len; lia].
      len. destruct f as [|f]; [lia|]. rewrite ol_eq.
      rewrite flush_ws_app; [|exact Hw4|reflexivity].
      change (0x7d =? ch_rbrace) with true. reflexivity.
    - (* member, comma, more *)
      intros w1 kb k w2 w3 t v w4 b ms Hw1 Hk Hw2 Hw3 Hv IHv Hw4 Hb IHb fuel d tc empty rest Hsep Hdep Hfuel.
      rewrite depth_members_cons in Hdep.
      destruct fuel as [|f]; [lia|]. rewrite ol_eq. norm_app.
      rewrite flush_ws_app; [|exact Hw1|reflexivity].
      change (0x22 =? ch_rbrace) with false. change (0x22 =? ch_comma) with false. rewrite Hsep.
      change (0x22 =? ch_dq) with true. cbn [negb]. cbn iota.
      rewrite (string_loop_complete kb k Hk).
      rewrite flush_ws_app; [|exact Hw2|reflexivity].
      change (0x3a =? ch_colon) with true. cbn [negb]. cbn iota.
      rewrite flush_ws_app; [|exact Hw3|apply (JValue_starts_non_ws t v); exact Hv].
      change (t ++ w4 ++ 0x2c :: b ++ 0x7d :: rest) with ([] ++ t ++ w4 ++ 0x2c :: b ++ 0x7d :: rest).
      rewrite IHv; [|constructor|apply delim_ws_app; [exact Hw4|apply delim_comma]|lia|len; lia].
      len. destruct f as [|f]; [lia|]. rewrite ol_eq.
      rewrite flush_ws_app; [|exact Hw4|reflexivity].
      change (0x2c =? ch_rbrace) with false. change (0x2c =? ch_comma) with true. cbn iota.
      rewrite IHb; [reflexivity|reflexivity|lia|len; lia].
  Qed.

  Theorem parse_with_fuel_complete (fuel : nat) (s : str) (v : value F) :
    JText fparse s v -> depth v <= maxd -> (fuel_for s <= fuel)%nat ->
    parse_with_fuel F fparse false maxd fuel s = Ok v.
  Proof.
    intros (w1 & t & w2 & -> & Hw1 & Hv & Hw2) Hd Hfuel. unfold parse_with_fuel.
    rewrite (proj1 complete_all t v Hv fuel 0 w1 w2 Hw1); [|destruct Hw2; [exact I|cbn; apply is_literal_false_of_ws; assumption]|lia|exact Hfuel].
    rewrite WS_flush_nil by exact Hw2. reflexivity.
  Qed.
End Parser.

(* ------------------------------------------------------------------------------------------------ *)
(* induction principle for the nested value type *)

Section ValueInd.
  Variable F : Type.
  Variable P : value F -> Prop.
  Hypothesis Hnull : P VNull.
  Hypothesis Hbool : forall b, P (VBool b).
  Hypothesis Hnum : forall x, P (VNum x).
  Hypothesis Hstr : forall s, P (VStr s).
  Hypothesis Harr : forall l, Forall P l -> P (VArr l).
  Hypothesis Hobj : forall m, Forall (fun kv => P (snd kv)) m -> P (VObj m).

  Fixpoint value_ind' (v : value F) : P v :=
    match v with
    | VNull => Hnull
    | VBool b => Hbool b
    | VNum x => Hnum x
    | VStr s => Hstr s
    | VArr l => Harr l ((fix go (l : list (value F)) : Forall P l :=
                           match l with
                           | [] => Forall_nil _
                           | x :: r => Forall_cons x (value_ind' x) (go r)
                           end) l)
    | VObj m => Hobj m ((fix go (m : list (str * value F)) : Forall (fun kv => P (snd kv)) m :=
                           match m with
                           | [] => Forall_nil _
                           | (k, x) :: r => Forall_cons (k, x) (value_ind' x) (go r)
                           end) m)
    end.
End ValueInd.

(* ------------------------------------------------------------------------------------------------ *)
(* the serialiser emits RFC 8259 text denoting the value *)

Lemma small_cases (P : N -> Prop) : (forall n : nat, (n < 32)%nat -> P (N.of_nat n)) -> forall c, c < 32 -> P c.
Proof.
  intros H c Hc. rewrite <- (N2Nat.id c). apply H. lia.
Qed.

Lemma u_escape_small (c : N) :
  c < 32 ->
  hex4 (hex_digit (c / 4096 mod 16)) (hex_digit (c / 256 mod 16)) (hex_digit (c / 16 mod 16)) (hex_digit (c mod 16)) = Some c.
Proof.
  revert c. apply small_cases. intros n Hn.
  do 32 (destruct n as [|n]; [vm_compute; reflexivity|]). lia.
Qed.

Lemma esc_char_valid (c : N) (t o : str) :
  c <= 0x10ffff -> JChars false t o -> JChars false (esc_char c ++ t) (c :: o).
Proof.
  intros Hc Ht. unfold esc_char.
  destruct (c =? 0x22) eqn:E1; [b2p; subst; apply jc_escape; [unfold escape_of; tauto|exact Ht]|].
  destruct (c =? 0x5c) eqn:E2; [b2p; subst; apply jc_escape; [unfold escape_of; tauto|exact Ht]|].
  destruct (c =? 0x2f) eqn:E3; [b2p; subst; apply jc_escape; [unfold escape_of; tauto|exact Ht]|].
  destruct (c =? 0x08) eqn:E4; [b2p; subst; apply jc_escape; [unfold escape_of; tauto|exact Ht]|].
  destruct (c =? 0x0c) eqn:E5; [b2p; subst; apply jc_escape; [unfold escape_of; tauto|exact Ht]|].
  destruct (c =? 0x0a) eqn:E6; [b2p; subst; apply jc_escape; [unfold escape_of; tauto|exact Ht]|].
  destruct (c =? 0x0d) eqn:E7; [b2p; subst; apply jc_escape; [unfold escape_of; tauto|exact Ht]|].
  destruct (c =? 0x09) eqn:E8; [b2p; subst; apply jc_escape; [unfold escape_of; tauto|exact Ht]|].
  destruct (unescapedb c) eqn:Eu.
  { apply unescapedb_true in Eu. apply jc_unescaped; assumption. }
  assert (Hsmall : c < 32).
  { destruct (N.lt_ge_cases c 32) as [L|G]; [exact L|]. exfalso.
    assert (unescapedb c = true); [|congruence]. apply unescapedb_true. unfold unescaped. b2p. lia. }
  assert ((c <? 0x10000) = true) as -> by nbool.
  unfold u_escape. cbn [app]. apply jc_u; [|unfold surrogate; lia|exact Ht].
  apply hex4_spec. apply u_escape_small. exact Hsmall.
Qed.

Lemma string_body_valid (s : str) : str_ok s -> JChars false (flat_map esc_char s) s.
Proof.
  intro H. induction H as [|c s Hc Hs IH]; cbn [flat_map]; [constructor|].
  apply esc_char_valid; assumption.
Qed.

(* the text produced by the two fold_left loops *)
Fixpoint joined (pre : str) (items : list str) : str :=
  match items with
  | [] => []
  | x :: r => match r with
              | [] => pre ++ x
              | _ :: _ => pre ++ x ++ [ch_comma] ++ joined pre r
              end
  end.

Fixpoint joined_o (pre sep : str) (items : list (str * str)) : str :=
  match items with
  | [] => []
  | (k, x) :: r => match r with
                   | [] => pre ++ k ++ sep ++ x
                   | _ :: _ => pre ++ k ++ sep ++ x ++ [ch_comma] ++ joined_o pre sep r
                   end
  end.

Lemma fold_left_app_acc {A} (g : A -> str) (items : list A) (acc : str) :
  fold_left (fun acc s => acc ++ g s) items acc = acc ++ flat_map g items.
Proof.
  revert acc. induction items as [|x r IH]; intro acc; cbn [fold_left flat_map].
  - rewrite app_nil_r. reflexivity.
  - rewrite IH, <- app_assoc. reflexivity.
Qed.

Lemma flat_map_joined (pre : str) (items : list str) :
  items <> [] -> flat_map (fun s => pre ++ s ++ [ch_comma]) items = joined pre items ++ [ch_comma].
Proof.
  induction items as [|x r IH]; [contradiction|]. intros _. cbn [flat_map joined].
  destruct r as [|y r'].
  - cbn [flat_map]. rewrite app_nil_r, <- app_assoc. reflexivity.
  - rewrite IH by discriminate. norm_app. reflexivity.
Qed.

Lemma flat_map_joined_o (pre sep : str) (items : list (str * str)) :
  items <> [] ->
  flat_map (fun kv => match kv with (k, v) => pre ++ k ++ sep ++ v ++ [ch_comma] end) items
  = joined_o pre sep items ++ [ch_comma].
Proof.
  induction items as [|[k x] r IH]; [contradiction|]. intros _. cbn [flat_map joined_o].
  destruct r as [|y r'].
  - cbn [flat_map]. rewrite app_nil_r. norm_app. reflexivity.
  - rewrite IH by discriminate. norm_app. reflexivity.
Qed.

Lemma pop_comma_snoc (x : str) : pop_comma (x ++ [ch_comma]) = x.
Proof. unfold pop_comma. rewrite last_last, N.eqb_refl. apply removelast_last. Qed.

Lemma WS_spaces (n : N) : WS (spaces n).
Proof.
  unfold spaces. induction (N.to_nat n) as [|k IH]; cbn [repeat]; [constructor|].
  constructor; [left; reflexivity|exact IH].
Qed.

Lemma fold_left_ext_app {A} (f : str -> A -> str) (g : A -> str) (items : list A) (acc : str) :
  (forall a x, f a x = a ++ g x) -> fold_left f items acc = acc ++ flat_map g items.
Proof.
  intro H. revert acc. induction items as [|x r IH]; intro acc; cbn [fold_left flat_map].
  - rewrite app_nil_r. reflexivity.
  - rewrite H, IH, <- app_assoc. reflexivity.
Qed.

Lemma array_to_string_eq (items : list str) (indent : option (N * N)) :
  items <> [] ->
  array_to_string items indent =
  match indent with
  | Some (ind, size) => ch_lbrack :: (joined (0x0a :: spaces (ind + size)) items ++ 0x0a :: spaces ind) ++ [ch_rbrack]
  | None => ch_lbrack :: joined [] items ++ [ch_rbrack]
  end.
Proof.
  intro Hne. unfold array_to_string. destruct items as [|x r]; [contradiction|].
  destruct indent as [[ind size]|].
  - rewrite (fold_left_ext_app _ (fun s => (0x0a :: spaces (ind + size)) ++ s ++ [ch_comma])) by (intros; reflexivity).
    rewrite flat_map_joined by exact Hne. rewrite app_assoc, pop_comma_snoc.
    unfold close_with. norm_app. reflexivity.
  - rewrite (fold_left_ext_app _ (fun s => [] ++ s ++ [ch_comma])) by (intros; reflexivity).
    rewrite flat_map_joined by exact Hne. rewrite app_assoc, pop_comma_snoc.
    unfold close_with. norm_app. reflexivity.
Qed.

Lemma object_to_string_eq (items : list (str * str)) (indent : option (N * N)) :
  items <> [] ->
  object_to_string items indent =
  match indent with
  | Some (ind, size) =>
    ch_lbrace :: (joined_o (0x0a :: spaces (ind + size)) [ch_colon; 0x20] items ++ 0x0a :: spaces ind) ++ [ch_rbrace]
  | None => ch_lbrace :: joined_o [] [ch_colon] items ++ [ch_rbrace]
  end.
Proof.
  intro Hne. unfold object_to_string. destruct items as [|x r]; [contradiction|].
  destruct indent as [[ind size]|].
  - rewrite (fold_left_ext_app _ (fun kv : str * str => match kv with (k, v) =>
               (0x0a :: spaces (ind + size)) ++ k ++ [ch_colon; 0x20] ++ v ++ [ch_comma] end))
      by (intros a [k v]; reflexivity).
    rewrite flat_map_joined_o by exact Hne. rewrite app_assoc, pop_comma_snoc.
    unfold close_with. norm_app. reflexivity.
  - rewrite (fold_left_ext_app _ (fun kv : str * str => match kv with (k, v) =>
               [] ++ k ++ [ch_colon] ++ v ++ [ch_comma] end))
      by (intros a [k v]; reflexivity).
    rewrite flat_map_joined_o by exact Hne. rewrite app_assoc, pop_comma_snoc.
    unfold close_with. norm_app. reflexivity.
Qed.

Section Serialiser.
  Variable F : Type.
  Variable fparse : str -> option F.
  Variable fdisplay : F -> str.
  Variable ffinite : F -> Prop.
  (* the two facts about f64 parsing / printing that the theorems rest on *)
  Hypothesis display_is_number : forall x, ffinite x -> JNumber (fdisplay x).
  Hypothesis parse_display : forall x, ffinite x -> fparse (fdisplay x) = Some x.

  Notation JV := (JValue F fparse false).
  Notation JE := (JElems F fparse false).
  Notation JM := (JMembers F fparse false).

  Lemma string_to_string_valid (s : str) : str_ok s -> JV (string_to_string s) (VStr s).
  Proof. intro H. unfold string_to_string. apply jv_string. apply string_body_valid. exact H. Qed.

  Lemma joined_elems (ser : value F -> str) (pre post : str) (l : list (value F)) :
    l <> [] -> WS pre -> WS post -> Forall (fun x => JV (ser x) x) l ->
    JE (joined pre (map ser l) ++ post) l.
  Proof.
    intros Hne Hpre Hpost H. induction H as [|x r Hx Hr IH]; [contradiction|].
    cbn [map joined]. destruct r as [|y r'].
    - cbn [map]. rewrite <- app_assoc. apply je_last; assumption.
    - cbn [map]. change (pre ++ ser x ++ [ch_comma] ++ joined pre (ser y :: map ser r'))
        with (pre ++ ser x ++ [] ++ 0x2c :: joined pre (map ser (y :: r'))).
      norm_app. apply (je_cons F fparse false pre (ser x) x []); [exact Hpre|exact Hx|constructor|].
      apply IH. discriminate.
  Qed.

  Lemma joined_members (ser : value F -> str) (pre sep0 post : str) (m : list (str * value F)) :
    m <> [] -> WS pre -> WS sep0 -> WS post ->
    Forall (fun kv => str_ok (fst kv) /\ JV (ser (snd kv)) (snd kv)) m ->
    JM (joined_o pre (ch_colon :: sep0) (map (fun kv => match kv with (k, x) => (string_to_string k, ser x) end) m) ++ post) m.
  Proof.
    intros Hne Hpre Hsep Hpost H. induction H as [|kv r Hkv Hr IH]; [contradiction|]. destruct kv as [k x]. destruct Hkv as [Hk Hx].
    cbn [fst snd] in Hk, Hx. cbn [map joined_o]. destruct r as [|y r'].
    - cbn [map]. unfold string_to_string. norm_app.
      apply (jm_last F fparse false pre (flat_map esc_char k) k [] sep0 (ser x) x post); try assumption;
        [apply string_body_valid; exact Hk|constructor].
    - cbn [map].
      change (map (fun kv : str * value F => let (k0, x0) := kv in (string_to_string k0, ser x0)) (y :: r'))
        with ((let (k0, x0) := y in (string_to_string k0, ser x0)) ::
              map (fun kv : str * value F => let (k0, x0) := kv in (string_to_string k0, ser x0)) r') in IH.
      destruct y as [ky xy]. unfold string_to_string at 1. norm_app.
      apply (jm_cons F fparse false pre (flat_map esc_char k) k [] sep0 (ser x) x []); try assumption;
        try constructor; [apply string_body_valid; exact Hk|].
      apply IH. discriminate.
  Qed.

  Lemma serialisable_arr_cons (x : value F) (r : list (value F)) :
    serialisable F ffinite (VArr (x :: r)) = (serialisable F ffinite x /\ serialisable F ffinite (VArr r)).
  Proof. reflexivity. Qed.

  Lemma serialisable_obj_cons (k : str) (x : value F) (r : list (str * value F)) :
    serialisable F ffinite (VObj ((k, x) :: r)) = (str_ok k /\ serialisable F ffinite x /\ serialisable F ffinite (VObj r)).
  Proof. reflexivity. Qed.

  Lemma serialisable_arr (l : list (value F)) :
    serialisable F ffinite (VArr l) <-> Forall (serialisable F ffinite) l.
  Proof.
    induction l as [|x r IH].
    - split; intro; [constructor|exact I].
    - rewrite serialisable_arr_cons. split.
      + intros [H1 H2]. constructor; [exact H1|apply IH; exact H2].
      + intro H. split; [exact (Forall_inv H)|apply IH; exact (Forall_inv_tail H)].
  Qed.

  Lemma serialisable_obj (m : list (str * value F)) :
    serialisable F ffinite (VObj m) <-> Forall (fun kv => str_ok (fst kv) /\ serialisable F ffinite (snd kv)) m.
  Proof.
    induction m as [|[k x] r IH].
    - split; intro; [constructor|exact I].
    - rewrite serialisable_obj_cons. split.
      + intros (H1 & H2 & H3). constructor; [cbn [fst snd]; tauto|apply IH; exact H3].
      + intro H. pose proof (Forall_inv H) as H1. pose proof (Forall_inv_tail H) as H2. cbn [fst snd] in H1.
        split; [tauto|]. split; [tauto|]. apply IH. exact H2.
  Qed.

  Lemma array_valid (ser : value F -> str) (indent : option (N * N)) (l : list (value F)) :
    Forall (fun x => JV (ser x) x) l -> JV (array_to_string (map ser l) indent) (VArr l).
  Proof.
    intro H. destruct l as [|x r].
    - apply (jv_array_empty F fparse false []). constructor.
    - rewrite array_to_string_eq by discriminate. destruct indent as [[ind size]|].
      + apply jv_array. apply joined_elems; [discriminate| | |exact H].
        * constructor; [right; right; left; reflexivity|apply WS_spaces].
        * constructor; [right; right; left; reflexivity|apply WS_spaces].
      + apply jv_array. rewrite <- (app_nil_r (joined [] (map ser (x :: r)))).
        apply joined_elems; [discriminate|constructor|constructor|exact H].
  Qed.

  Lemma object_valid (ser : value F -> str) (indent : option (N * N)) (m : list (str * value F)) :
    Forall (fun kv => str_ok (fst kv) /\ JV (ser (snd kv)) (snd kv)) m ->
    JV (object_to_string (map (fun kv => match kv with (k, x) => (string_to_string k, ser x) end) m) indent) (VObj m).
  Proof.
    intro H. destruct m as [|x r].
    - apply (jv_object_empty F fparse false []). constructor.
    - rewrite object_to_string_eq by (destruct x; discriminate). destruct indent as [[ind size]|].
      + apply jv_object. apply (joined_members ser _ [0x20]); [discriminate| | | |exact H].
        * constructor; [right; right; left; reflexivity|apply WS_spaces].
        * constructor; [left; reflexivity|constructor].
        * constructor; [right; right; left; reflexivity|apply WS_spaces].
      + apply jv_object.
        rewrite <- (app_nil_r (joined_o _ _ _)).
        apply (joined_members ser [] [] []); [discriminate|constructor|constructor|constructor|exact H].
  Qed.

  Lemma serialize_value_valid (v : value F) :
    serialisable F ffinite v -> JV (serialize F fdisplay v) v.
  Proof.
    induction v as [|b|x|s|l IH|m IH] using value_ind'; intro Hs.
    - constructor.
    - destruct b; constructor.
    - cbn [serialize]. apply jv_number; [apply display_is_number; exact Hs|apply parse_display; exact Hs].
    - apply string_to_string_valid. exact Hs.
    - cbn [serialize]. apply array_valid. apply serialisable_arr in Hs.
      rewrite Forall_forall in *. intros x Hx. apply IH; [exact Hx|apply Hs; exact Hx].
    - cbn [serialize]. apply object_valid. apply serialisable_obj in Hs.
      rewrite Forall_forall in *. intros kv Hkv. split; [apply Hs; exact Hkv|].
      apply IH; [exact Hkv|apply Hs; exact Hkv].
  Qed.

  Lemma serialize_pretty_value_valid (size : N) (v : value F) :
    serialisable F ffinite v -> forall indent, JV (serialize_pretty_indent F fdisplay indent size v) v.
  Proof.
    induction v as [|b|x|s|l IH|m IH] using value_ind'; intros Hs indent.
    - constructor.
    - destruct b; constructor.
    - cbn [serialize_pretty_indent]. apply jv_number; [apply display_is_number; exact Hs|apply parse_display; exact Hs].
    - apply string_to_string_valid. exact Hs.
    - cbn [serialize_pretty_indent]. apply array_valid. apply serialisable_arr in Hs.
      rewrite Forall_forall in *. intros x Hx. apply IH; [exact Hx|apply Hs; exact Hx].
    - cbn [serialize_pretty_indent]. apply object_valid. apply serialisable_obj in Hs.
      rewrite Forall_forall in *. intros kv Hkv. split; [apply Hs; exact Hkv|].
      apply IH; [exact Hkv|apply Hs; exact Hkv].
  Qed.

  Lemma JValue_JText (t : str) (v : value F) : JV t v -> JText fparse t v.
  Proof.
    intro H. exists [], t, []. split; [rewrite app_nil_r; reflexivity|]. split; [constructor|]. split; [exact H|constructor].
  Qed.

  Theorem serialize_valid (v : value F) :
    serialisable F ffinite v -> JText fparse (serialize F fdisplay v) v.
  Proof. intro H. apply JValue_JText. apply serialize_value_valid. exact H. Qed.

  Theorem serialize_pretty_valid (n : N) (v : value F) :
    serialisable F ffinite v -> JText fparse (serialize_pretty F fdisplay n v) v.
  Proof. intro H. apply JValue_JText. unfold serialize_pretty. apply serialize_pretty_value_valid. exact H. Qed.

  (* round trip: the parser returns the value that was serialised *)
  Theorem roundtrip (maxd : N) (v : value F) :
    serialisable F ffinite v -> depth v <= maxd ->
    parse_max_depth F fparse false maxd (serialize F fdisplay v) = Ok v.
  Proof.
    intros Hs Hd. unfold parse_max_depth. apply parse_with_fuel_complete; [apply serialize_valid; exact Hs|exact Hd|lia].
  Qed.

  Theorem roundtrip_pretty (maxd n : N) (v : value F) :
    serialisable F ffinite v -> depth v <= maxd ->
    parse_max_depth F fparse false maxd (serialize_pretty F fdisplay n v) = Ok v.
  Proof.
    intros Hs Hd. unfold parse_max_depth.
    apply parse_with_fuel_complete; [apply serialize_pretty_valid; exact Hs|exact Hd|lia].
  Qed.
End Serialiser.

(* ------------------------------------------------------------------------------------------------ *)
(* safety: no panic site is reached, the recursion never goes deeper than max_depth, the fuel is never exhausted *)

Definition good {A} (x : outcome A) : Prop :=
  match x with
  | Crash _ => False
  | Err e => e <> E_FUEL
  | Ok _ => True
  end.

Lemma good_push (d : N) (x : outcome (str * str)) : good x -> good (push_char d x).
Proof. destruct x as [[o r]| |]; cbn; auto. Qed.

Ltac break_good :=
  repeat match goal with
  | |- good (match ?x with _ => _ end) => destruct x eqn:?
  | |- good (if ?x then _ else _) => destruct x eqn:?
  end.

Lemma string_loop_good_n (n : nat) : forall s bs, (length s <= n)%nat -> good (string_loop false bs s).
Proof.
  induction n as [|n IH]; intros s bs Hlen.
  - destruct s; [|cbn in Hlen; lia]. destruct bs; cbn; discriminate.
  - destruct s as [|c r]; [destruct bs; cbn; discriminate|]. cbn [length] in Hlen.
    cbn [string_loop]. break_good; cbn [length] in *;
      try (cbn; discriminate); try exact I; try (apply good_push); try (apply IH; cbn [length] in *; lia).
Qed.

Lemma string_loop_good (s : str) (bs : bool) : good (string_loop false bs s).
Proof. apply (string_loop_good_n (length s)). lia. Qed.

Lemma string_loop_shorter (s o rest : str) : string_loop false false s = Ok (o, rest) -> (length rest < length s)%nat.
Proof. intro H. apply string_loop_sound in H. destruct H as (b & -> & _). len. lia. Qed.

Section Safety.
  Variable F : Type.
  Variable fparse : str -> option F.
  Variable maxd : N.

  Notation pv := (parse_value F fparse false maxd).
  Notation al := (array_loop F fparse false maxd).
  Notation ol := (object_loop F fparse false maxd).

  Lemma parse_literal_good (c : N) (r : str) : good (parse_literal F fparse false c r).
  Proof. unfold parse_literal. destruct (span_literal r). break_good; cbn; try discriminate; exact I. Qed.

  Lemma pv_shorter (fuel : nat) (d : N) (s : str) (v : value F) (rest : str) :
    d <= maxd -> pv fuel d s = Ok (v, rest) -> (length rest < length s)%nat.
  Proof.
    intros Hd H. apply (proj1 (sound_all F fparse maxd fuel)) in H; [|exact Hd].
    destruct H as (w & t & -> & _ & Hv & _). destruct (JValue_head F fparse t v Hv) as (c & r & -> & _). len. lia.
  Qed.

  Definition safe_v (f : nat) : Prop := forall d s, d <= maxd -> (2 * length s + 2 <= f)%nat -> good (pv f d s).
  Definition safe_a (f : nat) : Prop := forall d first s, d <= maxd -> (2 * length s + 3 <= f)%nat -> good (al f d first s).
  Definition safe_o (f : nat) : Prop :=
    forall d tc empty s, d <= maxd -> (2 * length s + 3 <= f)%nat -> good (ol f d tc empty s).

  Lemma safe_all (f : nat) : safe_v f /\ safe_a f /\ safe_o f.
  Proof.
    induction f as [|f (IHv & IHa & IHo)].
    - repeat split; intro; intros; lia.
    - split; [|split].
      + intros d s Hd Hf. rewrite pv_eq.
        assert ((maxd <? d) = false) as -> by nbool.
        pose proof (flush_ws_length s) as Hl.
        destruct (flush_ws s) as [|c r] eqn:Ef; [cbn; discriminate|]. cbn [length] in Hl.
        destruct (c =? ch_dq).
        { pose proof (string_loop_good r false) as G. destruct (string_loop false false r) as [[o rest]| |]; exact G. }
        destruct (c =? ch_lbrack).
        { destruct (d =? maxd) eqn:Edm; [cbn; discriminate|]. b2p.
          assert (G : good (al f (d + 1) true r)) by (apply IHa; lia).
          destruct (al f (d + 1) true r) as [[vs rest]| |]; try exact G.
          unfold dec_depth. assert ((d + 1 =? 0) = false) as -> by nbool. exact I. }
        destruct (c =? ch_lbrace).
        { destruct (d =? maxd) eqn:Edm; [cbn; discriminate|]. b2p.
          assert (G : good (ol f (d + 1) false true r)) by (apply IHo; lia).
          destruct (ol f (d + 1) false true r) as [[ms rest]| |]; try exact G.
          unfold dec_depth. assert ((d + 1 =? 0) = false) as -> by nbool. exact I. }
        apply parse_literal_good.
      + intros d first s Hd Hf. rewrite al_eq.
        pose proof (flush_ws_length s) as Hl.
        destruct (flush_ws s) as [|c r] eqn:Ef; [cbn; discriminate|]. cbn [length] in Hl.
        destruct (c =? ch_rbrack); [destruct first; cbn; [exact I|discriminate]|].
        assert (G : good (pv f d (c :: r))) by (apply IHv; [exact Hd|cbn [length]; lia]).
        destruct (pv f d (c :: r)) as [[v s2]| |] eqn:Ev; try exact G.
        apply pv_shorter in Ev; [|exact Hd]. cbn [length] in Ev.
        pose proof (flush_ws_length s2) as Hl2.
        destruct (flush_ws s2) as [|c' r'] eqn:Ef2; [cbn; discriminate|]. cbn [length] in Hl2.
        destruct (c' =? ch_comma).
        { assert (G2 : good (al f d false r')) by (apply IHa; [exact Hd|lia]).
          destruct (al f d false r') as [[vs rest]| |]; exact G2. }
        destruct (c' =? ch_rbrack); cbn; [exact I|discriminate].
      + intros d tc empty s Hd Hf. rewrite ol_eq.
        pose proof (flush_ws_length s) as Hl.
        destruct (flush_ws s) as [|c r] eqn:Ef; [cbn; discriminate|]. cbn [length] in Hl.
        destruct (c =? ch_rbrace); [destruct tc; cbn; [discriminate|exact I]|].
        destruct (c =? ch_comma).
        { destruct tc; [cbn; discriminate|]. destruct empty; [cbn; discriminate|]. apply IHo; [exact Hd|lia]. }
        destruct (negb (member_sep_ok false empty tc)); [cbn; discriminate|].
        destruct (negb (c =? ch_dq)); [cbn; discriminate|].
        pose proof (string_loop_good r false) as G.
        destruct (string_loop false false r) as [[k s2]| |] eqn:Es; try exact G.
        apply string_loop_shorter in Es.
        pose proof (flush_ws_length s2) as Hl2.
        destruct (flush_ws s2) as [|c2 r2] eqn:Ef2; [cbn; discriminate|]. cbn [length] in Hl2.
        destruct (negb (c2 =? ch_colon)); [cbn; discriminate|].
        pose proof (flush_ws_length r2) as Hl3.
        assert (G2 : good (pv f d (flush_ws r2))) by (apply IHv; [exact Hd|lia]).
        destruct (pv f d (flush_ws r2)) as [[v s5]| |] eqn:Ev; try exact G2.
        apply pv_shorter in Ev; [|exact Hd].
        assert (G3 : good (ol f d false false s5)) by (apply IHo; [exact Hd|lia]).
        destruct (ol f d false false s5) as [[ms rest]| |]; exact G3.
  Qed.

  (* Value::parse_max_depth never reaches a panic site (C_DEC_DEPTH, C_STACK: the recursion depth stays <= max_depth),
     and the fuel of the model is never exhausted: it returns a value or one of the five ParseError kinds *)
  Theorem parse_max_depth_safe (s : str) : good (parse_max_depth F fparse false maxd s).
  Proof.
    unfold parse_max_depth, parse_with_fuel.
    assert (G : good (pv (fuel_for s) 0 s)) by (apply (proj1 (safe_all (fuel_for s))); [lia|unfold fuel_for; lia]).
    destruct (pv (fuel_for s) 0 s) as [[v rest]| |]; try exact G.
    destruct (flush_ws rest); cbn; [exact I|discriminate].
  Qed.
End Safety.

(* ------------------------------------------------------------------------------------------------ *)
(* Value::parse (the limit is the constant read from the source) *)

Section Parse.
  Variable F : Type.
  Variable fparse : str -> option F.

  Theorem parse_sound (s : str) (v : value F) :
    parse fparse s = Ok v -> JText fparse s v /\ depth v <= MAX_DEPTH.
  Proof. apply parse_with_fuel_sound. Qed.

  Theorem parse_complete (s : str) (v : value F) :
    JText fparse s v -> depth v <= MAX_DEPTH -> parse fparse s = Ok v.
  Proof. intros H Hd. apply parse_with_fuel_complete; [exact H|exact Hd|lia]. Qed.

  Theorem parse_accepts_iff (s : str) :
    (exists v, parse fparse s = Ok v) <-> (exists v, JText fparse s v /\ depth v <= MAX_DEPTH).
  Proof.
    split; intros (v & H); exists v; [apply parse_sound; exact H|apply parse_complete; tauto].
  Qed.

  (* a text denotes at most one value *)
  Theorem JText_functional (s : str) (v v' : value F) : JText fparse s v -> JText fparse s v' -> v = v'.
  Proof.
    intros H H'. set (m := N.max (depth v) (depth v')).
    assert (E : parse_with_fuel F fparse false m (fuel_for s) s = Ok v)
      by (apply parse_with_fuel_complete; [exact H|unfold m; lia|lia]).
    assert (E' : parse_with_fuel F fparse false m (fuel_for s) s = Ok v')
      by (apply parse_with_fuel_complete; [exact H'|unfold m; lia|lia]).
    congruence.
  Qed.

  Theorem parse_safe (s : str) : good (parse fparse s).
  Proof. apply parse_max_depth_safe. Qed.
End Parse.

(* the admitted sub-language is part of the full RFC 8259 syntax *)
Section Mono.
  Variable F : Type.
  Variable fparse : str -> option F.

  Lemma JValue_mono_all :
    (forall t v, JValue F fparse false t v -> JValue F fparse true t v) /\
    (forall b vs, JElems F fparse false b vs -> JElems F fparse true b vs) /\
    (forall b ms, JMembers F fparse false b ms -> JMembers F fparse true b ms).
  Proof.
    apply JValue_mutind; intros; try (constructor; auto using JChars_mono; fail).
  Qed.

  Theorem JText_is_JSyntax (s : str) (v : value F) : JText fparse s v -> JSyntax fparse s.
  Proof.
    intros (w1 & t & w2 & -> & H1 & Hv & H2). exists v, w1, t, w2. split; [reflexivity|]. split; [exact H1|].
    split; [apply JValue_mono_all; exact Hv|exact H2].
  Qed.
End Mono.

(* ------------------------------------------------------------------------------------------------ *)
(* the tree before fixes F22, F23, F25 accepted texts that are not JSON; oracle: from_str accepts every literal offered here
   (reproduced on the real code: NaN, +1, 01, .5 parse as f64) *)

Definition fp_any : str -> option str := fun l => Some l.

Ltac refute_with s v :=
  exists s, v; split; [vm_compute; reflexivity|];
  let H := fresh "H" in
  intro H; apply parse_complete in H; [vm_compute in H; discriminate H|apply N.leb_le; vm_compute; reflexivity].

(* F23: {"a":1 "b":2} *)
Lemma legacy_refuted_missing_comma :
  exists s v, parse_legacy fp_any s = Ok v /\ ~ JText fp_any s v.
Proof.
  refute_with [0x7b; 0x22; 0x61; 0x22; 0x3a; 0x31; 0x20; 0x22; 0x62; 0x22; 0x3a; 0x32; 0x7d]
              (VObj [([0x61], VNum [0x31]); ([0x62], VNum [0x32])]).
Qed.

(* F22: +1, NaN, 01, .5 *)
Lemma legacy_refuted_number_grammar :
  (exists s v, parse_legacy fp_any s = Ok v /\ ~ JText fp_any s v) /\
  parse_legacy fp_any [0x2b; 0x31] = Ok (VNum [0x2b; 0x31]) /\ ~ JNumber [0x2b; 0x31] /\
  parse_legacy fp_any [0x4e; 0x61; 0x4e] = Ok (VNum [0x4e; 0x61; 0x4e]) /\ ~ JNumber [0x4e; 0x61; 0x4e] /\
  parse_legacy fp_any [0x30; 0x31] = Ok (VNum [0x30; 0x31]) /\ ~ JNumber [0x30; 0x31] /\
  parse_legacy fp_any [0x2e; 0x35] = Ok (VNum [0x2e; 0x35]) /\ ~ JNumber [0x2e; 0x35] /\
  parse_legacy fp_any [0x31; 0x2e] = Ok (VNum [0x31; 0x2e]) /\ ~ JNumber [0x31; 0x2e].
Proof.
  split; [refute_with [0x2b; 0x31] (VNum (F := str) [0x2b; 0x31])|].
  repeat split; try (vm_compute; reflexivity);
    intro H; apply is_json_number_spec in H; vm_compute in H; discriminate H.
Qed.

(* F25: "\u+123" *)
Lemma legacy_refuted_hex_sign :
  exists s v, parse_legacy fp_any s = Ok v /\ ~ JText fp_any s v.
Proof.
  refute_with [0x22; 0x5c; 0x75; 0x2b; 0x31; 0x32; 0x33; 0x22] (VStr (F := str) [0x123]).
Qed.

(* the same three texts are rejected now *)
Lemma fixed_rejects :
  parse fp_any [0x7b; 0x22; 0x61; 0x22; 0x3a; 0x31; 0x20; 0x22; 0x62; 0x22; 0x3a; 0x32; 0x7d] = Err E_TOK /\
  parse fp_any [0x2b; 0x31] = Err E_TOK /\
  parse fp_any [0x22; 0x5c; 0x75; 0x2b; 0x31; 0x32; 0x33; 0x22] = Err E_ESC.
Proof. repeat split; vm_compute; reflexivity. Qed.

(* ------------------------------------------------------------------------------------------------ *)
(* unpaired surrogate escapes: the full RFC 8259 syntax vs the sub-language the parser accepts *)

Notation scan := no_lone_surrogate_escape.
Ltac norm_app_in H := repeat (progress (rewrite <- ?app_assoc in H; cbn [app] in H)).

Definition no_bs (a : str) : Prop := Forall (fun c => c <> 0x5c) a.

Lemma scan_plain (c : N) (r : str) : c <> 0x5c -> scan (c :: r) = scan r.
Proof. intro H. cbn [no_lone_surrogate_escape]. rewrite (eqb_false_of_neq _ _ H). reflexivity. Qed.

Lemma scan_no_bs (a b : str) : no_bs a -> scan (a ++ b) = scan b.
Proof.
  intro H. induction H as [|c a Hc Ha IH]; [reflexivity|]. cbn [app]. rewrite scan_plain by exact Hc. exact IH.
Qed.

Lemma scan_escape (c : N) (r : str) : c <> 0x75 -> scan (0x5c :: c :: r) = scan r.
Proof. intro H. cbn [no_lone_surrogate_escape]. change (0x5c =? 0x5c) with true. cbn iota. rewrite (eqb_false_of_neq _ _ H). reflexivity. Qed.

Lemma scan_u (h1 h2 h3 h4 : N) (r4 : str) :
  scan (0x5c :: 0x75 :: h1 :: h2 :: h3 :: h4 :: r4) =
  match hex4 h1 h2 h3 h4 with
  | Some code =>
    if is_surrogate code then
      if code <? 0xDC00 then
        match r4 with
        | b :: u :: g1 :: g2 :: g3 :: g4 :: r10 =>
          if (b =? 0x5c) && (u =? 0x75) then
            match hex4 g1 g2 g3 g4 with
            | Some lo => if (0xDC00 <=? lo) && (lo <=? 0xDFFF) then scan r10 else false
            | None => false
            end
          else false
        | _ => false
        end
      else false
    else scan r4
  | None => scan r4
  end.
Proof. reflexivity. Qed.

Lemma WS_no_bs (w : str) : WS w -> no_bs w.
Proof. intro H. eapply Forall_impl; [|exact H]. intros c Hc. unfold ws_char in Hc. lia. Qed.

Lemma hex4_is_fun (h1 h2 h3 h4 a b : N) : hex4_is h1 h2 h3 h4 a -> hex4_is h1 h2 h3 h4 b -> a = b.
Proof. intros Ha Hb. apply hex4_spec in Ha, Hb. congruence. Qed.

(* paired escapes only => the scan passes the string body *)
Lemma scan_chars_false (b o : str) : JChars false b o -> forall rest, scan (b ++ 0x22 :: rest) = scan rest.
Proof.
  induction 1 as [|c t o Hc _ IH|c d t o He _ IH|h1 h2 h3 h4 code t o Hh Hns _ IH
                  |h1 h2 h3 h4 g1 g2 g3 g4 hi lo t o Hh Hg Hhi Hlo _ IH|h1 h2 h3 h4 code t o Hl _ _ _ _]; intro rest.
  - cbn [app]. apply scan_plain. discriminate.
  - cbn [app]. rewrite scan_plain; [apply IH|]. unfold unescaped in Hc. lia.
  - cbn [app]. rewrite scan_escape; [apply IH|]. eapply escape_of_not_u. exact He.
  - cbn [app]. rewrite scan_u. apply hex4_spec in Hh. rewrite Hh.
    apply is_surrogate_false in Hns. rewrite Hns. apply IH.
  - cbn [app]. rewrite scan_u. apply hex4_spec in Hh, Hg. rewrite Hh.
    assert (is_surrogate hi = true) as -> by (apply is_surrogate_true; unfold surrogate, high_surrogate in *; lia).
    unfold high_surrogate, low_surrogate in *.
    assert ((hi <? 0xDC00) = true) as -> by nbool.
    change ((0x5c =? 0x5c) && (0x75 =? 0x75)) with true. cbn iota. rewrite Hg.
    assert ((0xDC00 <=? lo) && (lo <=? 0xDFFF) = true) as -> by nbool. apply IH.
  - discriminate Hl.
Qed.

(* RFC string body with possibly unpaired escapes, on which the scan passes => a body with paired escapes only *)
Lemma scan_chars_true_n (n : nat) :
  forall b o, (length b <= n)%nat -> JChars true b o -> forall rest, scan (b ++ 0x22 :: rest) = true ->
  (exists o', JChars false b o') /\ scan rest = true.
Proof.
  induction n as [|n IH]; intros b o Hlen H rest Hs.
  - destruct b; [|cbn in Hlen; lia]. cbn [app] in Hs. rewrite scan_plain in Hs by discriminate.
    split; [exists []; constructor|exact Hs].
  - destruct H as [|c t o Hc Ht|c d t o He Ht|h1 h2 h3 h4 code t o Hh Hns Ht
                   |h1 h2 h3 h4 g1 g2 g3 g4 hi lo t o Hh Hg Hhi Hlo Ht|h1 h2 h3 h4 code t o _ Hh Hsur Ht].
    + cbn [app] in Hs. rewrite scan_plain in Hs by discriminate. split; [exists []; constructor|exact Hs].
    + cbn [app] in Hs. rewrite scan_plain in Hs by (unfold unescaped in Hc; lia).
      cbn [length] in Hlen. destruct (IH t o ltac:(lia) Ht rest Hs) as [(o' & Ho') Hr].
      split; [exists (c :: o'); apply jc_unescaped; assumption|exact Hr].
    + cbn [app] in Hs. rewrite scan_escape in Hs by (eapply escape_of_not_u; exact He).
      cbn [length] in Hlen. destruct (IH t o ltac:(lia) Ht rest Hs) as [(o' & Ho') Hr].
      split; [exists (d :: o'); eapply jc_escape; eassumption|exact Hr].
    + cbn [app] in Hs. rewrite scan_u in Hs. pose proof Hh as Hh'. apply hex4_spec in Hh'. rewrite Hh' in Hs.
      pose proof Hns as Hns'. apply is_surrogate_false in Hns'. rewrite Hns' in Hs.
      cbn [length] in Hlen. destruct (IH t o ltac:(lia) Ht rest Hs) as [(o' & Ho') Hr].
      split; [exists (code :: o'); apply jc_u; assumption|exact Hr].
    + cbn [app] in Hs. rewrite scan_u in Hs. pose proof Hh as Hh'. pose proof Hg as Hg'. apply hex4_spec in Hh', Hg'. rewrite Hh' in Hs.
      assert (Es : is_surrogate hi = true) by (apply is_surrogate_true; unfold surrogate, high_surrogate in *; lia).
      rewrite Es in Hs. unfold high_surrogate, low_surrogate in *.
      assert (El : (hi <? 0xDC00) = true) by nbool. rewrite El in Hs.
      change ((0x5c =? 0x5c) && (0x75 =? 0x75)) with true in Hs. cbn iota in Hs. rewrite Hg' in Hs.
      assert (Er : (0xDC00 <=? lo) && (lo <=? 0xDFFF) = true) by nbool. rewrite Er in Hs.
      cbn [length] in Hlen. destruct (IH t o ltac:(lia) Ht rest Hs) as [(o' & Ho') Hr].
      split; [eexists; apply jc_pair; eassumption|exact Hr].
    + (* an escape that is a surrogate, derived as "lone": the scan insists on a following low-surrogate escape *)
      cbn [app] in Hs. rewrite scan_u in Hs. pose proof Hh as Hh'. apply hex4_spec in Hh'. rewrite Hh' in Hs.
      pose proof Hsur as Es. apply is_surrogate_true in Es. rewrite Es in Hs.
      destruct (code <? 0xDC00) eqn:El; [|discriminate Hs].
      cbn [length] in Hlen.
      (* the text after the escape is t ++ quote :: rest; it must begin with backslash u g1 g2 g3 g4 *)
      destruct Ht as [|c t' o' Hc Ht'|c d t' o' He Ht'|g1 g2 g3 g4 lo t' o' Hg Hns Ht'
                      |g1 g2 g3 g4 k1 k2 k3 k4 hi2 lo2 t' o' Hg Hk Hhi2 Hlo2 Ht'|g1 g2 g3 g4 lo t' o' _ Hg Hsur2 Ht'];
        cbn [app] in Hs.
      * destruct rest as [|? [|? [|? [|? [|? ?]]]]]; discriminate Hs.
      * destruct (t' ++ 0x22 :: rest) as [|? [|? [|? [|? [|? ?]]]]]; try discriminate Hs.
        destruct (c =? 0x5c) eqn:Ec; [|discriminate Hs]. apply N.eqb_eq in Ec. unfold unescaped in Hc. lia.
      * destruct (t' ++ 0x22 :: rest) as [|? [|? [|? [|? ?]]]]; try discriminate Hs.
        change (0x5c =? 0x5c) with true in Hs. cbn [andb] in Hs.
        destruct (c =? 0x75) eqn:Ec; [|discriminate Hs]. apply N.eqb_eq in Ec. exfalso. eapply escape_of_not_u; eassumption.
      * change ((0x5c =? 0x5c) && (0x75 =? 0x75)) with true in Hs. cbn iota in Hs.
        pose proof Hg as Hg'. apply hex4_spec in Hg'. rewrite Hg' in Hs.
        destruct ((0xDC00 <=? lo) && (lo <=? 0xDFFF)) eqn:Er; [|discriminate Hs]. b2p.
        exfalso. apply Hns. unfold surrogate. lia.
      * change ((0x5c =? 0x5c) && (0x75 =? 0x75)) with true in Hs. cbn iota in Hs.
        pose proof Hg as Hg'. apply hex4_spec in Hg'. rewrite Hg' in Hs.
        destruct ((0xDC00 <=? hi2) && (hi2 <=? 0xDFFF)) eqn:Er; [|discriminate Hs]. b2p.
        unfold high_surrogate in Hhi2. lia.
      * change ((0x5c =? 0x5c) && (0x75 =? 0x75)) with true in Hs. cbn iota in Hs.
        pose proof Hg as Hg'. apply hex4_spec in Hg'. rewrite Hg' in Hs.
        destruct ((0xDC00 <=? lo) && (lo <=? 0xDFFF)) eqn:Er; [|discriminate Hs]. b2p.
        cbn [length] in Hlen. destruct (IH t' o' ltac:(lia) Ht' rest Hs) as [(o'' & Ho'') Hr].
        split; [|exact Hr]. eexists. apply jc_pair; try eassumption.
        -- unfold high_surrogate, surrogate in *. lia.
        -- unfold low_surrogate. lia.
Qed.

Lemma scan_chars_true (b o : str) :
  JChars true b o -> forall rest, scan (b ++ 0x22 :: rest) = true -> (exists o', JChars false b o') /\ scan rest = true.
Proof. intros H rest. apply (scan_chars_true_n (length b) b o); [lia|exact H]. Qed.

Lemma numchars_no_bs (s : str) : Forall numchar s -> no_bs s.
Proof. intro H. eapply Forall_impl; [|exact H]. intros c Hc. unfold numchar, digit in Hc. lia. Qed.

Section ScanGrammar.
  Variable F : Type.
  Variable fparse : str -> option F.

  Notation dl := (depth_list F).
  Notation dm := (depth_members F).

  (* full RFC syntax + scan passes => the same text is in the paired-escapes sub-language, same nesting depth *)
  Lemma scan_true_all :
    (forall t v, JValue F fparse true t v -> forall rest, scan (t ++ rest) = true ->
       (exists v', JValue F fparse false t v' /\ depth v' = depth v) /\ scan rest = true) /\
    (forall b vs, JElems F fparse true b vs -> forall rest, scan (b ++ rest) = true ->
       (exists vs', JElems F fparse false b vs' /\ dl vs' = dl vs) /\ scan rest = true) /\
    (forall b ms, JMembers F fparse true b ms -> forall rest, scan (b ++ rest) = true ->
       (exists ms', JMembers F fparse false b ms' /\ dm ms' = dm ms) /\ scan rest = true).
  Proof.
    apply JValue_mutind.
    - intros rest Hs. rewrite scan_no_bs in Hs by (repeat constructor; discriminate).
      split; [exists VNull; split; [constructor|reflexivity]|exact Hs].
    - intros rest Hs. rewrite scan_no_bs in Hs by (repeat constructor; discriminate).
      split; [exists (VBool true); split; [constructor|reflexivity]|exact Hs].
    - intros rest Hs. rewrite scan_no_bs in Hs by (repeat constructor; discriminate).
      split; [exists (VBool false); split; [constructor|reflexivity]|exact Hs].
    - intros s x Hn Hf rest Hs. rewrite scan_no_bs in Hs by (apply numchars_no_bs, JNumber_numchars; exact Hn).
      split; [exists (VNum x); split; [constructor; assumption|reflexivity]|exact Hs].
    - intros b o Hb rest Hs. cbn [app] in Hs. rewrite scan_plain in Hs by discriminate.
      rewrite <- app_assoc in Hs. cbn [app] in Hs.
      destruct (scan_chars_true b o Hb rest Hs) as [(o' & Ho') Hr].
      split; [exists (VStr o'); split; [constructor; exact Ho'|reflexivity]|exact Hr].
    - intros w Hw rest Hs. cbn [app] in Hs. rewrite scan_plain in Hs by discriminate.
      rewrite <- app_assoc in Hs. rewrite scan_no_bs in Hs by (apply WS_no_bs; exact Hw).
      cbn [app] in Hs. rewrite scan_plain in Hs by discriminate.
      split; [exists (VArr []); split; [constructor; exact Hw|reflexivity]|exact Hs].
    - intros b vs Hb IH rest Hs. cbn [app] in Hs. rewrite scan_plain in Hs by discriminate.
      rewrite <- app_assoc in Hs. destruct (IH _ Hs) as [(vs' & Hvs' & Hd) Hr].
      cbn [app] in Hr. rewrite scan_plain in Hr by discriminate.
      split; [exists (VArr vs'); split; [constructor; exact Hvs'|rewrite !depth_arr, Hd; reflexivity]|exact Hr].
    - intros w Hw rest Hs. cbn [app] in Hs. rewrite scan_plain in Hs by discriminate.
      rewrite <- app_assoc in Hs. rewrite scan_no_bs in Hs by (apply WS_no_bs; exact Hw).
      cbn [app] in Hs. rewrite scan_plain in Hs by discriminate.
      split; [exists (VObj []); split; [constructor; exact Hw|reflexivity]|exact Hs].
    - intros b ms Hb IH rest Hs. cbn [app] in Hs. rewrite scan_plain in Hs by discriminate.
      rewrite <- app_assoc in Hs. destruct (IH _ Hs) as [(ms' & Hms' & Hd) Hr].
      cbn [app] in Hr. rewrite scan_plain in Hr by discriminate.
      split; [exists (VObj ms'); split; [constructor; exact Hms'|rewrite !depth_obj, Hd; reflexivity]|exact Hr].
    - intros w1 t v w2 Hw1 Hv IHv Hw2 rest Hs. norm_app_in Hs.
      rewrite scan_no_bs in Hs by (apply WS_no_bs; exact Hw1).
      destruct (IHv _ Hs) as [(v' & Hv' & Hd) Hr]. rewrite scan_no_bs in Hr by (apply WS_no_bs; exact Hw2).
      split; [exists [v']; split; [constructor; assumption|rewrite !depth_list_cons, Hd; reflexivity]|exact Hr].
    - intros w1 t v w2 b vs Hw1 Hv IHv Hw2 Hb IHb rest Hs. norm_app_in Hs.
      rewrite scan_no_bs in Hs by (apply WS_no_bs; exact Hw1).
      destruct (IHv _ Hs) as [(v' & Hv' & Hd) Hr]. rewrite scan_no_bs in Hr by (apply WS_no_bs; exact Hw2).
      rewrite scan_plain in Hr by discriminate. destruct (IHb _ Hr) as [(vs' & Hvs' & Hds) Hr2].
      split; [exists (v' :: vs'); split; [constructor; assumption|rewrite !depth_list_cons, Hd, Hds; reflexivity]|exact Hr2].
    - intros w1 kb k w2 w3 t v w4 Hw1 Hk Hw2 Hw3 Hv IHv Hw4 rest Hs. norm_app_in Hs.
      rewrite scan_no_bs in Hs by (apply WS_no_bs; exact Hw1). rewrite scan_plain in Hs by discriminate.
      destruct (scan_chars_true kb k Hk _ Hs) as [(k' & Hk') Hr].
      rewrite scan_no_bs in Hr by (apply WS_no_bs; exact Hw2). rewrite scan_plain in Hr by discriminate.
      rewrite scan_no_bs in Hr by (apply WS_no_bs; exact Hw3).
      destruct (IHv _ Hr) as [(v' & Hv' & Hd) Hr2]. rewrite scan_no_bs in Hr2 by (apply WS_no_bs; exact Hw4).
      split; [exists [(k', v')]; split; [constructor; assumption|rewrite !depth_members_cons, Hd; reflexivity]|exact Hr2].
    - intros w1 kb k w2 w3 t v w4 b ms Hw1 Hk Hw2 Hw3 Hv IHv Hw4 Hb IHb rest Hs. norm_app_in Hs.
      rewrite scan_no_bs in Hs by (apply WS_no_bs; exact Hw1). rewrite scan_plain in Hs by discriminate.
      destruct (scan_chars_true kb k Hk _ Hs) as [(k' & Hk') Hr].
      rewrite scan_no_bs in Hr by (apply WS_no_bs; exact Hw2). rewrite scan_plain in Hr by discriminate.
      rewrite scan_no_bs in Hr by (apply WS_no_bs; exact Hw3).
      destruct (IHv _ Hr) as [(v' & Hv' & Hd) Hr2]. rewrite scan_no_bs in Hr2 by (apply WS_no_bs; exact Hw4).
      rewrite scan_plain in Hr2 by discriminate. destruct (IHb _ Hr2) as [(ms' & Hms' & Hds) Hr3].
      split; [exists ((k', v') :: ms'); split; [constructor; assumption|rewrite !depth_members_cons, Hd, Hds; reflexivity]|exact Hr3].
  Qed.

  (* paired escapes only => the scan passes *)
  Lemma scan_false_all :
    (forall t v, JValue F fparse false t v -> forall rest, scan (t ++ rest) = scan rest) /\
    (forall b vs, JElems F fparse false b vs -> forall rest, scan (b ++ rest) = scan rest) /\
    (forall b ms, JMembers F fparse false b ms -> forall rest, scan (b ++ rest) = scan rest).
  Proof.
    apply JValue_mutind.
    - intro rest. apply scan_no_bs. repeat constructor; discriminate.
    - intro rest. apply scan_no_bs. repeat constructor; discriminate.
    - intro rest. apply scan_no_bs. repeat constructor; discriminate.
    - intros s x Hn Hf rest. apply scan_no_bs. apply numchars_no_bs, JNumber_numchars. exact Hn.
    - intros b o Hb rest. cbn [app]. rewrite scan_plain by discriminate. rewrite <- app_assoc. cbn [app].
      apply scan_chars_false with (o := o). exact Hb.
    - intros w Hw rest. cbn [app]. rewrite scan_plain by discriminate. rewrite <- app_assoc.
      rewrite scan_no_bs by (apply WS_no_bs; exact Hw). cbn [app]. apply scan_plain. discriminate.
    - intros b vs Hb IH rest. cbn [app]. rewrite scan_plain by discriminate. rewrite <- app_assoc, IH.
      cbn [app]. apply scan_plain. discriminate.
    - intros w Hw rest. cbn [app]. rewrite scan_plain by discriminate. rewrite <- app_assoc.
      rewrite scan_no_bs by (apply WS_no_bs; exact Hw). cbn [app]. apply scan_plain. discriminate.
    - intros b ms Hb IH rest. cbn [app]. rewrite scan_plain by discriminate. rewrite <- app_assoc, IH.
      cbn [app]. apply scan_plain. discriminate.
    - intros w1 t v w2 Hw1 Hv IHv Hw2 rest. norm_app.
      rewrite scan_no_bs by (apply WS_no_bs; exact Hw1). rewrite IHv. apply scan_no_bs, WS_no_bs. exact Hw2.
    - intros w1 t v w2 b vs Hw1 Hv IHv Hw2 Hb IHb rest. norm_app.
      rewrite scan_no_bs by (apply WS_no_bs; exact Hw1). rewrite IHv.
      rewrite scan_no_bs by (apply WS_no_bs; exact Hw2). rewrite scan_plain by discriminate. apply IHb.
    - intros w1 kb k w2 w3 t v w4 Hw1 Hk Hw2 Hw3 Hv IHv Hw4 rest. norm_app.
      rewrite scan_no_bs by (apply WS_no_bs; exact Hw1). rewrite scan_plain by discriminate.
      rewrite (scan_chars_false kb k Hk).
      rewrite scan_no_bs by (apply WS_no_bs; exact Hw2). rewrite scan_plain by discriminate.
      rewrite scan_no_bs by (apply WS_no_bs; exact Hw3). rewrite IHv. apply scan_no_bs, WS_no_bs. exact Hw4.
    - intros w1 kb k w2 w3 t v w4 b ms Hw1 Hk Hw2 Hw3 Hv IHv Hw4 Hb IHb rest. norm_app.
      rewrite scan_no_bs by (apply WS_no_bs; exact Hw1). rewrite scan_plain by discriminate.
      rewrite (scan_chars_false kb k Hk).
      rewrite scan_no_bs by (apply WS_no_bs; exact Hw2). rewrite scan_plain by discriminate.
      rewrite scan_no_bs by (apply WS_no_bs; exact Hw3). rewrite IHv.
      rewrite scan_no_bs by (apply WS_no_bs; exact Hw4). rewrite scan_plain by discriminate. apply IHb.
  Qed.

  Theorem JText_no_lone (s : str) (v : value F) : JText fparse s v -> no_lone_surrogate_escape s = true.
  Proof.
    intros (w1 & t & w2 & -> & H1 & Hv & H2).
    rewrite scan_no_bs by (apply WS_no_bs; exact H1). rewrite (proj1 scan_false_all t v Hv).
    rewrite <- (app_nil_r w2). apply scan_no_bs, WS_no_bs. exact H2.
  Qed.

  Theorem JSyntax_no_lone_JText (s : str) (v : value F) :
    JTextG F fparse true s v -> no_lone_surrogate_escape s = true ->
    exists v', JText fparse s v' /\ depth v' = depth v.
  Proof.
    intros (w1 & t & w2 & -> & H1 & Hv & H2) Hs.
    rewrite scan_no_bs in Hs by (apply WS_no_bs; exact H1).
    destruct (proj1 scan_true_all t v Hv _ Hs) as [(v' & Hv' & Hd) _].
    exists v'. split; [|exact Hd]. exists w1, t, w2. auto.
  Qed.

  (* the property's "if and only if", against the full RFC 8259 syntax *)
  Theorem parse_accepts_iff_rfc (s : str) :
    (exists v, parse fparse s = Ok v) <->
    ((exists v, JTextG F fparse true s v /\ depth v <= MAX_DEPTH) /\ no_lone_surrogate_escape s = true).
  Proof.
    split.
    - intros (v & H). apply parse_sound in H. destruct H as [Ht Hd]. split.
      + exists v. split; [|exact Hd]. destruct Ht as (w1 & t & w2 & -> & H1 & Hv & H2).
        exists w1, t, w2. split; [reflexivity|]. split; [exact H1|]. split; [apply JValue_mono_all; exact Hv|exact H2].
      + eapply JText_no_lone. exact Ht.
    - intros [(v & Ht & Hd) Hs]. destruct (JSyntax_no_lone_JText s v Ht Hs) as (v' & Ht' & Hd').
      exists v'. apply parse_complete; [exact Ht'|rewrite Hd'; exact Hd].
  Qed.
End ScanGrammar.

(* ------------------------------------------------------------------------------------------------ *)
(* allocation: the meter of Json.v is at most 1024 bytes per character of input, for every input *)

Lemma slen_cons (c : N) (s : str) : slen (c :: s) = 1 + slen s.
Proof. unfold slen. cbn [length]. lia. Qed.

Lemma slen_nil : slen [] = 0.
Proof. reflexivity. Qed.

Lemma slen_app (a b : str) : slen (a ++ b) = slen a + slen b.
Proof. unfold slen. rewrite app_length. lia. Qed.

Lemma flush_ws_slen (s : str) : slen (flush_ws s) <= slen s.
Proof. pose proof (flush_ws_length s). unfold slen. lia. Qed.

Lemma span_literal_slen (s a b : str) : span_literal s = (a, b) -> slen s = slen a + slen b.
Proof. intro H. apply span_literal_split in H. subst. apply slen_app. Qed.

Ltac sl := repeat rewrite slen_cons in *; repeat rewrite slen_nil in *.

(* string loop: 20 bytes per consumed character pay for the pushes (16), the hex temporaries and a later copy of the result (4) *)
Definition string_bound (bs : bool) (s : str) : Prop :=
  match string_loop false bs s with
  | Ok (o, rest) => string_cost false bs s + 4 * slen o + 20 * slen rest <= 20 * slen s
  | _ => string_cost false bs s <= 20 * slen s
  end.

Lemma string_bound_n (n : nat) : forall s bs, (length s <= n)%nat -> string_bound bs s.
Proof.
  unfold string_bound. induction n as [|n IH]; intros s bs Hlen.
  - destruct s; [|cbn in Hlen; lia]. destruct bs; cbn; lia.
  - destruct s as [|c r]; [destruct bs; cbn; lia|]. cbn [length] in Hlen.
    destruct bs.
    + (* after a backslash *)
      destruct (simple_escape c) as [d|] eqn:Ese.
      * rewrite (sl_escape _ _ _ _ Ese). cbn [string_cost]. rewrite Ese.
        pose proof (IH r false ltac:(lia)) as B. sl. unfold CHAR_COST.
        destruct (string_loop false false r) as [[o rest]| |]; cbn [push_char]; sl; lia.
      * destruct (c =? ch_u) eqn:Eu.
        2:{ rewrite (sl_bad_escape _ _ _ Ese Eu). cbn [string_cost]. rewrite Ese, Eu. lia. }
        apply N.eqb_eq in Eu. subst c. rewrite sl_u. cbn [string_cost]. rewrite Ese.
        change (ch_u =? ch_u) with true. cbn iota.
        destruct r as [|h1 [|h2 [|h3 [|h4 r4]]]]; try (sl; lia).
        cbn [hex4x]. unfold HEX_TMP, CHAR_COST. cbn [length] in Hlen. sl.
        destruct (hex4 h1 h2 h3 h4) as [code|]; [|lia].
        destruct (is_surrogate code); cbn [negb].
        -- destruct r4 as [|b1 r5]; [sl; lia|]. sl.
           destruct (b1 =? ch_bslash); cbn [negb]; [|lia].
           destruct r5 as [|u1 r6]; [sl; lia|]. sl.
           destruct (u1 =? ch_u); cbn [negb]; [|lia].
           destruct r6 as [|g1 [|g2 [|g3 [|g4 r10]]]]; try (sl; lia). sl.
           destruct (hex4 g1 g2 g3 g4) as [code2|]; [|lia].
           destruct (decode_pair code code2) as [ch|]; [|lia].
           cbn [length] in Hlen. pose proof (IH r10 false ltac:(lia)) as B.
           destruct (string_loop false false r10) as [[o rest]| |]; cbn [push_char]; sl; lia.
        -- pose proof (IH r4 false ltac:(lia)) as B.
           destruct (string_loop false false r4) as [[o rest]| |]; cbn [push_char]; sl; lia.
    + rewrite sl_plain. cbn [string_cost]. sl. unfold CHAR_COST.
      destruct (c =? ch_bslash).
      * pose proof (IH r true ltac:(lia)) as B.
        destruct (string_loop false true r) as [[o rest]| |]; lia.
      * destruct (c =? ch_dq); [sl; lia|].
        destruct (unescapedb c); [|lia].
        pose proof (IH r false ltac:(lia)) as B.
        destruct (string_loop false false r) as [[o rest]| |]; cbn [push_char]; sl; lia.
Qed.

Lemma string_bound_all (s : str) (bs : bool) : string_bound bs s.
Proof. apply (string_bound_n (length s)). lia. Qed.

Section Allocation.
  Variable F : Type.
  Variable fparse : str -> option F.
  Variable maxd : N.

  Notation pv := (parse_value F fparse false maxd).
  Notation al := (array_loop F fparse false maxd).
  Notation ol := (object_loop F fparse false maxd).
  Notation cv := (cost_value F fparse false maxd).
  Notation ca := (cost_array F fparse false maxd).
  Notation co := (cost_object F fparse false maxd).

  Lemma cv_eq (f : nat) (d : N) (s : str) :
    cv (S f) d s =
    match flush_ws s with
    | [] => 0
    | c :: r =>
      if c =? ch_dq then STRING_CAP + string_cost false false r
      else if c =? ch_lbrack then
        if d =? maxd then 0 else ARRAY_CAP * VALUE_SIZE + ca f (d + 1) true r
      else if c =? ch_lbrace then
        if d =? maxd then 0 else OBJECT_CAP * MEMBER_SIZE + co f (d + 1) false true r
      else LIT_BASE + CHAR_COST * (1 + slen (fst (span_literal r)))
    end.
  Proof. reflexivity. Qed.

  Lemma ca_eq (f : nat) (d : N) (first : bool) (s : str) :
    ca (S f) d first s =
    match flush_ws s with
    | [] => 0
    | c :: r =>
      if c =? ch_rbrack then 0
      else
        cv f d (c :: r) +
        match pv f d (c :: r) with
        | Ok (v, s2) =>
          4 * VALUE_SIZE +
          match flush_ws s2 with
          | [] => 0
          | c' :: r' => if c' =? ch_comma then ca f d false r' else 0
          end
        | _ => 0
        end
    end.
  Proof. reflexivity. Qed.

  Lemma co_eq (f : nat) (d : N) (tc empty : bool) (s : str) :
    co (S f) d tc empty s =
    match flush_ws s with
    | [] => 0
    | c :: r =>
      if c =? ch_rbrace then 0
      else if c =? ch_comma then
        if tc then 0 else if empty then 0 else co f d true empty r
      else if negb (member_sep_ok false empty tc) then 0
      else if negb (c =? ch_dq) then 0
      else
        STRING_CAP + string_cost false false r +
        match string_loop false false r with
        | Ok (k, s2) =>
          4 * slen k +
          match flush_ws s2 with
          | [] => 0
          | c2 :: r2 =>
            if negb (c2 =? ch_colon) then 0
            else
              cv f d (flush_ws r2) +
              match pv f d (flush_ws r2) with
              | Ok (v, s5) => 4 * MEMBER_SIZE + co f d false false s5
              | _ => 0
              end
          end
        | _ => 0
        end
    end.
  Proof. reflexivity. Qed.

  (* a value leaves 128 bytes per value for the push into its parent *)
  Definition bound_v (f : nat) : Prop :=
    forall d s, d <= maxd ->
    match pv f d s with
    | Ok (v, rest) => cv f d s + 128 + 1024 * slen rest <= 1024 * slen s
    | _ => cv f d s <= 1024 * slen s
    end.
  Definition bound_a (f : nat) : Prop :=
    forall d first s, d <= maxd ->
    match al f d first s with
    | Ok (vs, rest) => ca f d first s + 1024 * slen rest <= 1024 * slen s
    | _ => ca f d first s <= 1024 * slen s
    end.
  Definition bound_o (f : nat) : Prop :=
    forall d tc empty s, d <= maxd ->
    match ol f d tc empty s with
    | Ok (ms, rest) => co f d tc empty s + 1024 * slen rest <= 1024 * slen s
    | _ => co f d tc empty s <= 1024 * slen s
    end.

  Lemma bound_all (f : nat) : bound_v f /\ bound_a f /\ bound_o f.
  Proof.
    induction f as [|f (IHv & IHa & IHo)].
    - repeat split; intro; intros; cbn; lia.
    - split; [|split].
      + intros d s Hd. rewrite pv_eq, cv_eq.
        assert ((maxd <? d) = false) as -> by nbool.
        pose proof (flush_ws_slen s) as Hl.
        destruct (flush_ws s) as [|c r] eqn:Ef; [lia|]. sl.
        destruct (c =? ch_dq).
        { pose proof (string_bound_all r false) as B. unfold string_bound in B. unfold STRING_CAP.
          destruct (string_loop false false r) as [[o rest]| |]; lia. }
        destruct (c =? ch_lbrack).
        { destruct (d =? maxd) eqn:Edm; [lia|]. b2p.
          pose proof (IHa (d + 1) true r ltac:(lia)) as B. unfold ARRAY_CAP, VALUE_SIZE.
          destruct (al f (d + 1) true r) as [[vs rest]| |]; try lia.
          unfold dec_depth. assert ((d + 1 =? 0) = false) as -> by nbool. lia. }
        destruct (c =? ch_lbrace).
        { destruct (d =? maxd) eqn:Edm; [lia|]. b2p.
          pose proof (IHo (d + 1) false true r ltac:(lia)) as B. unfold OBJECT_CAP, MEMBER_SIZE.
          destruct (ol f (d + 1) false true r) as [[ms rest]| |]; try lia.
          unfold dec_depth. assert ((d + 1 =? 0) = false) as -> by nbool. lia. }
        unfold parse_literal. destruct (span_literal r) as [lit rest] eqn:Esp. cbn [fst].
        apply span_literal_slen in Esp. unfold LIT_BASE, CHAR_COST.
        destruct (str_eqb (c :: lit) s_null); [lia|].
        destruct (str_eqb (c :: lit) s_true); [lia|].
        destruct (str_eqb (c :: lit) s_false); [lia|].
        destruct (number_ok false (c :: lit)); [|lia].
        destruct (fparse (c :: lit)); lia.
      + intros d first s Hd. rewrite al_eq, ca_eq.
        pose proof (flush_ws_slen s) as Hl.
        destruct (flush_ws s) as [|c r] eqn:Ef; [lia|]. sl.
        destruct (c =? ch_rbrack); [destruct first; sl; lia|].
        pose proof (IHv d (c :: r) Hd) as B. sl. unfold VALUE_SIZE.
        destruct (pv f d (c :: r)) as [[v s2]| |]; try lia.
        pose proof (flush_ws_slen s2) as Hl2.
        destruct (flush_ws s2) as [|c' r'] eqn:Ef2; [lia|]. sl.
        destruct (c' =? ch_comma).
        { pose proof (IHa d false r' Hd) as B2.
          destruct (al f d false r') as [[vs rest]| |]; lia. }
        destruct (c' =? ch_rbrack); lia.
      + intros d tc empty s Hd. rewrite ol_eq, co_eq.
        pose proof (flush_ws_slen s) as Hl.
        destruct (flush_ws s) as [|c r] eqn:Ef; [lia|]. sl.
        destruct (c =? ch_rbrace); [destruct tc; sl; lia|].
        destruct (c =? ch_comma).
        { destruct tc; [lia|]. destruct empty; [lia|].
          pose proof (IHo d true false r Hd) as B.
          destruct (ol f d true false r) as [[ms rest]| |]; lia. }
        destruct (negb (member_sep_ok false empty tc)); [lia|].
        destruct (negb (c =? ch_dq)); [lia|].
        pose proof (string_bound_all r false) as B. unfold string_bound in B. unfold STRING_CAP, MEMBER_SIZE.
        destruct (string_loop false false r) as [[k s2]| |]; try lia.
        pose proof (flush_ws_slen s2) as Hl2.
        destruct (flush_ws s2) as [|c2 r2] eqn:Ef2; [lia|]. sl.
        destruct (negb (c2 =? ch_colon)); [lia|].
        pose proof (flush_ws_slen r2) as Hl3.
        pose proof (IHv d (flush_ws r2) Hd) as B2.
        destruct (pv f d (flush_ws r2)) as [[v s5]| |]; try lia.
        pose proof (IHo d false false s5 Hd) as B3.
        destruct (ol f d false false s5) as [[ms rest]| |]; lia.
  Qed.

  (* for EVERY input: total bytes requested by Value::parse_max_depth <= 1024 * number of characters (<= bytes) supplied *)
  Theorem parse_cost_linear (s : str) : parse_cost F fparse false maxd s <= 1024 * slen s.
  Proof.
    unfold parse_cost. pose proof (proj1 (bound_all (fuel_for s)) 0 s ltac:(lia)) as B.
    destruct (pv (fuel_for s) 0 s) as [[v rest]| |]; lia.
  Qed.
End Allocation.

(* ------------------------------------------------------------------------------------------------ *)
(* the strings of a parsed value are made of Unicode scalar values whenever the input is (the model never manufactures a
   surrogate: what char::from_u32 / decode_utf16 return is always a valid char) *)

Lemma JChars_scalar (b o : str) : JChars false b o -> Forall scalar b -> Forall scalar o.
Proof.
  induction 1 as [|c t o Hc _ IH|c d t o He _ IH|h1 h2 h3 h4 code t o Hh Hns _ IH
                  |h1 h2 h3 h4 g1 g2 g3 g4 hi lo t o Hh Hg Hhi Hlo _ IH|h1 h2 h3 h4 code t o Hl _ _ _ _]; intro Hb.
  - constructor.
  - constructor; [exact (Forall_inv Hb)|apply IH; exact (Forall_inv_tail Hb)].
  - constructor.
    + unfold escape_of in He. unfold scalar. left.
      destruct He as [[_ ->]|[[_ ->]|[[_ ->]|[[_ ->]|[[_ ->]|[[_ ->]|[[_ ->]|[_ ->]]]]]]]]; lia.
    + apply IH. do 2 apply Forall_inv_tail in Hb. exact Hb.
  - constructor.
    + pose proof (hex4_is_bound _ _ _ _ _ Hh). unfold scalar, surrogate in *. lia.
    + apply IH. do 6 apply Forall_inv_tail in Hb. exact Hb.
  - constructor.
    + unfold scalar, high_surrogate, low_surrogate in *. right. lia.
    + apply IH. do 12 apply Forall_inv_tail in Hb. exact Hb.
  - discriminate Hl.
Qed.

Section Scalars.
  Variable F : Type.
  Variable fparse : str -> option F.

  Lemma strings_all_arr_cons (x : value F) (r : list (value F)) :
    strings_all F scalar (VArr (x :: r)) = (strings_all F scalar x /\ strings_all F scalar (VArr r)).
  Proof. reflexivity. Qed.

  Lemma strings_all_obj_cons (k : str) (x : value F) (r : list (str * value F)) :
    strings_all F scalar (VObj ((k, x) :: r)) = (Forall scalar k /\ strings_all F scalar x /\ strings_all F scalar (VObj r)).
  Proof. reflexivity. Qed.

  Ltac fa_split H :=
    repeat match type of H with
           | Forall _ (_ ++ _) => apply Forall_app in H; let H1 := fresh H in destruct H as [H1 H]
           | Forall _ (_ :: _) => let H1 := fresh H in pose proof (Forall_inv H) as H1; apply Forall_inv_tail in H
           end.

  Lemma scalar_all :
    (forall t v, JValue F fparse false t v -> Forall scalar t -> strings_all F scalar v) /\
    (forall b vs, JElems F fparse false b vs -> Forall scalar b -> strings_all F scalar (VArr vs)) /\
    (forall b ms, JMembers F fparse false b ms -> Forall scalar b -> strings_all F scalar (VObj ms)).
  Proof.
    apply JValue_mutind; try (intros; exact I).
    - intros b o Hb Ht. cbn [strings_all]. apply Forall_inv_tail in Ht. apply Forall_app in Ht.
      apply (JChars_scalar b o Hb). tauto.
    - intros b vs _ IH Ht. apply IH. apply Forall_inv_tail in Ht. apply Forall_app in Ht. tauto.
    - intros b ms _ IH Ht. apply IH. apply Forall_inv_tail in Ht. apply Forall_app in Ht. tauto.
    - intros w1 t v w2 _ _ IHv _ Ht. rewrite strings_all_arr_cons. split; [|exact I].
      apply IHv. apply Forall_app in Ht. destruct Ht as [_ Ht]. apply Forall_app in Ht. tauto.
    - intros w1 t v w2 b vs _ _ IHv _ _ IHb Ht. rewrite strings_all_arr_cons.
      apply Forall_app in Ht. destruct Ht as [_ Ht]. apply Forall_app in Ht. destruct Ht as [Ht1 Ht].
      apply Forall_app in Ht. destruct Ht as [_ Ht]. apply Forall_inv_tail in Ht.
      split; [apply IHv; exact Ht1|apply IHb; exact Ht].
    - intros w1 kb k w2 w3 t v w4 _ Hk _ _ _ IHv _ Ht. rewrite strings_all_obj_cons.
      apply Forall_app in Ht. destruct Ht as [_ Ht]. apply Forall_inv_tail in Ht.
      apply Forall_app in Ht. destruct Ht as [Hkb Ht]. apply Forall_inv_tail in Ht.
      apply Forall_app in Ht. destruct Ht as [_ Ht]. apply Forall_inv_tail in Ht.
      apply Forall_app in Ht. destruct Ht as [_ Ht]. apply Forall_app in Ht. destruct Ht as [Ht1 _].
      split; [apply (JChars_scalar kb k Hk Hkb)|]. split; [apply IHv; exact Ht1|exact I].
    - intros w1 kb k w2 w3 t v w4 b ms _ Hk _ _ _ IHv _ _ IHb Ht. rewrite strings_all_obj_cons.
      apply Forall_app in Ht. destruct Ht as [_ Ht]. apply Forall_inv_tail in Ht.
      apply Forall_app in Ht. destruct Ht as [Hkb Ht]. apply Forall_inv_tail in Ht.
      apply Forall_app in Ht. destruct Ht as [_ Ht]. apply Forall_inv_tail in Ht.
      apply Forall_app in Ht. destruct Ht as [_ Ht]. apply Forall_app in Ht. destruct Ht as [Ht1 Ht].
      apply Forall_app in Ht. destruct Ht as [_ Ht]. apply Forall_inv_tail in Ht.
      split; [apply (JChars_scalar kb k Hk Hkb)|]. split; [apply IHv; exact Ht1|apply IHb; exact Ht].
  Qed.

  Theorem parse_strings_scalar (s : str) (v : value F) :
    parse fparse s = Ok v -> Forall scalar s -> strings_all F scalar v.
  Proof.
    intros H Hs. apply parse_sound in H. destruct H as [(w1 & t & w2 & -> & _ & Hv & _) _].
    apply (proj1 scalar_all t v Hv). apply Forall_app in Hs. destruct Hs as [_ Hs]. apply Forall_app in Hs. tauto.
  Qed.
End Scalars.

(* ------------------------------------------------------------------------------------------------ *)
(* the syntax does not depend on the number oracle: transfer of derivations between two oracles that accept the same
   literals; with the trivial oracle (F := unit) the relation is the pure RFC 8259 syntax *)

Definition fp_unit : str -> option unit := fun _ => Some tt.

Section Transfer.
  Variable F1 F2 : Type.
  Variable fp1 : str -> option F1.
  Variable fp2 : str -> option F2.
  Variable lone : bool.
  Hypothesis accepts : forall l x, JNumber l -> fp1 l = Some x -> exists y, fp2 l = Some y.

  Lemma transfer_all :
    (forall t v, JValue F1 fp1 lone t v -> exists v', JValue F2 fp2 lone t v' /\ depth v' = depth v) /\
    (forall b vs, JElems F1 fp1 lone b vs -> exists vs', JElems F2 fp2 lone b vs' /\ depth_list F2 vs' = depth_list F1 vs) /\
    (forall b ms, JMembers F1 fp1 lone b ms -> exists ms', JMembers F2 fp2 lone b ms' /\ depth_members F2 ms' = depth_members F1 ms).
  Proof.
    apply JValue_mutind.
    - exists VNull. split; [constructor|reflexivity].
    - exists (VBool true). split; [constructor|reflexivity].
    - exists (VBool false). split; [constructor|reflexivity].
    - intros s x Hn Hf. destruct (accepts s x Hn Hf) as (y & Hy). exists (VNum y). split; [constructor; assumption|reflexivity].
    - intros b o Hb. exists (VStr o). split; [constructor; exact Hb|reflexivity].
    - intros w Hw. exists (VArr []). split; [constructor; exact Hw|reflexivity].
    - intros b vs _ (vs' & H & Hd). exists (VArr vs'). split; [constructor; exact H|rewrite !depth_arr, Hd; reflexivity].
    - intros w Hw. exists (VObj []). split; [constructor; exact Hw|reflexivity].
    - intros b ms _ (ms' & H & Hd). exists (VObj ms'). split; [constructor; exact H|rewrite !depth_obj, Hd; reflexivity].
    - intros w1 t v w2 Hw1 _ (v' & Hv & Hd) Hw2. exists [v']. split; [constructor; assumption|].
      rewrite !depth_list_cons, Hd. reflexivity.
    - intros w1 t v w2 b vs Hw1 _ (v' & Hv & Hd) Hw2 _ (vs' & Hvs & Hds). exists (v' :: vs').
      split; [constructor; assumption|]. rewrite !depth_list_cons, Hd, Hds. reflexivity.
    - intros w1 kb k w2 w3 t v w4 Hw1 Hk Hw2 Hw3 _ (v' & Hv & Hd) Hw4. exists [(k, v')].
      split; [constructor; assumption|]. rewrite !depth_members_cons, Hd. reflexivity.
    - intros w1 kb k w2 w3 t v w4 b ms Hw1 Hk Hw2 Hw3 _ (v' & Hv & Hd) Hw4 _ (ms' & Hms & Hds). exists ((k, v') :: ms').
      split; [constructor; assumption|]. rewrite !depth_members_cons, Hd, Hds. reflexivity.
  Qed.

  Lemma transfer_text (s : str) (v : value F1) :
    JTextG F1 fp1 lone s v -> exists v', JTextG F2 fp2 lone s v' /\ depth v' = depth v.
  Proof.
    intros (w1 & t & w2 & -> & H1 & Hv & H2). destruct (proj1 transfer_all t v Hv) as (v' & Hv' & Hd).
    exists v'. split; [|exact Hd]. exists w1, t, w2. auto.
  Qed.
End Transfer.

(* accepted  <->  pure RFC 8259 syntax (no oracle: F := unit) nested no deeper than MAX_DEPTH, without unpaired surrogate
   escapes -- provided from_str accepts every literal of the RFC number grammar *)
Theorem parse_accepts_iff_pure_syntax (F : Type) (fparse : str -> option F) :
  (forall l, JNumber l -> exists x, fparse l = Some x) ->
  forall s : str,
    (exists v, parse fparse s = Ok v) <->
    ((exists u, JTextG unit fp_unit true s u /\ depth u <= MAX_DEPTH) /\ no_lone_surrogate_escape s = true).
Proof.
  intros Htot s. rewrite parse_accepts_iff_rfc. split; intros [(v & Ht & Hd) Hs]; (split; [|exact Hs]).
  - destruct (transfer_text F unit fparse fp_unit true (fun l x _ _ => ex_intro _ tt eq_refl) s v Ht) as (u & Hu & Hdu).
    exists u. split; [exact Hu|rewrite Hdu; exact Hd].
  - destruct (transfer_text unit F fp_unit fparse true (fun l x Hn _ => Htot l Hn) s v Ht) as (u & Hu & Hdu).
    exists u. split; [exact Hu|rewrite Hdu; exact Hd].
Qed.
