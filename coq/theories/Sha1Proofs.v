(* Proofs about the SHA-1 model (C18): the model of sha1.rs computes RFC 3174. *)
From Coq Require Import Lia.
From Hv Require Import Prelude BitsBE BitsBEProofs Sha1 Sha1Spec.
Open Scope N_scope.
Ltac Zify.zify_post_hook ::= Z.to_euclidean_division_equations.

Definition is_byte (x : N) : Prop := x < 256.

(* ---------- u32 operators of the code = word operations of §3 ---------- *)
Lemma wrapping_add_ADD x y : wrapping_add x y = ADD x y.
Proof. reflexivity. Qed.

Lemma rotate_left_S x n : rotate_left x n = S n x.
Proof.
  unfold rotate_left, S, OR. f_equal. change MASK32 with (N.ones 32). apply N.land_ones.
Qed.

Lemma not32_NOT x : not32 x = NOT x.
Proof. reflexivity. Qed.

Lemma ADD_swap x k w : ADD (ADD x k) w = ADD (ADD x w) k.
Proof.
  unfold ADD. rewrite !N.add_mod_idemp_l by discriminate. f_equal. lia.
Qed.

(* ---------- one round ---------- *)
Lemma round_step W st t : round st (t, nth t W 0) = step W st t.
Proof.
  destruct st as [[[[a b] c] d] e]. unfold round, step.
  rewrite !wrapping_add_ADD, !rotate_left_S, not32_NOT.
  unfold f, K.
  destruct (Nat.ltb_spec t 20); destruct (Nat.leb_spec t 19); try lia;
    [cbn [fst snd]; now rewrite ADD_swap|].
  destruct (Nat.ltb_spec t 40); destruct (Nat.leb_spec t 39); try lia;
    [cbn [fst snd]; now rewrite ADD_swap|].
  destruct (Nat.ltb_spec t 60); destruct (Nat.leb_spec t 59); try lia;
    cbn [fst snd]; now rewrite ADD_swap.
Qed.

Lemma fold_enumerate_aux : forall (l pre : list N) st,
  fold_left round (combine (seq (length pre) (length l)) l) st =
  fold_left (step (pre ++ l)) (seq (length pre) (length l)) st.
Proof.
  induction l as [|x l IH]; intros pre st; [reflexivity|].
  cbn [length seq combine fold_left].
  rewrite <- (round_step (pre ++ x :: l)). rewrite app_nth2, Nat.sub_diag by lia. cbn [nth].
  specialize (IH (pre ++ [x]) (round st (length pre, x))).
  rewrite app_length in IH. cbn [length] in IH. rewrite Nat.add_1_r in IH. rewrite <- app_assoc in IH.
  exact IH.
Qed.

Lemma fold_enumerate W st : length W = 80%nat ->
  fold_left round (enumerate W) st = fold_left (step W) (seq 0 80) st.
Proof. intro H. unfold enumerate. rewrite <- H. exact (fold_enumerate_aux W [] st). Qed.

(* ---------- vectors patched in place ---------- *)
Lemma set_nth_app W x rest v : set_nth (W ++ x :: rest) (length W) v = W ++ v :: rest.
Proof.
  unfold set_nth. rewrite firstn_app, skipn_app, Nat.sub_diag, firstn_all, firstn_O, app_nil_r.
  rewrite skipn_all2 by lia. replace (Datatypes.S (length W) - length W)%nat with 1%nat by lia.
  reflexivity.
Qed.

Lemma set_nth_length l i v : (i < length l)%nat -> length (set_nth l i v) = length l.
Proof.
  intro H. unfold set_nth. rewrite app_length. cbn [length]. rewrite firstn_length, skipn_length. lia.
Qed.

(* ---------- the in-place schedule equals the fresh sequence W(0..79) ---------- *)
Lemma extend_step_app W x rest : (16 <= length W)%nat ->
  extend_step (W ++ x :: rest) (length W) = (W ++ [W_next W]) ++ rest.
Proof.
  intro H. unfold extend_step.
  rewrite !app_nth1 by lia. rewrite set_nth_app.
  rewrite app_nth2, Nat.sub_diag by lia. cbn [nth]. rewrite set_nth_app.
  rewrite rotate_left_S. rewrite <- app_assoc. reflexivity.
Qed.

Lemma extend_fold : forall n s W stale, (16 <= length W)%nat -> (n <= length stale)%nat ->
  fold_left extend_step (seq (length W) n) (W ++ stale) =
  fold_left (fun W _ => W ++ [W_next W]) (seq s n) W ++ skipn n stale.
Proof.
  induction n as [|n IH]; intros s W stale HW Hn; [reflexivity|].
  destruct stale as [|x stale]; [cbn in Hn; lia|]. cbn [length] in Hn.
  cbn [seq fold_left skipn]. rewrite extend_step_app by assumption.
  specialize (IH (Datatypes.S s) (W ++ [W_next W]) stale).
  rewrite app_length in IH. cbn [length] in IH. rewrite Nat.add_1_r in IH.
  apply IH; lia.
Qed.

Lemma extend_schedule block stale : length block = 16%nat -> length stale = 64%nat ->
  extend (block ++ stale) = schedule block.
Proof.
  intros Hb Hs. unfold extend, schedule. rewrite <- Hb at 1.
  rewrite (extend_fold 64 16 block stale) by lia.
  rewrite skipn_all2 by lia. apply app_nil_r.
Qed.

Lemma schedule_length block : length block = 16%nat -> length (schedule block) = 80%nat.
Proof.
  intro Hb. unfold schedule.
  assert (G : forall l (W : list N), length (fold_left (fun W (_ : nat) => W ++ [W_next W]) l W) = (length W + length l)%nat).
  { induction l as [|x l IH]; intro W; cbn [fold_left length]; [lia|].
    rewrite IH, app_length. cbn [length]. lia. }
  rewrite G, seq_length. lia.
Qed.

(* ---------- the 16 words of a chunk ---------- *)
Fixpoint words_of_bytes (l : list N) : list N :=
  match l with
  | a :: b :: c :: d :: r => (((a * 256 + b) * 256 + c) * 256 + d) :: words_of_bytes r
  | _ => []
  end.

Lemma skipn_skipn {A} a b (l : list A) : skipn a (skipn b l) = skipn (b + a) l.
Proof.
  revert l. induction b as [|b IH]; intro l; [reflexivity|].
  destruct l as [|x l]; [now rewrite !skipn_nil|]. cbn [Nat.add skipn]. apply IH.
Qed.

Lemma words_of_bytes_app : forall k a b, length a = (4 * k)%nat ->
  words_of_bytes (a ++ b) = words_of_bytes a ++ words_of_bytes b.
Proof.
  induction k as [|k IH]; intros a b Ha.
  - destruct a; [reflexivity|discriminate].
  - destruct a as [|x0 [|x1 [|x2 [|x3 a]]]]; cbn [length] in Ha; try lia.
    cbn [app words_of_bytes]. f_equal. apply IH. lia.
Qed.

Lemma words_of_bytes_length : forall k a, length a = (4 * k)%nat -> length (words_of_bytes a) = k.
Proof.
  induction k as [|k IH]; intros a Ha.
  - destruct a; [reflexivity|discriminate].
  - destruct a as [|x0 [|x1 [|x2 [|x3 a]]]]; cbn [length] in Ha; try lia.
    cbn [words_of_bytes length]. f_equal. apply IH. lia.
Qed.

Lemma get_word_nth : forall i blk rest, (4 * i + 4 <= length blk)%nat ->
  get_word (blk ++ rest) (i * 4) = Ok (nth i (words_of_bytes blk) 0).
Proof.
  induction i as [|i IH]; intros blk rest H;
    destruct blk as [|x0 [|x1 [|x2 [|x3 blk]]]]; cbn [length] in H; try lia.
  - reflexivity.
  - specialize (IH blk rest ltac:(lia)). unfold get_word in *.
    change (Datatypes.S i * 4)%nat with (4 + i * 4)%nat. cbn [app Nat.add skipn words_of_bytes nth].
    exact IH.
Qed.

Lemma get_word_skip message c o : get_word message (c + o) = get_word (skipn c message) o.
Proof. unfold get_word. now rewrite skipn_skipn. Qed.

Lemma load_words_fold message cid (w : nat -> N) : forall n j pre rc,
  length pre = j -> (n <= length rc)%nat ->
  (forall i, (j <= i < j + n)%nat -> get_word message (cid * 64 + i * 4) = Ok (w i)) ->
  load_words message cid (seq j n) (pre ++ rc) = Ok (pre ++ map w (seq j n) ++ skipn n rc).
Proof.
  induction n as [|n IH]; intros j pre rc Hj Hn Hw; [reflexivity|].
  destruct rc as [|x rc]; [cbn in Hn; lia|]. cbn [length] in Hn.
  cbn [seq load_words]. rewrite Hw by lia. cbn [obind]. rewrite <- Hj, set_nth_app.
  replace (pre ++ w (length pre) :: rc) with ((pre ++ [w (length pre)]) ++ rc) by (now rewrite <- app_assoc).
  rewrite Hj. rewrite (IH (Datatypes.S j) (pre ++ [w j]) rc).
  - cbn [map skipn]. now rewrite <- app_assoc.
  - rewrite app_length. cbn [length]. lia.
  - lia.
  - intros i Hi. apply Hw. lia.
Qed.

Lemma map_nth_seq (l : list N) : map (fun i => nth i l 0) (seq 0 (length l)) = l.
Proof.
  induction l as [|x l IH]; [reflexivity|].
  cbn [length seq map nth]. f_equal. rewrite <- seq_shift, map_map. exact IH.
Qed.

Lemma load_block message cid chunk blk rest :
  length chunk = 80%nat -> skipn (cid * 64) message = blk ++ rest -> length blk = 64%nat ->
  load_words message cid (seq 0 16) chunk = Ok (words_of_bytes blk ++ skipn 16 chunk).
Proof.
  intros Hc Hm Hb.
  pose proof (load_words_fold message cid (fun i => nth i (words_of_bytes blk) 0) 16 0 [] chunk
                eq_refl ltac:(lia)) as H.
  cbn [app] in H. rewrite H.
  - pose proof (map_nth_seq (words_of_bytes blk)) as M.
    rewrite (words_of_bytes_length 16 blk Hb) in M. now rewrite M.
  - intros i Hi. rewrite get_word_skip, Hm. apply get_word_nth. lia.
Qed.

(* ---------- the loop over chunks ---------- *)
Lemma compress_process h block stale : length block = 16%nat -> length stale = 64%nat ->
  compress h (extend (block ++ stale)) = process_block h block.
Proof.
  intros Hb Hs. rewrite extend_schedule by assumption.
  unfold compress, process_block. rewrite fold_enumerate by (now apply schedule_length).
  destruct h as [[[[h0 h1] h2] h3] h4].
  destruct (fold_left (step (schedule block)) (seq 0 80) (h0, h1, h2, h3, h4)) as [[[[a b] c] d] e].
  reflexivity.
Qed.

Lemma chunks_loop_cons message cid r h chunk :
  chunks_loop message (cid :: r) h chunk =
  obind (load_words message cid (seq 0 16) chunk) (fun chunk =>
    chunks_loop message r (compress h (extend chunk)) (extend chunk)).
Proof. reflexivity. Qed.

Lemma chunks_loop_spec message : forall n c h chunk rest,
  length chunk = 80%nat -> skipn (c * 64) message = rest -> length rest = (n * 64)%nat ->
  chunks_loop message (seq c n) h chunk = Ok (fold_left process_block (groups 16 (words_of_bytes rest)) h).
Proof.
  induction n as [|n IH]; intros c h chunk rest Hc Hm Hr.
  - destruct rest; [reflexivity|discriminate].
  - change (seq c (Datatypes.S n)) with (c :: seq (Datatypes.S c) n). rewrite chunks_loop_cons.
    pose proof (firstn_skipn 64 rest) as Hsplit. set (blk := firstn 64 rest) in *. set (rest' := skipn 64 rest) in *.
    assert (Hb : length blk = 64%nat) by (subst blk; rewrite firstn_length; lia).
    rewrite (load_block message c chunk blk rest') by (assumption || now rewrite Hm).
    cbn [obind].
    assert (Hw : length (words_of_bytes blk) = 16%nat) by (now apply (words_of_bytes_length 16)).
    assert (Hs : length (skipn 16 chunk) = 64%nat) by (rewrite skipn_length; lia).
    rewrite compress_process by assumption.
    rewrite (IH (Datatypes.S c) _ _ rest').
    + rewrite <- Hsplit at 1. rewrite (words_of_bytes_app 16) by assumption.
      rewrite groups_app by (lia || assumption). cbn [fold_left]. reflexivity.
    + rewrite extend_schedule by assumption. now apply schedule_length.
    + subst rest' . rewrite <- Hm, skipn_skipn. f_equal. lia.
    + subst rest'. rewrite skipn_length. lia.
Qed.

(* ---------- padding: the patched vector is message ++ 0x80 ++ zeros ++ length ---------- *)
Lemma firstn_repeat {A} (x : A) k n : firstn k (repeat x n) = repeat x (Nat.min k n).
Proof.
  revert n. induction k as [|k IH]; intro n; [reflexivity|].
  destruct n as [|n]; [reflexivity|]. cbn [repeat firstn Nat.min]. now rewrite IH.
Qed.

Lemma skipn_repeat {A} (x : A) k n : skipn k (repeat x n) = repeat x (n - k).
Proof.
  revert n. induction k as [|k IH]; intro n; [now rewrite Nat.sub_0_r|].
  destruct n as [|n]; [reflexivity|]. cbn [repeat skipn Nat.sub]. apply IH.
Qed.

Definition padded_len (n : nat) : nat := N.to_nat (((N.of_nat n * 8 + 583) / 512) * 64).

Definition pad_bytes (m : list N) : list N :=
  let n := length m in
  m ++ [128] ++ repeat 0 (padded_len n - n - 9) ++ to_be_bytes64 (N.of_nat n * 8).

Lemma padded_len_bounds n : (n + 9 <= padded_len n < n + 9 + 64)%nat.
Proof. unfold padded_len. lia. Qed.

Lemma to_be_bytes64_length x : length (to_be_bytes64 x) = 8%nat.
Proof. reflexivity. Qed.

Lemma pad_message_ok m : N.of_nat (length m) * 8 + 583 < 2 ^ 64 -> pad_message m = Ok (pad_bytes m).
Proof.
  intro Hlen. change (2 ^ 64) with 18446744073709551616 in Hlen.
  unfold pad_message, checked.
  replace (N.of_nat (length m) * 8 <? 18446744073709551616) with true by (symmetry; apply N.ltb_lt; lia).
  cbn [obind].
  replace (N.of_nat (length m) * 8 + 583 <? 18446744073709551616) with true by (symmetry; apply N.ltb_lt; lia).
  cbn [obind]. fold (padded_len (length m)).
  pose proof (padded_len_bounds (length m)) as HB. set (ML := padded_len (length m)) in *.
  set (n := length m) in *.
  replace (ML <? n)%nat with false by (symmetry; apply Nat.ltb_ge; lia).
  replace (ML <=? n)%nat with false by (symmetry; apply Nat.leb_gt; lia).
  replace (ML <? 8)%nat with false by (symmetry; apply Nat.ltb_ge; lia).
  f_equal. unfold pad_bytes. fold n. fold ML.
  (* copy the message over the zeros *)
  assert (E1 : copy_from (repeat 0 ML) 0 m = m ++ 0 :: repeat 0 (ML - n - 1)).
  { unfold copy_from. cbn [firstn app Nat.add]. fold n. rewrite skipn_repeat.
    remember (ML - n - 1)%nat as r eqn:Er. replace (ML - n)%nat with (Datatypes.S r) by lia. reflexivity. }
  rewrite E1.
  (* the 0x80 byte *)
  assert (E2 : set_nth (m ++ 0 :: repeat 0 (ML - n - 1)) n 128 = m ++ 128 :: repeat 0 (ML - n - 1)).
  { subst n. apply set_nth_app. }
  rewrite E2.
  (* the length field over the last 8 bytes *)
  unfold copy_from. rewrite to_be_bytes64_length.
  rewrite (skipn_all2 (n := ML - 8 + 8)) by (rewrite app_length; cbn [length]; rewrite repeat_length; lia).
  rewrite app_nil_r. rewrite firstn_app. fold n.
  rewrite firstn_all2 by lia.
  replace (ML - 8 - n)%nat with (Datatypes.S (ML - n - 9)) by lia. cbn [firstn].
  rewrite firstn_repeat. replace (Nat.min (ML - n - 9) (ML - n - 1)) with (ML - n - 9)%nat by lia.
  rewrite <- app_assoc. reflexivity.
Qed.

Lemma pad_bytes_length m : length (pad_bytes m) = padded_len (length m).
Proof.
  unfold pad_bytes. pose proof (padded_len_bounds (length m)).
  rewrite !app_length, repeat_length, to_be_bytes64_length. cbn [length]. lia.
Qed.

Lemma padded_len_blocks n : padded_len n = (N.to_nat ((N.of_nat n * 8 + 583) / 512) * 64)%nat.
Proof. unfold padded_len. lia. Qed.

Lemma to_be_bytes64_bytes x : Forall is_byte (to_be_bytes64 x).
Proof.
  unfold to_be_bytes64. apply Forall_forall. intros b Hb. apply in_map_iff in Hb as (k & <- & _).
  unfold is_byte. apply N.mod_lt. discriminate.
Qed.

Lemma pad_bytes_bytes m : Forall is_byte m -> Forall is_byte (pad_bytes m).
Proof.
  intro Hm. unfold pad_bytes. repeat (apply Forall_app; split); try assumption.
  - repeat constructor.
  - apply Forall_forall. intros b Hb. apply repeat_spec in Hb. subst b. reflexivity.
  - apply to_be_bytes64_bytes.
Qed.

(* ---------- the padded octets are the padded bit string of §4 ---------- *)
Lemma flat_map_bits_length (bs : list N) : length (flat_map (bits_be 8) bs) = (8 * length bs)%nat.
Proof. induction bs as [|b bs IH]; [reflexivity|]. cbn [flat_map]. rewrite app_length, bits_be_length, IH. cbn [length]. lia. Qed.

Lemma flat_map_bits_zeros k : flat_map (bits_be 8) (repeat 0 k) = repeat false (8 * k).
Proof.
  induction k as [|k IH]; [reflexivity|]. cbn [repeat flat_map]. rewrite IH, bits_be_zero, <- repeat_app.
  f_equal. lia.
Qed.

Lemma bits_be_8_mod x : bits_be 8 (x mod 256) = bits_be 8 x.
Proof. exact (bits_be_mod 8 8 x (le_n 8)). Qed.

Lemma bits_of_be_bytes64 x : flat_map (bits_be 8) (to_be_bytes64 x) = bits_be 64 x.
Proof.
  unfold to_be_bytes64. cbn [map flat_map]. rewrite !bits_be_8_mod, app_nil_r.
  change 64%nat with (8 + (8 + (8 + (8 + (8 + (8 + (8 + 8)))))))%nat.
  rewrite !bits_be_split. change (8 * 0) with 0. rewrite N.pow_0_r, N.div_1_r.
  repeat (f_equal; []). reflexivity.
Qed.

Lemma zero_count_char l k : k < 512 -> (l + 1 + k) mod 512 = 448 -> zero_count l = k.
Proof.
  intros Hk Hmod. unfold zero_count.
  destruct (find _ _) as [j|] eqn:F.
  - apply find_some in F as [Hin Hj]. apply N.eqb_eq in Hj.
    apply in_map_iff in Hin as (jn & <- & Hjn). apply in_seq in Hjn. lia.
  - exfalso. assert (Hin : In k (map N.of_nat (seq 0 512))).
    { apply in_map_iff. exists (N.to_nat k). split; [lia|]. apply in_seq. lia. }
    pose proof (find_none _ _ F k Hin) as Hf. cbv beta in Hf. apply N.eqb_neq in Hf. contradiction.
Qed.

Lemma pad_bits_bytes m : N.of_nat (length m) * 8 + 583 < 2 ^ 64 ->
  pad_bits (flat_map (bits_be 8) m) = flat_map (bits_be 8) (pad_bytes m).
Proof.
  intro Hlen. change (2 ^ 64) with 18446744073709551616 in Hlen.
  unfold pad_bits, pad_bytes. rewrite flat_map_bits_length.
  pose proof (padded_len_bounds (length m)) as HB.
  pose proof (padded_len_blocks (length m)) as HQ.
  set (n := length m) in *. set (ML := padded_len n) in *.
  rewrite !flat_map_app. cbn [flat_map]. rewrite app_nil_r, flat_map_bits_zeros, bits_of_be_bytes64.
  rewrite (zero_count_char (N.of_nat (8 * n)) (N.of_nat (7 + 8 * (ML - n - 9)))) by lia.
  rewrite Nat2N.id.
  replace (N.of_nat (8 * n)) with (N.of_nat n * 8) by lia.
  apply f_equal. change (bits_be 8 128) with (true :: repeat false 7).
  cbn [app]. apply f_equal. rewrite app_assoc, <- repeat_app. reflexivity.
Qed.

(* ---------- 32-bit groups of the bit string = big-endian words of the octets ---------- *)
Lemma word_bits a b c d : b < 256 -> c < 256 -> d < 256 ->
  bits_be 8 a ++ bits_be 8 b ++ bits_be 8 c ++ bits_be 8 d = bits_be 32 (((a * 256 + b) * 256 + c) * 256 + d).
Proof.
  intros Hb Hc Hd. rewrite !app_assoc.
  rewrite (bits_be_join 8 8 a b) by exact Hb.
  rewrite (bits_be_join (8 + 8) 8 _ c) by exact Hc.
  rewrite (bits_be_join (8 + 8 + 8) 8 _ d) by exact Hd.
  reflexivity.
Qed.

Lemma words_of_bits_bytes : forall k bs, length bs = (4 * k)%nat -> Forall is_byte bs ->
  words_of_bits (flat_map (bits_be 8) bs) = words_of_bytes bs.
Proof.
  induction k as [|k IH]; intros bs Hl Hb.
  - destruct bs; [reflexivity|discriminate].
  - destruct bs as [|a [|b [|c [|d bs]]]]; cbn [length] in Hl; try lia.
    inversion Hb as [|? ? Ha Hb1]; subst. inversion Hb1 as [|? ? Hb' Hb2]; subst.
    inversion Hb2 as [|? ? Hc Hb3]; subst. inversion Hb3 as [|? ? Hd Hb4]; subst.
    unfold is_byte in *. cbn [flat_map words_of_bytes].
    set (R := flat_map (bits_be 8) bs).
    replace (bits_be 8 a ++ bits_be 8 b ++ bits_be 8 c ++ bits_be 8 d ++ R)
      with ((bits_be 8 a ++ bits_be 8 b ++ bits_be 8 c ++ bits_be 8 d) ++ R) by (now rewrite <- !app_assoc).
    rewrite word_bits by assumption. unfold words_of_bits.
    rewrite groups_app by (lia || apply bits_be_length). cbn [map].
    rewrite bits_be_small by (change (2 ^ N.of_nat 32) with 4294967296; lia).
    f_equal. apply IH; [lia|assumption].
Qed.

(* ---------- the 160-bit digest as 20 octets ---------- *)
Lemma digest_octets h0 h1 h2 h3 h4 :
  map val_be (groups 8 (flat_map (bits_be 32) [h0; h1; h2; h3; h4])) =
  flat_map to_be_bytes32 [h0; h1; h2; h3; h4].
Proof.
  assert (B : forall h, bits_be 32 h =
    bits_be 8 (h / 2 ^ 24) ++ bits_be 8 (h / 2 ^ 16) ++ bits_be 8 (h / 2 ^ 8) ++ bits_be 8 h).
  { intro h. change 32%nat with (8 + (8 + (8 + 8)))%nat. now rewrite !bits_be_split. }
  cbn [flat_map]. rewrite !B, <- !app_assoc.
  rewrite !groups_app by (lia || apply bits_be_length). rewrite groups_nil.
  cbn [map]. rewrite !val_be_bits_be. reflexivity.
Qed.

(* ---------- the theorem ---------- *)
Theorem sha1_model_eq_spec m :
  Forall is_byte m -> N.of_nat (length m) * 8 + 583 < 2 ^ 64 -> sha1 m = Ok (sha1_spec m).
Proof.
  intros Hb Hlen. unfold sha1. rewrite pad_message_ok by assumption. cbn [obind].
  pose proof (pad_bytes_length m) as HL. rewrite padded_len_blocks in HL.
  set (q := N.to_nat ((N.of_nat (length m) * 8 + 583) / 512)) in *.
  rewrite HL, Nat.div_mul by discriminate.
  rewrite (chunks_loop_spec (pad_bytes m) q 0 H_INIT (repeat 0 80) (pad_bytes m))
    by (reflexivity || assumption).
  cbn [obind]. unfold sha1_spec, sha1_bits.
  rewrite pad_bits_bytes by assumption.
  rewrite (words_of_bits_bytes (16 * q)) by (try (now apply pad_bytes_bytes); lia).
  change H_INIT with H_init.
  destruct (fold_left process_block (groups 16 (words_of_bytes (pad_bytes m))) H_init) as [[[[h0 h1] h2] h3] h4].
  now rewrite digest_octets.
Qed.

(* beyond that length `len * 8 + 583` overflows usize: a panic in a build with overflow checks *)
Lemma sha1_overflow m : 2 ^ 64 <= N.of_nat (length m) * 8 + 583 -> sha1 m = Crash 1.
Proof.
  intro H. change (2 ^ 64) with 18446744073709551616 in H. unfold sha1, pad_message, checked.
  destruct (N.ltb_spec (N.of_nat (length m) * 8) 18446744073709551616); [|reflexivity]. cbn [obind].
  destruct (N.ltb_spec (N.of_nat (length m) * 8 + 583) 18446744073709551616); [lia|reflexivity].
Qed.

(* the digest is always 20 octets *)
Lemma to_be_bytes32_bytes h : Forall is_byte (to_be_bytes32 h).
Proof. unfold to_be_bytes32, is_byte. repeat constructor; apply N.mod_lt; discriminate. Qed.

Lemma sha1_output m d : sha1 m = Ok d -> length d = 20%nat /\ Forall is_byte d.
Proof.
  unfold sha1. destruct (pad_message m) as [msg| |]; cbn [obind]; try discriminate.
  destruct (chunks_loop _ _ _ _) as [[[[[h0 h1] h2] h3] h4]| |]; cbn [obind]; try discriminate.
  intro H. injection H as <-. split; [reflexivity|].
  unfold is_byte. repeat (constructor; [apply N.mod_lt; discriminate|]). constructor.
Qed.

Lemma sha1_spec_output m : Forall is_byte m -> N.of_nat (length m) * 8 + 583 < 2 ^ 64 ->
  length (sha1_spec m) = 20%nat /\ Forall is_byte (sha1_spec m).
Proof. intros Hb Hl. apply (sha1_output m). now apply sha1_model_eq_spec. Qed.

(* the vector the code builds is the §4 padding of the message's bit string, a whole number of 64-byte chunks *)
Lemma sha1_padding m : N.of_nat (length m) * 8 + 583 < 2 ^ 64 ->
  exists message, pad_message m = Ok message /\
    flat_map (bits_be 8) message = pad_bits (flat_map (bits_be 8) m) /\
    (length message mod 64 = 0)%nat.
Proof.
  intros H. exists (pad_bytes m). split; [now apply pad_message_ok|]. split; [symmetry; now apply pad_bits_bytes|].
  rewrite pad_bytes_length, padded_len_blocks. apply Nat.mod_mul. discriminate.
Qed.

(* ---------- the §4 padding of the specification is well defined for every bit string ---------- *)
Lemma zero_count_spec l :
  let k := zero_count l in
  k < 512 /\ (l + 1 + k) mod 512 = 448 /\ (forall j, j < k -> (l + 1 + j) mod 512 <> 448).
Proof.
  cbv zeta. rewrite (zero_count_char l ((959 - l mod 512) mod 512)) by lia.
  split; [lia|]. split; [lia|]. intros j Hj. lia.
Qed.

Lemma pad_bits_whole_blocks msg : N.of_nat (length (pad_bits msg)) mod 512 = 0.
Proof.
  unfold pad_bits. rewrite !app_length, repeat_length, bits_be_length. cbn [length].
  destruct (zero_count_spec (N.of_nat (length msg))) as (Hk & Hm & _).
  set (k := zero_count (N.of_nat (length msg))) in *. lia.
Qed.

Lemma spec_padding_well_defined (msg : list bool) :
  let l := N.of_nat (length msg) in
  let k := zero_count l in
  k < 512 /\ (l + 1 + k) mod 512 = 448 /\ (forall j, j < k -> (l + 1 + j) mod 512 <> 448) /\
  N.of_nat (length (pad_bits msg)) mod 512 = 0.
Proof.
  cbv zeta. destruct (zero_count_spec (N.of_nat (length msg))) as (A & B & C).
  repeat split; try assumption. apply pad_bits_whole_blocks.
Qed.
