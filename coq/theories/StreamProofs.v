(* Lemmas about the scripted reader (Stream.v): results of read_exact / take(n).read_to_end depend only on the
   concatenation of the chunks (for chunkings without empty chunks). *)
From Coq Require Import Lia.
From Hv Require Import Prelude Stream.
Open Scope N_scope.

(* ---- blen ---- *)
Lemma blen_app (a b : bytes) : blen (a ++ b) = blen a + blen b.
Proof. unfold blen. rewrite app_length. lia. Qed.

Lemma blen_nil_iff (l : bytes) : blen l = 0 <-> l = [].
Proof. unfold blen. destruct l; cbn; split; intro H; try reflexivity; try discriminate; lia. Qed.

Lemma blen_cons x (l : bytes) : blen (x :: l) = 1 + blen l.
Proof. unfold blen. cbn [length]. lia. Qed.

Lemma blen_firstn (n : N) (l : bytes) : n <= blen l -> blen (firstn (N.to_nat n) l) = n.
Proof. unfold blen. intro H. rewrite firstn_length. lia. Qed.

Lemma blen_skipn (n : N) (l : bytes) : blen (skipn (N.to_nat n) l) = blen l - n.
Proof. unfold blen. rewrite skipn_length. lia. Qed.

Lemma total_len_cons c cs : total_len (c :: cs) = blen c + total_len cs.
Proof. unfold total_len. cbn [concat]. apply blen_app. Qed.

Lemma wf_chunksb_spec cs : wf_chunksb cs = true <-> wf_chunks cs.
Proof.
  unfold wf_chunksb, wf_chunks. rewrite forallb_forall, Forall_forall.
  split; intros H c Hc; specialize (H c Hc); destruct c; congruence.
Qed.

(* ---- take_exact (flat) ---- *)
Lemma take_exact_0 l : take_exact 0 l = Some ([], l).
Proof. unfold take_exact. destruct (blen l <? 0) eqn:E; [apply N.ltb_lt in E; lia|reflexivity]. Qed.

Lemma take_exact_app a r : take_exact (blen a) (a ++ r) = Some (a, r).
Proof.
  unfold take_exact. rewrite blen_app.
  destruct (blen a + blen r <? blen a) eqn:E; [apply N.ltb_lt in E; lia|].
  unfold blen. rewrite Nat2N.id, firstn_app, skipn_app, Nat.sub_diag, firstn_all, skipn_all. cbn.
  now rewrite app_nil_r.
Qed.

Lemma take_exact_app' n a r : blen a = n -> take_exact n (a ++ r) = Some (a, r).
Proof. intros <-. apply take_exact_app. Qed.

Lemma take_exact_some n l b r : take_exact n l = Some (b, r) -> l = b ++ r /\ blen b = n.
Proof.
  unfold take_exact. destruct (blen l <? n) eqn:E; [discriminate|]. apply N.ltb_ge in E.
  intros [= <- <-]. split; [now rewrite firstn_skipn | now apply blen_firstn].
Qed.

Lemma take_exact_none n l : take_exact n l = None <-> blen l < n.
Proof.
  unfold take_exact. destruct (blen l <? n) eqn:E.
  - apply N.ltb_lt in E. tauto.
  - apply N.ltb_ge in E. split; [discriminate | lia].
Qed.

Lemma take_exact_some_iff n l b r : take_exact n l = Some (b, r) <-> (l = b ++ r /\ blen b = n).
Proof.
  split; [apply take_exact_some|]. intros [-> <-]. apply take_exact_app.
Qed.

(* shifting a take over a consumed first chunk *)
Lemma take_exact_skip_chunk n c x :
  blen c <= n ->
  take_exact n (c ++ x) =
  match take_exact (n - blen c) x with Some (b, r) => Some (c ++ b, r) | None => None end.
Proof.
  intro Hle. destruct (take_exact (n - blen c) x) as [[b r]|] eqn:E.
  - apply take_exact_some in E as [-> Hb]. rewrite app_assoc. apply take_exact_app'. rewrite blen_app. lia.
  - apply take_exact_none in E. apply take_exact_none. rewrite blen_app. lia.
Qed.

Lemma take_exact_within_chunk n c x :
  n < blen c ->
  take_exact n (c ++ x) = Some (firstn (N.to_nat n) c, skipn (N.to_nat n) c ++ x).
Proof.
  intro Hlt. rewrite <- (firstn_skipn (N.to_nat n) c) at 1. rewrite <- app_assoc.
  apply take_exact_app'. apply blen_firstn. lia.
Qed.

(* ---- read_exact refines take_exact on the concatenation ---- *)
Lemma read_exact_flat cs : forall n, wf_chunks cs ->
  match read_exact n cs with
  | Some (b, cs') => take_exact n (concat cs) = Some (b, concat cs') /\ wf_chunks cs'
  | None => take_exact n (concat cs) = None
  end.
Proof.
  induction cs as [|c cs IH]; intros n W; cbn [read_exact]; destruct (n =? 0) eqn:E0.
  - apply N.eqb_eq in E0. subst n. now rewrite take_exact_0.
  - apply N.eqb_neq in E0. apply take_exact_none. cbn. lia.
  - apply N.eqb_eq in E0. subst n. now rewrite take_exact_0.
  - apply N.eqb_neq in E0. inversion W as [|? ? Hc W']; subst. cbn [concat].
    assert (Hl : blen c <> 0) by (now rewrite blen_nil_iff).
    destruct (blen c =? 0) eqn:El; [apply N.eqb_eq in El; contradiction|].
    destruct (n <? blen c) eqn:En.
    + apply N.ltb_lt in En. split.
      * now apply take_exact_within_chunk.
      * constructor; [|assumption]. intro Hs. apply blen_nil_iff in Hs. rewrite blen_skipn in Hs. lia.
    + apply N.ltb_ge in En. rewrite (take_exact_skip_chunk n c (concat cs) En).
      specialize (IH (n - blen c) W').
      destruct (read_exact (n - blen c) cs) as [[b r]|].
      * destruct IH as [-> Wr]. now split.
      * now rewrite IH.
Qed.

(* The two statements of the brief: results depend only on the concatenation. *)
Lemma read_exact_some n cs b cs' :
  wf_chunks cs -> read_exact n cs = Some (b, cs') ->
  b = firstn (N.to_nat n) (concat cs) /\ concat cs' = skipn (N.to_nat n) (concat cs) /\
  blen b = n /\ concat cs = b ++ concat cs' /\ wf_chunks cs'.
Proof.
  intros W H. pose proof (read_exact_flat cs n W) as F. rewrite H in F. destruct F as [F W'].
  pose proof (take_exact_some _ _ _ _ F) as [Hc Hb].
  unfold take_exact in F. destruct (blen (concat cs) <? n); [discriminate|]. injection F as F1 F2.
  repeat split; auto.
Qed.

Lemma read_exact_none n cs : wf_chunks cs -> (read_exact n cs = None <-> total_len cs < n).
Proof.
  intro W. pose proof (read_exact_flat cs n W) as F. unfold total_len. split.
  - intro H. rewrite H in F. now apply take_exact_none.
  - intro H. destruct (read_exact n cs) as [[b r]|]; [|reflexivity].
    destruct F as [F _]. apply take_exact_none in H. congruence.
Qed.

Lemma read_exact_app n cs a r :
  wf_chunks cs -> concat cs = a ++ r -> blen a = n ->
  exists cs', read_exact n cs = Some (a, cs') /\ concat cs' = r /\ wf_chunks cs'.
Proof.
  intros W Hc Hn. pose proof (read_exact_flat cs n W) as F. rewrite Hc, (take_exact_app' n a r Hn) in F.
  destruct (read_exact n cs) as [[b cs']|]; [|discriminate].
  destruct F as [F W']. injection F as Hb Hr. subst b. exists cs'. auto.
Qed.

(* ---- take(n).read_to_end ---- *)
Lemma read_take_flat cs : forall n, wf_chunks cs ->
  let '(b, cs') := read_take n cs in
  (b, concat cs') = take_upto n (concat cs) /\ wf_chunks cs'.
Proof.
  induction cs as [|c cs IH]; intros n W; cbn [read_take]; destruct (n =? 0) eqn:E0.
  - apply N.eqb_eq in E0. subst n. now split.
  - split; [|constructor]. unfold take_upto. cbn. now rewrite firstn_nil, skipn_nil.
  - apply N.eqb_eq in E0. subst n. now split.
  - apply N.eqb_neq in E0. inversion W as [|? ? Hc W']; subst. cbn [concat].
    assert (Hl : blen c <> 0) by (now rewrite blen_nil_iff).
    destruct (blen c =? 0) eqn:El; [apply N.eqb_eq in El; contradiction|].
    destruct (n <? blen c) eqn:En.
    + apply N.ltb_lt in En. split.
      * unfold take_upto. cbn [concat]. unfold blen in En.
        rewrite firstn_app, skipn_app.
        replace (N.to_nat n - length c)%nat with 0%nat by lia. cbn. now rewrite app_nil_r.
      * constructor; [|assumption]. intro Hs. apply blen_nil_iff in Hs. rewrite blen_skipn in Hs. lia.
    + apply N.ltb_ge in En. specialize (IH (n - blen c) W').
      destruct (read_take (n - blen c) cs) as [b r]. destruct IH as [IH Wr]. split; [|assumption].
      unfold take_upto in *. injection IH as -> ->. unfold blen in *.
      rewrite firstn_app, skipn_app.
      replace (N.to_nat (n - N.of_nat (length c))) with (N.to_nat n - length c)%nat by lia.
      rewrite (firstn_all2 c) by lia. rewrite (skipn_all2 c) by lia. reflexivity.
Qed.

Lemma read_take_spec n cs b cs' :
  wf_chunks cs -> read_take n cs = (b, cs') ->
  b = firstn (N.to_nat n) (concat cs) /\ concat cs' = skipn (N.to_nat n) (concat cs) /\ wf_chunks cs'.
Proof.
  intros W H. pose proof (read_take_flat cs n W) as F. rewrite H in F. destruct F as [F W'].
  unfold take_upto in F. injection F as -> ->. auto.
Qed.

(* read_to_end under a limit followed by the count check = read_exact, on the result *)
Lemma read_take_exact n cs :
  wf_chunks cs ->
  let '(b, cs') := read_take n cs in
  if blen b =? n then take_exact n (concat cs) = Some (b, concat cs') /\ wf_chunks cs'
  else take_exact n (concat cs) = None.
Proof.
  intro W. pose proof (read_take_flat cs n W) as F. destruct (read_take n cs) as [b cs'].
  destruct F as [F W']. unfold take_upto in F. injection F as -> Hc.
  unfold take_exact. destruct (blen (firstn (N.to_nat n) (concat cs)) =? n) eqn:E.
  - apply N.eqb_eq in E. unfold blen in E. rewrite firstn_length in E.
    destruct (blen (concat cs) <? n) eqn:E2; [apply N.ltb_lt in E2; unfold blen in E2; lia|].
    split; [now rewrite Hc | assumption].
  - apply N.eqb_neq in E. unfold blen in E. rewrite firstn_length in E.
    destruct (blen (concat cs) <? n) eqn:E2; [reflexivity|]. apply N.ltb_ge in E2. unfold blen in E2. lia.
Qed.

(* no well-formedness needed: what is read never exceeds what the source holds, nor the limit *)
Lemma read_take_len cs : forall n, blen (fst (read_take n cs)) <= total_len cs /\ blen (fst (read_take n cs)) <= n.
Proof.
  induction cs as [|c cs IH]; intro n; cbn [read_take]; destruct (n =? 0) eqn:E0; cbn [fst].
  - unfold blen, total_len. cbn. lia.
  - unfold blen, total_len. cbn. lia.
  - unfold blen, total_len. cbn. lia.
  - apply N.eqb_neq in E0. rewrite total_len_cons.
    destruct (blen c =? 0) eqn:El; [unfold blen; cbn; lia|].
    destruct (n <? blen c) eqn:En; cbn [fst].
    + apply N.ltb_lt in En. rewrite blen_firstn by lia. lia.
    + apply N.ltb_ge in En. specialize (IH (n - blen c)).
      destruct (read_take (n - blen c) cs) as [b r]. cbn [fst] in *. rewrite blen_app. lia.
Qed.

Lemma read_exact_len cs : forall n b r, read_exact n cs = Some (b, r) -> blen b = n.
Proof.
  induction cs as [|c cs IH]; intros n b r; cbn [read_exact]; destruct (n =? 0) eqn:E0.
  - apply N.eqb_eq in E0. now intros [= <- <-].
  - discriminate.
  - apply N.eqb_eq in E0. now intros [= <- <-].
  - destruct (blen c =? 0); [discriminate|].
    destruct (n <? blen c) eqn:En.
    + apply N.ltb_lt in En. intros [= <- <-]. apply blen_firstn. lia.
    + apply N.ltb_ge in En. destruct (read_exact (n - blen c) cs) as [[b' r']|] eqn:E; [|discriminate].
      intros [= <- <-]. rewrite blen_app, (IH _ _ _ E). lia.
Qed.

(* one read() call: the bytes returned plus what is left are the original stream *)
Lemma read_concat n cs d cs' : read n cs = (d, cs') -> concat cs = d ++ concat cs'.
Proof.
  unfold read. destruct (n =? 0); [now intros [= <- <-]|].
  destruct cs as [|c cs0]; [now intros [= <- <-]|].
  destruct (blen c <=? n); intros [= <- <-]; cbn [concat]; [reflexivity|].
  now rewrite app_assoc, firstn_skipn.
Qed.

(* every chunking of the same bytes: the canonical ones used in examples and by the correspondence plans *)
Definition one_chunk (l : bytes) : chunks := match l with [] => [] | _ => [l] end.
Definition bytewise (l : bytes) : chunks := map (fun x => [x]) l.

Lemma one_chunk_wf l : wf_chunks (one_chunk l) /\ concat (one_chunk l) = l.
Proof. destruct l; cbn; split; try constructor; try discriminate; try constructor. now rewrite app_nil_r. Qed.

Lemma bytewise_wf l : wf_chunks (bytewise l) /\ concat (bytewise l) = l.
Proof.
  induction l as [|x l [IH1 IH2]]; cbn [bytewise map concat]; split; try constructor; try discriminate; try assumption.
  cbn [app]. f_equal. exact IH2.
Qed.

(* without any well-formedness: a successful read_exact splits the stream *)
Lemma read_exact_concat cs : forall n b r, read_exact n cs = Some (b, r) -> concat cs = b ++ concat r.
Proof.
  induction cs as [|c cs IH]; intros n b r; cbn [read_exact]; destruct (n =? 0) eqn:E0.
  - now intros [= <- <-].
  - discriminate.
  - now intros [= <- <-].
  - destruct (blen c =? 0); [discriminate|].
    destruct (n <? blen c).
    + intros [= <- <-]. cbn [concat]. now rewrite app_assoc, firstn_skipn.
    + destruct (read_exact (n - blen c) cs) as [[b' r']|] eqn:E; [|discriminate].
      intros [= <- <-]. cbn [concat]. rewrite (IH _ _ _ E). now rewrite app_assoc.
Qed.

Lemma read_exact_total cs n b r : read_exact n cs = Some (b, r) -> total_len cs = n + total_len r.
Proof.
  intro H. unfold total_len. rewrite (read_exact_concat _ _ _ _ H), blen_app, (read_exact_len _ _ _ _ H). reflexivity.
Qed.

(* ---- a read that returns 0 bytes is EOF: what follows an empty chunk is never looked at ---- *)
Lemma read_exact_eof_app cs1 cs2 : forall n,
  read_exact n (cs1 ++ [] :: cs2) =
  match read_exact n cs1 with Some (b, r) => Some (b, r ++ [] :: cs2) | None => None end.
Proof.
  induction cs1 as [|c cs1 IH]; intro n; cbn [app read_exact]; destruct (n =? 0) eqn:E0; try reflexivity.
  destruct (blen c =? 0); [reflexivity|]. destruct (n <? blen c); [reflexivity|].
  rewrite IH. destruct (read_exact (n - blen c) cs1) as [[b r]|]; reflexivity.
Qed.

Lemma read_take_eof_app cs1 cs2 : forall n,
  fst (read_take n (cs1 ++ [] :: cs2)) = fst (read_take n cs1) /\
  (blen (fst (read_take n cs1)) = n -> snd (read_take n (cs1 ++ [] :: cs2)) = snd (read_take n cs1) ++ [] :: cs2).
Proof.
  induction cs1 as [|c cs1 IH]; intro n; cbn [app read_take]; destruct (n =? 0) eqn:E0; cbn [fst snd]; try (split; reflexivity).
  - apply N.eqb_neq in E0. cbn [blen length N.of_nat N.eqb fst snd]. split; [reflexivity|]. unfold blen. cbn. lia.
  - apply N.eqb_neq in E0.
    destruct (blen c =? 0); [cbn [fst snd]; split; reflexivity|].
    destruct (n <? blen c) eqn:En; [cbn [fst snd]; split; reflexivity|]. apply N.ltb_ge in En.
    specialize (IH (n - blen c)).
    destruct (read_take (n - blen c) (cs1 ++ [] :: cs2)) as [b1 r1], (read_take (n - blen c) cs1) as [b2 r2].
    cbn [fst snd] in *. destruct IH as [-> IH2]. split; [reflexivity|]. rewrite blen_app. intro H. apply IH2. lia.
Qed.
