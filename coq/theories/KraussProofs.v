(* Proofs about the wildcard matcher model (C05). *)
From Coq Require Import Lia.
From Hv Require Import Prelude Krauss.
Open Scope N_scope.
Arguments N.eqb : simpl never.

(* ---- spec lemmas ---- *)
Definition starfree (l : list N) := Forall (fun c => c <> star) l.

Lemma glob_star_nil p t : Glob p t -> Glob (star :: p) t.
Proof. intro H. apply (g_star p [] t H). Qed.

Lemma glob_star_inv p s0 : Glob (star :: p) s0 <-> exists u t, s0 = u ++ t /\ Glob p t.
Proof.
  split.
  - intro H. inversion H; subst. + eauto. + congruence.
  - intros (u & t & -> & H). now constructor.
Qed.

Lemma glob_chr_inv c p s0 : c <> star -> (Glob (c :: p) s0 <-> exists t, s0 = c :: t /\ Glob p t).
Proof.
  intro Hc. split.
  - intro H. inversion H; subst; [congruence | eauto].
  - intros (t & -> & H). now constructor.
Qed.

Lemma glob_nil_inv s0 : Glob [] s0 <-> s0 = [].
Proof. split. - intro H; now inversion H. - intros ->; constructor. Qed.

Lemma glob_lit l p s0 : starfree l -> (Glob (l ++ p) s0 <-> exists t, s0 = l ++ t /\ Glob p t).
Proof.
  intro Hl. revert s0. induction Hl as [|c l Hc Hl IH]; intro s0; cbn [app].
  - split; [eauto | now intros (t & -> & H)].
  - rewrite glob_chr_inv by assumption. split.
    + intros (t & -> & H). apply IH in H as (t' & -> & H). eauto.
    + intros (t & -> & H). exists (l ++ t). split; [reflexivity|]. apply IH. eauto.
Qed.

(* a suffix absorbs into a leading star *)
Lemma glob_star_suffix p u t : Glob (star :: p) t -> Glob (star :: p) (u ++ t).
Proof.
  rewrite !glob_star_inv. intros (u' & t' & -> & H). exists (u ++ u'), t'. now rewrite app_assoc.
Qed.

Lemma app_suffix {A} (a l t r : list A) : a ++ r = l ++ t -> (length l <= length a)%nat -> exists v, t = v ++ r.
Proof.
  revert l. induction a as [|x a IH]; intros l E Hlen.
  - destruct l; [|cbn in Hlen; lia]. cbn in E. subst. now exists [].
  - destruct l as [|y l].
    + cbn in E. subst. now exists (x :: a).
    + cbn in E. injection E as -> E. apply (IH l E). cbn in Hlen. lia.
Qed.

Lemma glob_len_lit l p r : starfree l -> Glob (star :: l ++ p) r -> (length l <= length r)%nat.
Proof.
  intros Hl H. apply glob_star_inv in H as (u & t & -> & H).
  apply glob_lit in H as (t' & -> & _); [|assumption]. rewrite !app_length. lia.
Qed.

Lemma glob_star_cons p c t : Glob (star :: p) (c :: t) -> Glob p (c :: t) \/ Glob (star :: p) t.
Proof.
  intro G. apply glob_star_inv in G as (u & t0 & E & G). destruct u as [|y u].
  - left. now rewrite E.
  - right. cbn in E. injection E as _ ->. now constructor.
Qed.

Definition Alt (bt : option (list N * list N)) : Prop :=
  match bt with
  | Some (bw, btt) => exists x r, btt = x :: r /\ Glob (star :: bw) r
  | None => False
  end.
Definition Answer w t bt := Glob w t \/ Alt bt.
Definition Inv (w t : list N) (bt : option (list N * list N)) : Prop :=
  match bt with
  | None => True
  | Some (bw, btt) => exists l, starfree l /\ bw = l ++ w /\ btt = l ++ t
  end.

Lemma neq_star c : (c =? star) = false -> c <> star.
Proof. intro H. now apply N.eqb_neq. Qed.

Lemma wm_nil f w bt b : wm f w [] bt = Some b -> (b = true <-> Glob w []).
Proof.
  revert w bt. induction f as [|f IH]; intros w bt H; [discriminate|].
  cbn [wm] in H. destruct w as [|c w'].
  - injection H as <-. split; [constructor|reflexivity].
  - destruct (c =? star) eqn:E.
    + apply N.eqb_eq in E. subst c. apply IH in H. rewrite H. split.
      * apply glob_star_nil.
      * intro G. apply glob_star_inv in G as (u & t & E & G). destruct u, t; try discriminate. assumption.
    + injection H as <-. split; [discriminate|]. intro G. apply neq_star in E.
      apply glob_chr_inv in G as (t & E' & _); [discriminate|assumption].
Qed.

Lemma alt_nil_false w bt : Inv w [] bt -> ~ Alt bt.
Proof.
  destruct bt as [[bw btt]|]; cbn; [|tauto].
  intros (l & Hl & -> & ->) (x & r & E & G). rewrite app_nil_r in E. subst l.
  apply glob_len_lit in G; [|assumption]. cbn in G. lia.
Qed.

Theorem wm_correct f : forall w t bt b, Inv w t bt -> wm f w t bt = Some b -> (b = true <-> Answer w t bt).
Proof.
  induction f as [|f IH]; intros w t bt b HI H; [discriminate|].
  destruct t as [|tc t'].
  - pose proof (wm_nil _ _ _ _ H) as W. unfold Answer. rewrite W.
    pose proof (alt_nil_false _ _ HI). tauto.
  - cbn [wm] in H.
    assert (BT : forall b, backtrack (wm f) bt = Some b -> ~ Glob w (tc :: t') -> (b = true <-> Answer w (tc :: t') bt)).
    { intros b0 Hb NG. unfold Answer. destruct bt as [[bw btt]|]; cbn [backtrack] in Hb.
      - destruct btt as [|x r].
        + exfalso. destruct HI as (l & _ & _ & E). destruct l; discriminate.
        + cbn [tl] in Hb. destruct HI as (l & Hl & -> & E).
          apply IH in Hb; [|exists []; repeat split; constructor].
          rewrite Hb. unfold Answer. cbn [Alt]. split.
          * intros [G|(y & r' & -> & G)].
            -- right. exists x, r. split; [reflexivity|]. now apply glob_star_nil.
            -- right. exists x, (y :: r'). split; [reflexivity|]. now apply (glob_star_suffix _ [y]).
          * intros [G|(y & r' & E' & G)]; [tauto|]. injection E' as <- <-.
            apply glob_star_inv in G as (u & t0 & -> & G). destruct u as [|y u].
            -- now left.
            -- right. exists y, (u ++ t0). split; [reflexivity|]. now constructor.
      - injection Hb as <-. cbn. split; [discriminate|tauto]. }
    destruct w as [|c w'].
    + apply BT; [assumption|]. intro G. apply glob_nil_inv in G. discriminate.
    + destruct (c =? star) eqn:Es.
      * apply N.eqb_eq in Es. subst c.
        apply IH in H; [|exists []; repeat split; constructor].
        rewrite H. unfold Answer. cbn [Alt]. split.
        -- intros [G|(x & r & E & G)].
           ++ left. now apply glob_star_nil.
           ++ injection E as <- <-. left. now apply (glob_star_suffix _ [tc]).
        -- intros [G|A].
           ++ apply glob_star_inv in G as (u & t0 & E & G). destruct u as [|y u].
              ** left. now rewrite E.
              ** cbn in E. injection E as E1 E2. right. exists y, (u ++ t0). split; [now rewrite E1, E2|]. now constructor.
           ++ destruct bt as [[bw btt]|]; cbn in A; [|tauto].
              destruct A as (x & r & E & G). destruct HI as (l & Hl & -> & E2).
              apply glob_star_inv in G as (u & r' & -> & G).
              apply glob_lit in G as (r'' & -> & G); [|assumption].
              assert (exists v, tc :: t' = v ++ r'') as (v & Ev).
              { apply (app_suffix ((x :: u) ++ l) l). - rewrite <- E2, E. cbn. now rewrite <- app_assoc.
                - rewrite app_length. cbn. lia. }
              assert (G2 : Glob (star :: w') (tc :: t')) by (rewrite Ev; now apply glob_star_suffix).
              apply glob_star_cons in G2 as [G2|G2]; [now left|right; eauto].
      * apply neq_star in Es. destruct (c =? tc) eqn:Ec.
        -- apply N.eqb_eq in Ec. subst tc.
           apply IH in H.
           ++ rewrite H. unfold Answer. rewrite (glob_chr_inv c w' (c :: t')) by assumption. split.
              ** intros [G|A]; [left; eauto|now right].
              ** intros [(t0 & E & G)|A]; [left; now injection E as <-|now right].
           ++ destruct bt as [[bw btt]|]; cbn; [|trivial].
              destruct HI as (l & Hl & -> & ->). exists (l ++ [c]). repeat split.
              ** apply Forall_app. split; [assumption|]. now constructor.
              ** now rewrite <- app_assoc.
              ** now rewrite <- app_assoc.
        -- apply BT; [assumption|]. intro G. apply glob_chr_inv in G as (t0 & E & _); [|assumption].
           injection E as E _. apply N.eqb_neq in Ec. congruence.
Qed.

(* ---- fuel sufficiency ---- *)
Definition first (t : list N) (bt : option (list N * list N)) : nat :=
  match bt with Some (_, btt) => length btt | None => S (length t) end.
Definition LenInv (W T : nat) (w t : list N) (bt : option (list N * list N)) : Prop :=
  (length w <= W /\ length t <= T)%nat /\
  match bt with Some (bw, btt) => (length bw <= W /\ length btt <= T /\ length t <= length btt)%nat | None => True end.

Lemma wm_fuel W T : forall f w t bt, LenInv W T w t bt ->
  (first t bt * (W + T + 1) + (length w + length t) < f)%nat -> wm f w t bt <> None.
Proof.
  induction f as [|f IH]; intros w t bt HL Hf; [lia|].
  destruct HL as [[Hw Ht] Hb].
  assert (BT : forall tc t', t = tc :: t' -> backtrack (wm f) bt <> None).
  { intros tc t' ->. destruct bt as [[bw btt]|]; cbn [backtrack]; [|discriminate].
    destruct Hb as (Hbw & Hbt & Hle). destruct btt as [|x r]; [cbn [length] in Hle; lia|]. cbn [length tl] in *.
    apply IH.
    - repeat split; cbn; lia.
    - cbn [first length] in *. nia. }
  cbn [wm]. destruct t as [|tc t'].
  - destruct w as [|c w']; [discriminate|]. destruct (c =? star); [|discriminate].
    apply IH.
    + repeat split; cbn [length] in *; try lia. destruct bt as [[bw btt]|]; [|trivial]. cbn [length] in *. lia.
    + destruct bt as [[bw btt]|]; cbn [first length] in *; lia.
  - destruct w as [|c w']; [eapply BT; reflexivity|].
    destruct (c =? star).
    + apply IH.
      * repeat split; cbn [length] in *; lia.
      * destruct bt as [[bw btt]|]; cbn [first length] in *; [destruct Hb as (? & ? & ?)|]; nia.
    + destruct (c =? tc); [|eapply BT; reflexivity].
      apply IH.
      * repeat split; cbn [length] in *; try lia. destruct bt as [[bw btt]|]; [|trivial]. cbn [length] in *. lia.
      * destruct bt as [[bw btt]|]; cbn [first length] in *; nia.
Qed.

Theorem wildcard_match_opt_spec w t :
  exists b, wildcard_match_opt w t = Some b /\ (b = true <-> Glob w t).
Proof.
  unfold wildcard_match_opt, wm_fuel_for.
  destruct (wm _ w t None) as [b|] eqn:E.
  - exists b. split; [reflexivity|]. apply wm_correct in E; [|exact I]. rewrite E. unfold Answer. cbn. tauto.
  - exfalso. revert E. apply (wm_fuel (length w) (length t)).
    + repeat split; lia.
    + cbn [first]. nia.
Qed.


Theorem wildcard_match_spec w t : wildcard_match w t = true <-> Glob w t.
Proof.
  unfold wildcard_match. destruct (wildcard_match_opt_spec w t) as (b & -> & H). exact H.
Qed.

(* the fuel is never exhausted: the loop terminates on every input *)
Theorem wildcard_match_terminates w t : wildcard_match_opt w t <> None.
Proof. destruct (wildcard_match_opt_spec w t) as (b & -> & _). discriminate. Qed.

(* ---- the executable reference agrees with the relation ---- *)
Lemma globb_go p' (IH : forall t, globb p' t = true <-> Glob p' t) t :
  (fix go (t : list N) : bool := globb p' t || match t with [] => false | _ :: t' => go t' end) t = true
  <-> Glob (star :: p') t.
Proof.
  induction t as [|x t IHt].
  - rewrite orb_false_r, IH. split; [apply glob_star_nil|].
    intro G. apply glob_star_inv in G as (u & t0 & E & G). destruct u, t0; try discriminate. assumption.
  - rewrite orb_true_iff, IH, IHt. split.
    + intros [G|G]; [now apply glob_star_nil|now apply (glob_star_suffix _ [x])].
    + apply glob_star_cons.
Qed.

Theorem globb_spec p : forall t, globb p t = true <-> Glob p t.
Proof.
  induction p as [|c p' IH]; intro t.
  - cbn [globb]. rewrite glob_nil_inv. destruct t; split; congruence.
  - cbn [globb]. destruct (c =? star) eqn:Es.
    + apply N.eqb_eq in Es. subst c. now apply globb_go.
    + apply neq_star in Es. rewrite glob_chr_inv by assumption. destruct t as [|x t'].
      * split; [discriminate|]. intros (t0 & E & _). discriminate.
      * rewrite andb_true_iff, N.eqb_eq, IH. split.
        -- intros [-> G]. eauto.
        -- intros (t0 & E & G). injection E as -> ->. tauto.
Qed.

Corollary wildcard_match_globb w t : wildcard_match w t = globb w t.
Proof.
  apply eq_true_iff_eq. rewrite wildcard_match_spec, globb_spec. tauto.
Qed.

(* ---- the loop as it stood before fix F02 does not satisfy the specification ---- *)
Theorem wildcard_old_refuted :
  exists w t, Glob w t /\ wildcard_match_old w t = Some false.
Proof.
  exists [42; 97; 97; 98], [97; 97; 97; 98]. split.
  - apply globb_spec. vm_compute. reflexivity.
  - vm_compute. reflexivity.
Qed.

Theorem wildcard_old_refuted_star_text :
  exists w t, Glob w t /\ wildcard_match_old w t = Some false.
Proof.
  exists [42; 98], [42; 97; 98]. split.
  - apply globb_spec. vm_compute. reflexivity.
  - vm_compute. reflexivity.
Qed.
