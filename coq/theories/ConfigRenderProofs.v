(* C15, tree layer: parsing the rendering of a decorated item tree gives back the tree it describes (for every layout),
   and a single bad line is reported with its file and line number. *)
From Coq Require Import Lia.
From Hv Require Import Prelude Bytes TablesConfig Config ConfigProofs ConfigSpec.
Open Scope N_scope.

(* ================================================================================================
   A. lines of a rendered file
   ================================================================================================ *)
Definition line_okb (l : bytes) : bool := forallb (fun b => negb (b =? 10) && negb (b =? 13)) l.

Lemma lines_one : forall crlf l rest, line_okb l = true -> lines (l ++ eol crlf ++ rest) = l :: lines rest.
Proof.
  intros crlf. induction l as [|b l IH]; intros rest H.
  - destruct crlf; reflexivity.
  - cbn [line_okb forallb] in H. apply andb_true_iff in H. destruct H as [Hb Hl].
    apply andb_true_iff in Hb. destruct Hb as [H10 H13].
    apply negb_true_iff in H10, H13.
    cbn [app lines]. rewrite H10, H13. cbn [andb]. rewrite (IH rest Hl). reflexivity.
Qed.

Lemma lines_file_text : forall crlf ls tail, Forall (fun l => line_okb l = true) ls ->
  lines (file_text crlf ls ++ tail) = ls ++ lines tail.
Proof.
  intros crlf ls tail H. induction H as [|l ls Hl Hls IH]; [reflexivity|].
  unfold file_text in *. cbn [flat_map]. rewrite <- !app_assoc. rewrite lines_one by exact Hl.
  rewrite IH. reflexivity.
Qed.

(* ================================================================================================
   B. trimming and comment stripping of a decorated line
   ================================================================================================ *)

(* the pattern match on byte literals in ws_prefix_len, as boolean tests *)
Lemma ws_prefix_len_eq : forall b r, ws_prefix_len (b :: r) =
  if (b =? 32) || ((9 <=? b) && (b <=? 13)) then 1%nat
  else if b =? 194 then match r with c :: _ => if (c =? 133) || (c =? 160) then 2%nat else 0%nat | [] => 0%nat end
  else if b =? 225 then match r with c1 :: c2 :: _ => if (c1 =? 154) && (c2 =? 128) then 3%nat else 0%nat | _ => 0%nat end
  else if b =? 226 then
    match r with
    | c1 :: c2 :: _ =>
      if (c1 =? 128) && (((128 <=? c2) && (c2 <=? 138)) || (c2 =? 168) || (c2 =? 169) || (c2 =? 175)) then 3%nat
      else if (c1 =? 129) && (c2 =? 159) then 3%nat else 0%nat
    | _ => 0%nat
    end
  else if b =? 227 then match r with c1 :: c2 :: _ => if (c1 =? 128) && (c2 =? 128) then 3%nat else 0%nat | _ => 0%nat end
  else 0%nat.
Proof.
  intros b r. unfold ws_prefix_len.
  destruct ((b =? 32) || ((9 <=? b) && (b <=? 13))); [reflexivity|].
  destruct b as [|p]; [reflexivity|].
  do 8 (destruct p as [p|p|]; try reflexivity).
Qed.

Lemma visb_range : forall b, visb b = true <-> 33 <= b <= 126.
Proof. intros b. unfold visb. rewrite andb_true_iff, !N.leb_le. reflexivity. Qed.

Lemma ws_prefix_len_vis : forall b r, visb b = true -> ws_prefix_len (b :: r) = 0%nat.
Proof.
  intros b r H. apply visb_range in H. rewrite ws_prefix_len_eq.
  replace (b =? 32) with false by (symmetry; apply N.eqb_neq; lia).
  replace (9 <=? b) with true by (symmetry; apply N.leb_le; lia).
  replace (b <=? 13) with false by (symmetry; apply N.leb_gt; lia).
  cbn [andb orb].
  replace (b =? 194) with false by (symmetry; apply N.eqb_neq; lia).
  replace (b =? 225) with false by (symmetry; apply N.eqb_neq; lia).
  replace (b =? 226) with false by (symmetry; apply N.eqb_neq; lia).
  replace (b =? 227) with false by (symmetry; apply N.eqb_neq; lia).
  reflexivity.
Qed.

Lemma ws_suffix_len_vis : forall b r, visb b = true -> ws_suffix_len (b :: r) = 0%nat.
Proof.
  intros b r H. apply visb_range in H. unfold ws_suffix_len.
  replace (b =? 32) with false by (symmetry; apply N.eqb_neq; lia).
  replace (9 <=? b) with true by (symmetry; apply N.leb_le; lia).
  replace (b <=? 13) with false by (symmetry; apply N.leb_gt; lia).
  cbn [andb orb].
  replace (b =? 133) with false by (symmetry; apply N.eqb_neq; lia).
  replace (b =? 160) with false by (symmetry; apply N.eqb_neq; lia).
  replace (b =? 128) with false by (symmetry; apply N.eqb_neq; lia).
  replace (128 <=? b) with false by (symmetry; apply N.leb_gt; lia).
  replace (b =? 168) with false by (symmetry; apply N.eqb_neq; lia).
  replace (b =? 169) with false by (symmetry; apply N.eqb_neq; lia).
  replace (b =? 175) with false by (symmetry; apply N.eqb_neq; lia).
  replace (b =? 159) with false by (symmetry; apply N.eqb_neq; lia).
  destruct r as [|c r']; [reflexivity|]. rewrite !andb_false_r. cbn [orb andb].
  destruct r' as [|e r'']; [reflexivity|]. rewrite !andb_false_r. reflexivity.
Qed.

Lemma blank_byte : forall b, ((b =? 32) || (b =? 9)) = true -> b = 32 \/ b = 9.
Proof. intros b H. apply orb_true_iff in H. destruct H as [H|H]; apply N.eqb_eq in H; auto. Qed.

Lemma trim_start_fuel_blank : forall w f s, blankb w = true -> (length w <= f)%nat ->
  (s = [] \/ ws_prefix_len s = 0%nat) -> trim_start_fuel f (w ++ s) = match s with [] => [] | _ => s end.
Proof.
  induction w as [|b w IH]; intros f s Hw Hf Hs.
  - cbn [app]. destruct s as [|x s']; [destruct f; reflexivity|].
    destruct Hs as [Hs|Hs]; [discriminate|]. destruct f; [reflexivity|]. cbn [trim_start_fuel]. rewrite Hs. reflexivity.
  - cbn [blankb forallb] in Hw. apply andb_true_iff in Hw. destruct Hw as [Hb Hw].
    destruct f as [|f]; [cbn [length] in Hf; lia|]. cbn [app trim_start_fuel].
    assert (H1 : ws_prefix_len (b :: w ++ s) = 1%nat).
    { rewrite ws_prefix_len_eq. destruct (blank_byte b Hb) as [-> | ->]; reflexivity. }
    rewrite H1. cbn [skipn]. apply IH; [exact Hw|cbn [length] in Hf; lia|exact Hs].
Qed.

Lemma trim_end_rev_blank : forall w f rs, blankb w = true -> (length w <= f)%nat ->
  (rs = [] \/ ws_suffix_len rs = 0%nat) -> trim_end_rev f (w ++ rs) = rs.
Proof.
  induction w as [|b w IH]; intros f rs Hw Hf Hs.
  - cbn [app]. destruct rs as [|x s']; [destruct f; reflexivity|].
    destruct Hs as [Hs|Hs]; [discriminate|]. destruct f; [reflexivity|]. cbn [trim_end_rev]. rewrite Hs. reflexivity.
  - cbn [blankb forallb] in Hw. apply andb_true_iff in Hw. destruct Hw as [Hb Hw].
    destruct f as [|f]; [cbn [length] in Hf; lia|]. cbn [app trim_end_rev].
    assert (H1 : ws_suffix_len (b :: w ++ rs) = 1%nat).
    { unfold ws_suffix_len. destruct (blank_byte b Hb) as [-> | ->]; reflexivity. }
    rewrite H1. cbn [skipn]. apply IH; [exact Hw|cbn [length] in Hf; lia|exact Hs].
Qed.

Lemma blankb_app : forall a b, blankb (a ++ b) = blankb a && blankb b.
Proof. intros a b. unfold blankb. apply forallb_app. Qed.

Lemma blankb_rev : forall w, blankb (rev w) = blankb w.
Proof.
  induction w as [|b w IH]; [reflexivity|]. cbn [rev]. rewrite blankb_app, IH. cbn [blankb forallb].
  rewrite andb_true_r. apply andb_comm.
Qed.

(* text is empty, or begins and ends with a visible ASCII character *)
Definition trimmed (s : bytes) : Prop := s = [] \/ vis_ends s.

Lemma trimmed_prefix : forall s, trimmed s -> s = [] \/ ws_prefix_len s = 0%nat.
Proof.
  intros s [->|[Hne [Hh _]]]; [left; reflexivity|]. right.
  destruct s as [|b r]; [congruence|]. apply ws_prefix_len_vis. exact Hh.
Qed.

Lemma trimmed_suffix : forall s, trimmed s -> rev s = [] \/ ws_suffix_len (rev s) = 0%nat.
Proof.
  intros s [->|[Hne [_ Hl]]]; [left; reflexivity|]. right.
  rewrite (app_removelast_last 0 Hne). rewrite rev_app_distr. cbn [rev app].
  apply ws_suffix_len_vis. exact Hl.
Qed.

Lemma trim_blank : forall i s t, blankb i = true -> blankb t = true -> trimmed s -> trim (i ++ s ++ t) = s.
Proof.
  intros i s t Hi Ht Hs. unfold trim.
  assert (Hstart : trim_start (i ++ s ++ t) = s ++ t \/ (s = [] /\ trim_start (i ++ s ++ t) = [])).
  { destruct s as [|b r] eqn:Es.
    - right. split; [reflexivity|]. cbn [app]. unfold trim_start.
      assert (Hb : blankb (i ++ t) = true) by (rewrite blankb_app, Hi, Ht; reflexivity).
      pose proof (trim_start_fuel_blank (i ++ t) (length (i ++ t)) [] Hb (Nat.le_refl _) (or_introl eq_refl)) as H.
      rewrite app_nil_r in H. exact H.
    - left. unfold trim_start. rewrite trim_start_fuel_blank; [reflexivity|exact Hi|rewrite app_length; lia|].
      right. destruct Hs as [Hs|[_ [Hh _]]]; [discriminate|]. cbn [app]. apply ws_prefix_len_vis. exact Hh. }
  destruct Hstart as [-> | [-> ->]]; [|reflexivity].
  unfold trim_end. rewrite rev_app_distr.
  rewrite trim_end_rev_blank; [apply rev_involutive|rewrite blankb_rev; exact Ht| |apply trimmed_suffix; exact Hs].
  rewrite app_length, !rev_length. lia.
Qed.

Lemma split_once_none : forall d l, ~ In d l -> split_once d l = None.
Proof.
  intros d. induction l as [|x l IH]; intros H; [reflexivity|]. cbn [split_once].
  replace (x =? d) with false by (symmetry; apply N.eqb_neq; intros ->; apply H; left; reflexivity).
  rewrite IH; [reflexivity|]. intros Hin. apply H. right. exact Hin.
Qed.

Lemma split_once_first : forall d a b, ~ In d a -> split_once d (a ++ d :: b) = Some (a, b).
Proof.
  intros d. induction a as [|x a IH]; intros b H.
  - cbn [app split_once]. rewrite N.eqb_refl. reflexivity.
  - cbn [app split_once].
    replace (x =? d) with false by (symmetry; apply N.eqb_neq; intros ->; apply H; left; reflexivity).
    rewrite IH; [reflexivity|]. intros Hin. apply H. right. exact Hin.
Qed.

Lemma forallb_not_in : forall (f : N -> bool) d l, forallb f l = true -> f d = false -> ~ In d l.
Proof.
  intros f d l H Hd Hin. rewrite forallb_forall in H. specialize (H d Hin). congruence.
Qed.

Lemma blankb_no : forall d w, blankb w = true -> d <> 32 -> d <> 9 -> ~ In d w.
Proof.
  intros d w H H1 H2. eapply forallb_not_in; [exact H|].
  apply orb_false_iff. split; apply N.eqb_neq; assumption.
Qed.

Lemma plainb_no_hash : forall s, plainb s = true -> ~ In HASH s.
Proof. intros s H. eapply forallb_not_in; [exact H|reflexivity]. Qed.

Lemma plainb_app : forall a b, plainb (a ++ b) = plainb a && plainb b.
Proof. intros. unfold plainb. apply forallb_app. Qed.

(* clean_up of a decorated line is its text *)
Lemma clean_up_line : forall d text, wf_deco d -> plainb text = true -> trimmed text ->
  clean_up (line_of d text) = text.
Proof.
  intros d text [Hi [Ht Hc]] Hp Htr. unfold clean_up, line_of.
  assert (Hno : ~ In HASH (d_indent d ++ text ++ d_trail d)).
  { intros Hin. apply in_app_or in Hin. destruct Hin as [Hin|Hin].
    - revert Hin. apply blankb_no; [exact Hi|discriminate|discriminate].
    - apply in_app_or in Hin. destruct Hin as [Hin|Hin].
      + revert Hin. apply plainb_no_hash. exact Hp.
      + revert Hin. apply blankb_no; [exact Ht|discriminate|discriminate]. }
  destruct (d_comment d) as [c|].
  - replace (d_indent d ++ text ++ d_trail d ++ HASH :: c) with ((d_indent d ++ text ++ d_trail d) ++ HASH :: c)
      by (rewrite <- !app_assoc; reflexivity).
    rewrite split_once_first by exact Hno. apply trim_blank; assumption.
  - rewrite app_nil_r. rewrite split_once_none by exact Hno. apply trim_blank; assumption.
Qed.

Lemma line_of_ok : forall d text, wf_deco d -> plainb text = true -> line_okb (line_of d text) = true.
Proof.
  intros d text [Hi [Ht Hc]] Hp. unfold line_of, line_okb. rewrite !forallb_app.
  assert (Hb : forall w, blankb w = true -> forallb (fun b => negb (b =? 10) && negb (b =? 13)) w = true).
  { intros w Hw. apply forallb_forall. intros x Hx. unfold blankb in Hw. rewrite forallb_forall in Hw.
    destruct (blank_byte x (Hw x Hx)) as [-> | ->]; reflexivity. }
  rewrite (Hb _ Hi), (Hb _ Ht). cbn [andb].
  assert (Hpt : forallb (fun b => negb (b =? 10) && negb (b =? 13)) text = true).
  { apply forallb_forall. intros x Hx. unfold plainb in Hp. rewrite forallb_forall in Hp. specialize (Hp x Hx).
    apply andb_true_iff in Hp. destruct Hp as [Hp H13]. apply andb_true_iff in Hp. destruct Hp as [_ H10].
    rewrite H10, H13. reflexivity. }
  rewrite Hpt. cbn [andb]. destruct (d_comment d) as [c|]; [|reflexivity].
  cbn [forallb]. rewrite Hc. reflexivity.
Qed.

(* ================================================================================================
   C. one loop iteration on each kind of line
   ================================================================================================ *)
Section steps.
  Variable files : bytes -> fentry.
  Variable ps : nat -> bytes -> bytes -> list bytes -> N -> res (node * pstate).
  Variable room : bool.
  Variable continue : list bytes -> N -> list node -> res (node * pstate).
  Variables (f : nat) (name file : bytes).

  Lemma step_blank : forall raw rest ln acc, clean_up raw = [] ->
    section_step files ps room continue f name file raw rest ln acc = continue rest ln acc.
  Proof. intros raw rest ln acc H. unfold section_step. rewrite H. reflexivity. Qed.

  Lemma step_close : forall raw rest ln acc, clean_up raw = [RBRACE] ->
    section_step files ps room continue f name file raw rest ln acc = ROk (NSec name (rev acc), (rest, ln)).
  Proof. intros raw rest ln acc H. unfold section_step. rewrite H. reflexivity. Qed.
End steps.

Lemma last_app_ne : forall {A} (l1 l2 : list A) d, l2 <> [] -> last (l1 ++ l2) d = last l2 d.
Proof.
  intros A l1 l2 d H. induction l1 as [|a l1 IH]; [reflexivity|].
  cbn [app]. destruct (l1 ++ l2) eqn:E; [destruct l1; [cbn in E; congruence|discriminate]|].
  exact IH.
Qed.

Lemma strip_suffix_byte_none : forall c l, l <> [] -> last l 0 <> c -> strip_suffix_byte c l = None.
Proof.
  intros c l Hne H. unfold strip_suffix_byte. destruct l; [congruence|].
  replace (last (n :: l) 0 =? c) with false by (symmetry; apply N.eqb_neq; exact H). reflexivity.
Qed.

Lemma strip_suffix_byte_snoc : forall c l, strip_suffix_byte c (l ++ [c]) = Some l.
Proof.
  intros c l. unfold strip_suffix_byte. destruct (l ++ [c]) eqn:E; [destruct l; discriminate|]. rewrite <- E.
  rewrite last_last, N.eqb_refl, removelast_last. reflexivity.
Qed.

Lemma starts_with_app : forall p r, starts_with p (p ++ r) = true.
Proof. induction p as [|x p IH]; intros r; [reflexivity|]. cbn [app starts_with]. rewrite N.eqb_refl. apply IH. Qed.

Lemma starts_with_prefix : forall p l, starts_with p l = true -> exists r, l = p ++ r.
Proof.
  induction p as [|x p IH]; intros l H; [exists l; reflexivity|].
  destruct l as [|y l]; [discriminate|]. cbn [starts_with] in H. apply andb_true_iff in H. destruct H as [H1 H2].
  apply N.eqb_eq in H1. subst. destruct (IH l H2) as [r ->]. exists r. reflexivity.
Qed.

Lemma keyb_vis_ends : forall k, keyb k = true -> vis_ends k /\ plainb k = true /\ ~ In SP k.
Proof.
  intros k H. unfold keyb in H. destruct k as [|a k]; [discriminate|]. remember (a :: k) as l.
  assert (Hall : forall x, In x l -> keycharb x = true) by (apply forallb_forall; exact H).
  assert (Hvis : forall x, In x l -> visb x = true).
  { intros x Hx. specialize (Hall x Hx). unfold keycharb in Hall. apply andb_true_iff in Hall. destruct Hall as [Hall _]. exact Hall. }
  assert (Hne : l <> []) by (subst; discriminate).
  split; [split; [exact Hne|split]|split].
  - apply Hvis. subst. left. reflexivity.
  - apply Hvis. rewrite (app_removelast_last 0 Hne) at 2. apply in_or_app. right. left. reflexivity.
  - apply forallb_forall. intros x Hx. pose proof (Hall x Hx) as Hk. unfold keycharb in Hk.
    apply andb_true_iff in Hk. destruct Hk as [Hr H35]. apply andb_true_iff in Hr. destruct Hr as [H33 _].
    apply N.leb_le in H33. rewrite H35. cbn [andb].
    replace (x =? 10) with false by (symmetry; apply N.eqb_neq; lia).
    replace (x =? 13) with false by (symmetry; apply N.eqb_neq; lia). reflexivity.
  - intros Hin. specialize (Hvis _ Hin). discriminate.
Qed.

Lemma tabsb_blankb : forall w, tabsb w = true -> blankb w = true.
Proof.
  intros w H. unfold tabsb, blankb in *. rewrite forallb_forall in *. intros x Hx. rewrite (H x Hx). apply orb_true_r.
Qed.

Lemma tabsb_no_sp : forall w, tabsb w = true -> ~ In SP w.
Proof. intros w H. eapply forallb_not_in; [exact H|reflexivity]. Qed.

(* what every rendered value looks like from outside *)
Definition vtext_ok (vt : bytes) : Prop := vis_ends vt /\ last vt 0 <> LBRACE.

Lemma vis_ends_cons_snoc : forall a m z, visb a = true -> visb z = true -> vis_ends (a :: m ++ [z]).
Proof.
  intros a m z Ha Hz. split; [discriminate|]. split; [exact Ha|].
  change (a :: m ++ [z]) with ((a :: m) ++ [z]). rewrite last_last. exact Hz.
Qed.

Lemma all_digits_vis : forall k, k <> [] -> all_digits k -> vis_ends k /\ is_digit (last k 0) = true.
Proof.
  intros k Hne Hall. unfold all_digits in Hall. rewrite Forall_forall in Hall.
  assert (Hv : forall x, is_digit x = true -> visb x = true).
  { intros x Hx. apply is_digit_range in Hx. apply visb_range. lia. }
  assert (Hl : In (last k 0) k).
  { rewrite (app_removelast_last 0 Hne) at 2. apply in_or_app. right. left. reflexivity. }
  split; [split; [exact Hne|split]|].
  - apply Hv, Hall. destruct k; [congruence|left; reflexivity].
  - apply Hv, Hall, Hl.
  - apply Hall, Hl.
Qed.

Lemma unit_vis : forall u m, ConfigSpec.unit_mult u = Some m -> visb u = true /\ u <> LBRACE.
Proof.
  intros u m H. destruct (unit_mult_cases u m H) as [[[->| ->] _]|[[[->| ->] _]|[[->| ->] _]]]; split; try reflexivity; discriminate.
Qed.

Lemma render_value_ok : forall v, wf_value v -> vtext_ok (render_value v).
Proof.
  intros v Hv. destruct v as [s|n|b|n u]; cbn [render_value].
  - split; [apply vis_ends_cons_snoc; reflexivity|].
    change (QUOTE :: s ++ [QUOTE]) with ((QUOTE :: s) ++ [QUOTE]). rewrite last_last. discriminate.
  - destruct (dec_render_spec n) as [Hne [Hall _]]. destruct (all_digits_vis _ Hne Hall) as [Hvis Hd].
    split; [exact Hvis|]. intros E. rewrite E in Hd. discriminate.
  - destruct b; split; try (split; [discriminate|split; reflexivity]); discriminate.
  - destruct Hv as [m [Hm _]]. destruct (unit_vis u m Hm) as [Hu Hnb].
    destruct (dec_render_head_digit n) as [d [r [E Hd]]]. rewrite E. cbn [app].
    split; [apply vis_ends_cons_snoc; [apply is_digit_range in Hd; apply visb_range; lia|exact Hu]|].
    change (d :: r ++ [u]) with ((d :: r) ++ [u]). rewrite last_last. exact Hnb.
Qed.

Lemma async_quoted : forall s, utf8_valid s = true -> async (QUOTE :: s ++ [QUOTE]) = true.
Proof.
  intros s Hs.
  assert (Ha : async (s ++ [QUOTE]) = true) by (apply async_app; [apply utf8_valid_async; exact Hs|reflexivity|reflexivity]).
  cbn [async]. rewrite Ha, andb_true_r.
  destruct s as [|c s']; [reflexivity|]. cbn [app].
  unfold utf8_valid in Hs. rewrite (utf8_valid_fuel_head _ _ _ Hs). apply orb_true_r.
Qed.

Lemma type_value_render : forall key v, wf_value v -> type_value key (render_value v) = Ok (node_of_value key v).
Proof.
  intros key v Hv. destruct v as [s|n|b|n u]; cbn [render_value node_of_value].
  - destruct Hv as [Hu _]. unfold type_value.
    assert (Hq : is_quoted (QUOTE :: s ++ [QUOTE]) = true).
    { unfold is_quoted, QUOTE. destruct (s ++ [34]) eqn:E; [destruct s; discriminate|]. rewrite <- E. rewrite last_last. reflexivity. }
    rewrite Hq. unfold QUOTE in *. rewrite (str_slice_quoted s (async_quoted s Hu)). reflexivity.
  - apply type_value_int. exact Hv.
  - destruct b; reflexivity.
  - destruct Hv as [m [Hm Hr]].
    assert (Hn : (Z.of_N n <= i64_max)%Z).
    { destruct (unit_mult_cases u m Hm) as [[_ ->]|[[_ ->]|[_ ->]]]; lia. }
    rewrite (parse_size_correct key n u m Hn Hm). apply Z.leb_le in Hr. rewrite Hr.
    unfold size_value. rewrite Hm. reflexivity.
Qed.

Lemma kv_split : forall key g1 g2 vt, keyb key = true -> tabsb g1 = true -> blankb g2 = true -> vtext_ok vt ->
  strip_suffix_byte LBRACE (kv_text key g1 g2 vt) = None /\
  beq (kv_text key g1 g2 vt) [RBRACE] = false /\
  kv_text key g1 g2 vt <> [] /\
  split_once SP (kv_text key g1 g2 vt) = Some (key ++ g1, g2 ++ vt) /\
  trim (key ++ g1) = key /\ trim (g2 ++ vt) = vt.
Proof.
  intros key g1 g2 vt Hk Hg1 Hg2 [Hvis Hlast]. unfold kv_text.
  destruct (keyb_vis_ends key Hk) as [Hkv [Hkp Hksp]].
  assert (Hvne : vt <> []) by (destruct Hvis; assumption).
  split.
  { apply strip_suffix_byte_none; [destruct key; [discriminate|discriminate]|].
    rewrite app_assoc. change (SP :: g2 ++ vt) with ((SP :: g2) ++ vt). rewrite app_assoc.
    rewrite last_app_ne by exact Hvne. exact Hlast. }
  split.
  { destruct (beq (key ++ g1 ++ SP :: g2 ++ vt) [RBRACE]) eqn:E; [|reflexivity]. apply beq_eq in E.
    apply (f_equal (@length N)) in E. rewrite !app_length in E. cbn [length] in E. rewrite app_length in E.
    destruct vt; [congruence|]. cbn [length] in E. lia. }
  split; [destruct key; discriminate|].
  split.
  { rewrite app_assoc. apply split_once_first. intros Hin. apply in_app_or in Hin. destruct Hin as [Hin|Hin].
    - apply Hksp. exact Hin.
    - revert Hin. apply tabsb_no_sp. exact Hg1. }
  split.
  - rewrite <- (app_nil_l (key ++ g1)). apply trim_blank; [reflexivity|apply tabsb_blankb; exact Hg1|right; exact Hkv].
  - rewrite <- (app_nil_r vt) at 1. apply trim_blank; [exact Hg2|reflexivity|right; exact Hvis].
Qed.

Section steps2.
  Variable files : bytes -> fentry.
  Variable ps : nat -> bytes -> bytes -> list bytes -> N -> res (node * pstate).
  Variable room : bool.
  Variable continue : list bytes -> N -> list node -> res (node * pstate).
  Variables (f : nat) (name file : bytes).

  Lemma step_kv : forall raw rest ln acc key g1 g2 v,
    clean_up raw = kv_text key g1 g2 (render_value v) ->
    keyb key = true -> key <> kw_include -> tabsb g1 = true -> blankb g2 = true -> wf_value v ->
    section_step files ps room continue f name file raw rest ln acc = continue rest ln (node_of_value key v :: acc).
  Proof.
    intros raw rest ln acc key g1 g2 v Hc Hk Hki Hg1 Hg2 Hv. unfold section_step. rewrite Hc.
    destruct (kv_split key g1 g2 (render_value v) Hk Hg1 Hg2 (render_value_ok v Hv)) as [H1 [H2 [H3 [H4 [H5 H6]]]]].
    destruct (kv_text key g1 g2 (render_value v)) eqn:E; [congruence|].
    rewrite H1, H2, H4, H5, H6.
    replace (beq key kw_include) with false by (symmetry; destruct (beq key kw_include) eqn:Eb; [apply beq_eq in Eb; congruence|reflexivity]).
    cbn [negb]. rewrite (type_value_render key v Hv). reflexivity.
  Qed.

  Lemma step_inc : forall raw rest ln acc g1 g2 path,
    clean_up raw = kv_text kw_include g1 g2 (QUOTE :: path ++ [QUOTE]) ->
    tabsb g1 = true -> blankb g2 = true -> wf_str path ->
    section_step files ps room continue f name file raw rest ln acc =
    match include_with files room ps path file ln with
    | ROk nodes => continue rest ln (rev nodes ++ acc)
    | RErr e => RErr e
    | RCrash w => RCrash w
    end.
  Proof.
    intros raw rest ln acc g1 g2 path Hc Hg1 Hg2 Hwf. pose proof Hwf as [Hu _]. unfold section_step. rewrite Hc.
    assert (Hvt : vtext_ok (QUOTE :: path ++ [QUOTE])) by (apply (render_value_ok (VStr path)); exact Hwf).
    destruct (kv_split kw_include g1 g2 (QUOTE :: path ++ [QUOTE]) eq_refl Hg1 Hg2 Hvt) as [H1 [H2 [H3 [H4 [H5 H6]]]]].
    destruct (kv_text kw_include g1 g2 (QUOTE :: path ++ [QUOTE])) eqn:E; [congruence|].
    rewrite H1, H2, H4, H5, H6. rewrite beq_refl. cbn [negb].
    assert (Hq : is_quoted (QUOTE :: path ++ [QUOTE]) = true).
    { unfold is_quoted, QUOTE. destruct (path ++ [34]) eqn:E2; [destruct path; discriminate|]. rewrite <- E2. rewrite last_last. reflexivity. }
    rewrite Hq. unfold QUOTE in *. rewrite (str_slice_quoted path (async_quoted path Hu)). reflexivity.
  Qed.
End steps2.

(* section headers *)
Lemma blank_app_single : forall w s x, blankb w = true -> s <> [] -> s <> [x] -> x <> 32 -> x <> 9 -> w ++ s <> [x].
Proof.
  intros w s x Hw Hs Hsx H32 H9 E. destruct w as [|b w].
  - cbn in E. congruence.
  - cbn [app] in E. injection E as Eb E. destruct w; [|discriminate]. cbn in E. congruence.
Qed.

Lemma header_trimmed : forall k w1, wf_kind k -> blankb w1 = true -> vis_ends (header_text k w1) /\ plainb (header_text k w1) = true.
Proof.
  intros k w1 Hk Hw1.
  assert (Hbp : forall w, blankb w = true -> plainb w = true).
  { intros w Hw. apply forallb_forall. intros x Hx. unfold blankb in Hw. rewrite forallb_forall in Hw.
    destruct (blank_byte x (Hw x Hx)) as [-> | ->]; reflexivity. }
  destruct k as [name|pats|name [|]]; cbn [header_text wf_kind] in *.
  - destruct (keyb_vis_ends name Hk) as [H1 [H2 _]]. split; assumption.
  - destruct Hk as [[Hne [Hh Hl]] [Hp _]]. split.
    + split; [discriminate|]. split; [reflexivity|].
      rewrite app_assoc. rewrite last_app_ne by exact Hne. exact Hl.
    + rewrite !plainb_app, (Hbp _ Hw1), Hp. reflexivity.
  - split.
    + split; [discriminate|]. split; [reflexivity|].
      rewrite app_assoc. change (QUOTE :: name ++ [QUOTE]) with ((QUOTE :: name) ++ [QUOTE]). rewrite app_assoc.
      rewrite last_last. reflexivity.
    + rewrite !plainb_app, (Hbp _ Hw1). cbn [plainb forallb andb]. unfold plainb in *. rewrite forallb_app, Hk. reflexivity.
  - destruct Hk as [[Hne [Hh Hl]] [Hp _]]. split.
    + split; [discriminate|]. split; [reflexivity|].
      rewrite app_assoc. rewrite last_app_ne by exact Hne. exact Hl.
    + rewrite !plainb_app, (Hbp _ Hw1), Hp. reflexivity.
Qed.

Lemma header_parse : forall k w1 w2, wf_kind k -> blankb w1 = true -> blankb w2 = true ->
  let hdr := header_text k w1 in
  strip_suffix_byte LBRACE (hdr ++ w2 ++ [LBRACE]) = Some (hdr ++ w2) /\ trim (hdr ++ w2) = hdr /\
  match k with
  | KPlain n =>
    starts_with kw_route_sp hdr = false /\ starts_with kw_host_sp hdr = false
  | KRoute p =>
    (starts_with kw_route_sp hdr && negb (beq hdr kw_route_brace)) = true /\ trim (after_space hdr) = p
  | KHost n _ =>
    starts_with kw_route_sp hdr = false /\ (starts_with kw_host_sp hdr && negb (beq hdr kw_host_brace)) = true /\
    host_name_of (trim (after_space hdr)) = n
  end.
Proof.
  intros k w1 w2 Hk Hw1 Hw2 hdr. destruct (header_trimmed k w1 Hk Hw1) as [Hvis Hplain].
  split; [rewrite app_assoc; apply strip_suffix_byte_snoc|].
  split; [rewrite <- (app_nil_l (hdr ++ w2)); apply trim_blank; [reflexivity|exact Hw2|right; exact Hvis]|].
  subst hdr. destruct k as [name|pats|name q]; cbn [header_text wf_kind] in *.
  - destruct (keyb_vis_ends name Hk) as [_ [_ Hsp]].
    split.
    + destruct (starts_with kw_route_sp name) eqn:E; [|reflexivity]. exfalso.
      destruct (starts_with_prefix _ _ E) as [r ->]. apply Hsp. unfold kw_route_sp, SP. cbn. auto 10.
    + destruct (starts_with kw_host_sp name) eqn:E; [|reflexivity]. exfalso.
      destruct (starts_with_prefix _ _ E) as [r ->]. apply Hsp. unfold kw_host_sp, SP. cbn. auto 10.
  - destruct Hk as [Hve [Hp Hnb]]. pose proof Hve as [Hne _].
    split.
    + rewrite starts_with_app. cbn [andb].
      destruct (beq (kw_route_sp ++ w1 ++ pats) kw_route_brace) eqn:E; [|reflexivity]. exfalso.
      apply beq_eq in E. unfold kw_route_sp, kw_route_brace in E. cbn [app] in E.
      injection E as E. revert E. apply blank_app_single; [exact Hw1|exact Hne|exact Hnb|discriminate|discriminate].
    + unfold after_space, kw_route_sp, SP. cbn [app split_once N.eqb Pos.eqb].
      rewrite <- (app_nil_r pats) at 1. apply trim_blank; [exact Hw1|reflexivity|right; exact Hve].
  - assert (Hnm : forall nm, vis_ends nm -> nm <> [LBRACE] ->
              (starts_with kw_host_sp (kw_host_sp ++ w1 ++ nm) && negb (beq (kw_host_sp ++ w1 ++ nm) kw_host_brace)) = true /\
              trim (after_space (kw_host_sp ++ w1 ++ nm)) = nm).
    { intros nm Hve Hnb. pose proof Hve as [Hne _]. split.
      - rewrite starts_with_app. cbn [andb].
        destruct (beq (kw_host_sp ++ w1 ++ nm) kw_host_brace) eqn:E; [|reflexivity]. exfalso.
        apply beq_eq in E. unfold kw_host_sp, kw_host_brace in E. cbn [app] in E.
        injection E as E. revert E. apply blank_app_single; [exact Hw1|exact Hne|exact Hnb|discriminate|discriminate].
      - unfold after_space, kw_host_sp, SP. cbn [app split_once N.eqb Pos.eqb].
        rewrite <- (app_nil_r nm) at 1. apply trim_blank; [exact Hw1|reflexivity|right; exact Hve]. }
    destruct q; (split; [reflexivity|]).
    + destruct (Hnm (QUOTE :: name ++ [QUOTE])) as [H1 H2]; [apply vis_ends_cons_snoc; reflexivity|discriminate|].
      split; [exact H1|]. rewrite H2. unfold host_name_of, QUOTE. rewrite strip_suffix_byte_snoc. reflexivity.
    + destruct Hk as [Hve [Hp [Hnb Hq]]]. destruct (Hnm name Hve Hnb) as [H1 H2].
      split; [exact H1|]. rewrite H2. unfold host_name_of. destruct name as [|a nm']; [reflexivity|].
      cbn [hd] in Hq. unfold QUOTE in Hq.
      destruct a as [|p]; [reflexivity|]. do 6 (destruct p as [p|p|]; try reflexivity). congruence.
Qed.

Section steps3.
  Variable files : bytes -> fentry.
  Variable ps : nat -> bytes -> bytes -> list bytes -> N -> res (node * pstate).
  Variable room : bool.
  Variable continue : list bytes -> N -> list node -> res (node * pstate).
  Variables (f : nat) (name file : bytes).

  Lemma step_sec : forall raw rest ln acc k w1 w2,
    clean_up raw = header_text k w1 ++ w2 ++ [LBRACE] -> wf_kind k -> blankb w1 = true -> blankb w2 = true ->
    section_step files ps room continue f name file raw rest ln acc =
    match ps f (sec_name k) file rest ln with
    | ROk (NSec nm cs, (rest', ln')) =>
      continue rest' ln' (match k with KPlain _ => NSec nm cs | KRoute _ => NRoute nm cs | KHost _ _ => NHost nm cs end :: acc)
    | ROk (n, (rest', ln')) => match k with KPlain _ => continue rest' ln' (n :: acc) | _ => continue rest' ln' acc end
    | RErr e => RErr e
    | RCrash w => RCrash w
    end.
  Proof.
    intros raw rest ln acc k w1 w2 Hc Hk Hw1 Hw2. unfold section_step. rewrite Hc.
    destruct (header_parse k w1 w2 Hk Hw1 Hw2) as [H1 [H2 H3]]. rewrite H1, H2.
    destruct k as [n|p|n q]; cbn [sec_name header_text] in *.
    - destruct H3 as [H3 H4]. rewrite H3, H4. cbn [andb].
      destruct (ps f n file rest ln) as [[nd [rest' ln']]|e|w]; try reflexivity. destruct nd; reflexivity.
    - destruct H3 as [H3 H4]. rewrite H3, H4.
      destruct (ps f p file rest ln) as [[nd [rest' ln']]|e|w]; try reflexivity.
    - destruct H3 as [H3 [H4 H5]]. rewrite H3, H4, H5. cbn [andb].
      destruct (ps f n file rest ln) as [[nd [rest' ln']]|e|w]; try reflexivity.
  Qed.
End steps3.

(* ================================================================================================
   D. parsing a rendered item tree
   ================================================================================================ *)
Lemma fold_and_forall : forall {A} (P : A -> Prop) l, fold_right (fun i Q => P i /\ Q) True l <-> Forall P l.
Proof.
  intros A P. induction l as [|a l IH]; cbn [fold_right]; split; intros H.
  - constructor.
  - exact I.
  - destruct H as [H1 H2]. constructor; [exact H1|apply IH; exact H2].
  - inversion H; subst. split; [assumption|apply IH; assumption].
Qed.

Lemma wf_items_cons : forall it its, wf_items (it :: its) <-> wf_item it /\ wf_items its.
Proof. intros. reflexivity. Qed.

Lemma wf_items_app : forall a b, wf_items (a ++ b) <-> wf_items a /\ wf_items b.
Proof.
  intros a b. unfold wf_items. rewrite !fold_and_forall. rewrite Forall_app. reflexivity.
Qed.

Lemma all_files_ok_app : forall files a b, all_files_ok files (a ++ b) <-> all_files_ok files a /\ all_files_ok files b.
Proof.
  intros files a b. unfold all_files_ok. rewrite !fold_and_forall. rewrite Forall_app. reflexivity.
Qed.

Lemma items_depth_app : forall a b, items_depth (a ++ b) = Nat.max (items_depth a) (items_depth b).
Proof.
  induction a as [|x a IH]; intros b; [reflexivity|]. unfold items_depth in *. cbn [app fold_right]. rewrite IH. lia.
Qed.

Lemma render_items_app : forall a b, render_items (a ++ b) = render_items a ++ render_items b.
Proof. intros. unfold render_items. apply flat_map_app. Qed.

Lemma denote_items_app : forall a b, denote_items (a ++ b) = denote_items a ++ denote_items b.
Proof. intros. unfold denote_items. apply flat_map_app. Qed.

Definition d0 : deco := {| d_indent := []; d_trail := []; d_comment := None |}.
Lemma wf_d0 : wf_deco d0.
Proof. repeat split. Qed.

Lemma blankb_plainb : forall w, blankb w = true -> plainb w = true.
Proof.
  intros w Hw. apply forallb_forall. intros x Hx. unfold blankb in Hw. rewrite forallb_forall in Hw.
  destruct (blank_byte x (Hw x Hx)) as [-> | ->]; reflexivity.
Qed.

Lemma all_digits_plain : forall k, all_digits k -> plainb k = true.
Proof.
  intros k H. apply forallb_forall. intros x Hx. unfold all_digits in H. rewrite Forall_forall in H.
  specialize (H x Hx). apply is_digit_range in H.
  replace (x =? 35) with false by (symmetry; apply N.eqb_neq; lia).
  replace (x =? 10) with false by (symmetry; apply N.eqb_neq; lia).
  replace (x =? 13) with false by (symmetry; apply N.eqb_neq; lia). reflexivity.
Qed.

Lemma render_value_plain : forall v, wf_value v -> plainb (render_value v) = true.
Proof.
  intros v Hv. destruct v as [s|n|b|n u]; cbn [render_value].
  - destruct Hv as [_ [Hp _]]. cbn [plainb forallb]. unfold plainb in *. rewrite forallb_app, Hp. reflexivity.
  - destruct (dec_render_spec n) as [_ [Hall _]]. apply all_digits_plain. exact Hall.
  - destruct b; reflexivity.
  - destruct Hv as [m [Hm _]]. destruct (dec_render_spec n) as [_ [Hall _]]. rewrite plainb_app, (all_digits_plain _ Hall).
    destruct (unit_mult_cases u m Hm) as [[[->| ->] _]|[[[->| ->] _]|[[->| ->] _]]]; reflexivity.
Qed.

Lemma clean_kv : forall d key g1 g2 vt, wf_deco d -> keyb key = true -> tabsb g1 = true -> blankb g2 = true ->
  vtext_ok vt -> plainb vt = true -> clean_up (line_of d (kv_text key g1 g2 vt)) = kv_text key g1 g2 vt.
Proof.
  intros d key g1 g2 vt Hd Hk Hg1 Hg2 [Hvis _] Hp. destruct (keyb_vis_ends key Hk) as [[Hkne [Hkh _]] [Hkp _]].
  apply clean_up_line; [exact Hd| |].
  - unfold kv_text. rewrite !plainb_app, Hkp, (blankb_plainb _ (tabsb_blankb _ Hg1)). cbn [andb].
    change (SP :: g2 ++ vt) with ([SP] ++ g2 ++ vt). rewrite !plainb_app, (blankb_plainb _ Hg2), Hp. reflexivity.
  - right. unfold kv_text. destruct Hvis as [Hvne [_ Hvl]]. split; [destruct key; [congruence|discriminate]|]. split.
    + destruct key; [congruence|exact Hkh].
    + rewrite app_assoc. change (SP :: g2 ++ vt) with ((SP :: g2) ++ vt). rewrite app_assoc.
      rewrite last_app_ne by exact Hvne. exact Hvl.
Qed.

Lemma clean_hdr : forall d k w1 w2, wf_deco d -> wf_kind k -> blankb w1 = true -> blankb w2 = true ->
  clean_up (line_of d (header_text k w1 ++ w2 ++ [LBRACE])) = header_text k w1 ++ w2 ++ [LBRACE].
Proof.
  intros d k w1 w2 Hd Hk Hw1 Hw2. destruct (header_trimmed k w1 Hk Hw1) as [[Hne [Hh _]] Hp].
  apply clean_up_line; [exact Hd| |].
  - rewrite !plainb_app, Hp, (blankb_plainb _ Hw2). reflexivity.
  - right. split; [destruct (header_text k w1); [congruence|discriminate]|]. split.
    + destruct (header_text k w1); [congruence|exact Hh].
    + rewrite app_assoc, last_last. reflexivity.
Qed.

Lemma clean_close : forall d, wf_deco d -> clean_up (line_of d [RBRACE]) = [RBRACE].
Proof. intros d Hd. apply clean_up_line; [exact Hd|reflexivity|right; repeat split; discriminate]. Qed.

Lemma clean_blank : forall d, wf_deco d -> clean_up (line_of d []) = [].
Proof. intros d Hd. apply clean_up_line; [exact Hd|reflexivity|left; reflexivity]. Qed.

Lemma section_loop_S : forall files ps room name file f raw rest ln acc,
  section_loop files ps room name file (S f) (raw :: rest) ln acc =
  section_step files ps room (section_loop files ps room name file f) f name file raw rest (ln + 1) acc.
Proof. reflexivity. Qed.

Lemma wf_str_vtext : forall s, wf_str s -> vtext_ok (QUOTE :: s ++ [QUOTE]) /\ plainb (QUOTE :: s ++ [QUOTE]) = true.
Proof.
  intros s Hs. split; [apply (render_value_ok (VStr s)); exact Hs|apply (render_value_plain (VStr s)); exact Hs].
Qed.

(* every rendered line is a line: no LF, no CR *)
Section item_ind'.
  Variable P : item -> Prop.
  Hypothesis Hkv : forall d key g1 g2 v, P (IKv d key g1 g2 v).
  Hypothesis Hsec : forall d k w1 w2 body dc, Forall P body -> P (ISec d k w1 w2 body dc).
  Hypothesis Hinc : forall d g1 g2 path body crlf, Forall P body -> P (IInc d g1 g2 path body crlf).
  Hypothesis Hblank : forall d, P (IBlank d).
  Hypothesis Hraw : forall l, P (IRaw l).
  Fixpoint item_ind' (it : item) : P it :=
    let go := fix go (l : list item) : Forall P l :=
      match l with
      | [] => Forall_nil P
      | c :: r => Forall_cons c (item_ind' c) (go r)
      end in
    match it with
    | IKv d key g1 g2 v => Hkv d key g1 g2 v
    | ISec d k w1 w2 body dc => Hsec d k w1 w2 body dc (go body)
    | IInc d g1 g2 path body crlf => Hinc d g1 g2 path body crlf (go body)
    | IBlank d => Hblank d
    | IRaw l => Hraw l
    end.
End item_ind'.

Lemma render_item_ok : forall it, wf_item it -> Forall (fun l => line_okb l = true) (render_item it).
Proof.
  induction it using item_ind'; intros Hwf; cbn [wf_item render_item] in *.
  - destruct Hwf as [Hd [Hk [_ [Hg1 [Hg2 Hv]]]]]. constructor; [|constructor].
    apply line_of_ok; [exact Hd|]. destruct (keyb_vis_ends key Hk) as [_ [Hkp _]].
    unfold kv_text. rewrite !plainb_app, Hkp, (blankb_plainb _ (tabsb_blankb _ Hg1)). cbn [andb].
    change (SP :: g2 ++ render_value v) with ([SP] ++ g2 ++ render_value v).
    rewrite !plainb_app, (blankb_plainb _ Hg2), (render_value_plain v Hv). reflexivity.
  - destruct Hwf as [Hd [Hdc [Hk [Hw1 [Hw2 Hbody]]]]]. constructor.
    + apply line_of_ok; [exact Hd|]. destruct (header_trimmed k w1 Hk Hw1) as [_ Hp].
      rewrite !plainb_app, Hp, (blankb_plainb _ Hw2). reflexivity.
    + apply Forall_app. split; [|constructor; [apply line_of_ok; [exact Hdc|reflexivity]|constructor]].
      apply fold_and_forall in Hbody. clear -H Hbody. induction H as [|c cs Hc Hcs IH]; cbn [flat_map]; [constructor|].
      inversion Hbody; subst. apply Forall_app. split; [apply Hc; assumption|apply IH; assumption].
  - destruct Hwf as [Hd [Hg1 [Hg2 [Hp _]]]]. constructor; [|constructor].
    apply line_of_ok; [exact Hd|]. destruct (wf_str_vtext path Hp) as [_ Hpp].
    unfold kv_text. rewrite !plainb_app, (blankb_plainb _ (tabsb_blankb _ Hg1)).
    change (SP :: g2 ++ QUOTE :: path ++ [QUOTE]) with ([SP] ++ g2 ++ QUOTE :: path ++ [QUOTE]).
    rewrite !plainb_app, (blankb_plainb _ Hg2), Hpp. reflexivity.
  - constructor; [apply line_of_ok; [exact Hwf|reflexivity]|constructor].
  - destruct Hwf.
Qed.

Lemma render_items_ok : forall its, wf_items its -> Forall (fun l => line_okb l = true) (render_items its).
Proof.
  induction its as [|it its IH]; intros H; [constructor|]. destruct H as [H1 H2].
  unfold render_items. cbn [flat_map]. apply Forall_app. split; [apply render_item_ok; exact H1|apply IH; exact H2].
Qed.

Lemma item_depth_sec : forall d k w1 w2 body dc, item_depth (ISec d k w1 w2 body dc) = S (items_depth body).
Proof. reflexivity. Qed.
Lemma item_depth_inc : forall d g1 g2 path body crlf, item_depth (IInc d g1 g2 path body crlf) = S (items_depth body).
Proof. reflexivity. Qed.
Lemma items_depth_cons : forall it its, items_depth (it :: its) = Nat.max (item_depth it) (items_depth its).
Proof. reflexivity. Qed.

Lemma sec_node_match : forall k cs,
  match k with KPlain _ => NSec (sec_name k) cs | KRoute _ => NRoute (sec_name k) cs | KHost _ _ => NHost (sec_name k) cs end = sec_node k cs.
Proof. intros [n|p|n q] cs; reflexivity. Qed.

(* the loop over the lines of a list of items *)
Lemma sim_loop : forall files d' name file,
  (forall nm its dclose tail ln fuel,
     wf_items its -> all_files_ok files its -> (items_depth its < d')%nat -> wf_deco dclose ->
     (length (render_items its ++ line_of dclose [RBRACE] :: tail) < fuel)%nat ->
     parse_section files d' fuel nm file (render_items its ++ line_of dclose [RBRACE] :: tail) ln =
     ROk (NSec nm (denote_items its), (tail, ln + N.of_nat (length (render_items its)) + 1))) ->
  (forall nm path its dclose tail ln fuel,
     wf_items its -> all_files_ok files its -> (items_depth its < d')%nat -> wf_deco dclose ->
     (length (render_items its ++ line_of dclose [RBRACE] :: tail) < fuel)%nat ->
     parse_section files d' fuel nm path (render_items its ++ line_of dclose [RBRACE] :: tail) ln =
     ROk (NSec nm (denote_items its), (tail, ln + N.of_nat (length (render_items its)) + 1))) ->
  forall its fuel tail ln acc,
    wf_items its -> all_files_ok files its -> (items_depth its <= d')%nat ->
    (length (render_items its ++ tail) < fuel)%nat ->
    exists fuel', (length tail < fuel')%nat /\
      section_loop files (parse_section files d') (match d' with O => false | S _ => true end) name file
                   fuel (render_items its ++ tail) ln acc =
      section_loop files (parse_section files d') (match d' with O => false | S _ => true end) name file
                   fuel' tail (ln + N.of_nat (length (render_items its))) (rev (denote_items its) ++ acc).
Proof.
  intros files d' name file IHd IHd'.
  induction its as [|it its IH]; intros fuel tail ln acc Hwf Hfiles Hdepth Hfuel.
  - exists fuel. split; [exact Hfuel|]. cbn [render_items flat_map app length denote_items rev]. rewrite N.add_0_r. reflexivity.
  - destruct Hwf as [Hwf1 Hwf]. destruct Hfiles as [Hf1 Hfiles].
    rewrite items_depth_cons in Hdepth.
    assert (Hdep1 : (item_depth it <= d')%nat) by lia. assert (Hdep : (items_depth its <= d')%nat) by lia.
    change (render_items (it :: its)) with (render_item it ++ render_items its) in *.
    change (denote_items (it :: its)) with (denote_item it ++ denote_items its) in *.
    rewrite <- (app_assoc (render_item it) (render_items its) tail) in *.
    destruct it as [d key g1 g2 v|d k w1 w2 body dc|d g1 g2 path body crlf|d|l].
    + (* key value *)
      cbn [render_item wf_item denote_item] in *. destruct Hwf1 as [Hd [Hk [Hki [Hg1 [Hg2 Hv]]]]].
      cbn [app] in *. destruct fuel as [|f]; [cbn [length] in Hfuel; lia|]. rewrite section_loop_S.
      rewrite (step_kv _ _ _ _ _ _ _ _ _ _ _ key g1 g2 v
                 (clean_kv d key g1 g2 _ Hd Hk Hg1 Hg2 (render_value_ok v Hv) (render_value_plain v Hv)) Hk Hki Hg1 Hg2 Hv).
      destruct (IH f tail (ln + 1) (node_of_value key v :: acc) Hwf Hfiles Hdep) as [fuel' [Hf' Heq]];
        [cbn [length] in Hfuel; lia|].
      exists fuel'. split; [exact Hf'|]. rewrite Heq. f_equal.
      * cbn [length]. lia.
      * cbn [rev]. rewrite <- app_assoc. reflexivity.
    + (* section *)
      cbn [render_item wf_item denote_item files_ok] in *.
      destruct Hwf1 as [Hd [Hdc [Hk [Hw1 [Hw2 Hbody]]]]].
      rewrite item_depth_sec in Hdep1.
      change (flat_map render_item body) with (render_items body) in *.
      change (flat_map denote_item body) with (denote_items body) in *.
      cbn [app] in *. rewrite <- (app_assoc (render_items body) [line_of dc [RBRACE]]) in *. cbn [app] in *.
      destruct fuel as [|f]; [cbn [length] in Hfuel; lia|]. rewrite section_loop_S.
      rewrite (step_sec _ _ _ _ _ _ _ _ _ _ _ k w1 w2 (clean_hdr d k w1 w2 Hd Hk Hw1 Hw2) Hk Hw1 Hw2).
      rewrite (IHd (sec_name k) body dc (render_items its ++ tail) (ln + 1) f Hbody Hf1);
        [|lia|exact Hdc|cbn [length] in Hfuel; lia].
      rewrite sec_node_match.
      destruct (IH f tail (ln + 1 + N.of_nat (length (render_items body)) + 1) (sec_node k (denote_items body) :: acc)
                   Hwf Hfiles Hdep) as [fuel' [Hf' Heq]].
      { cbn [length] in Hfuel. rewrite app_length in Hfuel. cbn [length] in Hfuel. lia. }
      exists fuel'. split; [exact Hf'|]. rewrite Heq. f_equal.
      * cbn [length]. rewrite ?app_length. cbn [length]. rewrite ?app_length. lia.
      * cbn [rev]. rewrite <- app_assoc. reflexivity.
    + (* include *)
      cbn [render_item wf_item denote_item files_ok] in *.
      destruct Hwf1 as [Hd [Hg1 [Hg2 [Hpath Hbody]]]]. destruct Hf1 as [Hfile [Hutf Hfbody]].
      rewrite item_depth_inc in Hdep1.
      change (flat_map render_item body) with (render_items body) in *.
      change (flat_map denote_item body) with (denote_items body) in *.
      cbn [app] in *. destruct fuel as [|f]; [cbn [length] in Hfuel; lia|]. rewrite section_loop_S.
      destruct (wf_str_vtext path Hpath) as [Hvt Hvp].
      rewrite (step_inc _ _ _ _ _ _ _ _ _ _ _ g1 g2 path
                 (clean_kv d kw_include g1 g2 _ Hd eq_refl Hg1 Hg2 Hvt Hvp) Hg1 Hg2 Hpath).
      assert (Hinc : include_with files (match d' with O => false | S _ => true end) (parse_section files d') path file (ln + 1)
                     = ROk (denote_items body)).
      { unfold include_with. destruct d' as [|d'']; [lia|]. cbn [negb]. rewrite Hfile.
        rewrite Hutf.
        rewrite (lines_file_text crlf (render_items body) [LF; RBRACE] (render_items_ok body Hbody)).
        change (lines [LF; RBRACE]) with ([line_of d0 []] ++ [line_of d0 [RBRACE]]).
        rewrite app_assoc.
        change (render_items body ++ [line_of d0 []]) with (render_items body ++ render_items [IBlank d0]).
        rewrite <- render_items_app.
        change ((render_items (body ++ [IBlank d0])) ++ [line_of d0 [RBRACE]])
          with (render_items (body ++ [IBlank d0]) ++ line_of d0 [RBRACE] :: []).
        rewrite (IHd' included_section_name path (body ++ [IBlank d0]) d0 [] 0).
        - rewrite denote_items_app. cbn [denote_items flat_map denote_item]. rewrite app_nil_r. reflexivity.
        - apply wf_items_app. split; [exact Hbody|split; [exact wf_d0|exact I]].
        - apply all_files_ok_app. split; [exact Hfbody|split; exact I].
        - rewrite items_depth_app. cbn. lia.
        - exact wf_d0.
        - lia. }
      rewrite Hinc.
      destruct (IH f tail (ln + 1) (rev (denote_items body) ++ acc) Hwf Hfiles Hdep) as [fuel' [Hf' Heq]];
        [cbn [length] in Hfuel; lia|].
      exists fuel'. split; [exact Hf'|]. rewrite Heq. f_equal.
      * cbn [length]. lia.
      * rewrite rev_app_distr, <- app_assoc. reflexivity.
    + (* blank *)
      cbn [render_item wf_item denote_item] in *. cbn [app] in *.
      destruct fuel as [|f]; [cbn [length] in Hfuel; lia|]. rewrite section_loop_S.
      rewrite (step_blank _ _ _ _ _ _ _ _ _ _ _ (clean_blank d Hwf1)).
      destruct (IH f tail (ln + 1) acc Hwf Hfiles Hdep) as [fuel' [Hf' Heq]]; [cbn [length] in Hfuel; lia|].
      exists fuel'. split; [exact Hf'|]. rewrite Heq. f_equal. cbn [length]. lia.
    + destruct Hwf1.
Qed.

(* a section body followed by its closing brace line *)
Lemma sim_section : forall files d nm file its dclose tail ln fuel,
  wf_items its -> all_files_ok files its -> (items_depth its < d)%nat -> wf_deco dclose ->
  (length (render_items its ++ line_of dclose [RBRACE] :: tail) < fuel)%nat ->
  parse_section files d fuel nm file (render_items its ++ line_of dclose [RBRACE] :: tail) ln =
  ROk (NSec nm (denote_items its), (tail, ln + N.of_nat (length (render_items its)) + 1)).
Proof.
  intros files. induction d as [|d' IHd]; intros nm file its dclose tail ln fuel Hwf Hfiles Hdepth Hdc Hfuel; [lia|].
  cbn [parse_section].
  destruct (sim_loop files d' nm file (fun nm0 => IHd nm0 file) (fun nm0 path => IHd nm0 path)
              its fuel (line_of dclose [RBRACE] :: tail) ln [] Hwf Hfiles ltac:(lia) Hfuel) as [fuel' [Hf' Heq]].
  rewrite Heq. destruct fuel' as [|f']; [cbn [length] in Hf'; lia|]. rewrite section_loop_S.
  rewrite (step_close _ _ _ _ _ _ _ _ _ _ _ (clean_close dclose Hdc)).
  rewrite app_nil_r, rev_involutive. reflexivity.
Qed.

(* ================================================================================================
   E. the main file
   ================================================================================================ *)
Lemma find_server_skip : forall ds rest ln, Forall wf_deco ds ->
  find_server (map (fun d => line_of d []) ds ++ rest) ln = find_server rest (ln + N.of_nat (length ds)).
Proof.
  induction ds as [|d ds IH]; intros rest ln H; [cbn; rewrite N.add_0_r; reflexivity|].
  inversion H as [|? ? Hd Hds]; subst. cbn [map app find_server]. rewrite (clean_blank d Hd). cbn [beq kw_server_open].
  rewrite IH by exact Hds. f_equal. cbn [length]. lia.
Qed.

Lemma clean_server_line : forall d, wf_deco d -> clean_up (line_of d kw_server_open) = kw_server_open.
Proof. intros d Hd. apply clean_up_line; [exact Hd|reflexivity|right; repeat split; discriminate]. Qed.

Lemma check_trailing_blank : forall ds ln, Forall wf_deco ds -> check_trailing (map (fun d => line_of d []) ds) ln = None.
Proof.
  induction ds as [|d ds IH]; intros ln H; [reflexivity|]. inversion H as [|? ? Hd Hds]; subst.
  cbn [map check_trailing]. rewrite (clean_blank d Hd). apply IH. exact Hds.
Qed.

Lemma main_lines_ok : forall m its, wf_main m -> wf_items its -> Forall (fun l => line_okb l = true) (main_lines m its).
Proof.
  intros m its [Hb [Ho [Hc Ha]]] Hits. unfold main_lines.
  assert (Hblank : forall ds, Forall wf_deco ds -> Forall (fun l => line_okb l = true) (map (fun d => line_of d []) ds)).
  { intros ds H. induction H; cbn [map]; constructor; [apply line_of_ok; [assumption|reflexivity]|assumption]. }
  apply Forall_app. split; [apply Hblank; exact Hb|].
  constructor; [apply line_of_ok; [exact Ho|reflexivity]|].
  apply Forall_app. split; [apply render_items_ok; exact Hits|].
  constructor; [apply line_of_ok; [exact Hc|reflexivity]|apply Hblank; exact Ha].
Qed.

(* C15, tree layer: for every layout, the parser returns the tree the items describe *)
Theorem parse_render : forall files file m its,
  wf_main m -> wf_items its -> all_files_ok files its -> (items_depth its < conf_max_depth)%nat ->
  parse_conf files file (render_main m its) = ROk (NSec kw_server (denote_items its)).
Proof.
  intros files file m its Hm Hits Hfiles Hdepth. unfold parse_conf, render_main.
  rewrite <- (app_nil_r (file_text (m_crlf m) (main_lines m its))).
  rewrite (lines_file_text _ _ [] (main_lines_ok m its Hm Hits)). cbn [lines]. rewrite app_nil_r.
  destruct Hm as [Hb [Ho [Hc Ha]]]. unfold main_lines.
  rewrite (find_server_skip _ _ _ Hb). unfold server_line. cbn [find_server].
  rewrite (clean_server_line _ Ho). rewrite beq_refl.
  rewrite (sim_section files conf_max_depth kw_server file its (m_close m) _ _ _ Hits Hfiles Hdepth Hc (Nat.lt_succ_diag_r _)).
  rewrite (check_trailing_blank _ _ Ha). reflexivity.
Qed.

(* ================================================================================================
   F. a single bad line is reported with its file and line
   ================================================================================================ *)
Lemma step_bad : forall files ps room continue f name file raw rest ln acc c,
  bad_line raw = Some c ->
  section_step files ps room continue f name file raw rest ln acc = RErr (mkerr c file ln).
Proof.
  intros files ps room continue f name file raw rest ln acc c H. unfold bad_line in H. unfold section_step.
  destruct (strip_suffix_byte LBRACE (clean_up raw)); [discriminate|].
  destruct (beq (clean_up raw) [RBRACE]); [discriminate|].
  destruct (clean_up raw) as [|x l] eqn:E; [discriminate|].
  destruct (split_once SP (x :: l)) as [[a b]|]; [|injection H as <-; reflexivity].
  destruct (negb (beq (trim a) kw_include)).
  - destruct (type_value (trim a) (trim b)); try discriminate. injection H as <-. reflexivity.
  - destruct (is_quoted (trim b)); [discriminate|]. injection H as <-. reflexivity.
Qed.

Lemma scan_items_go : forall file body ln,
  (fix go (its : list item) (ln : N) : N + cerr :=
     match its with
     | [] => inl ln
     | i :: r => match scan_item file i ln with inl ln' => go r ln' | inr e => inr e end
     end) body ln = scan_items file body ln.
Proof. intros file. induction body as [|i r IH]; intros ln; [reflexivity|]. cbn [scan_items]. destruct (scan_item file i ln); [apply IH|reflexivity]. Qed.

(* an item without a bad line inside is well-formed in the strict sense and advances the line counter by its lines *)
Lemma scan_item_inl : forall it, wf_item_bad it -> forall file ln ln', scan_item file it ln = inl ln' ->
  wf_item it /\ ln' = ln + N.of_nat (length (render_item it)).
Proof.
  induction it using item_ind'; intros Hwf file ln ln' Hs; cbn [wf_item_bad wf_item scan_item render_item] in *.
  - injection Hs as <-. split; [exact Hwf|cbn [length]; lia].
  - destruct Hwf as [Hd [Hdc [Hk [Hw1 [Hw2 Hbody]]]]]. rewrite scan_items_go in Hs.
    assert (Hgen : forall n n', scan_items file body n = inl n' ->
              fold_right (fun i P => wf_item i /\ P) True body /\ n' = n + N.of_nat (length (flat_map render_item body))).
    { clear Hs. apply fold_and_forall in Hbody. induction H as [|c cs Hc Hcs IH]; intros n n' Hn.
      - injection Hn as <-. split; [exact I|cbn; lia].
      - inversion Hbody as [|? ? Hb1 Hb2]; subst. cbn [scan_items] in Hn.
        destruct (scan_item file c n) as [n1|e] eqn:E1; [|discriminate].
        destruct (Hc Hb1 file n n1 E1) as [Hw1' ->]. destruct (IH Hb2 _ _ Hn) as [Hw2' ->].
        split; [split; assumption|]. cbn [flat_map]. rewrite app_length. lia. }
    destruct (scan_items file body (ln + 1)) as [n1|e] eqn:E; [|discriminate]. injection Hs as <-.
    destruct (Hgen _ _ E) as [Hwb ->].
    split; [exact (conj Hd (conj Hdc (conj Hk (conj Hw1 (conj Hw2 Hwb)))))|].
    cbn [length]. rewrite app_length. cbn [length]. lia.
  - destruct Hwf as [Hd [Hg1 [Hg2 [Hp Hbody]]]]. rewrite scan_items_go in Hs.
    assert (Hgen : forall n n', scan_items path body n = inl n' -> fold_right (fun i P => wf_item i /\ P) True body).
    { clear Hs. apply fold_and_forall in Hbody. induction H as [|c cs Hc Hcs IH]; intros n n' Hn; [exact I|].
      inversion Hbody as [|? ? Hb1 Hb2]; subst. cbn [scan_items] in Hn.
      destruct (scan_item path c n) as [n1|e] eqn:E1; [|discriminate].
      destruct (Hc Hb1 path n n1 E1) as [Hw1' _]. split; [exact Hw1'|exact (IH Hb2 _ _ Hn)]. }
    destruct (scan_items path body 0) as [n1|e] eqn:E; [|discriminate]. injection Hs as <-.
    split; [exact (conj Hd (conj Hg1 (conj Hg2 (conj Hp (Hgen _ _ E)))))|cbn [length]; lia].
  - injection Hs as <-. split; [exact Hwf|cbn [length]; lia].
  - destruct Hwf as [Hb _]. destruct (bad_line l); [discriminate|congruence].
Qed.

Lemma render_item_bad_ok : forall it, wf_item_bad it -> Forall (fun l => line_okb l = true) (render_item it).
Proof.
  induction it using item_ind'; intros Hwf.
  - apply render_item_ok. exact Hwf.
  - cbn [wf_item_bad render_item] in *. destruct Hwf as [Hd [Hdc [Hk [Hw1 [Hw2 Hbody]]]]]. constructor.
    + apply line_of_ok; [exact Hd|]. destruct (header_trimmed k w1 Hk Hw1) as [_ Hp].
      rewrite !plainb_app, Hp, (blankb_plainb _ Hw2). reflexivity.
    + apply Forall_app. split; [|constructor; [apply line_of_ok; [exact Hdc|reflexivity]|constructor]].
      apply fold_and_forall in Hbody. clear -H Hbody. induction H as [|c cs Hc Hcs IH]; cbn [flat_map]; [constructor|].
      inversion Hbody; subst. apply Forall_app. split; [apply Hc; assumption|apply IH; assumption].
  - cbn [wf_item_bad render_item] in *. destruct Hwf as [Hd [Hg1 [Hg2 [Hp _]]]].
    apply (render_item_ok (IInc d g1 g2 path [] crlf)). cbn [wf_item fold_right]. exact (conj Hd (conj Hg1 (conj Hg2 (conj Hp I)))).
  - apply render_item_ok. exact Hwf.
  - cbn [wf_item_bad render_item] in *. destruct Hwf as [_ Hl]. constructor; [exact Hl|constructor].
Qed.

Lemma render_items_bad_ok : forall its, wf_items_bad its -> Forall (fun l => line_okb l = true) (render_items its).
Proof.
  induction its as [|it its IH]; intros H; [constructor|]. destruct H as [H1 H2].
  unfold render_items. cbn [flat_map]. apply Forall_app. split; [apply render_item_bad_ok; exact H1|apply IH; exact H2].
Qed.

Lemma sim_section_err : forall files d nm file its tail ln fuel e,
  wf_items_bad its -> all_files_ok files its -> (items_depth its < d)%nat ->
  (length (render_items its ++ tail) < fuel)%nat ->
  scan_items file its ln = inr e ->
  parse_section files d fuel nm file (render_items its ++ tail) ln = RErr e.
Proof.
  intros files. induction d as [|d' IHd]; intros nm file its tail ln fuel e Hwf Hfiles Hdepth Hfuel Hscan; [lia|].
  cbn [parse_section]. generalize (@nil node) as acc.
  assert (Hdepth' : (items_depth its <= d')%nat) by lia. clear Hdepth.
  revert fuel tail ln Hwf Hfiles Hdepth' Hfuel Hscan.
  induction its as [|it its IH]; intros fuel tail ln Hwf Hfiles Hdepth Hfuel Hscan acc; [discriminate|].
  destruct Hwf as [Hwf1 Hwf]. destruct Hfiles as [Hf1 Hfiles]. rewrite items_depth_cons in Hdepth.
  cbn [scan_items] in Hscan.
  destruct (scan_item file it ln) as [ln1|e1] eqn:E1.
  - (* this item is fine: run it with sim_loop, then continue *)
    destruct (scan_item_inl it Hwf1 file ln ln1 E1) as [Hstrict ->].
    destruct (sim_loop files d' nm file
                (fun nm0 its0 dc tl l fu => sim_section files d' nm0 file its0 dc tl l fu)
                (fun nm0 p its0 dc tl l fu => sim_section files d' nm0 p its0 dc tl l fu)
                [it] fuel (render_items its ++ tail) ln acc) as [fuel' [Hf' Heq]].
    + split; [exact Hstrict|exact I].
    + split; [exact Hf1|exact I].
    + rewrite items_depth_cons. cbn. lia.
    + change (render_items [it]) with (render_item it ++ []). rewrite app_nil_r.
      change (render_items (it :: its)) with (render_item it ++ render_items its) in Hfuel. rewrite <- app_assoc in Hfuel. exact Hfuel.
    + change (render_items (it :: its)) with (render_item it ++ render_items its). rewrite <- app_assoc.
      change (render_items [it]) with (render_item it ++ []) in Heq. rewrite app_nil_r in Heq. rewrite Heq.
      apply IH; [exact Hwf|exact Hfiles|lia|exact Hf'|exact Hscan].
  - injection Hscan as <-.
    change (render_items (it :: its)) with (render_item it ++ render_items its) in *. rewrite <- app_assoc in *.
    destruct it as [d key g1 g2 v|d k w1 w2 body dc|d g1 g2 path body crlf|d|l]; cbn [scan_item] in E1; try discriminate.
    + (* error inside a section *)
      rewrite scan_items_go in E1. destruct (scan_items file body (ln + 1)) as [n1|e2] eqn:E2; [discriminate|]. injection E1 as ->.
      cbn [wf_item_bad files_ok render_item] in *. destruct Hwf1 as [Hd [Hdc [Hk [Hw1 [Hw2 Hbody]]]]].
      rewrite item_depth_sec in Hdepth.
      change (flat_map render_item body) with (render_items body) in *.
      cbn [app] in *. rewrite <- (app_assoc (render_items body) [line_of dc [RBRACE]]) in *. cbn [app] in *.
      destruct fuel as [|f]; [cbn [length] in Hfuel; lia|]. rewrite section_loop_S.
      rewrite (step_sec _ _ _ _ _ _ _ _ _ _ _ k w1 w2 (clean_hdr d k w1 w2 Hd Hk Hw1 Hw2) Hk Hw1 Hw2).
      rewrite (IHd (sec_name k) file body _ (ln + 1) f e1 Hbody Hf1); [reflexivity|lia|cbn [length] in Hfuel; lia|exact E2].
    + (* error inside an included file *)
      rewrite scan_items_go in E1. destruct (scan_items path body 0) as [n1|e2] eqn:E2; [discriminate|]. injection E1 as ->.
      cbn [wf_item_bad files_ok render_item] in *. destruct Hwf1 as [Hd [Hg1 [Hg2 [Hpath Hbody]]]].
      destruct Hf1 as [Hfile [Hutf Hfbody]]. rewrite item_depth_inc in Hdepth.
      change (flat_map render_item body) with (render_items body) in *.
      cbn [app] in *. destruct fuel as [|f]; [cbn [length] in Hfuel; lia|]. rewrite section_loop_S.
      destruct (wf_str_vtext path Hpath) as [Hvt Hvp].
      rewrite (step_inc _ _ _ _ _ _ _ _ _ _ _ g1 g2 path
                 (clean_kv d kw_include g1 g2 _ Hd eq_refl Hg1 Hg2 Hvt Hvp) Hg1 Hg2 Hpath).
      unfold include_with. destruct d' as [|d'']; [lia|]. cbn [negb]. rewrite Hfile, Hutf.
      rewrite (lines_file_text crlf (render_items body) [LF; RBRACE] (render_items_bad_ok body Hbody)).
      rewrite (IHd included_section_name path body (lines [LF; RBRACE]) 0 _ e1 Hbody Hfbody); [reflexivity|lia|lia|exact E2].
    + (* the bad line itself *)
      destruct (bad_line l) as [c|] eqn:Eb; [|discriminate]. injection E1 as <-.
      cbn [render_item app] in *. destruct fuel as [|f]; [cbn [length] in Hfuel; lia|]. rewrite section_loop_S.
      apply step_bad. exact Eb.
Qed.

Lemma main_lines_bad_ok : forall m its, wf_main m -> wf_items_bad its -> Forall (fun l => line_okb l = true) (main_lines m its).
Proof.
  intros m its [Hb [Ho [Hc Ha]]] Hits. unfold main_lines.
  assert (Hblank : forall ds, Forall wf_deco ds -> Forall (fun l => line_okb l = true) (map (fun d => line_of d []) ds)).
  { intros ds H. induction H; cbn [map]; constructor; [apply line_of_ok; [assumption|reflexivity]|assumption]. }
  apply Forall_app. split; [apply Hblank; exact Hb|].
  constructor; [apply line_of_ok; [exact Ho|reflexivity]|].
  apply Forall_app. split; [apply render_items_bad_ok; exact Hits|].
  constructor; [apply line_of_ok; [exact Hc|reflexivity]|apply Hblank; exact Ha].
Qed.

(* C15: a file whose first bad line is at (file', line') is rejected with exactly that file and line, whatever the layout,
   wherever the line is (top level, nested sections, include files) *)
Theorem reject_line : forall files file m its e,
  wf_main m -> wf_items_bad its -> all_files_ok files its -> (items_depth its < conf_max_depth)%nat ->
  scan_items file its (N.of_nat (length (m_before m)) + 1) = inr e ->
  parse_conf files file (render_main m its) = RErr e.
Proof.
  intros files file m its e Hm Hits Hfiles Hdepth Hscan. unfold parse_conf, render_main.
  rewrite <- (app_nil_r (file_text (m_crlf m) (main_lines m its))).
  rewrite (lines_file_text _ _ [] (main_lines_bad_ok m its Hm Hits)). cbn [lines]. rewrite app_nil_r.
  destruct Hm as [Hb [Ho [Hc Ha]]]. unfold main_lines.
  rewrite (find_server_skip _ _ _ Hb). unfold server_line. cbn [find_server].
  rewrite (clean_server_line _ Ho). rewrite beq_refl. rewrite N.add_0_l.
  rewrite (sim_section_err files conf_max_depth kw_server file its _ _ _ e Hits Hfiles Hdepth (Nat.lt_succ_diag_r _) Hscan).
  reflexivity.
Qed.

Lemma wf_item_bad_of_wf : forall it, wf_item it -> wf_item_bad it.
Proof.
  induction it using item_ind'; intros Hwf; cbn [wf_item wf_item_bad] in *; try exact Hwf.
  - destruct Hwf as [Hd [Hdc [Hk [Hw1 [Hw2 Hbody]]]]]. refine (conj Hd (conj Hdc (conj Hk (conj Hw1 (conj Hw2 _))))).
    apply fold_and_forall. apply fold_and_forall in Hbody. clear -H Hbody.
    induction H; constructor; inversion Hbody; subst; auto.
  - destruct Hwf as [Hd [Hg1 [Hg2 [Hp Hbody]]]]. refine (conj Hd (conj Hg1 (conj Hg2 (conj Hp _)))).
    apply fold_and_forall. apply fold_and_forall in Hbody. clear -H Hbody.
    induction H; constructor; inversion Hbody; subst; auto.
  - destruct Hwf.
Qed.

Lemma scan_item_wf : forall it, wf_item it -> forall file ln, scan_item file it ln = inl (ln + N.of_nat (length (render_item it))).
Proof.
  induction it using item_ind'; intros Hwf file ln; cbn [wf_item scan_item render_item] in *.
  - cbn [length]. first [reflexivity|f_equal; lia].
  - destruct Hwf as [_ [_ [_ [_ [_ Hbody]]]]]. rewrite scan_items_go.
    assert (Hgen : forall n, scan_items file body n = inl (n + N.of_nat (length (flat_map render_item body)))).
    { apply fold_and_forall in Hbody. clear -H Hbody. induction H as [|c cs Hc Hcs IH]; intros n; [cbn; f_equal; lia|].
      inversion Hbody; subst. cbn [scan_items flat_map]. rewrite Hc by assumption. rewrite IH by assumption.
      f_equal. rewrite app_length. lia. }
    rewrite Hgen. f_equal. cbn [length]. rewrite app_length. cbn [length]. lia.
  - destruct Hwf as [_ [_ [_ [_ Hbody]]]]. rewrite scan_items_go.
    assert (Hgen : forall n, exists n', scan_items path body n = inl n').
    { apply fold_and_forall in Hbody. clear -H Hbody. induction H as [|c cs Hc Hcs IH]; intros n; [eexists; reflexivity|].
      inversion Hbody; subst. cbn [scan_items]. rewrite Hc by assumption. apply IH. assumption. }
    destruct (Hgen 0) as [n' ->]. cbn [length]. first [reflexivity|f_equal; lia].
  - cbn [length]. first [reflexivity|f_equal; lia].
  - destruct Hwf.
Qed.

Lemma scan_items_wf_app : forall pre rest file ln, wf_items pre ->
  scan_items file (pre ++ rest) ln = scan_items file rest (ln + N.of_nat (length (render_items pre))).
Proof.
  induction pre as [|it pre IH]; intros rest file ln H; [cbn; rewrite N.add_0_r; reflexivity|].
  destruct H as [H1 H2]. cbn [app scan_items]. rewrite (scan_item_wf it H1). rewrite IH by exact H2.
  f_equal. change (render_items (it :: pre)) with (render_item it ++ render_items pre). rewrite app_length. lia.
Qed.

(* the single-fault form: well-formed items, one bad line among the items of the server section, anything well-formed after it:
   the error names the main file and the line of the bad line *)
Theorem reject_line_top : forall files file m pre l post c,
  wf_main m -> wf_items pre -> wf_items post -> all_files_ok files (pre ++ post) ->
  (items_depth (pre ++ post) < conf_max_depth)%nat ->
  bad_line l = Some c -> forallb (fun b => negb (b =? 10) && negb (b =? 13)) l = true ->
  parse_conf files file (render_main m (pre ++ IRaw l :: post)) =
  RErr (mkerr c file (N.of_nat (length (m_before m)) + 1 + N.of_nat (length (render_items pre)) + 1)).
Proof.
  intros files file m pre l post c Hm Hpre Hpost Hfiles Hdepth Hbad Hl.
  apply reject_line; [exact Hm| | | |].
  - apply fold_and_forall. apply Forall_app. split.
    + apply fold_and_forall in Hpre. eapply Forall_impl; [|exact Hpre]. apply wf_item_bad_of_wf.
    + constructor; [split; [congruence|exact Hl]|]. apply fold_and_forall in Hpost.
      eapply Forall_impl; [|exact Hpost]. apply wf_item_bad_of_wf.
  - apply all_files_ok_app in Hfiles. destruct Hfiles as [Ha Hb]. apply all_files_ok_app. split; [exact Ha|split; [exact I|exact Hb]].
  - rewrite items_depth_app in *. rewrite items_depth_cons. cbn [item_depth]. lia.
  - rewrite scan_items_wf_app by exact Hpre. cbn [scan_items scan_item]. rewrite Hbad. reflexivity.
Qed.

(* ---- the mutation classes of the property, as bad lines ---- *)
Lemma bad_line_of : forall d text, wf_deco d -> plainb text = true -> vis_ends text ->
  bad_line (line_of d text) =
  match strip_suffix_byte LBRACE text with
  | Some _ => None
  | None =>
    if beq text [RBRACE] then None
    else match split_once SP text with
         | None => Some E_Syntax
         | Some (a, b) =>
           if negb (beq (trim a) kw_include) then match type_value (trim a) (trim b) with Err c => Some c | _ => None end
           else if is_quoted (trim b) then None else Some E_IncValue
         end
  end.
Proof.
  intros d text Hd Hp Hv. unfold bad_line. rewrite (clean_up_line d text Hd Hp (or_intror Hv)).
  destruct (strip_suffix_byte LBRACE text); [reflexivity|]. destruct (beq text [RBRACE]); [reflexivity|].
  destruct text; [destruct Hv; congruence|reflexivity].
Qed.

(* missing value: a key alone on its line *)
Theorem missing_value_bad : forall d key, wf_deco d -> keyb key = true -> key <> [RBRACE] -> last key 0 <> LBRACE ->
  bad_line (line_of d key) = Some E_Syntax.
Proof.
  intros d key Hd Hk Hnb Hl. destruct (keyb_vis_ends key Hk) as [Hv [Hp Hsp]].
  rewrite (bad_line_of d key Hd Hp Hv).
  rewrite strip_suffix_byte_none; [|destruct Hv; assumption|exact Hl].
  replace (beq key [RBRACE]) with false by (symmetry; destruct (beq key [RBRACE]) eqn:E; [apply beq_eq in E; congruence|reflexivity]).
  rewrite split_once_none by exact Hsp. reflexivity.
Qed.

(* a key with a value text that does not type: bad number, unknown unit, unterminated quote, non-ASCII in a number ... *)
Theorem bad_value_bad : forall d key g1 g2 vt, wf_deco d -> keyb key = true -> key <> kw_include ->
  tabsb g1 = true -> blankb g2 = true -> vtext_ok vt -> plainb vt = true ->
  type_value key vt = Err E_Value ->
  bad_line (line_of d (kv_text key g1 g2 vt)) = Some E_Value.
Proof.
  intros d key g1 g2 vt Hd Hk Hki Hg1 Hg2 Hvt Hp Htv. unfold bad_line.
  rewrite (clean_kv d key g1 g2 vt Hd Hk Hg1 Hg2 Hvt Hp).
  destruct (kv_split key g1 g2 vt Hk Hg1 Hg2 Hvt) as [H1 [H2 [H3 [H4 [H5 H6]]]]].
  destruct (kv_text key g1 g2 vt) eqn:E; [congruence|]. rewrite H1, H2, H4, H5, H6.
  replace (beq key kw_include) with false by (symmetry; destruct (beq key kw_include) eqn:Eb; [apply beq_eq in Eb; congruence|reflexivity]).
  cbn [negb]. rewrite Htv. reflexivity.
Qed.

(* an include directive whose argument is not quoted *)
Theorem bad_include_bad : forall d g1 g2 vt, wf_deco d -> tabsb g1 = true -> blankb g2 = true -> vtext_ok vt -> plainb vt = true ->
  is_quoted vt = false ->
  bad_line (line_of d (kv_text kw_include g1 g2 vt)) = Some E_IncValue.
Proof.
  intros d g1 g2 vt Hd Hg1 Hg2 Hvt Hp Hq. unfold bad_line.
  rewrite (clean_kv d kw_include g1 g2 vt Hd eq_refl Hg1 Hg2 Hvt Hp).
  destruct (kv_split kw_include g1 g2 vt eq_refl Hg1 Hg2 Hvt) as [H1 [H2 [H3 [H4 [H5 H6]]]]].
  destruct (kv_text kw_include g1 g2 vt) eqn:E; [congruence|]. rewrite H1, H2, H4, H5, H6.
  rewrite beq_refl. cbn [negb]. rewrite Hq. reflexivity.
Qed.

(* unterminated quote: an opening quote without a closing one never types *)
Lemma parse_i64_quote_head : forall r, parse_i64 (34 :: r) = None.
Proof. intros r. reflexivity. Qed.

Theorem unterminated_quote_value : forall key s, forallb (fun b => negb (b =? 34)) s = true ->
  type_value key (QUOTE :: s) = Err E_Value.
Proof.
  intros key s Hs. unfold type_value.
  assert (Hq : is_quoted (QUOTE :: s) = false).
  { unfold is_quoted, QUOTE. destruct s as [|a s']; [reflexivity|]. remember (a :: s') as s0.
    assert (Hin : In (last s0 0) s0).
    { assert (Hne : s0 <> []) by (subst; discriminate). rewrite (app_removelast_last 0 Hne) at 2. apply in_or_app. right. left. reflexivity. }
    rewrite forallb_forall in Hs. specialize (Hs _ Hin). apply negb_true_iff in Hs. exact Hs. }
  rewrite Hq. unfold QUOTE. rewrite parse_i64_quote_head.
  assert (Hb : parse_bool (34 :: s) = None) by reflexivity. rewrite Hb.
  unfold parse_size. destruct s as [|a s']; [reflexivity|].
  remember (34 :: a :: s') as sz. unfold split_last_char. destruct sz as [|z sz']; [discriminate|].
  destruct (take_cont (rev (z :: sz')) []) as [rr c] eqn:Etc.
  destruct (take_cont_app _ _ _ _ Etc) as [c0 [Hc Hrl]].
  assert (Hrr : rr = [] \/ exists t, rev rr = 34 :: t).
  { destruct rr as [|x rr']; [left; reflexivity|right].
    apply (f_equal (@rev N)) in Hrl. rewrite rev_involutive, rev_app_distr, rev_involutive in Hrl.
    rewrite Heqsz in Hrl. destruct (rev (x :: rr')) as [|y t] eqn:Er; [apply (f_equal (@length N)) in Er; rewrite rev_length in Er; discriminate|].
    cbn [app] in Hrl. injection Hrl as <- _. exists t. reflexivity. }
  destruct Hrr as [-> | [t Hr]]; [reflexivity|rewrite Hr; reflexivity].
Qed.
