(* Proofs about the Base64 model (C18): encode = RFC 4648 §4 on bit strings, decode accepts exactly the well-formed
   texts and returns what they denote, decode inverts encode, and the pre-fix decoder is refuted. *)
From Coq Require Import Lia.
From Hv Require Import Prelude BitsBE BitsBEProofs Base64 Base64Spec.
Open Scope N_scope.

Ltac Zify.zify_post_hook ::= Z.to_euclidean_division_equations.

Definition is_byte (x : N) : Prop := x < 256.

(* ---------- list induction in steps of 3 and 4 ---------- *)
Lemma list_ind3 {A} (P : list A -> Prop) :
  P [] -> (forall a, P [a]) -> (forall a b, P [a; b]) ->
  (forall a b c r, P r -> P (a :: b :: c :: r)) -> forall l, P l.
Proof.
  intros H0 H1 H2 H3. fix IH 1. intros [|a [|b [|c r]]].
  - exact H0. - apply H1. - apply H2. - apply H3, IH.
Qed.

Lemma list_ind4 {A} (P : list A -> Prop) :
  P [] -> (forall a, P [a]) -> (forall a b, P [a; b]) -> (forall a b c, P [a; b; c]) ->
  (forall a b c d r, P r -> P (a :: b :: c :: d :: r)) -> forall l, P l.
Proof.
  intros H0 H1 H2 H3 H4. fix IH 1. intros [|a [|b [|c [|d r]]]].
  - exact H0. - apply H1. - apply H2. - apply H3. - apply H4, IH.
Qed.

(* ---------- bitwise or of disjoint numbers is addition ---------- *)
Lemma lor_shiftl_add x y k : y < 2 ^ k -> N.lor (N.shiftl x k) y = x * 2 ^ k + y.
Proof.
  intro Hy. rewrite <- N.shiftl_mul_pow2.
  assert (H0 : N.land (N.shiftl x k) y = 0).
  { apply N.bits_inj_0; intro n. rewrite N.land_spec. destruct (N.lt_ge_cases n k) as [Hn|Hn].
    - now rewrite N.shiftl_spec_low.
    - rewrite <- (N.mod_small y (2 ^ k)) by assumption.
      rewrite N.mod_pow2_bits_high by assumption. apply andb_false_r. }
  rewrite N.add_nocarry_lxor by assumption. symmetry. now apply N.lxor_lor.
Qed.

(* ---------- the alphabet ---------- *)
Definition outcome_eqb (x : outcome N) (c : N) : bool :=
  match x with Ok a => a =? c | _ => false end.

Lemma outcome_eqb_eq x c : outcome_eqb x c = true -> x = Ok c.
Proof. destruct x; cbn; try discriminate. intro H. apply N.eqb_eq in H. now subst. Qed.

(* ALPHABET is Table 1 of RFC 4648 *)
Lemma alpha_rfc v : v < 64 -> alpha v = Ok (rfc_sym v).
Proof.
  intro H. apply outcome_eqb_eq. revert v H.
  apply (sweep1 (fun v => outcome_eqb (alpha v) (rfc_sym v)) 64). vm_compute. reflexivity.
Qed.

Definition opt_eqb (x : option N) (c : N) : bool :=
  match x with Some a => a =? c | _ => false end.
Lemma opt_eqb_eq x c : opt_eqb x c = true -> x = Some c.
Proof. destruct x; cbn; try discriminate. intro H. apply N.eqb_eq in H. now subst. Qed.

Lemma rfc_val_sym v : v < 64 -> rfc_val (rfc_sym v) = Some v.
Proof.
  intro H. apply opt_eqb_eq. revert v H.
  apply (sweep1 (fun v => opt_eqb (rfc_val (rfc_sym v)) v) 64). vm_compute. reflexivity.
Qed.

Lemma rfc_val_range c v : rfc_val c = Some v -> v < 64 /\ rfc_sym v = c.
Proof.
  unfold rfc_val. intro H. apply find_some in H as [Hin Hc].
  apply in_map_iff in Hin as (k & <- & Hk). apply in_seq in Hk.
  split; [lia|]. now apply N.eqb_eq.
Qed.

Lemma rfc_sym_byte v : v < 64 -> rfc_sym v < 256.
Proof.
  intro H. apply N.ltb_lt. revert v H.
  apply (sweep1 (fun v => rfc_sym v <? 256) 64). vm_compute. reflexivity.
Qed.

Lemma rfc_sym_not_pad v : v < 64 -> (rfc_sym v =? rfc_pad) = false.
Proof.
  intro H. apply negb_true_iff. revert v H.
  apply (sweep1 (fun v => negb (rfc_sym v =? rfc_pad)) 64). vm_compute. reflexivity.
Qed.

Lemma in_alphabet_not_pad c : in_alphabet c = true -> (c =? rfc_pad) = false.
Proof.
  unfold in_alphabet. destruct (rfc_val c) as [v|] eqn:E; [|discriminate]. intros _.
  apply rfc_val_range in E as [Hv <-]. now apply rfc_sym_not_pad.
Qed.

(* the `match tem` of the decoder reads Table 1 backwards *)
Definition classify_ref (c : N) : symclass :=
  match rfc_val c with
  | Some v => SVal v
  | None => if c =? rfc_pad then SPad else SBad
  end.

Definition symclass_eqb (a b : symclass) : bool :=
  match a, b with
  | SVal x, SVal y => x =? y
  | SPad, SPad => true
  | SBad, SBad => true
  | _, _ => false
  end.
Lemma symclass_eqb_eq a b : symclass_eqb a b = true -> a = b.
Proof. destruct a, b; cbn; try discriminate; try reflexivity. intro H. apply N.eqb_eq in H. now subst. Qed.

Lemma classify_spec c : classify c = classify_ref c.
Proof.
  destruct (N.lt_ge_cases c 256) as [H|H].
  - apply symclass_eqb_eq. revert c H.
    apply (sweep1 (fun c => symclass_eqb (classify c) (classify_ref c)) 256). vm_compute. reflexivity.
  - unfold classify, classify_ref.
    destruct (rfc_val c) as [v|] eqn:E.
    + apply rfc_val_range in E as [Hv E]. pose proof (rfc_sym_byte v Hv). lia.
    + replace (c <=? 90) with false by (symmetry; apply N.leb_gt; lia).
      replace (c <=? 122) with false by (symmetry; apply N.leb_gt; lia).
      replace (c <=? 57) with false by (symmetry; apply N.leb_gt; lia).
      rewrite !andb_false_r.
      replace (c =? 43) with false by (symmetry; apply N.eqb_neq; lia).
      replace (c =? 47) with false by (symmetry; apply N.eqb_neq; lia).
      unfold rfc_pad.
      replace (c =? 61) with false by (symmetry; apply N.eqb_neq; lia).
      reflexivity.
Qed.

(* ---------- the encoder's u8 expressions as arithmetic ---------- *)
Lemma enc_i0 g0 : g0 < 256 -> shr8 g0 2 = g0 / 4.
Proof. intro H. apply N.eqb_eq. revert g0 H. apply (sweep1 (fun g0 => shr8 g0 2 =? g0 / 4) 256). vm_compute. reflexivity. Qed.

Lemma enc_i1 g0 g1 : g0 < 256 -> g1 < 256 ->
  or8 (shl8 (and8 g0 3) 4) (shr8 g1 4) = (g0 mod 4) * 16 + g1 / 16.
Proof.
  intros H0 H1. apply N.eqb_eq. revert g0 g1 H0 H1.
  apply (sweep2 (fun g0 g1 => or8 (shl8 (and8 g0 3) 4) (shr8 g1 4) =? (g0 mod 4) * 16 + g1 / 16) 256 256).
  vm_compute. reflexivity.
Qed.

Lemma enc_i2 g1 g2 : g1 < 256 -> g2 < 256 ->
  or8 (shl8 (and8 g1 15) 2) (shr8 g2 6) = (g1 mod 16) * 4 + g2 / 64.
Proof.
  intros H0 H1. apply N.eqb_eq. revert g1 g2 H0 H1.
  apply (sweep2 (fun g1 g2 => or8 (shl8 (and8 g1 15) 2) (shr8 g2 6) =? (g1 mod 16) * 4 + g2 / 64) 256 256).
  vm_compute. reflexivity.
Qed.

Lemma enc_i3 g2 : g2 < 256 -> and8 g2 63 = g2 mod 64.
Proof. intro H. apply N.eqb_eq. revert g2 H. apply (sweep1 (fun g => and8 g 63 =? g mod 64) 256). vm_compute. reflexivity. Qed.

Lemma enc_t1 g0 : g0 < 256 -> shl8 (and8 g0 3) 4 = (g0 mod 4) * 16.
Proof. intro H. apply N.eqb_eq. revert g0 H. apply (sweep1 (fun g => shl8 (and8 g 3) 4 =? (g mod 4) * 16) 256). vm_compute. reflexivity. Qed.

Lemma enc_t2 g1 : g1 < 256 -> shl8 (and8 g1 15) 2 = (g1 mod 16) * 4.
Proof. intro H. apply N.eqb_eq. revert g1 H. apply (sweep1 (fun g => shl8 (and8 g 15) 2 =? (g mod 16) * 4) 256). vm_compute. reflexivity. Qed.

(* ---------- regrouping 8-bit groups as 6-bit groups ---------- *)
Lemma bits_be_ext w x y : x mod 2 ^ N.of_nat w = y mod 2 ^ N.of_nat w -> bits_be w x = bits_be w y.
Proof. intro H. rewrite <- (bits_be_mod w w x), <- (bits_be_mod w w y) by lia. now rewrite H. Qed.

Lemma bits_3x8_4x6 g0 g1 g2 : g0 < 256 -> g1 < 256 -> g2 < 256 ->
  bits_be 8 g0 ++ bits_be 8 g1 ++ bits_be 8 g2 =
  bits_be 6 (g0 / 4) ++ bits_be 6 ((g0 mod 4) * 16 + g1 / 16) ++
  bits_be 6 ((g1 mod 16) * 4 + g2 / 64) ++ bits_be 6 (g2 mod 64).
Proof.
  intros H0 H1 H2.
  rewrite (bits_be_join 8 8 g1 g2) by exact H2.
  rewrite (bits_be_join 8 16 g0) by (change (2 ^ N.of_nat 16) with 65536; change (2 ^ N.of_nat 8) with 256; lia).
  change (8 + 16)%nat with (6 + (6 + (6 + 6)))%nat.
  rewrite !bits_be_split.
  change (2 ^ N.of_nat 16) with 65536; change (2 ^ N.of_nat 8) with 256.
  change (2 ^ N.of_nat (6 + (6 + 6))) with 262144.
  change (2 ^ N.of_nat (6 + 6)) with 4096.
  change (2 ^ N.of_nat 6) with 64.
  f_equal; [|f_equal; [|f_equal]]; apply bits_be_ext; change (2 ^ N.of_nat 6) with 64; lia.
Qed.

Lemma bits_1x8 g0 : g0 < 256 -> bits_be 8 g0 = bits_be 6 (g0 / 4) ++ bits_be 2 g0.
Proof. intros _. change 8%nat with (6 + 2)%nat. rewrite bits_be_split. reflexivity. Qed.

Lemma bits_2x8 g0 g1 : g0 < 256 -> g1 < 256 ->
  bits_be 8 g0 ++ bits_be 8 g1 =
  bits_be 6 (g0 / 4) ++ bits_be 6 ((g0 mod 4) * 16 + g1 / 16) ++ bits_be 4 g1.
Proof.
  intros H0 H1. rewrite (bits_be_join 8 8 g0 g1) by exact H1.
  change (8 + 8)%nat with (6 + (6 + 4))%nat. rewrite !bits_be_split.
  change (2 ^ N.of_nat 8) with 256. change (2 ^ N.of_nat (6 + 4)) with 1024. change (2 ^ N.of_nat 4) with 16.
  f_equal; [|f_equal]; apply bits_be_ext.
  - change (2 ^ N.of_nat 6) with 64. lia.
  - change (2 ^ N.of_nat 6) with 64. lia.
  - change (2 ^ N.of_nat 4) with 16. lia.
Qed.

(* ---------- the specification, symbol by symbol ---------- *)
Definition sym_of (g : list bool) : N := rfc_sym (val_be (pad_right 6 g)).
Definition enc_syms (b : list N) : list N := map sym_of (groups 6 (flat_map (bits_be 8) b)).
Definition enc_pad (n : nat) : list N := repeat rfc_pad ((4 - n mod 4) mod 4)%nat.

Lemma encode_spec_unfold b : encode_spec b = enc_syms b ++ enc_pad (length (enc_syms b)).
Proof. unfold encode_spec, enc_syms, enc_pad. now rewrite map_map. Qed.

Lemma sym_of_full i : i < 64 -> sym_of (bits_be 6 i) = rfc_sym i.
Proof.
  intro H. unfold sym_of, pad_right. rewrite bits_be_length. cbn [Nat.sub repeat].
  rewrite app_nil_r. now rewrite bits_be_small.
Qed.

Lemma sym_of_short w i : (w <= 6)%nat -> sym_of (bits_be w i) = rfc_sym ((i mod 2 ^ N.of_nat w) * 2 ^ N.of_nat (6 - w)).
Proof.
  intro H. unfold sym_of, pad_right. rewrite bits_be_length, val_be_app, val_be_repeat_false, repeat_length.
  rewrite val_be_bits_be. f_equal. lia.
Qed.

Lemma enc_syms_group g (b : list bool) rest :
  length g = 6%nat ->
  map sym_of (groups 6 (g ++ rest)) = sym_of g :: map sym_of (groups 6 rest).
Proof. intro H. rewrite groups_app by (lia || assumption). reflexivity. Qed.

Lemma enc_syms_3 g0 g1 g2 rest : g0 < 256 -> g1 < 256 -> g2 < 256 ->
  enc_syms (g0 :: g1 :: g2 :: rest) =
  rfc_sym (g0 / 4) :: rfc_sym ((g0 mod 4) * 16 + g1 / 16) ::
  rfc_sym ((g1 mod 16) * 4 + g2 / 64) :: rfc_sym (g2 mod 64) :: enc_syms rest.
Proof.
  intros H0 H1 H2. unfold enc_syms. cbn [flat_map].
  set (R := flat_map (bits_be 8) rest).
  replace (bits_be 8 g0 ++ bits_be 8 g1 ++ bits_be 8 g2 ++ R)
    with ((bits_be 8 g0 ++ bits_be 8 g1 ++ bits_be 8 g2) ++ R) by (now rewrite <- !app_assoc).
  rewrite bits_3x8_4x6 by assumption. rewrite <- !app_assoc.
  rewrite !groups_app by (lia || apply bits_be_length). cbn [map].
  rewrite !sym_of_full by lia. reflexivity.
Qed.

Lemma enc_syms_1 g0 : g0 < 256 ->
  enc_syms [g0] = [rfc_sym (g0 / 4); rfc_sym ((g0 mod 4) * 16)].
Proof.
  intro H0. unfold enc_syms. cbn [flat_map]. rewrite app_nil_r, bits_1x8 by assumption.
  rewrite groups_app by (lia || apply bits_be_length).
  rewrite groups_short by (try discriminate; rewrite bits_be_length; lia). cbn [map].
  rewrite sym_of_full by lia. rewrite sym_of_short by lia. reflexivity.
Qed.

Lemma enc_syms_2 g0 g1 : g0 < 256 -> g1 < 256 ->
  enc_syms [g0; g1] = [rfc_sym (g0 / 4); rfc_sym ((g0 mod 4) * 16 + g1 / 16); rfc_sym ((g1 mod 16) * 4)].
Proof.
  intros H0 H1. unfold enc_syms. cbn [flat_map]. rewrite app_nil_r, bits_2x8 by assumption.
  rewrite !groups_app by (lia || apply bits_be_length).
  rewrite groups_short by (try discriminate; rewrite bits_be_length; lia). cbn [map].
  rewrite !sym_of_full by lia. rewrite sym_of_short by lia. reflexivity.
Qed.

Lemma enc_syms_nil : enc_syms [] = [].
Proof. reflexivity. Qed.

Lemma enc_pad_add4 n : enc_pad (4 + n) = enc_pad n.
Proof.
  unfold enc_pad. replace ((4 + n) mod 4)%nat with (n mod 4)%nat; [reflexivity|].
  rewrite Nat.add_comm. symmetry. exact (Nat.mod_add n 1 4 ltac:(discriminate)).
Qed.

(* ---------- the theorem about encode ---------- *)
Lemma encode_model_spec b : Forall is_byte b -> encode b = Ok (encode_spec b).
Proof.
  induction b as [| g0 | g0 g1 | g0 g1 g2 rest IH] using list_ind3; intro Hb.
  - reflexivity.
  - inversion Hb as [|? ? H0 _]; subst. unfold is_byte in H0.
    rewrite encode_spec_unfold, enc_syms_1 by assumption.
    cbn [encode]. rewrite enc_i0, enc_t1 by assumption.
    rewrite !alpha_rfc by lia. reflexivity.
  - inversion Hb as [|? ? H0 Hb1]; subst. inversion Hb1 as [|? ? H1 _]; subst. unfold is_byte in H0, H1.
    rewrite encode_spec_unfold, enc_syms_2 by assumption.
    cbn [encode]. rewrite enc_i0, enc_i1, enc_t2 by assumption.
    rewrite !alpha_rfc by lia. reflexivity.
  - inversion Hb as [|? ? H0 Hb1]; subst. inversion Hb1 as [|? ? H1 Hb2]; subst.
    inversion Hb2 as [|? ? H2 Hb3]; subst. unfold is_byte in H0, H1, H2.
    rewrite encode_spec_unfold, enc_syms_3 by assumption.
    cbn [encode]. rewrite enc_i0, enc_i1, enc_i2, enc_i3 by assumption.
    rewrite !alpha_rfc by lia. rewrite IH by assumption. cbn [push4 obind].
    rewrite encode_spec_unfold. cbn [length app]. 
    change (S (S (S (S (length (enc_syms rest)))))) with (4 + length (enc_syms rest))%nat.
    now rewrite enc_pad_add4.
Qed.

(* ---------- decode: the accumulated u32 and its bytes ---------- *)
Lemma quad_D va vb vc vd : vb < 64 -> vc < 64 -> vd < 64 ->
  N.lor (N.lor (N.lor (N.lor 0 (N.shiftl va 18)) (N.shiftl vb 12)) (N.shiftl vc 6)) (N.shiftl vd 0)
  = ((va * 64 + vb) * 64 + vc) * 64 + vd.
Proof.
  intros Hb Hc Hd. rewrite N.lor_0_l, N.shiftl_0_r. rewrite <- !N.lor_assoc.
  rewrite (lor_shiftl_add vc vd 6) by (change (2 ^ 6) with 64; lia).
  rewrite (lor_shiftl_add vb _ 12) by (change (2 ^ 6) with 64; change (2 ^ 12) with 4096; lia).
  rewrite (lor_shiftl_add va _ 18)
    by (change (2 ^ 6) with 64; change (2 ^ 12) with 4096; change (2 ^ 18) with 262144; lia).
  change (2 ^ 6) with 64; change (2 ^ 12) with 4096; change (2 ^ 18) with 262144. lia.
Qed.

Lemma triple_D va vb vc : vb < 64 -> vc < 64 ->
  N.lor (N.lor (N.lor 0 (N.shiftl va 18)) (N.shiftl vb 12)) (N.shiftl vc 6)
  = (((va * 64 + vb) * 64 + vc) * 64).
Proof.
  intros Hb Hc. pose proof (quad_D va vb vc 0 Hb Hc ltac:(lia)) as H.
  rewrite N.shiftl_0_l, N.lor_0_r in H. rewrite H. lia.
Qed.

Lemma double_D va vb : vb < 64 ->
  N.lor (N.lor 0 (N.shiftl va 18)) (N.shiftl vb 12) = ((va * 64 + vb) * 4096).
Proof.
  intros Hb. pose proof (triple_D va vb 0 Hb ltac:(lia)) as H.
  rewrite N.shiftl_0_l, N.lor_0_r in H. rewrite H. lia.
Qed.

Lemma slice_1_4 x0 x1 x2 x3 : slice [x0; x1; x2; x3] 1 4 = Ok [x1; x2; x3].
Proof. reflexivity. Qed.
Lemma slice_1_3 x0 x1 x2 x3 : slice [x0; x1; x2; x3] 1 3 = Ok [x1; x2].
Proof. reflexivity. Qed.
Lemma slice_1_2 x0 x1 x2 x3 : slice [x0; x1; x2; x3] 1 2 = Ok [x1].
Proof. reflexivity. Qed.

(* ---------- regrouping 6-bit groups as octets ---------- *)
Lemma bits_4x6_3x8 va vb vc vd : va < 64 -> vb < 64 -> vc < 64 -> vd < 64 ->
  let D := ((va * 64 + vb) * 64 + vc) * 64 + vd in
  bits_be 6 va ++ bits_be 6 vb ++ bits_be 6 vc ++ bits_be 6 vd =
  bits_be 8 (D / 65536) ++ bits_be 8 (D / 256) ++ bits_be 8 D.
Proof.
  intros Ha Hb Hc Hd D.
  rewrite (bits_be_join 6 6 vc vd) by exact Hd.
  rewrite (bits_be_join 6 (6 + 6) vb) by (change (2 ^ N.of_nat 6) with 64; change (2 ^ N.of_nat (6 + 6)) with 4096; lia).
  rewrite (bits_be_join 6 (6 + (6 + 6)) va)
    by (change (2 ^ N.of_nat 6) with 64; change (2 ^ N.of_nat (6 + 6)) with 4096;
        change (2 ^ N.of_nat (6 + (6 + 6))) with 262144; lia).
  change (6 + (6 + (6 + 6)))%nat with (8 + (8 + 8))%nat. rewrite !bits_be_split.
  change (2 ^ N.of_nat 6) with 64; change (2 ^ N.of_nat (6 + 6)) with 4096;
    change (2 ^ N.of_nat (6 + (6 + 6))) with 262144; change (2 ^ N.of_nat (8 + 8)) with 65536;
    change (2 ^ N.of_nat 8) with 256.
  subst D. f_equal; [|f_equal]; apply bits_be_ext; change (2 ^ N.of_nat 8) with 256; lia.
Qed.

Lemma bits_3x6 va vb vc : va < 64 -> vb < 64 -> vc < 64 ->
  let T := (va * 64 + vb) * 64 + vc in
  bits_be 6 va ++ bits_be 6 vb ++ bits_be 6 vc =
  bits_be 8 (T / 1024) ++ bits_be 8 (T / 4) ++ bits_be 2 T.
Proof.
  intros Ha Hb Hc T.
  rewrite (bits_be_join 6 6 vb vc) by exact Hc.
  rewrite (bits_be_join 6 (6 + 6) va) by (change (2 ^ N.of_nat 6) with 64; change (2 ^ N.of_nat (6 + 6)) with 4096; lia).
  change (6 + (6 + 6))%nat with (8 + (8 + 2))%nat. rewrite !bits_be_split.
  change (2 ^ N.of_nat 6) with 64; change (2 ^ N.of_nat (6 + 6)) with 4096;
    change (2 ^ N.of_nat (8 + 2)) with 1024; change (2 ^ N.of_nat 2) with 4.
  subst T. f_equal; [|f_equal]; apply bits_be_ext.
  - change (2 ^ N.of_nat 8) with 256; lia.
  - change (2 ^ N.of_nat 8) with 256; lia.
  - change (2 ^ N.of_nat 2) with 4; lia.
Qed.

Lemma bits_2x6 va vb : va < 64 -> vb < 64 ->
  let U := va * 64 + vb in
  bits_be 6 va ++ bits_be 6 vb = bits_be 8 (U / 16) ++ bits_be 4 U.
Proof.
  intros Ha Hb U.
  rewrite (bits_be_join 6 6 va vb) by exact Hb.
  change (6 + 6)%nat with (8 + 4)%nat. rewrite !bits_be_split.
  reflexivity.
Qed.

Definition bytes_of_bits (bits : list bool) : list N := map val_be (full_groups 8 bits).

Lemma bytes_of_bits_octet x rest : bytes_of_bits (bits_be 8 x ++ rest) = x mod 256 :: bytes_of_bits rest.
Proof.
  unfold bytes_of_bits. rewrite full_groups_app by (lia || apply bits_be_length).
  cbn [map]. now rewrite val_be_bits_be.
Qed.

Lemma bytes_of_bits_short l : (length l < 8)%nat -> bytes_of_bits l = [].
Proof. intro H. unfold bytes_of_bits. now rewrite full_groups_short. Qed.

Lemma denote_unfold s :
  denote s = bytes_of_bits (flat_map sym_bits (filter (fun c => negb (c =? rfc_pad)) s)).
Proof. reflexivity. Qed.

Lemma rfc_val_not_pad c v : rfc_val c = Some v -> (c =? rfc_pad) = false.
Proof. intro H. apply in_alphabet_not_pad. unfold in_alphabet. now rewrite H. Qed.

Lemma sym_bits_val c v : rfc_val c = Some v -> sym_bits c = bits_be 6 v.
Proof. intro H. unfold sym_bits. now rewrite H. Qed.

Definition quad_bytes (va vb vc vd : N) : list N :=
  let D := ((va * 64 + vb) * 64 + vc) * 64 + vd in [(D / 65536) mod 256; (D / 256) mod 256; D mod 256].

Lemma denote_cons4 a b c d va vb vc vd r :
  rfc_val a = Some va -> rfc_val b = Some vb -> rfc_val c = Some vc -> rfc_val d = Some vd ->
  denote (a :: b :: c :: d :: r) = quad_bytes va vb vc vd ++ denote r.
Proof.
  intros Ea Eb Ec Ed.
  destruct (rfc_val_range _ _ Ea) as [Ha _]. destruct (rfc_val_range _ _ Eb) as [Hb _].
  destruct (rfc_val_range _ _ Ec) as [Hc _]. destruct (rfc_val_range _ _ Ed) as [Hd _].
  rewrite !denote_unfold. cbn [filter].
  rewrite (rfc_val_not_pad _ _ Ea), (rfc_val_not_pad _ _ Eb), (rfc_val_not_pad _ _ Ec), (rfc_val_not_pad _ _ Ed).
  cbn [negb flat_map].
  rewrite (sym_bits_val _ _ Ea), (sym_bits_val _ _ Eb), (sym_bits_val _ _ Ec), (sym_bits_val _ _ Ed).
  set (R := flat_map sym_bits _).
  replace (bits_be 6 va ++ bits_be 6 vb ++ bits_be 6 vc ++ bits_be 6 vd ++ R)
    with ((bits_be 6 va ++ bits_be 6 vb ++ bits_be 6 vc ++ bits_be 6 vd) ++ R) by (now rewrite <- !app_assoc).
  rewrite bits_4x6_3x8 by assumption. cbv zeta. rewrite <- !app_assoc.
  rewrite !bytes_of_bits_octet. reflexivity.
Qed.

Lemma denote_3pad a b c va vb vc :
  rfc_val a = Some va -> rfc_val b = Some vb -> rfc_val c = Some vc ->
  denote [a; b; c; rfc_pad] =
  let T := (va * 64 + vb) * 64 + vc in [(T / 1024) mod 256; (T / 4) mod 256].
Proof.
  intros Ea Eb Ec.
  destruct (rfc_val_range _ _ Ea) as [Ha _]. destruct (rfc_val_range _ _ Eb) as [Hb _].
  destruct (rfc_val_range _ _ Ec) as [Hc _].
  rewrite !denote_unfold. cbn [filter].
  rewrite (rfc_val_not_pad _ _ Ea), (rfc_val_not_pad _ _ Eb), (rfc_val_not_pad _ _ Ec), N.eqb_refl.
  cbn [negb flat_map].
  rewrite (sym_bits_val _ _ Ea), (sym_bits_val _ _ Eb), (sym_bits_val _ _ Ec), app_nil_r.
  rewrite bits_3x6 by assumption. cbv zeta.
  rewrite !bytes_of_bits_octet. rewrite bytes_of_bits_short by (rewrite bits_be_length; lia). reflexivity.
Qed.

Lemma denote_2pad a b va vb :
  rfc_val a = Some va -> rfc_val b = Some vb ->
  denote [a; b; rfc_pad; rfc_pad] = [((va * 64 + vb) / 16) mod 256].
Proof.
  intros Ea Eb.
  destruct (rfc_val_range _ _ Ea) as [Ha _]. destruct (rfc_val_range _ _ Eb) as [Hb _].
  rewrite !denote_unfold. cbn [filter].
  rewrite (rfc_val_not_pad _ _ Ea), (rfc_val_not_pad _ _ Eb), N.eqb_refl.
  cbn [negb flat_map].
  rewrite (sym_bits_val _ _ Ea), (sym_bits_val _ _ Eb), app_nil_r.
  rewrite bits_2x6 by assumption. cbv zeta.
  rewrite !bytes_of_bits_octet. rewrite bytes_of_bits_short by (rewrite bits_be_length; lia). reflexivity.
Qed.

(* one group of the decoder, written out *)
Lemma dec_group4 last a b c d :
  dec_group last 0 [a; b; c; d] 0 =
  match classify a with
  | SVal va =>
    match classify b with
    | SVal vb =>
      match classify c with
      | SVal vc =>
        match classify d with
        | SVal vd => Ok (N.lor (N.lor (N.lor (N.lor 0 (N.shiftl va 18)) (N.shiftl vb 12)) (N.shiftl vc 6))
                               (N.shiftl vd 0), 4)
        | SPad => if negb last then Err 0
                  else Ok (N.lor (N.lor (N.lor 0 (N.shiftl va 18)) (N.shiftl vb 12)) (N.shiftl vc 6), 3)
        | SBad => Err 0
        end
      | SPad => if negb last || any_not_pad [c; d] then Err 0
                else Ok (N.lor (N.lor 0 (N.shiftl va 18)) (N.shiftl vb 12), 2)
      | SBad => Err 0
      end
    | _ => Err 0
    end
  | _ => Err 0
  end.
Proof.
  cbn [dec_group].
  destruct (classify a); [|destruct last; reflexivity|reflexivity].
  destruct (classify b); [|destruct last; reflexivity|reflexivity].
  destruct (classify c); [|destruct last; reflexivity|reflexivity].
  destruct (classify d) eqn:Ed; [reflexivity| |reflexivity].
  change (any_not_pad [d]) with (negb (d =? pad_sym) || false).
  assert (d = pad_sym) as ->.
  { rewrite classify_spec in Ed. unfold classify_ref in Ed. destruct (rfc_val d); [discriminate|].
    destruct (d =? rfc_pad) eqn:E; [|discriminate]. now apply N.eqb_eq in E. }
  rewrite N.eqb_refl. destruct last; reflexivity.
Qed.

Lemma group_full va vb vc vd : vb < 64 -> vc < 64 -> vd < 64 ->
  slice (be_bytes32 (N.lor (N.lor (N.lor (N.lor 0 (N.shiftl va 18)) (N.shiftl vb 12)) (N.shiftl vc 6))
                           (N.shiftl vd 0))) 1 4 = Ok (quad_bytes va vb vc vd).
Proof.
  intros Hb Hc Hd. rewrite quad_D by assumption. unfold be_bytes32. rewrite slice_1_4.
  reflexivity.
Qed.

Lemma group_3 va vb vc : va < 64 -> vb < 64 -> vc < 64 ->
  slice (be_bytes32 (N.lor (N.lor (N.lor 0 (N.shiftl va 18)) (N.shiftl vb 12)) (N.shiftl vc 6))) 1 3 =
  Ok (let T := (va * 64 + vb) * 64 + vc in [(T / 1024) mod 256; (T / 4) mod 256]).
Proof.
  intros Ha Hb Hc. rewrite triple_D by assumption. unfold be_bytes32. rewrite slice_1_3. cbv zeta.
  change (2 ^ 16) with 65536. change (2 ^ 8) with 256. do 3 f_equal; lia.
Qed.

Lemma group_2 va vb : va < 64 -> vb < 64 ->
  slice (be_bytes32 (N.lor (N.lor 0 (N.shiftl va 18)) (N.shiftl vb 12))) 1 2 =
  Ok [((va * 64 + vb) / 16) mod 256].
Proof.
  intros Ha Hb. rewrite double_D by assumption. unfold be_bytes32. rewrite slice_1_2.
  change (2 ^ 16) with 65536. do 2 f_equal; lia.
Qed.

Lemma classify_val c v : rfc_val c = Some v -> classify c = SVal v.
Proof. intro H. rewrite classify_spec. unfold classify_ref. now rewrite H. Qed.

Lemma classify_none c : rfc_val c = None -> classify c = if c =? rfc_pad then SPad else SBad.
Proof. intro H. rewrite classify_spec. unfold classify_ref. now rewrite H. Qed.

Lemma dec_groups_wfb : forall s idx count,
  (length s mod 4 = 0)%nat -> count = idx + N.of_nat (length s) / 4 ->
  dec_groups count idx (chunks4 s) = if wfb s then Ok (denote s) else Err 0.
Proof.
  induction s as [|a|a b|a b c|a b c d r IH] using list_ind4; intros idx count Hlen Hcount.
  - reflexivity.
  - discriminate.
  - discriminate.
  - discriminate.
  - cbn [chunks4 dec_groups]. rewrite dec_group4.
    assert (Hr : (length r mod 4 = 0)%nat).
    { cbn [length] in Hlen. replace (S (S (S (S (length r))))) with (length r + 1 * 4)%nat in Hlen by lia.
      now rewrite Nat.mod_add in Hlen by discriminate. }
    destruct r as [|e r'].
    + (* the last group *)
      assert (Hlast : (idx + 1 =? count) = true).
      { subst count. apply N.eqb_eq. reflexivity. }
      rewrite Hlast. cbn [negb orb wfb chunks4 dec_groups]. unfold in_alphabet.
      destruct (rfc_val a) as [va|] eqn:Ea;
        [rewrite (classify_val _ _ Ea) | rewrite (classify_none _ Ea); destruct (a =? rfc_pad); reflexivity].
      destruct (rfc_val b) as [vb|] eqn:Eb;
        [rewrite (classify_val _ _ Eb) | rewrite (classify_none _ Eb); destruct (b =? rfc_pad); reflexivity].
      destruct (rfc_val_range _ _ Ea) as [Ha _]. destruct (rfc_val_range _ _ Eb) as [Hb _].
      cbn [andb].
      destruct (rfc_val c) as [vc|] eqn:Ec.
      * rewrite (classify_val _ _ Ec). destruct (rfc_val_range _ _ Ec) as [Hc _].
        destruct (rfc_val d) as [vd|] eqn:Ed.
        -- rewrite (classify_val _ _ Ed). destruct (rfc_val_range _ _ Ed) as [Hd _].
           cbn [obind fst snd andb orb]. rewrite group_full by assumption. cbn [obind].
           rewrite (denote_cons4 _ _ _ _ _ _ _ _ [] Ea Eb Ec Ed). reflexivity.
        -- rewrite (classify_none _ Ed). cbn [andb orb]. rewrite (rfc_val_not_pad _ _ Ec). cbn [andb orb].
           destruct (d =? rfc_pad) eqn:Ep; [|reflexivity].
           apply N.eqb_eq in Ep. subst d.
           cbn [obind fst snd]. rewrite group_3 by assumption. cbn [obind].
           rewrite (denote_3pad _ _ _ _ _ _ Ea Eb Ec). now rewrite app_nil_r.
      * rewrite (classify_none _ Ec). cbn [andb orb].
        destruct (c =? rfc_pad) eqn:Ep; [|reflexivity].
        apply N.eqb_eq in Ep. subst c.
        change (any_not_pad [rfc_pad; d]) with (negb (d =? rfc_pad) || false).
        destruct (d =? rfc_pad) eqn:Ep; [|reflexivity].
        apply N.eqb_eq in Ep. subst d.
        cbn [negb orb obind fst snd]. rewrite group_2 by assumption. cbn [obind].
        rewrite (denote_2pad _ _ _ _ Ea Eb). reflexivity.
    + (* an inner group: no padding allowed *)
      assert (Hlast : (idx + 1 =? count) = false).
      { subst count. apply N.eqb_neq. cbn [length] in *.
        assert (3 <= length r')%nat.
        { destruct r' as [|? [|? [|? ?]]]; try discriminate. cbn [length]. lia. }
        lia. }
      rewrite Hlast. cbn [negb orb]. unfold in_alphabet.
      set (r := e :: r') in *.
      assert (Hw : wfb (a :: b :: c :: d :: r) =
                   in_alphabet a && in_alphabet b && in_alphabet c && in_alphabet d && wfb r) by reflexivity.
      rewrite Hw. clear Hw. unfold in_alphabet.
      destruct (rfc_val a) as [va|] eqn:Ea;
        [rewrite (classify_val _ _ Ea) | rewrite (classify_none _ Ea); destruct (a =? rfc_pad); reflexivity].
      destruct (rfc_val b) as [vb|] eqn:Eb;
        [rewrite (classify_val _ _ Eb) | rewrite (classify_none _ Eb); destruct (b =? rfc_pad); reflexivity].
      destruct (rfc_val c) as [vc|] eqn:Ec;
        [rewrite (classify_val _ _ Ec) | rewrite (classify_none _ Ec); destruct (c =? rfc_pad); reflexivity].
      destruct (rfc_val d) as [vd|] eqn:Ed;
        [rewrite (classify_val _ _ Ed) | rewrite (classify_none _ Ed); destruct (d =? rfc_pad); reflexivity].
      destruct (rfc_val_range _ _ Eb) as [Hb _]. destruct (rfc_val_range _ _ Ec) as [Hc _].
      destruct (rfc_val_range _ _ Ed) as [Hd _].
      cbn [obind fst snd andb]. rewrite group_full by assumption. cbn [obind].
      rewrite (IH (idx + 1) count Hr) by (subst count; cbn [length]; lia).
      rewrite (denote_cons4 _ _ _ _ _ _ _ _ r Ea Eb Ec Ed).
      destruct (wfb r); reflexivity.
Qed.

Lemma wfb_len s : wfb s = true -> (length s mod 4 = 0)%nat.
Proof.
  induction s as [|a|a b|a b c|a b c d r IH] using list_ind4; try discriminate; [reflexivity|].
  intro H. cbn [length]. replace (S (S (S (S (length r))))) with (length r + 1 * 4)%nat by lia.
  rewrite Nat.mod_add by discriminate.
  destruct r as [|e r']; [reflexivity|]. apply IH.
  change (in_alphabet a && in_alphabet b && in_alphabet c && in_alphabet d && wfb (e :: r') = true) in H.
  now apply andb_true_iff in H as [_ H].
Qed.

Lemma N_mod4_nat n : (N.of_nat n mod 4 =? 0) = (n mod 4 =? 0)%nat.
Proof.
  change 4 with (N.of_nat 4). rewrite <- Nat2N.inj_mod.
  destruct (Nat.eqb_spec (n mod 4) 0) as [E|E].
  - rewrite E. reflexivity.
  - apply N.eqb_neq. lia.
Qed.

Lemma decode_wfb s : decode s = if wfb s then Ok (denote s) else Err 0.
Proof.
  unfold decode. rewrite N_mod4_nat.
  destruct (Nat.eqb_spec (length s mod 4) 0) as [E|E]; cbn [negb].
  - now apply dec_groups_wfb.
  - destruct (wfb s) eqn:W; [|reflexivity]. now apply wfb_len in W.
Qed.

(* ---------- wfb decides WellFormed ---------- *)
Lemma wf_intro s data npad :
  s = data ++ repeat rfc_pad npad -> (npad <= 2)%nat -> Forall (fun c => in_alphabet c = true) data ->
  (length s mod 4 = 0)%nat -> WellFormed s.
Proof. intros. split; [assumption|]. now exists data, npad. Qed.

Lemma wfb_sound s : wfb s = true -> WellFormed s.
Proof.
  intro W. pose proof (wfb_len s W) as Hlen. split; [exact Hlen|]. clear Hlen. revert W.
  induction s as [|a|a b|a b c|a b c d r IH] using list_ind4; try discriminate.
  - intros _. exists [], 0%nat. repeat split; [lia|constructor].
  - destruct r as [|e r'].
    + cbn [wfb]. intro W. apply andb_true_iff in W as [W Wcd]. apply andb_true_iff in W as [Wa Wb].
      apply orb_true_iff in Wcd as [Wcd|Wcd].
      * apply andb_true_iff in Wcd as [Wc Wd]. apply orb_true_iff in Wd as [Wd|Wd].
        -- exists [a; b; c; d], 0%nat. repeat split; [lia|]. repeat constructor; assumption.
        -- apply N.eqb_eq in Wd. subst d. exists [a; b; c], 1%nat. repeat split; [lia|].
           repeat constructor; assumption.
      * apply andb_true_iff in Wcd as [Wc Wd]. apply N.eqb_eq in Wc, Wd. subst c d.
        exists [a; b], 2%nat. repeat split; [lia|]. repeat constructor; assumption.
    + intro W.
      change (in_alphabet a && in_alphabet b && in_alphabet c && in_alphabet d && wfb (e :: r') = true) in W.
      apply andb_true_iff in W as [W Wr]. apply andb_true_iff in W as [W Wd].
      apply andb_true_iff in W as [W Wc]. apply andb_true_iff in W as [Wa Wb].
      destruct (IH Wr) as (data & npad & E & Hn & Hd).
      exists (a :: b :: c :: d :: data), npad. split; [cbn [app]; now rewrite <- E|].
      split; [assumption|]. repeat constructor; assumption.
Qed.

Lemma in_alphabet_pad : in_alphabet rfc_pad = false.
Proof. reflexivity. Qed.

Lemma wfb_complete s : WellFormed s -> wfb s = true.
Proof.
  intros (Hlen & data & npad & E & Hn & Hd). subst s. revert data Hd Hlen.
  assert (Hp : forall c, In c (repeat rfc_pad npad) -> c = rfc_pad) by (intros c Hc; now apply repeat_spec in Hc).
  intro data. remember (data ++ repeat rfc_pad npad) as s eqn:Es. revert data Es.
  induction s as [|a|a b|a b c|a b c d r IH] using list_ind4; intros data Es Hd Hlen; try discriminate.
  - reflexivity.
  - destruct r as [|e r'].
    + (* exactly one group: data is its first 4 - npad symbols *)
      destruct npad as [|[|[|?]]]; [| | |lia]; cbn [repeat] in Es.
      * rewrite app_nil_r in Es. subst data.
        inversion Hd as [|? ? Ha Hd1]; subst. inversion Hd1 as [|? ? Hb Hd2]; subst.
        inversion Hd2 as [|? ? Hc Hd3]; subst. inversion Hd3 as [|? ? Hd4 _]; subst.
        cbn [wfb]. now rewrite Ha, Hb, Hc, Hd4.
      * destruct data as [|x0 [|x1 [|x2 [|x3 data]]]]; cbn [app] in Es; try discriminate.
        2:{ injection Es as _ _ _ _ Es. destruct data; discriminate. }
        injection Es as -> -> -> ->.
        inversion Hd as [|? ? Ha Hd1]; subst. inversion Hd1 as [|? ? Hb Hd2]; subst.
        inversion Hd2 as [|? ? Hc _]; subst.
        cbn [wfb]. rewrite Ha, Hb, Hc, N.eqb_refl. cbn [andb orb]. rewrite ?orb_true_r. reflexivity.
      * destruct data as [|x0 [|x1 [|x2 data]]]; cbn [app] in Es; try discriminate.
        2:{ injection Es as _ _ _ Es. destruct data as [|? [|? ?]]; discriminate. }
        injection Es as -> -> -> ->.
        inversion Hd as [|? ? Ha Hd1]; subst. inversion Hd1 as [|? ? Hb _]; subst.
        cbn [wfb]. rewrite Ha, Hb, N.eqb_refl. cbn [andb orb]. rewrite ?orb_true_r. reflexivity.
    + (* more than one group: the first four symbols are data *)
      set (r := e :: r') in *.
      assert (Hr : (length r mod 4 = 0)%nat).
      { cbn [length] in Hlen. replace (S (S (S (S (length r))))) with (length r + 1 * 4)%nat in Hlen by lia.
        now rewrite Nat.mod_add in Hlen by discriminate. }
      assert (Hr4 : (4 <= length r)%nat).
      { subst r. destruct r' as [|? [|? [|? ?]]]; try discriminate. cbn [length]. lia. }
      assert (Hdl : (6 <= length data)%nat).
      { apply (f_equal (@length N)) in Es. rewrite app_length, repeat_length in Es. cbn [length] in Es. lia. }
      destruct data as [|x0 [|x1 [|x2 [|x3 data]]]]; cbn [length] in Hdl; try lia.
      cbn [app] in Es. injection Es as -> -> -> -> Es.
      inversion Hd as [|? ? Ha Hd1]; subst x l. inversion Hd1 as [|? ? Hb Hd2]; subst x l.
      inversion Hd2 as [|? ? Hc Hd3]; subst x l. inversion Hd3 as [|? ? Hd4 Hd5]; subst x l.
      change (in_alphabet x0 && in_alphabet x1 && in_alphabet x2 && in_alphabet x3 && wfb r = true).
      rewrite Ha, Hb, Hc, Hd4. cbn [andb]. now apply (IH data).
Qed.

Lemma wfb_iff s : wfb s = true <-> WellFormed s.
Proof. split; [apply wfb_sound | apply wfb_complete]. Qed.

(* ---------- decode accepts exactly the well-formed texts ---------- *)
Lemma decode_iff_wf s b : decode s = Ok b <-> WellFormed s /\ b = denote s.
Proof.
  rewrite decode_wfb, <- wfb_iff. destruct (wfb s); split.
  - intro H. injection H as <-. now split.
  - intros [_ ->]. reflexivity.
  - discriminate.
  - intros [H _]. discriminate.
Qed.

Lemma decode_total s : decode s = Ok (denote s) \/ decode s = Err 0.
Proof. rewrite decode_wfb. destruct (wfb s); [now left|now right]. Qed.

Lemma decode_rejects s : ~ WellFormed s -> decode s = Err 0.
Proof. rewrite <- wfb_iff, decode_wfb. now destruct (wfb s). Qed.

(* ---------- decode inverts encode ---------- *)
Lemma encode_spec_3 g0 g1 g2 rest : g0 < 256 -> g1 < 256 -> g2 < 256 ->
  encode_spec (g0 :: g1 :: g2 :: rest) =
  rfc_sym (g0 / 4) :: rfc_sym ((g0 mod 4) * 16 + g1 / 16) ::
  rfc_sym ((g1 mod 16) * 4 + g2 / 64) :: rfc_sym (g2 mod 64) :: encode_spec rest.
Proof.
  intros H0 H1 H2. rewrite !encode_spec_unfold, enc_syms_3 by assumption. cbn [length app].
  change (S (S (S (S (length (enc_syms rest)))))) with (4 + length (enc_syms rest))%nat.
  now rewrite enc_pad_add4.
Qed.

Lemma encode_spec_1 g0 : g0 < 256 ->
  encode_spec [g0] = [rfc_sym (g0 / 4); rfc_sym ((g0 mod 4) * 16); rfc_pad; rfc_pad].
Proof. intro H0. rewrite encode_spec_unfold, enc_syms_1 by assumption. reflexivity. Qed.

Lemma encode_spec_2 g0 g1 : g0 < 256 -> g1 < 256 ->
  encode_spec [g0; g1] =
  [rfc_sym (g0 / 4); rfc_sym ((g0 mod 4) * 16 + g1 / 16); rfc_sym ((g1 mod 16) * 4); rfc_pad].
Proof. intros H0 H1. rewrite encode_spec_unfold, enc_syms_2 by assumption. reflexivity. Qed.

Lemma in_alphabet_sym v : v < 64 -> in_alphabet (rfc_sym v) = true.
Proof. intro H. unfold in_alphabet. now rewrite rfc_val_sym. Qed.

Lemma wfb_cons4 a b c d r :
  in_alphabet a = true -> in_alphabet b = true -> in_alphabet c = true -> in_alphabet d = true ->
  wfb r = true -> wfb (a :: b :: c :: d :: r) = true.
Proof. intros Ha Hb Hc Hd Hr. destruct r; cbn [wfb]; rewrite Ha, Hb, Hc, Hd; [reflexivity | exact Hr]. Qed.

Lemma wfb_encode_spec b : Forall is_byte b -> wfb (encode_spec b) = true.
Proof.
  induction b as [| g0 | g0 g1 | g0 g1 g2 rest IH] using list_ind3; intro Hb.
  - reflexivity.
  - inversion Hb as [|? ? H0 _]; subst. unfold is_byte in H0.
    rewrite encode_spec_1 by assumption. cbn [wfb].
    rewrite !in_alphabet_sym by lia. rewrite N.eqb_refl. cbn [andb orb]. now rewrite orb_true_r.
  - inversion Hb as [|? ? H0 Hb1]; subst. inversion Hb1 as [|? ? H1 _]; subst. unfold is_byte in H0, H1.
    rewrite encode_spec_2 by assumption. cbn [wfb].
    rewrite !in_alphabet_sym by lia. rewrite N.eqb_refl. cbn [andb orb]. now rewrite orb_true_r.
  - inversion Hb as [|? ? H0 Hb1]; subst. inversion Hb1 as [|? ? H1 Hb2]; subst.
    inversion Hb2 as [|? ? H2 Hb3]; subst. unfold is_byte in H0, H1, H2.
    rewrite encode_spec_3 by assumption. apply wfb_cons4; try (apply in_alphabet_sym; lia). now apply IH.
Qed.

Lemma denote_encode_spec b : Forall is_byte b -> denote (encode_spec b) = b.
Proof.
  induction b as [| g0 | g0 g1 | g0 g1 g2 rest IH] using list_ind3; intro Hb.
  - reflexivity.
  - inversion Hb as [|? ? H0 _]; subst. unfold is_byte in H0.
    rewrite encode_spec_1 by assumption.
    rewrite (denote_2pad _ _ (g0 / 4) ((g0 mod 4) * 16)) by (apply rfc_val_sym; lia).
    f_equal. lia.
  - inversion Hb as [|? ? H0 Hb1]; subst. inversion Hb1 as [|? ? H1 _]; subst. unfold is_byte in H0, H1.
    rewrite encode_spec_2 by assumption.
    rewrite (denote_3pad _ _ _ (g0 / 4) ((g0 mod 4) * 16 + g1 / 16) ((g1 mod 16) * 4)) by (apply rfc_val_sym; lia).
    cbv zeta. f_equal; [lia|]. f_equal. lia.
  - inversion Hb as [|? ? H0 Hb1]; subst. inversion Hb1 as [|? ? H1 Hb2]; subst.
    inversion Hb2 as [|? ? H2 Hb3]; subst. unfold is_byte in H0, H1, H2.
    rewrite encode_spec_3 by assumption.
    rewrite (denote_cons4 _ _ _ _ (g0 / 4) ((g0 mod 4) * 16 + g1 / 16) ((g1 mod 16) * 4 + g2 / 64) (g2 mod 64))
      by (apply rfc_val_sym; lia).
    rewrite IH by assumption. unfold quad_bytes. cbn [app].
    f_equal; [lia|]. f_equal; [lia|]. f_equal. lia.
Qed.

Lemma decode_encode b : Forall is_byte b -> exists s, encode b = Ok s /\ decode s = Ok b.
Proof.
  intro Hb. exists (encode_spec b). split; [now apply encode_model_spec|].
  rewrite decode_wfb, wfb_encode_spec, denote_encode_spec by assumption. reflexivity.
Qed.

(* ---------- shape of the output ---------- *)
Lemma encode_spec_length b : Forall is_byte b -> length (encode_spec b) = (4 * ((length b + 2) / 3))%nat.
Proof.
  induction b as [| g0 | g0 g1 | g0 g1 g2 rest IH] using list_ind3; intro Hb.
  - reflexivity.
  - inversion Hb as [|? ? H0 _]; subst. unfold is_byte in H0. now rewrite encode_spec_1.
  - inversion Hb as [|? ? H0 Hb1]; subst. inversion Hb1 as [|? ? H1 _]; subst. now rewrite encode_spec_2.
  - inversion Hb as [|? ? H0 Hb1]; subst. inversion Hb1 as [|? ? H1 Hb2]; subst.
    inversion Hb2 as [|? ? H2 Hb3]; subst. unfold is_byte in H0, H1, H2.
    rewrite encode_spec_3 by assumption. cbn [length]. rewrite IH by assumption.
    replace (S (S (S (length rest))) + 2)%nat with ((length rest + 2) + 1 * 3)%nat by lia.
    rewrite Nat.div_add by discriminate. lia.
Qed.

Lemma encode_spec_symbols b : Forall is_byte b ->
  Forall (fun c => in_alphabet c = true \/ c = rfc_pad) (encode_spec b).
Proof.
  intro Hb. pose proof (wfb_encode_spec b Hb) as W. apply wfb_sound in W as (_ & data & npad & E & _ & Hd).
  rewrite E. apply Forall_app. split.
  - eapply Forall_impl; [|exact Hd]. intros c Hc. now left.
  - apply Forall_forall. intros c Hc. right. now apply repeat_spec in Hc.
Qed.

(* ---------- the decoder before the fix ---------- *)
Lemma old_decoder_refuted :
  (exists s, WellFormed s /\ decode_old s <> Ok (denote s) /\ decode s = Ok (denote s)) /\
  (exists s b, ~ WellFormed s /\ decode_old s = Ok b) /\
  (exists s, is_crash (decode_old s) = true).
Proof.
  split; [|split].
  - exists [43; 47; 43; 47]. split; [apply wfb_iff; reflexivity|]. split.
    + vm_compute. discriminate.
    + vm_compute. reflexivity.
  - exists [65], [0; 0; 0]. split; [|reflexivity].
    intro W. apply wfb_iff in W. discriminate.
  - exists [61; 65; 65; 65]. reflexivity.
Qed.

(* ---------- canonical texts: exactly the encoder's own output ---------- *)
Lemma rfc_sym_inj v w : v < 64 -> w < 64 -> rfc_sym v = rfc_sym w -> v = w.
Proof.
  intros Hv Hw E. pose proof (rfc_val_sym v Hv) as A. rewrite E, (rfc_val_sym w Hw) in A. now injection A.
Qed.

Lemma full_groups_lengths {A} k (l : list A) : Forall (fun g => length g = k) (full_groups k l).
Proof.
  unfold full_groups. apply Forall_forall. intros g Hg. apply filter_In in Hg as [_ Hg].
  now apply Nat.eqb_eq.
Qed.

Lemma denote_bytes s : Forall is_byte (denote s).
Proof.
  rewrite denote_unfold. unfold bytes_of_bits. apply Forall_forall. intros x Hx.
  apply in_map_iff in Hx as (g & <- & Hg).
  pose proof (full_groups_lengths 8 (flat_map sym_bits (filter (fun c => negb (c =? rfc_pad)) s))) as F.
  rewrite Forall_forall in F. specialize (F g Hg). unfold is_byte.
  pose proof (val_be_lt g) as L. rewrite F in L. exact L.
Qed.

Definition sym_bits_of (s : list N) : list bool := flat_map sym_bits (filter (fun c => negb (c =? rfc_pad)) s).

Lemma Canonical_unfold s :
  Canonical s <-> (forall g, In g (groups 8 (sym_bits_of s)) -> (length g < 8)%nat -> val_be g = 0).
Proof. reflexivity. Qed.

Lemma sym_bits_of_cons4 a b c d va vb vc vd r :
  rfc_val a = Some va -> rfc_val b = Some vb -> rfc_val c = Some vc -> rfc_val d = Some vd ->
  let D := ((va * 64 + vb) * 64 + vc) * 64 + vd in
  sym_bits_of (a :: b :: c :: d :: r) =
  bits_be 8 (D / 65536) ++ bits_be 8 (D / 256) ++ bits_be 8 D ++ sym_bits_of r.
Proof.
  intros Ea Eb Ec Ed D.
  destruct (rfc_val_range _ _ Ea) as [Ha _]. destruct (rfc_val_range _ _ Eb) as [Hb _].
  destruct (rfc_val_range _ _ Ec) as [Hc _]. destruct (rfc_val_range _ _ Ed) as [Hd _].
  unfold sym_bits_of. cbn [filter].
  rewrite (rfc_val_not_pad _ _ Ea), (rfc_val_not_pad _ _ Eb), (rfc_val_not_pad _ _ Ec), (rfc_val_not_pad _ _ Ed).
  cbn [negb flat_map].
  rewrite (sym_bits_val _ _ Ea), (sym_bits_val _ _ Eb), (sym_bits_val _ _ Ec), (sym_bits_val _ _ Ed).
  set (R := flat_map sym_bits _).
  replace (bits_be 6 va ++ bits_be 6 vb ++ bits_be 6 vc ++ bits_be 6 vd ++ R)
    with ((bits_be 6 va ++ bits_be 6 vb ++ bits_be 6 vc ++ bits_be 6 vd) ++ R) by (now rewrite <- !app_assoc).
  rewrite bits_4x6_3x8 by assumption. cbv zeta. now rewrite <- !app_assoc.
Qed.

Lemma canonical_cons4 a b c d va vb vc vd r :
  rfc_val a = Some va -> rfc_val b = Some vb -> rfc_val c = Some vc -> rfc_val d = Some vd ->
  (Canonical (a :: b :: c :: d :: r) <-> Canonical r).
Proof.
  intros Ea Eb Ec Ed. rewrite !Canonical_unfold.
  rewrite (sym_bits_of_cons4 _ _ _ _ _ _ _ _ r Ea Eb Ec Ed). cbv zeta.
  rewrite !groups_app by (lia || apply bits_be_length).
  split.
  - intros H g Hg Hl. apply H; [|assumption]. now do 3 right.
  - intros H g Hg Hl. destruct Hg as [<-|[<-|[<-|Hg]]]; try (rewrite bits_be_length in Hl; lia).
    now apply H.
Qed.

Lemma encode_denote_cons4 a b c d va vb vc vd r :
  rfc_val a = Some va -> rfc_val b = Some vb -> rfc_val c = Some vc -> rfc_val d = Some vd ->
  encode_spec (denote (a :: b :: c :: d :: r)) = a :: b :: c :: d :: encode_spec (denote r).
Proof.
  intros Ea Eb Ec Ed.
  destruct (rfc_val_range _ _ Ea) as [Ha Sa]. destruct (rfc_val_range _ _ Eb) as [Hb Sb].
  destruct (rfc_val_range _ _ Ec) as [Hc Sc]. destruct (rfc_val_range _ _ Ed) as [Hd Sd].
  rewrite (denote_cons4 _ _ _ _ _ _ _ _ r Ea Eb Ec Ed). unfold quad_bytes. cbn [app].
  rewrite encode_spec_3 by (apply N.mod_lt; discriminate).
  rewrite <- Sa, <- Sb, <- Sc, <- Sd.
  f_equal; [f_equal; lia|]. f_equal; [f_equal; lia|]. f_equal; [f_equal; lia|]. f_equal. f_equal; lia.
Qed.

Lemma canonical_3pad a b c va vb vc :
  rfc_val a = Some va -> rfc_val b = Some vb -> rfc_val c = Some vc ->
  (Canonical [a; b; c; rfc_pad] <-> vc mod 4 = 0).
Proof.
  intros Ea Eb Ec.
  destruct (rfc_val_range _ _ Ea) as [Ha _]. destruct (rfc_val_range _ _ Eb) as [Hb _].
  destruct (rfc_val_range _ _ Ec) as [Hc _].
  rewrite Canonical_unfold. unfold sym_bits_of. cbn [filter].
  rewrite (rfc_val_not_pad _ _ Ea), (rfc_val_not_pad _ _ Eb), (rfc_val_not_pad _ _ Ec), N.eqb_refl.
  cbn [negb flat_map].
  rewrite (sym_bits_val _ _ Ea), (sym_bits_val _ _ Eb), (sym_bits_val _ _ Ec), app_nil_r.
  rewrite bits_3x6 by assumption. cbv zeta.
  rewrite !groups_app by (lia || apply bits_be_length).
  rewrite groups_short by (try discriminate; rewrite bits_be_length; lia).
  split.
  - intro H. specialize (H (bits_be 2 ((va * 64 + vb) * 64 + vc)) ltac:(now do 2 right; left)
                           ltac:(rewrite bits_be_length; lia)).
    rewrite val_be_bits_be in H. change (2 ^ N.of_nat 2) with 4 in H. lia.
  - intros H g [<-|[<-|[<-|[]]]] Hl; try (rewrite bits_be_length in Hl; lia).
    rewrite val_be_bits_be. change (2 ^ N.of_nat 2) with 4. lia.
Qed.

Lemma canonical_2pad a b va vb :
  rfc_val a = Some va -> rfc_val b = Some vb ->
  (Canonical [a; b; rfc_pad; rfc_pad] <-> vb mod 16 = 0).
Proof.
  intros Ea Eb.
  destruct (rfc_val_range _ _ Ea) as [Ha _]. destruct (rfc_val_range _ _ Eb) as [Hb _].
  rewrite Canonical_unfold. unfold sym_bits_of. cbn [filter].
  rewrite (rfc_val_not_pad _ _ Ea), (rfc_val_not_pad _ _ Eb), N.eqb_refl.
  cbn [negb flat_map].
  rewrite (sym_bits_val _ _ Ea), (sym_bits_val _ _ Eb), app_nil_r.
  rewrite bits_2x6 by assumption. cbv zeta.
  rewrite !groups_app by (lia || apply bits_be_length).
  rewrite groups_short by (try discriminate; rewrite bits_be_length; lia).
  split.
  - intro H. specialize (H (bits_be 4 (va * 64 + vb)) ltac:(now right; left) ltac:(rewrite bits_be_length; lia)).
    rewrite val_be_bits_be in H. change (2 ^ N.of_nat 4) with 16 in H. lia.
  - intros H g [<-|[<-|[]]] Hl; try (rewrite bits_be_length in Hl; lia).
    rewrite val_be_bits_be. change (2 ^ N.of_nat 4) with 16. lia.
Qed.

Lemma encode_denote_3pad a b c va vb vc :
  rfc_val a = Some va -> rfc_val b = Some vb -> rfc_val c = Some vc ->
  (encode_spec (denote [a; b; c; rfc_pad]) = [a; b; c; rfc_pad] <-> vc mod 4 = 0).
Proof.
  intros Ea Eb Ec.
  destruct (rfc_val_range _ _ Ea) as [Ha Sa]. destruct (rfc_val_range _ _ Eb) as [Hb Sb].
  destruct (rfc_val_range _ _ Ec) as [Hc Sc].
  rewrite (denote_3pad _ _ _ _ _ _ Ea Eb Ec). cbv zeta.
  rewrite encode_spec_2 by (apply N.mod_lt; discriminate).
  set (T := (va * 64 + vb) * 64 + vc).
  replace ((T / 1024) mod 256 / 4) with va by (subst T; lia).
  replace (((T / 1024) mod 256) mod 4 * 16 + (T / 4) mod 256 / 16) with vb by (subst T; lia).
  replace (((T / 4) mod 256) mod 16 * 4) with (vc / 4 * 4) by (subst T; lia).
  rewrite Sa, Sb. split.
  - intro E. injection E as E. rewrite <- Sc in E. apply rfc_sym_inj in E; lia.
  - intro E. replace (vc / 4 * 4) with vc by lia. now rewrite Sc.
Qed.

Lemma encode_denote_2pad a b va vb :
  rfc_val a = Some va -> rfc_val b = Some vb ->
  (encode_spec (denote [a; b; rfc_pad; rfc_pad]) = [a; b; rfc_pad; rfc_pad] <-> vb mod 16 = 0).
Proof.
  intros Ea Eb.
  destruct (rfc_val_range _ _ Ea) as [Ha Sa]. destruct (rfc_val_range _ _ Eb) as [Hb Sb].
  rewrite (denote_2pad _ _ _ _ Ea Eb).
  rewrite encode_spec_1 by (apply N.mod_lt; discriminate).
  set (U := va * 64 + vb).
  replace ((U / 16) mod 256 / 4) with va by (subst U; lia).
  replace (((U / 16) mod 256) mod 4 * 16) with (vb / 16 * 16) by (subst U; lia).
  rewrite Sa. split.
  - intro E. injection E as E. rewrite <- Sb in E. apply rfc_sym_inj in E; lia.
  - intro E. replace (vb / 16 * 16) with vb by lia. now rewrite Sb.
Qed.

Lemma in_alphabet_val c : in_alphabet c = true -> exists v, rfc_val c = Some v.
Proof. unfold in_alphabet. destruct (rfc_val c) as [v|]; [eauto|discriminate]. Qed.

Lemma canonical_iff_encode s : wfb s = true -> (encode_spec (denote s) = s <-> Canonical s).
Proof.
  induction s as [|a|a b|a b c|a b c d r IH] using list_ind4; try discriminate.
  - intros _. split; [intros _ g []|reflexivity].
  - destruct r as [|e r'].
    + cbn [wfb]. intro W. apply andb_true_iff in W as [W Wcd]. apply andb_true_iff in W as [Wa Wb].
      apply in_alphabet_val in Wa as [va Ea]. apply in_alphabet_val in Wb as [vb Eb].
      apply orb_true_iff in Wcd as [Wcd|Wcd].
      * apply andb_true_iff in Wcd as [Wc Wd]. apply in_alphabet_val in Wc as [vc Ec].
        apply orb_true_iff in Wd as [Wd|Wd].
        -- apply in_alphabet_val in Wd as [vd Ed].
           rewrite (encode_denote_cons4 _ _ _ _ _ _ _ _ [] Ea Eb Ec Ed).
           rewrite (canonical_cons4 _ _ _ _ _ _ _ _ [] Ea Eb Ec Ed).
           split; [intros _ g []|reflexivity].
        -- apply N.eqb_eq in Wd. subst d.
           now rewrite (encode_denote_3pad _ _ _ _ _ _ Ea Eb Ec), (canonical_3pad _ _ _ _ _ _ Ea Eb Ec).
      * apply andb_true_iff in Wcd as [Wc Wd]. apply N.eqb_eq in Wc, Wd. subst c d.
        now rewrite (encode_denote_2pad _ _ _ _ Ea Eb), (canonical_2pad _ _ _ _ Ea Eb).
    + intro W.
      change (in_alphabet a && in_alphabet b && in_alphabet c && in_alphabet d && wfb (e :: r') = true) in W.
      apply andb_true_iff in W as [W Wr]. apply andb_true_iff in W as [W Wd].
      apply andb_true_iff in W as [W Wc]. apply andb_true_iff in W as [Wa Wb].
      apply in_alphabet_val in Wa as [va Ea]. apply in_alphabet_val in Wb as [vb Eb].
      apply in_alphabet_val in Wc as [vc Ec]. apply in_alphabet_val in Wd as [vd Ed].
      rewrite (encode_denote_cons4 _ _ _ _ _ _ _ _ _ Ea Eb Ec Ed).
      rewrite (canonical_cons4 _ _ _ _ _ _ _ _ _ Ea Eb Ec Ed).
      rewrite <- (IH Wr). split; [intro E; now injection E|intros ->; reflexivity].
Qed.

(* among the accepted texts, the canonical ones are exactly the encoder's output *)
Lemma decode_canonical s b : decode s = Ok b -> (encode b = Ok s <-> Canonical s).
Proof.
  rewrite decode_wfb. destruct (wfb s) eqn:W; [|discriminate]. intro H. injection H as <-.
  rewrite encode_model_spec by apply denote_bytes.
  rewrite <- (canonical_iff_encode s W). split; [intro E; now injection E|intros ->; reflexivity].
Qed.

(* ---------- combined statements used by props/C18_b64.v ---------- *)
Lemma encode_shape b : Forall is_byte b ->
  length (encode_spec b) = (4 * ((length b + 2) / 3))%nat /\
  Forall (fun c => in_alphabet c = true \/ c = rfc_pad) (encode_spec b).
Proof. intro Hb. split; [now apply encode_spec_length | now apply encode_spec_symbols]. Qed.

Lemma alphabet_is_table1 :
  (forall v, v < 64 -> alpha v = Ok (rfc_sym v)) /\
  (forall c, classify c = match rfc_val c with
                          | Some v => SVal v
                          | None => if c =? rfc_pad then SPad else SBad
                          end).
Proof. split; [exact alpha_rfc | exact classify_spec]. Qed.

(* the encoding is injective on byte strings *)
Theorem b64_encode_injective (a b : list N) :
  Forall is_byte a -> Forall is_byte b -> encode a = encode b -> a = b.
Proof.
  intros Ha Hb E.
  destruct (decode_encode a Ha) as (s & Ea & Da). destruct (decode_encode b Hb) as (s' & Eb & Db).
  rewrite E, Eb in Ea. inversion Ea; subst. rewrite Da in Db. now inversion Db.
Qed.
