(* Pool.v — labelled transition system of humphrey/src/thread/{pool,recovery}.rs (C08). Definitions only.

   Threads: one caller (owns the ThreadPool value: new/start/execute/stop/drop), n workers, one recovery thread.
   Every label is one atomic step of one thread; the receiver mutex, the mpsc task channel and the mpsc recovery
   channel are the only shared objects (std semantics trusted: FIFO, `recv` blocks while the queue is empty and a
   Sender is alive, fails when the queue is empty and every Sender is gone, a Mutex is held by at most one thread).

   pool.rs, read line by line:
   * new(n)      assert n > 0; tx = channel().0 (its Receiver is dropped at once: a send on it fails).
   * start()     new task channel (tx, rx); rx behind Arc<Mutex<..>>; new recovery channel; n workers spawned, each
                 with a clone of rx and (inside its PanicMarker) a Sender clone of the recovery channel; the recovery
                 thread gets the recovery Receiver, a recovery Sender of its own, a clone of rx, and the handle table.
   * execute(f)  assert started; tx.send(Function f).unwrap().
   * stop()      recovery_thread = None (JoinHandle dropped = detached); tx.send(Shutdown).unwrap() — ONE message;
                 started = false. The Sender stays alive until the pool is dropped.
   * worker      loop { lock rx; recv under the lock; (lock released at the end of the `let`) ;
                        Function f => f() (outside the lock) | Shutdown => break }  ; recv error => break.
                 A panic in f unwinds through the closure: PanicMarker::drop sends the worker id to the recovery
                 channel (thread::panicking()).
   * recovery    loop { for id in &recovery_rx { join handle[id]; spawn a replacement with the same id } } — the
                 closure has type `!`: it never returns (and the `for` never even ends, because the thread owns a
                 Sender of the channel it iterates).
   * Drop        (after the F16 fix) recovery_thread = None; worker JoinHandles dropped (detached); then the fields
                 are dropped, among them tx: from then on `recv` fails once the queue is empty.
                 (before the fix) if recovery_thread was still Some — i.e. stop() had not been called — Drop joined
                 the recovery thread first.  [old = true] selects that behaviour.
   Not modelled: calling start() a second time (the users app.rs / async_app.rs call it once), the monitor. *)
From Hv Require Import Prelude.

Inductive msg : Type := Task (id : nat) | Shutdown.

Inductive wstate : Type :=
| Idle                (* between iterations: about to lock the receiver mutex *)
| InRecv              (* holds the receiver mutex, inside recv() *)
| Running (id : nat)  (* executing task id, mutex released *)
| Unwinding           (* the task panicked; PanicMarker not yet dropped *)
| Dead                (* id sent to the recovery channel; thread finished or finishing *)
| Exited.             (* left the loop normally; never comes back *)

Inductive hstate : Type := HNew | HStarted | HStopped | HDropping | HDropped.

(* what recv() returned, as observed *)
Inductive rres : Type := RTask (id : nat) | RShutdown | RClosed.

Inductive label : Type :=
| Start (n : nat)
| Execute (id : nat)
| ExecuteRejected            (* execute() on a pool that is not started: assert!(self.started) panics in the caller *)
| Stop
| StopRejected               (* stop() on a pool that was never started: send on the receiver-less channel, unwrap panics *)
| Acquire (w : nat)
| Recv (w : nat) (r : rres)
| Finish (w : nat)
| Panic (w : nat)
| Notify (w : nat)
| Recover (w : nat)
| DropBegin
| DropEnd
| LockPoisoned (w : nat).    (* rx.lock() returned Err: needs a panic while the mutex is held; never enabled *)

Record state : Type := mk {
  nthreads : nat;
  handle : hstate;
  sender : bool;            (* the pool's Sender is connected to the live task channel and not yet dropped *)
  queue : list msg;         (* task channel, head = next message *)
  lock : option nat;        (* holder of the receiver mutex *)
  ws : nat -> wstate;       (* worker id -> state; ids >= nthreads are Exited *)
  rchan : list nat;         (* recovery channel *)
  rec_handle : bool;        (* the pool still holds the recovery thread's JoinHandle *)
  joining : bool;           (* Drop is inside join() of the recovery thread (old code only) *)
  submitted : list nat;     (* ghost: ids given to execute(), in order *)
  done : list nat;          (* ghost: ids whose task returned, most recent first *)
  panicked : list nat;      (* ghost: ids whose task panicked, most recent first *)
}.

Definition init : state :=
  mk 0 HNew false [] None (fun _ => Exited) [] false false [] [] [].

Definition upd (f : nat -> wstate) (w : nat) (v : wstate) : nat -> wstate :=
  fun x => if Nat.eqb x w then v else f x.

Definition rres_eqb (a b : rres) : bool :=
  match a, b with
  | RTask i, RTask j => Nat.eqb i j
  | RShutdown, RShutdown => true
  | RClosed, RClosed => true
  | _, _ => false
  end.

(* result of a successful recv by worker w: queue popped, mutex released, new worker state *)
Definition after_recv (s : state) (w : nat) (q : list msg) (v : wstate) : state :=
  mk (nthreads s) (handle s) (sender s) q None (upd (ws s) w v) (rchan s) (rec_handle s) (joining s)
     (submitted s) (done s) (panicked s).

Definition step_gen (old : bool) (s : state) (l : label) : option state :=
  match l with
  | Start n =>
      match handle s with
      | HNew =>
          if Nat.leb 1 n then
            Some (mk n HStarted true [] None (fun w => if Nat.ltb w n then Idle else Exited) [] true false
                     (submitted s) (done s) (panicked s))
          else None
      | _ => None
      end
  | Execute id =>
      match handle s with
      | HStarted =>
          if existsb (Nat.eqb id) (submitted s) then None
          else Some (mk (nthreads s) (handle s) (sender s) (queue s ++ [Task id]) (lock s) (ws s) (rchan s)
                        (rec_handle s) (joining s) (submitted s ++ [id]) (done s) (panicked s))
      | _ => None
      end
  | ExecuteRejected =>
      match handle s with
      | HNew | HStopped => Some s
      | _ => None
      end
  | Stop =>
      match handle s with
      | HStarted | HStopped =>
          Some (mk (nthreads s) HStopped (sender s) (queue s ++ [Shutdown]) (lock s) (ws s) (rchan s)
                   false (joining s) (submitted s) (done s) (panicked s))
      | _ => None
      end
  | StopRejected =>
      match handle s with
      | HNew => Some s
      | _ => None
      end
  | Acquire w =>
      match ws s w, lock s with
      | Idle, None =>
          Some (mk (nthreads s) (handle s) (sender s) (queue s) (Some w) (upd (ws s) w InRecv) (rchan s)
                   (rec_handle s) (joining s) (submitted s) (done s) (panicked s))
      | _, _ => None
      end
  | Recv w r =>
      match ws s w, lock s with
      | InRecv, Some h =>
          if Nat.eqb h w then
            match queue s with
            | Task id :: q => if rres_eqb r (RTask id) then Some (after_recv s w q (Running id)) else None
            | Shutdown :: q => if rres_eqb r RShutdown then Some (after_recv s w q Exited) else None
            | [] => if negb (sender s) && rres_eqb r RClosed then Some (after_recv s w [] Exited) else None
            end
          else None
      | _, _ => None
      end
  | Finish w =>
      match ws s w with
      | Running id =>
          Some (mk (nthreads s) (handle s) (sender s) (queue s) (lock s) (upd (ws s) w Idle) (rchan s)
                   (rec_handle s) (joining s) (submitted s) (id :: done s) (panicked s))
      | _ => None
      end
  | Panic w =>
      match ws s w with
      | Running id =>
          Some (mk (nthreads s) (handle s) (sender s) (queue s) (lock s) (upd (ws s) w Unwinding) (rchan s)
                   (rec_handle s) (joining s) (submitted s) (done s) (id :: panicked s))
      | _ => None
      end
  | Notify w =>
      match ws s w with
      | Unwinding =>
          Some (mk (nthreads s) (handle s) (sender s) (queue s) (lock s) (upd (ws s) w Dead) (rchan s ++ [w])
                   (rec_handle s) (joining s) (submitted s) (done s) (panicked s))
      | _ => None
      end
  | Recover w =>
      (* the recovery thread takes the head of its channel; join() returns because that worker is dead *)
      match rchan s, ws s w with
      | h :: r, Dead =>
          if Nat.eqb h w then
            Some (mk (nthreads s) (handle s) (sender s) (queue s) (lock s) (upd (ws s) w Idle) r
                     (rec_handle s) (joining s) (submitted s) (done s) (panicked s))
          else None
      | _, _ => None
      end
  | DropBegin =>
      match handle s with
      | HNew | HStarted | HStopped =>
          Some (mk (nthreads s) HDropping (sender s) (queue s) (lock s) (ws s) (rchan s)
                   false (if old then rec_handle s else false) (submitted s) (done s) (panicked s))
      | _ => None
      end
  | DropEnd =>
      (* the recovery thread's function never returns, so a join() of it never does either *)
      match handle s with
      | HDropping =>
          if joining s then None
          else Some (mk (nthreads s) HDropped false (queue s) (lock s) (ws s) (rchan s)
                        (rec_handle s) (joining s) (submitted s) (done s) (panicked s))
      | _ => None
      end
  | LockPoisoned _ => None
  end.

(* the code as it is now (after the F16 fix) / as it was *)
Definition step : state -> label -> option state := step_gen false.
Definition step_old : state -> label -> option state := step_gen true.

Fixpoint run_gen (old : bool) (s : state) (tr : list label) : option state :=
  match tr with
  | [] => Some s
  | l :: t => match step_gen old s l with Some s' => run_gen old s' t | None => None end
  end.

Definition run : state -> list label -> option state := run_gen false.
Definition run_old : state -> list label -> option state := run_gen true.

(* trace conformance: every observed transition is a transition of the model *)
Definition accepts (tr : list label) : bool :=
  match run init tr with Some _ => true | None => false end.

(* position of the first label the model refuses (for reports) *)
Fixpoint first_reject_from (s : state) (tr : list label) (k : nat) : option nat :=
  match tr with
  | [] => None
  | l :: t => match step s l with Some s' => first_reject_from s' t (S k) | None => Some k end
  end.
Definition first_reject (tr : list label) : option nat := first_reject_from init tr 0.

(* ---- observations used in the statements ---- *)

Fixpoint qtasks (q : list msg) : list nat :=
  match q with
  | [] => []
  | Task id :: q' => id :: qtasks q'
  | Shutdown :: q' => qtasks q'
  end.

(* ids running on workers 0..k-1 *)
Fixpoint running_upto (k : nat) (f : nat -> wstate) : list nat :=
  match k with
  | O => []
  | S k' => match f k' with Running id => id :: running_upto k' f | _ => running_upto k' f end
  end.
Definition running (s : state) : list nat := running_upto (nthreads s) (ws s).

Definition is_running (v : wstate) : bool := match v with Running _ => true | _ => false end.
Fixpoint count_upto (k : nat) (p : wstate -> bool) (f : nat -> wstate) : nat :=
  match k with
  | O => 0
  | S k' => (if p (f k') then 1 else 0) + count_upto k' p f
  end.
Definition running_count (s : state) : nat := count_upto (nthreads s) is_running (ws s).

(* a worker that can still take work (or is doing so) *)
Definition usable (v : wstate) : bool :=
  match v with Idle | InRecv | Running _ => true | _ => false end.

(* termination measure *)
Definition weight (v : wstate) : nat :=
  match v with
  | Running _ => 5 | Unwinding => 4 | Dead => 3 | Idle => 2 | InRecv => 1 | Exited => 0
  end.
Fixpoint sumw (k : nat) (f : nat -> wstate) : nat :=
  match k with O => 0 | S k' => weight (f k') + sumw k' f end.
Definition measure (s : state) : nat := 5 * length (queue s) + sumw (nthreads s) (ws s).

Definition worker_label (l : label) : bool :=
  match l with
  | Acquire _ | Recv _ _ | Finish _ | Panic _ | Notify _ | Recover _ => true
  | _ => false
  end.

(* ids submitted / handed to a worker by one label (for the FIFO statement) *)
Definition exec_of (l : label) : list nat := match l with Execute id => [id] | _ => [] end.
Definition recv_of (l : label) : list nat := match l with Recv _ (RTask id) => [id] | _ => [] end.

(* the end state the property asks for: every worker has exited and every submitted task has run *)
Definition all_exited (s : state) : Prop := forall w, ws s w = Exited.

(* ---- summaries for the conformance driver ---- *)
Definition final_summary (tr : list label) : option (nat * (nat * (nat * nat))) :=
  match run init tr with
  | Some s => Some (length (submitted s), (length (done s), (length (panicked s), count_upto (nthreads s)
                 (fun v => match v with Exited => false | _ => true end) (ws s))))
  | None => None
  end.

Fixpoint max_running_from (s : state) (tr : list label) (m : nat) : nat :=
  match tr with
  | [] => Nat.max m (running_count s)
  | l :: t => match step s l with
              | Some s' => max_running_from s' t (Nat.max m (running_count s))
              | None => Nat.max m (running_count s)
              end
  end.
Definition max_running (tr : list label) : nat := max_running_from init tr 0.
