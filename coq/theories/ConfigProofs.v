(* Lemmas about the configuration model (Config.v): safety (C03 conf part), value typing, defaults, render/load. *)
From Coq Require Import Lia.
From Hv Require Import Prelude Bytes TablesConfig Config.
Open Scope N_scope.

Ltac Zify.zify_post_hook ::= Z.div_mod_to_equations.

(* ================================================================================================
   1. Strings: substrings of a UTF-8 string never start a slice in the middle of a character after an ASCII byte
   ================================================================================================ *)

(* no continuation byte directly after an ASCII byte: holds in valid UTF-8 and in every contiguous part of it *)
Fixpoint async (l : bytes) : bool :=
  match l with
  | a :: r => (match r with b :: _ => negb (a <? 128) || negb (cont b) | [] => true end) && async r
  | [] => true
  end.

Lemma async_app_r : forall p x, async (p ++ x) = true -> async x = true.
Proof.
  induction p as [|a p IH]; intros x H; [exact H|].
  cbn [app async] in H. apply andb_true_iff in H. destruct H as [_ H]. auto.
Qed.

Lemma async_app_l : forall x s, async (x ++ s) = true -> async x = true.
Proof.
  induction x as [|a x IH]; intros s H; [reflexivity|].
  cbn [app async] in H |- *. apply andb_true_iff in H. destruct H as [H1 H2].
  apply andb_true_iff. split; [|eauto].
  destruct x as [|b x]; [reflexivity|]. exact H1.
Qed.

Definition sub (x l : bytes) : Prop := exists p s, l = p ++ x ++ s.

Lemma sub_refl : forall l, sub l l.
Proof. intros l. exists [], []. rewrite app_nil_r. reflexivity. Qed.

Lemma sub_trans : forall a b c, sub a b -> sub b c -> sub a c.
Proof.
  intros a b c [p [s ->]] [p' [s' ->]]. exists (p' ++ p), (s ++ s').
  rewrite <- !app_assoc. reflexivity.
Qed.

Lemma async_sub : forall x l, sub x l -> async l = true -> async x = true.
Proof. intros x l [p [s ->]] H. apply async_app_r in H. apply async_app_l in H. exact H. Qed.

Lemma sub_skipn : forall n l, sub (skipn n l) l.
Proof. intros n l. exists (firstn n l), []. rewrite app_nil_r, firstn_skipn. reflexivity. Qed.

Lemma sub_firstn : forall n l, sub (firstn n l) l.
Proof. intros n l. exists [], (skipn n l). cbn [app]. rewrite firstn_skipn. reflexivity. Qed.

Lemma sub_app_l : forall a b, sub a (a ++ b).
Proof. intros a b. exists [], b. reflexivity. Qed.

Lemma sub_app_r : forall a b, sub b (a ++ b).
Proof. intros a b. exists a, []. rewrite app_nil_r. reflexivity. Qed.

Lemma sub_cons : forall x a l, sub x l -> sub x (a :: l).
Proof. intros x a l [p [s ->]]. exists (a :: p), s. reflexivity. Qed.

(* trim *)
Lemma trim_start_fuel_sub : forall f l, sub (trim_start_fuel f l) l.
Proof.
  induction f as [|f IH]; intros l; cbn [trim_start_fuel]; [apply sub_refl|].
  destruct (ws_prefix_len l) as [|n]; [apply sub_refl|].
  eapply sub_trans; [apply IH|apply sub_skipn].
Qed.

Lemma trim_start_sub : forall l, sub (trim_start l) l.
Proof. intros l. apply trim_start_fuel_sub. Qed.

Lemma skipn_skipn' : forall {A} k n (l : list A), skipn k (skipn n l) = skipn (k + n) l.
Proof.
  intros A k n. induction n as [|n IH]; intros l.
  - rewrite Nat.add_0_r. reflexivity.
  - destruct l as [|a l]; [rewrite !skipn_nil; reflexivity|].
    rewrite Nat.add_succ_r. cbn [skipn]. apply IH.
Qed.

Lemma trim_end_rev_suffix : forall f rl, exists k, trim_end_rev f rl = skipn k rl.
Proof.
  induction f as [|f IH]; intros rl; cbn [trim_end_rev]; [exists 0%nat; reflexivity|].
  destruct (ws_suffix_len rl) as [|n]; [exists 0%nat; reflexivity|].
  destruct (IH (skipn (S n) rl)) as [k Hk]. exists (k + S n)%nat. rewrite Hk, skipn_skipn'. reflexivity.
Qed.

Lemma rev_skipn : forall {A} k (l : list A), rev (skipn k (rev l)) = firstn (length l - k) l.
Proof. intros A k l. rewrite skipn_rev, rev_involutive. reflexivity. Qed.

Lemma trim_end_prefix : forall l, exists n, trim_end l = firstn n l.
Proof.
  intros l. unfold trim_end. destruct (trim_end_rev_suffix (length l) (rev l)) as [k Hk].
  rewrite Hk, rev_skipn. eauto.
Qed.

Lemma trim_end_sub : forall l, sub (trim_end l) l.
Proof. intros l. destruct (trim_end_prefix l) as [n ->]. apply sub_firstn. Qed.

Lemma trim_sub : forall l, sub (trim l) l.
Proof. intros l. unfold trim. eapply sub_trans; [apply trim_end_sub|apply trim_start_sub]. Qed.

Lemma split_once_app : forall d l a b, split_once d l = Some (a, b) -> l = a ++ d :: b.
Proof.
  intros d. induction l as [|x l IH]; intros a b H; cbn [split_once] in H; [discriminate|].
  destruct (x =? d) eqn:E.
  - injection H as <- <-. apply N.eqb_eq in E. subst. reflexivity.
  - destruct (split_once d l) as [[a' b']|]; [|discriminate]. injection H as <- <-.
    rewrite (IH a' b' eq_refl). reflexivity.
Qed.

Lemma split_once_sub : forall d l a b, split_once d l = Some (a, b) -> sub a l /\ sub b l.
Proof.
  intros d l a b H. apply split_once_app in H. subst. split; [apply sub_app_l|].
  change (a ++ d :: b) with (a ++ [d] ++ b). rewrite app_assoc. apply sub_app_r.
Qed.

Lemma clean_up_sub : forall l, sub (clean_up l) l.
Proof.
  intros l. unfold clean_up. destruct (split_once HASH l) as [[a b]|] eqn:E.
  - eapply sub_trans; [apply trim_sub|]. apply (split_once_sub _ _ _ _ E).
  - apply trim_sub.
Qed.

Lemma after_space_sub : forall l, sub (after_space l) l.
Proof.
  intros l. unfold after_space. destruct (split_once SP l) as [[a b]|] eqn:E; [|apply sub_refl].
  apply (split_once_sub _ _ _ _ E).
Qed.

Lemma removelast_firstn_len : forall {A} (l : list A), removelast l = firstn (length l - 1) l.
Proof.
  intros A l. rewrite removelast_firstn_len. rewrite Nat.sub_1_r. reflexivity.
Qed.

Lemma strip_suffix_byte_sub : forall c l m, strip_suffix_byte c l = Some m -> sub m l.
Proof.
  intros c l m H. unfold strip_suffix_byte in H. destruct l as [|a l]; [discriminate|].
  remember (a :: l) as l0. destruct (last l0 0 =? c); [|discriminate]. injection H as <-.
  rewrite removelast_firstn_len. apply sub_firstn.
Qed.

(* lines *)
Lemma lines_sub : forall l x, In x (lines l) -> sub x l.
Proof.
  induction l as [|b r IH]; intros x H; cbn [lines] in H; [destruct H|].
  destruct (b =? 10).
  - destruct H as [<-|H]; [exists [], (b :: r); reflexivity|]. apply sub_cons. auto.
  - destruct ((b =? 13) && match r with c :: _ => c =? 10 | [] => false end).
    + apply sub_cons. auto.
    + destruct (lines r) as [|y ys] eqn:E.
      * destruct H as [<-|[]]. exists [], r. reflexivity.
      * destruct H as [<-|H].
        -- destruct (IH y (or_introl eq_refl)) as [p [s Hr]].
           (* y is the first line of r: it is a prefix *)
           assert (Hp : exists s', r = y ++ s').
           { clear -E. revert y ys E. induction r as [|c r IHr]; intros y ys E; cbn [lines] in E; [discriminate|].
             destruct (c =? 10).
             - injection E as <- _. exists (c :: r). reflexivity.
             - destruct ((c =? 13) && match r with c0 :: _ => c0 =? 10 | [] => false end) eqn:E2.
               + (* CR LF: the line is empty *)
                 apply andb_true_iff in E2. destruct E2 as [_ E2]. destruct r as [|c0 r']; [discriminate|].
                 apply N.eqb_eq in E2. subst c0. cbn [lines] in E. rewrite N.eqb_refl in E.
                 injection E as <- _. exists (c :: 10 :: r'). reflexivity.
               + destruct (lines r) as [|z zs] eqn:E3.
                 * injection E as <- _. destruct r as [|c1 r1]; [exists []; reflexivity|].
                   exfalso. cbn [lines] in E3. destruct (c1 =? 10); [discriminate|].
                   destruct ((c1 =? 13) && match r1 with c0 :: _ => c0 =? 10 | [] => false end) eqn:E4.
                   -- apply andb_true_iff in E4. destruct E4 as [_ E4]. destruct r1 as [|c2 r2]; [discriminate|].
                      apply N.eqb_eq in E4. subst. cbn [lines] in E3. rewrite N.eqb_refl in E3. discriminate.
                   -- destruct (lines r1); discriminate.
                 * injection E as <- _. destruct (IHr z zs eq_refl) as [s' ->]. exists s'. reflexivity. }
           destruct Hp as [s' ->]. exists [], s'. reflexivity.
        -- apply sub_cons. apply IH. right. exact H.
Qed.

(* valid UTF-8 is async *)
Lemma utf8_valid_fuel_head : forall f c r, utf8_valid_fuel f (c :: r) = true -> cont c = false.
Proof.
  intros f c r H. destruct f as [|f]; [discriminate|]. cbn [utf8_valid_fuel] in H. unfold cont.
  destruct (c <? 128) eqn:E1.
  - apply N.ltb_lt in E1. apply andb_false_iff. left. apply N.leb_gt. exact E1.
  - destruct ((194 <=? c) && (c <=? 223)) eqn:E2.
    { apply andb_true_iff in E2. destruct E2 as [E2 _]. apply N.leb_le in E2.
      apply andb_false_iff. right. apply N.leb_gt. lia. }
    destruct (c =? 224) eqn:E3.
    { apply N.eqb_eq in E3. subst. reflexivity. }
    destruct (((225 <=? c) && (c <=? 236)) || (c =? 238) || (c =? 239)) eqn:E4.
    { apply andb_false_iff. right. apply N.leb_gt.
      apply orb_true_iff in E4. destruct E4 as [E4|E4]; [apply orb_true_iff in E4; destruct E4 as [E4|E4]|].
      - apply andb_true_iff in E4. destruct E4 as [E4 _]. apply N.leb_le in E4. lia.
      - apply N.eqb_eq in E4. lia.
      - apply N.eqb_eq in E4. lia. }
    destruct (c =? 237) eqn:E5.
    { apply N.eqb_eq in E5. subst. reflexivity. }
    destruct (c =? 240) eqn:E6.
    { apply N.eqb_eq in E6. subst. reflexivity. }
    destruct ((241 <=? c) && (c <=? 243)) eqn:E7.
    { apply andb_true_iff in E7. destruct E7 as [E7 _]. apply N.leb_le in E7.
      apply andb_false_iff. right. apply N.leb_gt. lia. }
    destruct (c =? 244) eqn:E8.
    { apply N.eqb_eq in E8. subst. reflexivity. }
    discriminate.
Qed.

Lemma async_cons_high : forall a r, (a <? 128) = false -> async r = true -> async (a :: r) = true.
Proof.
  intros a r Ha Hr. cbn [async]. rewrite Hr, andb_true_r. destruct r; [reflexivity|]. rewrite Ha. reflexivity.
Qed.

Lemma utf8_valid_fuel_async : forall f l, utf8_valid_fuel f l = true -> async l = true.
Proof.
  induction f as [|f IH]; intros l H.
  - destruct l; [reflexivity|discriminate].
  - destruct l as [|b r]; [reflexivity|]. cbn [utf8_valid_fuel] in H.
    assert (Hc : forall c, cont c = true -> (c <? 128) = false).
    { intros c Hc. unfold cont in Hc. apply andb_true_iff in Hc. destruct Hc as [Hc _]. apply N.leb_le in Hc.
      apply N.ltb_ge. lia. }
    destruct (b <? 128) eqn:E1.
    + cbn [async]. rewrite (IH r H), andb_true_r. destruct r as [|c r']; [reflexivity|].
      rewrite (utf8_valid_fuel_head f c r' H). rewrite orb_true_r. reflexivity.
    + repeat match type of H with
        | (if ?c then _ else _) = true => destruct c
        | match ?r with [] => _ | _ :: _ => _ end = true => destruct r; [discriminate|]
        | false = true => discriminate
        end;
      repeat (apply andb_true_iff in H; destruct H as [H ?]);
      repeat match goal with
        | Hx : cont ?c = true |- _ => apply Hc in Hx
        end;
      try (apply async_cons_high; [assumption|]);
      try (apply async_cons_high; [first [assumption|apply N.ltb_ge; match goal with Hy : (_ <=? ?c) = true |- (128 <= ?c) => apply N.leb_le in Hy; lia end]|]);
      try (apply async_cons_high; [first [assumption|apply N.ltb_ge; match goal with Hy : (_ <=? ?c) = true |- (128 <= ?c) => apply N.leb_le in Hy; lia end]|]);
      try (apply async_cons_high; [first [assumption|apply N.ltb_ge; match goal with Hy : (_ <=? ?c) = true |- (128 <= ?c) => apply N.leb_le in Hy; lia end]|]);
      try (apply IH; assumption).
Qed.

Lemma utf8_valid_async : forall l, utf8_valid l = true -> async l = true.
Proof. intros l. apply utf8_valid_fuel_async. Qed.

(* ================================================================================================
   2. Safety of the tree parser: no panic site reachable, fuel never exhausted, tree depth bounded
   ================================================================================================ *)

Lemma async_app : forall a b, async a = true -> async b = true -> cont (hd 0 b) = false -> async (a ++ b) = true.
Proof.
  induction a as [|x a IH]; intros b Ha Hb Hh; [exact Hb|].
  cbn [app async] in Ha |- *. apply andb_true_iff in Ha. destruct Ha as [H1 H2].
  rewrite (IH b H2 Hb Hh), andb_true_r.
  destruct a as [|y a]; cbn [app].
  - destruct b as [|z b]; [reflexivity|]. cbn [hd] in Hh. rewrite Hh. apply orb_true_r.
  - exact H1.
Qed.

Lemma is_quoted_shape : forall v, is_quoted v = true -> exists m, v = 34 :: m ++ [34].
Proof.
  intros v H. unfold is_quoted in H. destruct v as [|a r]; [discriminate|].
  destruct (N.eq_dec a 34) as [->|Hn].
  - destruct r as [|b r']; [discriminate|]. remember (b :: r') as r.
    assert (Hr : r <> []) by (subst; discriminate).
    apply N.eqb_eq in H. exists (removelast r).
    rewrite (app_removelast_last 0 Hr) at 1. rewrite H. reflexivity.
  - exfalso. destruct a as [|p]; [discriminate|].
    do 6 (destruct p as [p|p|]; try discriminate). all: try (apply Hn; reflexivity).
Qed.

(* the slice value[1..len-1] of a quoted value never panics (and is the text between the quotes) *)
Lemma str_slice_quoted : forall m, async (34 :: m ++ [34]) = true ->
  str_slice (34 :: m ++ [34]) 1 (Nat.sub (length (34 :: m ++ [34])) 1) = Some m.
Proof.
  intros m Ha. unfold str_slice.
  assert (Hlen : Nat.sub (length (34 :: m ++ [34])) 1 = S (length m)).
  { cbn [length]. rewrite app_length. cbn [length]. lia. }
  rewrite Hlen.
  assert (H1 : Nat.leb 1 (S (length m)) = true) by (apply Nat.leb_le; lia).
  assert (H2 : Nat.leb (S (length m)) (length (34 :: m ++ [34])) = true).
  { apply Nat.leb_le. cbn [length]. rewrite app_length. cbn [length]. lia. }
  rewrite H1, H2. cbn [andb].
  assert (H3 : is_char_boundary (34 :: m ++ [34]) 1 = true).
  { destruct m as [|b m']; [reflexivity|].
    cbn [async app] in Ha. apply andb_true_iff in Ha. destruct Ha as [Ha _].
    unfold is_char_boundary. cbn [app length Nat.eqb Nat.ltb Nat.leb nth]. cbn in Ha. exact Ha. }
  assert (H4 : is_char_boundary (34 :: m ++ [34]) (S (length m)) = true).
  { unfold is_char_boundary. change (Nat.eqb (S (length m)) 0) with false. cbv iota.
    replace (Nat.ltb (length (34 :: m ++ [34])) (S (length m))) with false
      by (symmetry; apply Nat.ltb_ge; cbn [length]; rewrite app_length; cbn [length]; lia).
    destruct (Nat.eqb (S (length m)) (length (34 :: m ++ [34]))); [reflexivity|].
    change (nth (S (length m)) (34 :: m ++ [34]) 0) with (nth (length m) (m ++ [34]) 0).
    rewrite app_nth2 by lia. rewrite Nat.sub_diag. reflexivity. }
  rewrite H3, H4. cbn [andb]. f_equal.
  cbn [skipn]. replace (S (length m) - 1)%nat with (length m) by lia.
  rewrite firstn_app, firstn_all, Nat.sub_diag. cbn [firstn]. apply app_nil_r.
Qed.

Lemma parse_size_no_crash : forall s, is_crash (parse_size s) = false.
Proof.
  intros s. unfold parse_size. destruct s as [|a [|b r]]; [reflexivity| |].
  - destruct (parse_i64 [a]); reflexivity.
  - remember (a :: b :: r) as s. unfold split_last_char. destruct s; [discriminate|].
    destruct (take_cont (rev (n :: s)) []) as [rr c].
    destruct (parse_i64 (rev rr)); [|reflexivity].
    destruct c as [|c [|]]; try reflexivity.
    destruct (assoc_n (upper_byte c) size_units).
    + destruct (checked_mul z z0); reflexivity.
    + destruct (is_digit (upper_byte c)); [|reflexivity]. destruct (parse_i64 (n :: s)); reflexivity.
Qed.

Fixpoint tree_depth (n : node) : nat :=
  match n with
  | NSec _ cs | NHost _ cs | NRoute _ cs => S (fold_right (fun c m => Nat.max (tree_depth c) m) 0%nat cs)
  | _ => 0%nat
  end.

Definition depth_le (k : nat) (n : node) : Prop := (tree_depth n <= k)%nat.

Lemma fold_max_le : forall cs k, (fold_right (fun c m => Nat.max (tree_depth c) m) 0%nat cs <= k)%nat <-> Forall (depth_le k) cs.
Proof.
  induction cs as [|c cs IH]; intros k; cbn [fold_right].
  - split; [constructor|lia].
  - split.
    + intros H. constructor; [unfold depth_le; lia|]. apply IH. lia.
    + intros H. inversion H as [|? ? H1 H2]; subst. apply IH in H2. unfold depth_le in H1. lia.
Qed.

Lemma depth_le_mono : forall k k' n, (k <= k')%nat -> depth_le k n -> depth_le k' n.
Proof. unfold depth_le. intros. lia. Qed.

Lemma type_value_safe : forall key value, async value = true ->
  match type_value key value with
  | Ok n => tree_depth n = 0%nat
  | Err c => c = E_Value
  | Crash _ => False
  end.
Proof.
  intros key value Ha. unfold type_value.
  destruct (is_quoted value) eqn:Eq.
  - destruct (is_quoted_shape _ Eq) as [m ->]. rewrite (str_slice_quoted m Ha). reflexivity.
  - destruct (parse_i64 value); [reflexivity|]. destruct (parse_bool value); [reflexivity|].
    pose proof (parse_size_no_crash value) as Hc. destruct (parse_size value); [reflexivity|reflexivity|discriminate].
Qed.

(* what a (nested) parse_section call guarantees *)
Definition all_async (ls : list bytes) : Prop := Forall (fun l => async l = true) ls.

Definition post (k : nat) (ls : list bytes) (r : res (node * pstate)) : Prop :=
  match r with
  | ROk (n, (rest, _)) =>
    (exists p, ls = p ++ rest /\ (length rest < length ls)%nat) /\ (exists nm cs, n = NSec nm cs) /\ depth_le k n
  | RErr e => ce_class e <> E_Fuel
  | RCrash _ => False
  end.

Definition ps_safe (k : nat) (ps : nat -> bytes -> bytes -> list bytes -> N -> res (node * pstate)) : Prop :=
  forall fuel name file ls ln, (length ls < fuel)%nat -> all_async ls -> post k ls (ps fuel name file ls ln).

Lemma all_async_lines : forall b, async b = true -> all_async (lines b).
Proof.
  intros b Hb. apply Forall_forall. intros x Hx. eapply async_sub; [apply lines_sub; exact Hx|exact Hb].
Qed.

Lemma include_with_safe : forall files room ps k path file ln,
  ps_safe k ps ->
  match include_with files room ps path file ln with
  | ROk nodes => Forall (depth_le k) nodes
  | RErr e => ce_class e <> E_Fuel
  | RCrash _ => False
  end.
Proof.
  intros files room ps k path file ln Hps. unfold include_with.
  destruct room; cbn [negb]; [|cbn; discriminate].
  destruct (files path) as [| |b]; [cbn; discriminate|cbn; discriminate|].
  destruct (utf8_valid b) eqn:Ev; [|cbn; discriminate].
  set (ils := lines (b ++ [LF; RBRACE])).
  assert (Hils : all_async ils).
  { apply all_async_lines. apply async_app; [apply utf8_valid_async; exact Ev|reflexivity|reflexivity]. }
  specialize (Hps (S (length ils)) included_section_name path ils 0 (Nat.lt_succ_diag_r _) Hils).
  unfold post in Hps. destruct (ps (S (length ils)) included_section_name path ils 0) as [[n [rest ln']]|e|w].
  - destruct Hps as [_ [[nm [cs ->]] Hd]]. destruct rest as [|r0 rest].
    + unfold depth_le in Hd. cbn [tree_depth] in Hd. apply fold_max_le.
      apply Nat.succ_le_mono in Hd || idtac.
      assert (Hd' : (fold_right (fun c m => Nat.max (tree_depth c) m) 0%nat cs <= k)%nat) by lia. exact Hd'.
    + cbn. discriminate.
  - exact Hps.
  - exact Hps.
Qed.

Lemma post_continue : forall k raw rest rest' r p,
  rest = p ++ rest' -> (length rest' <= length rest)%nat ->
  post k rest' r -> post k (raw :: rest) r.
Proof.
  intros k raw rest rest' r p Hp Hl Hr. unfold post in *.
  destruct r as [[n0 [rest0 ln0]]|e|w]; [|exact Hr|exact Hr].
  destruct Hr as [[p0 [Hp0 Hl0]] [Hn Hd]]. split; [|split; assumption].
  exists (raw :: p ++ p0). split.
  - subst rest. rewrite Hp0 at 1. cbn [app]. rewrite <- app_assoc. reflexivity.
  - cbn [length]. lia.
Qed.

Lemma section_loop_safe : forall files k ps room name file,
  ps_safe k ps ->
  forall fuel ls ln acc, (length ls < fuel)%nat -> all_async ls -> Forall (depth_le k) acc ->
    post (S k) ls (section_loop files ps room name file fuel ls ln acc).
Proof.
  intros files k ps room name file Hps.
  induction fuel as [|f IH]; intros ls ln acc Hf Hls Hacc; [lia|].
  cbn [section_loop]. destruct ls as [|raw rest]; [cbn; discriminate|].
  cbn [length] in Hf. apply Nat.succ_lt_mono in Hf.
  inversion Hls as [|? ? Hraw Hrest]; subst.
  assert (Hcont : forall rest' ln' acc', (exists p, rest = p ++ rest' /\ (length rest' <= length rest)%nat) ->
            Forall (depth_le k) acc' ->
            post (S k) (raw :: rest) (section_loop files ps room name file f rest' ln' acc')).
  { intros rest' ln' acc' [p [Hp Hl]] Hacc'.
    eapply (post_continue (S k) raw rest rest' _ p Hp Hl).
    apply IH; [lia| |exact Hacc'].
    unfold all_async in *. rewrite Hp in Hrest. apply Forall_app in Hrest. apply Hrest. }
  assert (Hsame : exists p, rest = p ++ rest /\ (length rest <= length rest)%nat) by (exists []; split; [reflexivity|lia]).
  assert (Hnested : forall nm, match ps f nm file rest (ln + 1) with
                               | ROk (n, (rest', _)) =>
                                 (exists p, rest = p ++ rest' /\ (length rest' <= length rest)%nat) /\
                                 (exists nm' cs, n = NSec nm' cs) /\ depth_le k n
                               | RErr e => ce_class e <> E_Fuel
                               | RCrash _ => False
                               end).
  { intros nm. specialize (Hps f nm file rest (ln + 1) Hf Hrest). unfold post in Hps.
    destruct (ps f nm file rest (ln + 1)) as [[n [rest' ln']]|e|w]; [|exact Hps|exact Hps].
    destruct Hps as [[p [Hp Hl]] Hn]. split; [exists p; split; [exact Hp|lia]|exact Hn]. }
  unfold section_step.
  set (line := clean_up raw).
  assert (Hline : async line = true) by (eapply async_sub; [apply clean_up_sub|exact Hraw]).
  destruct (strip_suffix_byte LBRACE line) as [sn0|] eqn:Esn.
  - (* section header *)
    destruct (starts_with kw_route_sp (trim sn0) && negb (beq (trim sn0) kw_route_brace)).
    { specialize (Hnested (trim (after_space (trim sn0)))).
      destruct (ps f (trim (after_space (trim sn0))) file rest (ln + 1)) as [[n [rest' ln']]|e|w];
        [|exact Hnested|exact Hnested].
      destruct Hnested as [Hp [[nm' [cs ->]] Hd]]. apply Hcont; [exact Hp|]. constructor; [exact Hd|exact Hacc]. }
    destruct (starts_with kw_host_sp (trim sn0) && negb (beq (trim sn0) kw_host_brace)).
    { specialize (Hnested (host_name_of (trim (after_space (trim sn0))))).
      destruct (ps f (host_name_of (trim (after_space (trim sn0)))) file rest (ln + 1)) as [[n [rest' ln']]|e|w];
        [|exact Hnested|exact Hnested].
      destruct Hnested as [Hp [[nm' [cs ->]] Hd]]. apply Hcont; [exact Hp|]. constructor; [exact Hd|exact Hacc]. }
    specialize (Hnested (trim sn0)).
    destruct (ps f (trim sn0) file rest (ln + 1)) as [[n [rest' ln']]|e|w]; [|exact Hnested|exact Hnested].
    destruct Hnested as [Hp [_ Hd]]. apply Hcont; [exact Hp|]. constructor; [exact Hd|exact Hacc].
  - destruct (beq line [RBRACE]).
    { (* end of the section *)
      cbn [post]. split; [exists [raw]; split; [reflexivity|cbn [length]; lia]|].
      split; [eauto|]. unfold depth_le. cbn [tree_depth]. apply le_n_S. apply fold_max_le.
      apply Forall_rev. exact Hacc. }
    destruct line as [|c0 line'] eqn:Eline; [apply Hcont; assumption|].
    rewrite <- Eline in *.
    destruct (split_once SP line) as [[a b]|] eqn:Esp; [|cbn; discriminate].
    assert (Hval : async (trim b) = true).
    { eapply async_sub; [|exact Hline]. eapply sub_trans; [apply trim_sub|]. apply (split_once_sub _ _ _ _ Esp). }
    destruct (negb (beq (trim a) kw_include)).
    + pose proof (type_value_safe (trim a) (trim b) Hval) as Htv.
      destruct (type_value (trim a) (trim b)) as [n|c|w]; [|subst c; cbn; discriminate|exact Htv].
      apply Hcont; [exact Hsame|]. constructor; [unfold depth_le; lia|exact Hacc].
    + destruct (is_quoted (trim b)) eqn:Eq; [|cbn; discriminate].
      destruct (is_quoted_shape _ Eq) as [m Hm]. rewrite Hm in *. rewrite (str_slice_quoted m Hval).
      pose proof (include_with_safe files room ps k m file (ln + 1) Hps) as Hinc.
      destruct (include_with files room ps m file (ln + 1)) as [nodes|e|w]; [|exact Hinc|exact Hinc].
      apply Hcont; [exact Hsame|]. apply Forall_app. split; [apply Forall_rev; exact Hinc|exact Hacc].
Qed.

Lemma parse_section_safe : forall files d, ps_safe d (parse_section files d).
Proof.
  intros files. induction d as [|d IH]; intros fuel name file ls ln Hf Hls.
  - cbn. discriminate.
  - cbn [parse_section]. apply section_loop_safe; [exact IH|exact Hf|exact Hls|constructor].
Qed.

Lemma find_server_suffix : forall ls ln rest ln', find_server ls ln = Some (rest, ln') -> exists p, ls = p ++ rest.
Proof.
  induction ls as [|l ls IH]; intros ln rest ln' H; cbn [find_server] in H; [discriminate|].
  destruct (beq (clean_up l) kw_server_open).
  - injection H as <- _. exists [l]. reflexivity.
  - destruct (IH _ _ _ H) as [p ->]. exists (l :: p). reflexivity.
Qed.

(* parse_conf: never a panic, never out of fuel, and the tree is at most MAX_DEPTH deep *)
Lemma parse_conf_safe : forall files file conf, utf8_valid conf = true ->
  match parse_conf files file conf with
  | ROk t => (tree_depth t <= conf_max_depth)%nat
  | RErr e => ce_class e <> E_Fuel
  | RCrash _ => False
  end.
Proof.
  intros files file conf Hv. unfold parse_conf.
  destruct (find_server (lines conf) 0) as [[rest ln]|] eqn:Ef; [|cbn; discriminate].
  destruct (find_server_suffix _ _ _ _ Ef) as [p Hp].
  assert (Hrest : all_async rest).
  { pose proof (all_async_lines conf (utf8_valid_async conf Hv)) as Hall. unfold all_async in *.
    rewrite Hp in Hall. apply Forall_app in Hall. apply Hall. }
  pose proof (parse_section_safe files conf_max_depth (S (length rest)) kw_server file rest ln
                (Nat.lt_succ_diag_r _) Hrest) as H.
  unfold post in H.
  destruct (parse_section files conf_max_depth (S (length rest)) kw_server file rest ln) as [[n [rest' ln']]|e|w];
    [|exact H|exact H].
  destruct H as [_ [_ Hd]]. destruct (check_trailing rest' ln'); [cbn; discriminate|exact Hd].
Qed.

(* the route kinds of parse_route, in the order the generated table (config.rs) gives: the model tests exactly these keys *)
Lemma route_kind_table_ok :
  route_kind_table = [([102; 105; 108; 101], RT_File); ([100; 105; 114; 101; 99; 116; 111; 114; 121], RT_Directory);
                      (rkey_proxy, RT_Proxy); ([114; 101; 100; 105; 114; 101; 99; 116], RT_Redirect)] /\
  RT_ExclusiveWebSocket = 4 /\ size_units = [(75, 1024%Z); (77, 1048576%Z); (71, 1073741824%Z)].
Proof. repeat split. Qed.

(* ================================================================================================
   3. Safety of from_tree
   ================================================================================================ *)

Section node_ind'.
  Variable P : node -> Prop.
  Hypothesis Hnum : forall k v, P (NNum k v).
  Hypothesis Hbool : forall k v, P (NBool k v).
  Hypothesis Hstr : forall k v, P (NStr k v).
  Hypothesis Hsec : forall k cs, Forall P cs -> P (NSec k cs).
  Hypothesis Hhost : forall k cs, Forall P cs -> P (NHost k cs).
  Hypothesis Hroute : forall k cs, Forall P cs -> P (NRoute k cs).
  Fixpoint node_ind' (n : node) : P n :=
    let go := fix go (cs : list node) : Forall P cs :=
      match cs with
      | [] => Forall_nil P
      | c :: r => Forall_cons c (node_ind' c) (go r)
      end in
    match n with
    | NNum k v => Hnum k v
    | NBool k v => Hbool k v
    | NStr k v => Hstr k v
    | NSec k cs => Hsec k cs (go cs)
    | NHost k cs => Hhost k cs (go cs)
    | NRoute k cs => Hroute k cs (go cs)
    end.
End node_ind'.

Definition scalar (n : node) : Prop := node_text n <> None.

Lemma flatten_scalar : forall n lvl, Forall (fun kv => scalar (snd kv)) (flatten lvl n).
Proof.
  induction n using node_ind'; intros lvl; cbn [flatten];
    try (constructor; [cbn; discriminate|constructor]); try constructor.
  destruct (beq k section_plugins); [constructor|].
  induction H as [|c cs Hc Hcs IH]; cbn [flat_map]; [constructor|].
  apply Forall_app. split; [apply Hc|apply IH].
Qed.

Lemma flat_map_flatten_scalar : forall lvl cs, Forall (fun kv => scalar (snd kv)) (flat_map (flatten lvl) cs).
Proof.
  intros lvl cs. induction cs as [|c cs IH]; cbn [flat_map]; [constructor|].
  apply Forall_app. split; [apply flatten_scalar|exact IH].
Qed.

Lemma map_get_in : forall key m n, map_get key m = Some n -> exists k, In (k, n) m.
Proof.
  intros key. induction m as [|[k v] m IH]; intros n H; cbn [map_get] in H; [discriminate|].
  destruct (map_get key m) as [x|] eqn:E.
  - injection H as <-. destruct (IH x eq_refl) as [k' Hk]. exists k'. right. exact Hk.
  - destruct (beq k key); [|discriminate]. injection H as <-. exists k. left. reflexivity.
Qed.

Lemma get_owned_scalar : forall m key, Forall (fun kv => scalar (snd kv)) m -> map_has m key = true ->
  exists v, get_owned m key = Some v.
Proof.
  intros m key Hm Hh. unfold map_has, get_owned in *. destruct (map_get key m) as [n|] eqn:E; [|discriminate].
  destruct (map_get_in _ _ _ E) as [k Hin]. rewrite Forall_forall in Hm. specialize (Hm _ Hin). cbn in Hm.
  unfold scalar in Hm. destruct (node_text n) as [v|]; [eauto|congruence].
Qed.

Definition ok_res {A} (r : res A) : Prop :=
  match r with RCrash _ => False | RErr e => ce_class e <> E_Fuel | ROk _ => True end.

Lemma verr_ok : forall A c, c <> E_Fuel -> ok_res (@verr A c).
Proof. intros A c H. exact H. Qed.

Lemma collect_ok : forall {A B} (f : A -> res B) l, (forall x, In x l -> ok_res (f x)) -> ok_res (collect f l).
Proof.
  intros A B f l. induction l as [|x l IH]; intros H; cbn [collect]; [exact I|].
  pose proof (H x (or_introl eq_refl)) as Hx. destruct (f x) as [y|e|w]; cbn [rbind]; [|exact Hx|exact Hx].
  assert (Hl : ok_res (collect f l)) by (apply IH; intros z Hz; apply H; right; exact Hz).
  destruct (collect f l) as [ys|e|w]; cbn [rbind]; [exact I|exact Hl|exact Hl].
Qed.

Lemma route_for_ok : forall conf wild, Forall (fun kv => scalar (snd kv)) conf -> ok_res (route_for conf wild).
Proof.
  intros conf wild Hc. unfold route_for.
  destruct (map_has conf [102; 105; 108; 101]) eqn:E1.
  { destruct (get_owned_scalar _ _ Hc E1) as [v ->]. exact I. }
  destruct (map_has conf [100; 105; 114; 101; 99; 116; 111; 114; 121]) eqn:E2.
  { destruct (get_owned_scalar _ _ Hc E2) as [v ->]. exact I. }
  destruct (map_has conf rkey_proxy) eqn:E3.
  { destruct (get_owned_scalar _ _ Hc E3) as [v ->].
    destruct (assoc_b (get_optional conf rkey_lb_mode default_lb_mode) lb_mode_table); [exact I|cbn; discriminate]. }
  destruct (map_has conf [114; 101; 100; 105; 114; 101; 99; 116]) eqn:E4.
  { destruct (get_owned_scalar _ _ Hc E4) as [v ->]. exact I. }
  destruct (negb (map_has conf rkey_websocket)); [cbn; discriminate|exact I].
Qed.

Lemma parse_host_ok : forall wild n, ok_res (parse_host wild n).
Proof.
  intros wild n. unfold parse_host.
  assert (H : ok_res (collect (fun wc => parse_route (fst wc) (snd wc)) (routes_of n))).
  { apply collect_ok. intros [w c] Hin. cbn [fst snd]. unfold parse_route. apply collect_ok. intros x _.
    apply route_for_ok.
    unfold routes_of in Hin.
    assert (Hgen : forall cs, In (w, c) (flat_map (fun c0 => match c0 with NRoute w0 ics => [(w0, flat_map (flatten []) ics)] | _ => [] end) cs) ->
                   Forall (fun kv => scalar (snd kv)) c).
    { intros cs Hi. apply in_flat_map in Hi. destruct Hi as [c0 [_ Hi]].
      destruct c0; cbn in Hi; try contradiction. destruct Hi as [Hi|[]]. injection Hi as _ <-. apply flat_map_flatten_scalar. }
    destruct n; cbn in Hin; try contradiction; eapply Hgen; exact Hin. }
  destruct (collect (fun wc => parse_route (fst wc) (snd wc)) (routes_of n)); cbn [rbind]; [exact I|exact H|exact H].
Qed.

Lemma from_tree_ok : forall ipp files tree, ok_res (from_tree ipp files tree).
Proof.
  intros ipp files tree. unfold from_tree, opt_or.
  repeat match goal with
  | |- ok_res (match ?o with Some _ => _ | None => verr _ end) => destruct o; [|cbn; discriminate]
  | |- ok_res (if ?c then verr _ else _) => destruct c; [cbn; discriminate|]
  end.
  assert (Hbl : ok_res (load_blacklist ipp files (get_owned (flatten [] tree) key_blacklist_file))).
  { unfold load_blacklist. destruct (get_owned (flatten [] tree) key_blacklist_file) as [p|]; [|exact I].
    destruct (files p); [cbn; discriminate|cbn; discriminate|].
    destruct (utf8_valid b); [|cbn; discriminate].
    apply collect_ok. intros x _. destruct (ipp x); [exact I|cbn; discriminate]. }
  destruct (load_blacklist ipp files (get_owned (flatten [] tree) key_blacklist_file)); cbn [rbind]; [|exact Hbl|exact Hbl].
  repeat match goal with
  | |- ok_res (match ?o with Some _ => _ | None => verr _ end) => destruct o; [|cbn; discriminate]
  end.
  pose proof (parse_host_ok default_host_matches tree) as Hd.
  destruct (parse_host default_host_matches tree); cbn [rbind]; [|exact Hd|exact Hd].
  assert (Hh : ok_res (collect (fun hn => parse_host (fst hn) (snd hn)) (hosts_of tree))).
  { apply collect_ok. intros x _. apply parse_host_ok. }
  destruct (collect (fun hn => parse_host (fst hn) (snd hn)) (hosts_of tree)); cbn [rbind]; [exact I|exact Hh|exact Hh].
Qed.

(* C03 (configuration part): the whole loader on every valid-UTF-8 text, every file system, every IP parser *)
Theorem config_parse_safe : forall ipp files file conf, utf8_valid conf = true ->
  ok_res (load ipp files file conf).
Proof.
  intros ipp files file conf Hv. unfold load.
  pose proof (parse_conf_safe files file conf Hv) as H.
  destruct (parse_conf files file conf) as [t|e|w]; cbn [rbind]; [apply from_tree_ok|exact H|exact H].
Qed.

(* ================================================================================================
   4. Value typing: integers, booleans, sizes
   ================================================================================================ *)

Definition all_digits (l : bytes) : Prop := Forall (fun b => is_digit b = true) l.

Lemma dec_digits_app : forall k a l, all_digits k ->
  dec_digits a (k ++ l) = match dec_digits a k with Some a' => dec_digits a' l | None => None end.
Proof.
  induction k as [|b k IH]; intros a l Hk; [reflexivity|].
  inversion Hk as [|? ? Hb Hk']; subst. cbn [app dec_digits]. rewrite Hb. apply IH. exact Hk'.
Qed.

Lemma is_digit_range : forall b, is_digit b = true <-> 48 <= b <= 57.
Proof.
  intros b. unfold is_digit. rewrite andb_true_iff, !N.leb_le. reflexivity.
Qed.

(* dec_render_fuel with enough fuel prepends the decimal digits of n: described by what dec_digits reads back *)
Lemma dec_render_fuel_spec : forall f n acc, n < 2 ^ N.of_nat f -> (0 < f)%nat ->
  exists k, dec_render_fuel f n acc = k ++ acc /\ k <> [] /\ all_digits k /\
            (forall a, dec_digits a k = Some (a * 10 ^ N.of_nat (length k) + n)) /\ n < 10 ^ N.of_nat (length k).
Proof.
  induction f as [|f IH]; intros n acc Hn Hf.
  - lia.
  - cbn [dec_render_fuel].
    pose proof (N.mod_lt n 10 ltac:(discriminate)) as Hmod.
    pose proof (N.div_mod n 10 ltac:(discriminate)) as Hdm.
    set (q := n / 10) in *. set (m := n mod 10) in *. clearbody q m.
    assert (Hd : is_digit (48 + m) = true) by (apply is_digit_range; lia).
    destruct (q =? 0) eqn:E.
    + apply N.eqb_eq in E. exists [48 + m].
      assert (Hnm : n = m) by lia.
      split; [reflexivity|]. split; [discriminate|]. split; [constructor; [exact Hd|constructor]|].
      cbn [length]. change (N.of_nat 1) with 1. rewrite N.pow_1_r.
      split.
      * intros a. cbn [dec_digits]. rewrite Hd. f_equal. lia.
      * lia.
    + apply N.eqb_neq in E.
      assert (Hn' : q < 2 ^ N.of_nat f).
      { rewrite Nat2N.inj_succ, N.pow_succ_r' in Hn. lia. }
      assert (Hf' : (0 < f)%nat).
      { destruct f as [|f']; [|lia]. exfalso. cbn in Hn'. lia. }
      destruct (IH q ((48 + m) :: acc) Hn' Hf') as [k [Hk [Hne [Hall [Hdd Hlt]]]]].
      exists (k ++ [48 + m]).
      split; [rewrite Hk, <- app_assoc; reflexivity|].
      split; [destruct k; discriminate|].
      split; [apply Forall_app; split; [exact Hall|constructor; [exact Hd|constructor]]|].
      assert (Hlen : N.of_nat (length (k ++ [48 + m])) = N.succ (N.of_nat (length k))).
      { rewrite app_length. cbn [length]. rewrite Nat.add_1_r, Nat2N.inj_succ. reflexivity. }
      rewrite Hlen, N.pow_succ_r'.
      set (P := 10 ^ N.of_nat (length k)) in *. clearbody P.
      split.
      * intros a. rewrite dec_digits_app by exact Hall. rewrite Hdd. cbn [dec_digits]. rewrite Hd. f_equal. lia.
      * lia.
Qed.

Lemma dec_render_spec : forall n,
  dec_render n <> [] /\ all_digits (dec_render n) /\ (forall a, dec_digits a (dec_render n) = Some (a * 10 ^ N.of_nat (length (dec_render n)) + n)).
Proof.
  intros n. unfold dec_render.
  assert (Hn : n < 2 ^ N.of_nat (S (N.to_nat (N.log2 n)))).
  { rewrite Nat2N.inj_succ, N2Nat.id. destruct n as [|p]; [reflexivity|]. apply N.log2_spec. reflexivity. }
  destruct (dec_render_fuel_spec _ n [] Hn (Nat.lt_0_succ _)) as [k [Hk [Hne [Hall [Hdd _]]]]].
  rewrite Hk, app_nil_r. auto.
Qed.

Lemma dec_digits_render : forall n, dec_digits 0 (dec_render n) = Some n.
Proof. intros n. destruct (dec_render_spec n) as [_ [_ H]]. rewrite H. reflexivity. Qed.

Lemma dec_render_head_digit : forall n, exists d r, dec_render n = d :: r /\ is_digit d = true.
Proof.
  intros n. destruct (dec_render_spec n) as [Hne [Hall _]]. destruct (dec_render n) as [|d r]; [congruence|].
  inversion Hall; subst. eauto.
Qed.

Lemma parse_unsigned_render : forall max n, n <= max -> parse_unsigned max (dec_render n) = Some n.
Proof.
  intros max n Hn. unfold parse_unsigned. destruct (dec_render_head_digit n) as [d [r [E Hd]]].
  pose proof (dec_digits_render n) as Hr. rewrite E in *.
  apply is_digit_range in Hd. apply N.leb_le in Hn.
  destruct d as [|p]; [lia|].
  do 6 (destruct p as [p|p|]; try lia);
    try (cbv iota beta; rewrite Hr, Hn; reflexivity).
Qed.

Lemma parse_i64_render : forall n, (Z.of_N n <= i64_max)%Z -> parse_i64 (dec_render n) = Some (Z.of_N n).
Proof.
  intros n Hn. unfold parse_i64. destruct (dec_render_head_digit n) as [d [r [E Hd]]].
  pose proof (dec_digits_render n) as Hr. rewrite E in *.
  apply is_digit_range in Hd.
  destruct d as [|p]; [lia|].
  do 6 (destruct p as [p|p|]; try lia);
    try (rewrite Hr; apply Z.leb_le in Hn; rewrite Hn; reflexivity).
Qed.

Lemma is_quoted_digit_head : forall d r, is_digit d = true -> is_quoted (d :: r) = false.
Proof.
  intros d r Hd. apply is_digit_range in Hd. unfold is_quoted.
  destruct d as [|p]; [reflexivity|]. do 6 (destruct p as [p|p|]; try reflexivity). lia.
Qed.

Lemma beq_refl : forall l, beq l l = true.
Proof. induction l as [|a l IH]; [reflexivity|]. cbn [beq]. rewrite N.eqb_refl. exact IH. Qed.

Lemma beq_eq : forall a b, beq a b = true <-> a = b.
Proof.
  induction a as [|x a IH]; intros [|y b]; cbn [beq]; split; intros H; try discriminate; try reflexivity.
  - apply andb_true_iff in H. destruct H as [H1 H2]. apply N.eqb_eq in H1. apply IH in H2. subst. reflexivity.
  - injection H as -> ->. rewrite N.eqb_refl. apply beq_refl.
Qed.

Lemma parse_bool_digit_head : forall d r, is_digit d = true -> parse_bool (d :: r) = None.
Proof.
  intros d r Hd. apply is_digit_range in Hd. unfold parse_bool, kw_true, kw_false. cbn [beq].
  replace (d =? 116) with false by (symmetry; apply N.eqb_neq; lia).
  replace (d =? 102) with false by (symmetry; apply N.eqb_neq; lia). reflexivity.
Qed.

(* an integer literal is stored as written *)
Lemma type_value_int : forall key n, (Z.of_N n <= i64_max)%Z ->
  type_value key (dec_render n) = Ok (NNum key (dec_render n)).
Proof.
  intros key n Hn. unfold type_value. destruct (dec_render_head_digit n) as [d [r [E Hd]]].
  rewrite E at 1. rewrite (is_quoted_digit_head d r Hd). rewrite (parse_i64_render n Hn). reflexivity.
Qed.

(* the unit letters: K M G in either case *)
Definition unit_mult (u : N) : option Z := assoc_n (upper_byte u) size_units.

Lemma dec_digits_nondigit_end : forall k a u, is_digit u = false -> dec_digits a (k ++ [u]) = None.
Proof.
  induction k as [|b k IH]; intros a u Hu; cbn [app dec_digits].
  - rewrite Hu. reflexivity.
  - destruct (is_digit b); [apply IH; exact Hu|reflexivity].
Qed.

Lemma split_last_char_ascii : forall k u, u < 128 -> split_last_char (k ++ [u]) = Some (k, [u]).
Proof.
  intros k u Hu. unfold split_last_char. destruct (k ++ [u]) eqn:E; [destruct k; discriminate|]. rewrite <- E.
  rewrite rev_app_distr. cbn [rev app take_cont].
  replace (cont u) with false.
  - rewrite rev_involutive. reflexivity.
  - symmetry. unfold cont. apply andb_false_iff. left. apply N.leb_gt. exact Hu.
Qed.

(* parse_size on <digits><unit>: the product if it fits an i64, an error otherwise *)
Lemma parse_size_unit : forall n u m, (Z.of_N n <= i64_max)%Z -> unit_mult u = Some m -> u < 128 -> is_digit (upper_byte u) = false ->
  parse_size (dec_render n ++ [u]) =
  if (Z.of_N n * m <=? i64_max)%Z && (i64_min <=? Z.of_N n * m)%Z then Ok (Z.of_N n * m)%Z else Err 0.
Proof.
  intros n u m Hn Hm Hu Hnd. unfold parse_size.
  destruct (dec_render_head_digit n) as [d [r [E Hd]]].
  destruct (dec_render n ++ [u]) as [|x [|y t]] eqn:El.
  - rewrite E in El. discriminate.
  - rewrite E in El. destruct r; discriminate.
  - rewrite <- El. rewrite (split_last_char_ascii _ u Hu). rewrite (parse_i64_render n Hn).
    unfold unit_mult in Hm. rewrite Hm. unfold checked_mul.
    rewrite andb_comm. destruct ((Z.of_N n * m <=? i64_max)%Z && (i64_min <=? Z.of_N n * m)%Z); reflexivity.
Qed.

Lemma type_value_size : forall key n u m, (Z.of_N n <= i64_max)%Z -> unit_mult u = Some m -> u < 128 ->
  is_digit u = false -> is_digit (upper_byte u) = false -> u <> 34 ->
  type_value key (dec_render n ++ [u]) =
  if (Z.of_N n * m <=? i64_max)%Z && (i64_min <=? Z.of_N n * m)%Z then Ok (NNum key (z_render (Z.of_N n * m))) else Err E_Value.
Proof.
  intros key n u m Hn Hm Hu Hnd Hnd' Hq. unfold type_value.
  destruct (dec_render_head_digit n) as [d [r [E Hd]]].
  assert (Hnq : is_quoted (dec_render n ++ [u]) = false) by (rewrite E; apply is_quoted_digit_head; exact Hd).
  rewrite Hnq.
  assert (Hni : parse_i64 (dec_render n ++ [u]) = None).
  { unfold parse_i64. rewrite E. cbn [app]. pose proof Hd as Hd'. apply is_digit_range in Hd'.
    destruct d as [|p]; [lia|].
    do 6 (destruct p as [p|p|]; try lia);
      try (change (?a :: r ++ [u]) with ((a :: r) ++ [u]); rewrite dec_digits_nondigit_end by exact Hnd; reflexivity). }
  rewrite Hni.
  assert (Hnb : parse_bool (dec_render n ++ [u]) = None) by (rewrite E; apply parse_bool_digit_head; exact Hd).
  rewrite Hnb. rewrite (parse_size_unit n u m Hn Hm Hu Hnd').
  destruct ((Z.of_N n * m <=? i64_max)%Z && (i64_min <=? Z.of_N n * m)%Z); reflexivity.
Qed.

(* the six unit letters and nothing else *)
Lemma unit_mult_cases : forall u m, unit_mult u = Some m ->
  (u = 75 \/ u = 107) /\ m = 1024%Z \/ (u = 77 \/ u = 109) /\ m = 1048576%Z \/ (u = 71 \/ u = 103) /\ m = 1073741824%Z.
Proof.
  intros u m H. unfold unit_mult, size_units in H. cbn [assoc_n] in H.
  unfold upper_byte in H.
  destruct ((97 <=? u) && (u <=? 122)) eqn:E.
  - apply andb_true_iff in E. destruct E as [E1 E2]. apply N.leb_le in E1, E2.
    destruct (u - 32 =? 75) eqn:A; [apply N.eqb_eq in A; injection H as <-; left; split; [right; lia|reflexivity]|].
    destruct (u - 32 =? 77) eqn:B; [apply N.eqb_eq in B; injection H as <-; right; left; split; [right; lia|reflexivity]|].
    destruct (u - 32 =? 71) eqn:C; [apply N.eqb_eq in C; injection H as <-; right; right; split; [right; lia|reflexivity]|].
    discriminate.
  - destruct (u =? 75) eqn:A; [apply N.eqb_eq in A; injection H as <-; left; split; [left; exact A|reflexivity]|].
    destruct (u =? 77) eqn:B; [apply N.eqb_eq in B; injection H as <-; right; left; split; [left; exact B|reflexivity]|].
    destruct (u =? 71) eqn:C; [apply N.eqb_eq in C; injection H as <-; right; right; split; [left; exact C|reflexivity]|].
    discriminate.
Qed.

(* a size literal <n><unit> in range denotes n * multiplier, rendered in decimal; out of range it is a value error *)
Theorem parse_size_correct : forall key n u m, (Z.of_N n <= i64_max)%Z -> unit_mult u = Some m ->
  type_value key (dec_render n ++ [u]) =
  if (Z.of_N n * m <=? i64_max)%Z then Ok (NNum key (dec_render (n * Z.to_N m))) else Err E_Value.
Proof.
  intros key n u m Hn Hm.
  assert (Hu : u < 128 /\ is_digit u = false /\ is_digit (upper_byte u) = false /\ u <> 34 /\ (0 < m)%Z).
  { destruct (unit_mult_cases u m Hm) as [[[->| ->] ->]|[[[->| ->] ->]|[[->| ->] ->]]]; repeat split; try reflexivity; try lia; discriminate. }
  destruct Hu as [Hu [Hd [Hd' [Hq Hpos]]]].
  rewrite (type_value_size key n u m Hn Hm Hu Hd Hd' Hq).
  assert (Hlow : (i64_min <=? Z.of_N n * m)%Z = true) by (apply Z.leb_le; unfold i64_min; nia).
  rewrite Hlow, andb_true_r.
  destruct (Z.of_N n * m <=? i64_max)%Z; [|reflexivity].
  unfold z_render. replace (Z.of_N n * m <? 0)%Z with false by (symmetry; apply Z.ltb_ge; nia).
  do 3 f_equal. rewrite Z2N.inj_mul by lia. rewrite N2Z.id. reflexivity.
Qed.

(* anything after the digits that is not a unit letter (and not a digit) is rejected: "unknown unit" *)
Lemma take_cont_app : forall rl acc r c, take_cont rl acc = (r, c) -> exists c0, c = c0 ++ acc /\ rl = rev c0 ++ r.
Proof.
  induction rl as [|b rl IH]; intros acc r c H; cbn [take_cont] in H.
  - injection H as <- <-. exists []. split; reflexivity.
  - destruct (cont b).
    + destruct (IH _ _ _ H) as [c0 [-> ->]]. exists (c0 ++ [b]). rewrite <- app_assoc. split; [reflexivity|].
      rewrite rev_app_distr. reflexivity.
    + injection H as <- <-. exists [b]. split; reflexivity.
Qed.

Theorem unknown_unit_rejected : forall key n u, (Z.of_N n <= i64_max)%Z -> u < 128 -> unit_mult u = None ->
  is_digit u = false -> is_digit (upper_byte u) = false -> u <> 34 ->
  type_value key (dec_render n ++ [u]) = Err E_Value.
Proof.
  intros key n u Hn Hu Hm Hnd Hnd' Hq. unfold type_value.
  destruct (dec_render_head_digit n) as [d [r [E Hd]]].
  assert (Hnq : is_quoted (dec_render n ++ [u]) = false) by (rewrite E; apply is_quoted_digit_head; exact Hd).
  rewrite Hnq.
  assert (Hni : parse_i64 (dec_render n ++ [u]) = None).
  { unfold parse_i64. rewrite E. cbn [app]. pose proof Hd as Hd'. apply is_digit_range in Hd'.
    destruct d as [|p]; [lia|].
    do 6 (destruct p as [p|p|]; try lia);
      try (change (?a :: r ++ [u]) with ((a :: r) ++ [u]); rewrite dec_digits_nondigit_end by exact Hnd; reflexivity). }
  rewrite Hni.
  assert (Hnb : parse_bool (dec_render n ++ [u]) = None) by (rewrite E; apply parse_bool_digit_head; exact Hd).
  rewrite Hnb. unfold parse_size.
  destruct (dec_render n ++ [u]) as [|x [|y t]] eqn:El.
  - rewrite E in El. discriminate.
  - rewrite E in El. destruct r; discriminate.
  - rewrite <- El. rewrite (split_last_char_ascii _ u Hu). rewrite (parse_i64_render n Hn).
    unfold unit_mult in Hm. rewrite Hm, Hnd'. reflexivity.
Qed.

(* ================================================================================================
   5. Braces balance: an accepted file has as many closing-brace lines as lines that open a section
   ================================================================================================ *)
(* what a line does to the nesting level: +1 if (after comment stripping and trimming) it ends with an opening brace,
   -1 if it is a closing brace, 0 otherwise *)
Definition brace_delta (raw : bytes) : Z :=
  match strip_suffix_byte LBRACE (clean_up raw) with
  | Some _ => 1%Z
  | None => if beq (clean_up raw) [RBRACE] then (-1)%Z else 0%Z
  end.
Definition balance (ls : list bytes) : Z := fold_right (fun l z => (brace_delta l + z)%Z) 0%Z ls.

Lemma balance_app : forall a b, balance (a ++ b) = (balance a + balance b)%Z.
Proof. induction a as [|x a IH]; intros b; [reflexivity|]. unfold balance in *. cbn [app fold_right]. rewrite IH. lia. Qed.

Lemma balance_cons : forall l ls, balance (l :: ls) = (brace_delta l + balance ls)%Z.
Proof. reflexivity. Qed.

Definition bal_post (ls : list bytes) (r : res (node * pstate)) : Prop :=
  match r with
  | ROk (_, (rest, _)) => exists p, ls = p ++ rest /\ balance p = (-1)%Z
  | _ => True
  end.

Definition ps_bal (ps : nat -> bytes -> bytes -> list bytes -> N -> res (node * pstate)) : Prop :=
  forall fuel name file ls ln, bal_post ls (ps fuel name file ls ln).

Lemma section_loop_balanced : forall files ps room name file, ps_bal ps ->
  forall fuel ls ln acc, bal_post ls (section_loop files ps room name file fuel ls ln acc).
Proof.
  intros files ps room name file Hps. induction fuel as [|f IH]; intros ls ln acc; [exact I|].
  cbn [section_loop]. destruct ls as [|raw rest]; [exact I|].
  assert (Hcont : forall d rest' ln' acc', brace_delta raw = d ->
            (exists p, rest = p ++ rest' /\ balance p = (- d)%Z) ->
            bal_post (raw :: rest) (section_loop files ps room name file f rest' ln' acc')).
  { intros d rest' ln' acc' Hd [p [Hp Hb]]. specialize (IH rest' ln' acc'). unfold bal_post in *.
    destruct (section_loop files ps room name file f rest' ln' acc') as [[n [rest0 ln0]]|e|w]; try exact I.
    destruct IH as [p0 [Hp0 Hb0]]. exists (raw :: p ++ p0). split.
    - rewrite Hp, Hp0. cbn [app]. rewrite <- app_assoc. reflexivity.
    - cbn [app]. rewrite balance_cons, balance_app, Hd, Hb, Hb0. lia. }
  assert (Hnested : forall nm, match ps f nm file rest (ln + 1) with
                               | ROk (_, (rest', _)) => exists p, rest = p ++ rest' /\ balance p = (-1)%Z
                               | _ => True end).
  { intros nm. specialize (Hps f nm file rest (ln + 1)). unfold bal_post in Hps.
    destruct (ps f nm file rest (ln + 1)) as [[n [rest' ln']]|e|w]; [exact Hps|exact I|exact I]. }
  unfold section_step. unfold brace_delta in Hcont.
  destruct (strip_suffix_byte LBRACE (clean_up raw)) as [sn0|] eqn:Esn.
  - assert (Hhdr : forall nm (k : node -> pstate -> res (node * pstate)),
              (forall n rest' ln', (exists p, rest = p ++ rest' /\ balance p = (-1)%Z) -> bal_post (raw :: rest) (k n (rest', ln'))) ->
              bal_post (raw :: rest) (match ps f nm file rest (ln + 1) with
                                      | ROk (n, st) => k n st | RErr e => RErr e | RCrash w => RCrash w end)).
    { intros nm k Hk. specialize (Hnested nm). destruct (ps f nm file rest (ln + 1)) as [[n [rest' ln']]|e|w]; try exact I.
      apply Hk. exact Hnested. }
    destruct (starts_with kw_route_sp (trim sn0) && negb (beq (trim sn0) kw_route_brace)).
    { specialize (Hnested (trim (after_space (trim sn0)))).
      destruct (ps f (trim (after_space (trim sn0))) file rest (ln + 1)) as [[n [rest' ln']]|e|w]; try exact I.
      destruct n; apply (Hcont 1%Z); try reflexivity; exact Hnested. }
    destruct (starts_with kw_host_sp (trim sn0) && negb (beq (trim sn0) kw_host_brace)).
    { specialize (Hnested (host_name_of (trim (after_space (trim sn0))))).
      destruct (ps f (host_name_of (trim (after_space (trim sn0)))) file rest (ln + 1)) as [[n [rest' ln']]|e|w]; try exact I.
      destruct n; apply (Hcont 1%Z); try reflexivity; exact Hnested. }
    specialize (Hnested (trim sn0)).
    destruct (ps f (trim sn0) file rest (ln + 1)) as [[n [rest' ln']]|e|w]; try exact I.
    apply (Hcont 1%Z); [reflexivity|exact Hnested].
  - destruct (beq (clean_up raw) [RBRACE]) eqn:Ecl.
    + cbn [bal_post]. exists [raw]. split; [reflexivity|]. rewrite balance_cons. unfold brace_delta. rewrite Esn, Ecl. reflexivity.
    + assert (Hsame : exists p, rest = p ++ rest /\ balance p = (- 0)%Z) by (exists []; split; reflexivity).
      destruct (clean_up raw) as [|c0 l0] eqn:El; [apply (Hcont 0%Z); [reflexivity|exact Hsame]|].
      destruct (split_once SP (c0 :: l0)) as [[a b]|]; [|exact I].
      destruct (negb (beq (trim a) kw_include)).
      * destruct (type_value (trim a) (trim b)); try exact I. apply (Hcont 0%Z); [reflexivity|exact Hsame].
      * destruct (is_quoted (trim b)); [|exact I].
        destruct (str_slice (trim b) 1 (length (trim b) - 1)) as [path|]; [|exact I].
        destruct (include_with files room ps path file (ln + 1)); try exact I. apply (Hcont 0%Z); [reflexivity|exact Hsame].
Qed.

Lemma parse_section_balanced : forall files d, ps_bal (parse_section files d).
Proof.
  intros files. induction d as [|d IH]; intros fuel name file ls ln; [exact I|].
  cbn [parse_section]. apply section_loop_balanced. exact IH.
Qed.

Lemma check_trailing_balance : forall ls ln, check_trailing ls ln = None -> balance ls = 0%Z.
Proof.
  induction ls as [|l ls IH]; intros ln H; [reflexivity|]. cbn [check_trailing] in H.
  destruct (clean_up l) eqn:E; [|discriminate]. rewrite balance_cons, (IH _ H).
  unfold brace_delta. rewrite E. reflexivity.
Qed.

(* the lines from the `server {` line on *)
Fixpoint from_server (ls : list bytes) : option (list bytes) :=
  match ls with
  | [] => None
  | l :: rest => if beq (clean_up l) kw_server_open then Some ls else from_server rest
  end.

Lemma find_server_from : forall ls ln, match find_server ls ln, from_server ls with
                                         | Some (rest, _), Some (sl :: rest') => rest = rest' /\ brace_delta sl = 1%Z
                                         | None, None => True
                                         | _, _ => False
                                         end.
Proof.
  induction ls as [|l ls IH]; intros ln; [exact I|]. cbn [find_server from_server].
  destruct (beq (clean_up l) kw_server_open) eqn:E; [|apply IH].
  split; [reflexivity|]. apply beq_eq in E. unfold brace_delta. rewrite E. reflexivity.
Qed.

(* an accepted file is balanced from its `server {` line to the end *)
Theorem accepted_balanced : forall files file conf t, parse_conf files file conf = ROk t ->
  exists ls, from_server (lines conf) = Some ls /\ balance ls = 0%Z.
Proof.
  intros files file conf t H. unfold parse_conf in H.
  pose proof (find_server_from (lines conf) 0) as Hf.
  destruct (find_server (lines conf) 0) as [[rest ln]|]; [|discriminate].
  destruct (from_server (lines conf)) as [[|sl rest0]|]; try contradiction. destruct Hf as [<- Hsl].
  pose proof (parse_section_balanced files conf_max_depth (S (length rest)) kw_server file rest ln) as Hb.
  unfold bal_post in Hb.
  destruct (parse_section files conf_max_depth (S (length rest)) kw_server file rest ln) as [[n [rest' ln']]|e|w]; try discriminate.
  destruct Hb as [p [Hp Hbal]]. destruct (check_trailing rest' ln') eqn:Ect; [discriminate|].
  exists (sl :: rest). split; [reflexivity|].
  rewrite balance_cons, Hp, balance_app, Hbal, (check_trailing_balance _ _ Ect), Hsl. reflexivity.
Qed.

(* ... so a file that is not balanced is rejected (with an error, never a crash) *)
Theorem unbalanced_rejected : forall files file conf, utf8_valid conf = true ->
  (forall ls, from_server (lines conf) = Some ls -> balance ls <> 0%Z) ->
  exists e, parse_conf files file conf = RErr e.
Proof.
  intros files file conf Hv Hun. pose proof (parse_conf_safe files file conf Hv) as Hs.
  destruct (parse_conf files file conf) as [t|e|w] eqn:E; [|eauto|contradiction].
  destruct (accepted_balanced files file conf t E) as [ls [Hls Hb]]. exfalso. exact (Hun ls Hls Hb).
Qed.

(* missing brace: take any accepted file and change one line after the `server {` line so that its effect on the nesting
   changes (an opening brace dropped from a section header, a closing-brace line emptied, ...): the result is rejected *)
Lemma from_server_app : forall a sl b, from_server a = None -> beq (clean_up sl) kw_server_open = true ->
  from_server (a ++ sl :: b) = Some (sl :: b).
Proof.
  induction a as [|x a IH]; intros sl b Ha Hsl; cbn [app from_server].
  - rewrite Hsl. reflexivity.
  - cbn [from_server] in Ha. destruct (beq (clean_up x) kw_server_open); [discriminate|]. apply IH; assumption.
Qed.

Theorem missing_brace_rejected : forall files file conf conf' t a sl b l l' c,
  parse_conf files file conf = ROk t -> utf8_valid conf' = true ->
  lines conf = a ++ sl :: b ++ l :: c -> lines conf' = a ++ sl :: b ++ l' :: c ->
  from_server a = None -> beq (clean_up sl) kw_server_open = true ->
  brace_delta l' <> brace_delta l ->
  exists e, parse_conf files file conf' = RErr e.
Proof.
  intros files file conf conf' t a sl b l l' c Hok Hv Hl Hl' Ha Hsl Hd.
  destruct (accepted_balanced files file conf t Hok) as [ls [Hls Hb]].
  rewrite Hl, (from_server_app a sl _ Ha Hsl) in Hls. injection Hls as <-.
  apply unbalanced_rejected; [exact Hv|]. intros ls' Hls'.
  rewrite Hl', (from_server_app a sl _ Ha Hsl) in Hls'. injection Hls' as <-.
  rewrite balance_cons, balance_app, balance_cons in *. lia.
Qed.

(* the same for a deleted line (e.g. a closing-brace line removed) *)
Theorem deleted_brace_line_rejected : forall files file conf conf' t a sl b l c,
  parse_conf files file conf = ROk t -> utf8_valid conf' = true ->
  lines conf = a ++ sl :: b ++ l :: c -> lines conf' = a ++ sl :: b ++ c ->
  from_server a = None -> beq (clean_up sl) kw_server_open = true ->
  brace_delta l <> 0%Z ->
  exists e, parse_conf files file conf' = RErr e.
Proof.
  intros files file conf conf' t a sl b l c Hok Hv Hl Hl' Ha Hsl Hd.
  destruct (accepted_balanced files file conf t Hok) as [ls [Hls Hb]].
  rewrite Hl, (from_server_app a sl _ Ha Hsl) in Hls. injection Hls as <-.
  apply unbalanced_rejected; [exact Hv|]. intros ls' Hls'.
  rewrite Hl', (from_server_app a sl _ Ha Hsl) in Hls'. injection Hls' as <-.
  rewrite balance_cons, balance_app in *. rewrite balance_cons in Hb. lia.
Qed.
