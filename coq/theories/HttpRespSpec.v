(* Declarative side of C07 / C09 (response direction): reference reason-phrase tables written by hand from the RFCs,
   the RFC 7230 message grammar as inductive relations, well-formedness of API-built responses, the abstract
   "conforming server response" (head + Content-Length body | chunked body | no body), chunked_encode, and the
   structural specification of the Set-Cookie value.  Specification definitions only; proofs are in HttpRespProofs.v. *)
From Hv Require Import Prelude Bytes StreamBuf TablesHttp Http BytesNumProofs.
From Coq Require Import Arith Lia Permutation.
From Coq Require String Ascii.
Open Scope N_scope.

(* ---- text literals: a Coq string as its bytes (all literals below are ASCII) ---- *)
Module Txt.
  Import String Ascii.
  Local Open Scope string_scope.
  Fixpoint bos (s : string) : bytes :=
    match s with EmptyString => [] | String c s' => N_of_ascii c :: bos s' end.

  (* RFC 7231 section 6.1 "Overview of Status Codes" (the table the IANA registry was seeded from), complete. *)
  Definition rfc7231_phrases : list (N * bytes) := [
    (100, bos "Continue"); (101, bos "Switching Protocols");
    (200, bos "OK"); (201, bos "Created"); (202, bos "Accepted"); (203, bos "Non-Authoritative Information");
    (204, bos "No Content"); (205, bos "Reset Content"); (206, bos "Partial Content");
    (300, bos "Multiple Choices"); (301, bos "Moved Permanently"); (302, bos "Found"); (303, bos "See Other");
    (304, bos "Not Modified"); (305, bos "Use Proxy"); (307, bos "Temporary Redirect");
    (400, bos "Bad Request"); (401, bos "Unauthorized"); (402, bos "Payment Required"); (403, bos "Forbidden");
    (404, bos "Not Found"); (405, bos "Method Not Allowed"); (406, bos "Not Acceptable");
    (407, bos "Proxy Authentication Required"); (408, bos "Request Timeout"); (409, bos "Conflict"); (410, bos "Gone");
    (411, bos "Length Required"); (412, bos "Precondition Failed"); (413, bos "Payload Too Large");
    (414, bos "URI Too Long"); (415, bos "Unsupported Media Type"); (416, bos "Range Not Satisfiable");
    (417, bos "Expectation Failed"); (426, bos "Upgrade Required");
    (500, bos "Internal Server Error"); (501, bos "Not Implemented"); (502, bos "Bad Gateway");
    (503, bos "Service Unavailable"); (504, bos "Gateway Timeout"); (505, bos "HTTP Version Not Supported") ].

  (* RFC 2616 section 10 "Status Code Definitions": the section titles 10.1.1 ... 10.5.6, complete.
     (The summary list in RFC 2616 section 6.1.1 spells six of them differently: "Request Time-out",
     "Request-URI Too Large", "Requested range not satisfiable", "Gateway Time-out", "HTTP Version not supported";
     the Rust source follows the section titles.) *)
  Definition rfc2616_phrases : list (N * bytes) := [
    (100, bos "Continue"); (101, bos "Switching Protocols");
    (200, bos "OK"); (201, bos "Created"); (202, bos "Accepted"); (203, bos "Non-Authoritative Information");
    (204, bos "No Content"); (205, bos "Reset Content"); (206, bos "Partial Content");
    (300, bos "Multiple Choices"); (301, bos "Moved Permanently"); (302, bos "Found"); (303, bos "See Other");
    (304, bos "Not Modified"); (305, bos "Use Proxy"); (307, bos "Temporary Redirect");
    (400, bos "Bad Request"); (401, bos "Unauthorized"); (402, bos "Payment Required"); (403, bos "Forbidden");
    (404, bos "Not Found"); (405, bos "Method Not Allowed"); (406, bos "Not Acceptable");
    (407, bos "Proxy Authentication Required"); (408, bos "Request Timeout"); (409, bos "Conflict"); (410, bos "Gone");
    (411, bos "Length Required"); (412, bos "Precondition Failed"); (413, bos "Request Entity Too Large");
    (414, bos "Request-URI Too Long"); (415, bos "Unsupported Media Type");
    (416, bos "Requested Range Not Satisfiable"); (417, bos "Expectation Failed");
    (500, bos "Internal Server Error"); (501, bos "Not Implemented"); (502, bos "Bad Gateway");
    (503, bos "Service Unavailable"); (504, bos "Gateway Timeout"); (505, bos "HTTP Version Not Supported") ].

  Definition s_http10 : bytes := bos "HTTP/1.0".
  Definition s_http11 : bytes := bos "HTTP/1.1".
  Definition s_set_cookie : bytes := bos "Set-Cookie".
  Definition s_content_length : bytes := bos "Content-Length".
  Definition s_transfer_encoding : bytes := bos "Transfer-Encoding".
  Definition s_chunked : bytes := bos "chunked".
  Definition a_expires : bytes := bos "Expires=".
  Definition a_max_age : bytes := bos "Max-Age=".
  Definition a_domain : bytes := bos "Domain=".
  Definition a_path : bytes := bos "Path=".
  Definition a_same_site : bytes := bos "SameSite=".
  Definition a_secure : bytes := bos "Secure".
  Definition a_http_only : bytes := bos "HttpOnly".
  Definition v_strict : bytes := bos "Strict".
  Definition v_lax : bytes := bos "Lax".
  Definition v_none : bytes := bos "None".
  Definition sep_attr : bytes := bos "; ".
End Txt.
Notation bos := Txt.bos.

(* the codes on which the Rust table (RFC 2616 wording) differs from RFC 7231 / the IANA registry *)
Definition rfc2616_only_codes : list N := [413; 414; 416].

(* "registered reason phrase" as used by the grammar below: the phrase either RFC gives for that code.  The
   comparison with each RFC separately is theorem status_tables. *)
Definition registered_phrase (code : N) (ph : bytes) : Prop :=
  In (code, ph) Txt.rfc7231_phrases \/ In (code, ph) Txt.rfc2616_phrases.

(* ---- RFC 7230 lexical classes ---- *)
(* tchar, RFC 7230 section 3.2.6 *)
Definition tchar (b : N) : Prop :=
  digit b \/ (65 <= b /\ b <= 90) \/ (97 <= b /\ b <= 122) \/
  In b [33; 35; 36; 37; 38; 39; 42; 43; 45; 46; 94; 95; 96; 124; 126].   (* ! # $ % & ' * + - . ^ _ ` | ~ *)
Definition token (s : bytes) : Prop := s <> [] /\ Forall tchar s.

(* bytes allowed in field-content / reason-phrase: HTAB, SP, VCHAR, obs-text (so: no CR, LF, NUL, other controls) *)
Definition field_byte (b : N) : Prop := b = 9 \/ (32 <= b /\ b <= 126) \/ (128 <= b /\ b <= 255).
Definition field_text (v : bytes) : Prop := Forall field_byte v.
(* OWS = *( SP / HTAB ) *)
Definition ows (o : bytes) : Prop := Forall (fun b => b = 32 \/ b = 9) o.
(* HTTP-version = "HTTP/" DIGIT "." DIGIT *)
Definition http_version (v : bytes) : Prop :=
  exists a b, digit a /\ digit b /\ v = [72; 84; 84; 80; 47; a; 46; b].

(* ---- the message grammar (RFC 7230 section 3, response direction) ----
   Content of a message: what the octets say. *)
Record msg := { m_version : bytes; m_code : N; m_phrase : bytes; m_fields : list (bytes * bytes); m_body : bytes }.

(* status-line = HTTP-version SP status-code SP reason-phrase CRLF, status-code = 3DIGIT, and the phrase is the
   registered one for the code *)
Inductive StatusLine : bytes -> N -> bytes -> bytes -> Prop :=
| SL_intro (v : bytes) (d1 d2 d3 : N) (ph : bytes) :
    http_version v -> digit d1 -> digit d2 -> digit d3 -> field_text ph ->
    registered_phrase ((d1 - 48) * 100 + (d2 - 48) * 10 + (d3 - 48)) ph ->
    StatusLine v ((d1 - 48) * 100 + (d2 - 48) * 10 + (d3 - 48)) ph
               (v ++ [SP] ++ [d1; d2; d3] ++ [SP] ++ ph ++ CRLF).

(* *( header-field CRLF ), header-field = field-name ":" OWS field-value OWS *)
Inductive HeaderLines : list (bytes * bytes) -> bytes -> Prop :=
| HL_nil : HeaderLines [] []
| HL_cons (n o1 v o2 : bytes) (fs : list (bytes * bytes)) (rest : bytes) :
    token n -> ows o1 -> field_text v -> ows o2 ->
    (ws_prefix_len v = 0%nat /\ ws_suffix_len (rev v) = 0%nat) ->      (* the value itself carries no outer whitespace *)
    HeaderLines fs rest ->
    HeaderLines ((n, v) :: fs) (n ++ [COLON] ++ o1 ++ v ++ o2 ++ CRLF ++ rest).

(* HTTP-message = start-line *( header-field CRLF ) CRLF [ message-body ].
   KNOWN FINDING F32 (modelled as is, pinned by the repository's test_response): the Rust serialiser appends one CRLF
   after a non-empty body, outside Content-Length.  The grammar therefore says "body, then optionally CRLF": the
   `tail` below is [] or CRLF and is NOT part of m_body. *)
Inductive Renders : msg -> bytes -> Prop :=
| R_intro (c : msg) (sl hl tail : bytes) :
    StatusLine (m_version c) (m_code c) (m_phrase c) sl ->
    HeaderLines (m_fields c) hl ->
    (tail = [] \/ tail = CRLF) ->
    Renders c (sl ++ hl ++ CRLF ++ m_body c ++ tail).

Definition HttpMessage (m : bytes) : Prop := exists c, Renders c m.

(* ---- responses built through the public API ---- *)
(* header names that HeaderType::from can produce (Response::with_header goes through it; a HeaderType::Custom built by
   hand with upper-case letters or with the name of a known header is outside: it would not survive a parse) *)
Definition canonical_name (n : hname) : Prop := hname_of (hname_str n) = n.

(* what a header value must satisfy to reappear unchanged after parsing: no LF, valid UTF-8 (it is a Rust String),
   no leading whitespace in the sense of char::is_whitespace (the parser calls trim_start) *)
Definition rt_value (v : bytes) : Prop := ~ In LF v /\ utf8_valid v = true /\ ws_prefix_len v = 0%nat.
Definition rt_header (h : header) : Prop := canonical_name (fst h) /\ token (hname_str (fst h)) /\ rt_value (snd h).

(* round-trip well-formedness (weak: what the parser needs) *)
Definition rt_response (r : response) : Prop :=
  ~ In SP (s_version r) /\ ~ In LF (s_version r) /\ utf8_valid (s_version r) = true /\
  s_status r < status_count /\ Forall rt_header (s_headers r) /\
  N.of_nat (length (s_body r)) <= usize_max.

(* strict well-formedness (what makes the octets a valid RFC 7230 message) *)
Definition wf_value (v : bytes) : Prop :=
  field_text v /\ utf8_valid v = true /\ ws_prefix_len v = 0%nat /\ ws_suffix_len (rev v) = 0%nat.
Definition wf_header (h : header) : Prop := canonical_name (fst h) /\ token (hname_str (fst h)) /\ wf_value (snd h).
Definition wf_response (r : response) : Prop :=
  (s_version r = Txt.s_http10 \/ s_version r = Txt.s_http11) /\
  s_status r < status_count /\ Forall wf_header (s_headers r) /\
  N.of_nat (length (s_body r)) <= usize_max.

(* the framing under which the parser can find the body again: not chunked, and either the first Content-Length is
   the decimal body length (what the server adds) or there is neither a Content-Length nor a body *)
Definition framing_ok (r : response) : Prop :=
  hget (HKnown H_TransferEncoding) (s_headers r) <> Some TE_chunked /\
  (hget (HKnown H_ContentLength) (s_headers r) = Some (dec_render (N.of_nat (length (s_body r)))) \/
   (hget (HKnown H_ContentLength) (s_headers r) = None /\ s_body r = [])).

(* same headers up to the order of different names *)
Definition same_headers (a b : headers) : Prop := forall n, hget_all n a = hget_all n b.

(* ---- the abstract conforming server ---- *)
(* one header line as sent: any token as name (any letter case), optional whitespace after the colon, the value *)
Record srv_line := { sl_name : bytes; sl_ows : bytes; sl_value : bytes }.
Record srv_head := { sh_version : bytes; sh_status : N; sh_phrase : bytes; sh_lines : list srv_line }.

Definition render_line (l : srv_line) : bytes := sl_name l ++ [COLON] ++ sl_ows l ++ sl_value l ++ CRLF.
Definition render_head (h : srv_head) : bytes :=
  sh_version h ++ [SP] ++ dec_render (status_code (sh_status h)) ++ [SP] ++ sh_phrase h ++ CRLF ++
  concat (map render_line (sh_lines h)) ++ CRLF.

(* the headers the client must report for that head *)
Definition head_headers (h : srv_head) : headers := map (fun l => (hname_of (sl_name l), sl_value l)) (sh_lines h).

Definition line_ok (l : srv_line) : Prop :=
  token (sl_name l) /\ ows (sl_ows l) /\ rt_value (sl_value l).
(* any status Humphrey models, any reason phrase text (the parser ignores it), any version text without SP *)
Definition head_ok (h : srv_head) : Prop :=
  ~ In SP (sh_version h) /\ ~ In LF (sh_version h) /\ utf8_valid (sh_version h) = true /\
  sh_status h < status_count /\
  ~ In LF (sh_phrase h) /\ utf8_valid (sh_phrase h) = true /\
  Forall line_ok (sh_lines h).

Definition is_chunked (hs : headers) : Prop := hget (HKnown H_TransferEncoding) hs = Some TE_chunked.

(* a Content-Length value: 1*DIGIT denoting n (leading zeros allowed by the grammar) *)
Definition dec_str (s : bytes) (n : N) : Prop := s <> [] /\ Forall digit s /\ dec_digits 0 s = Some n.

Definition cl_framed (h : srv_head) (body : bytes) : Prop :=
  ~ is_chunked (head_headers h) /\
  exists cl, hget (HKnown H_ContentLength) (head_headers h) = Some cl /\ dec_str cl (N.of_nat (length body)) /\
             N.of_nat (length body) <= usize_max.
Definition no_body (h : srv_head) : Prop :=
  ~ is_chunked (head_headers h) /\ hget (HKnown H_ContentLength) (head_headers h) = None.

(* ---- chunked transfer coding (RFC 7230 section 4.1, no extensions, no trailers) ---- *)
Definition chunk_enc (hx d : bytes) : bytes := hx ++ CRLF ++ d ++ CRLF.
(* general form: each chunk carries its own size text (any case, leading zeros allowed) *)
Definition chunks_enc (cs : list (bytes * bytes)) (last_hx : bytes) : bytes :=
  concat (map (fun c => chunk_enc (fst c) (snd c)) cs) ++ last_hx ++ CRLF ++ CRLF.
Definition chunk_ok (c : bytes * bytes) : Prop :=
  snd c <> [] /\ hex_str (fst c) (N.of_nat (length (snd c))) /\ N.of_nat (length (snd c)) <= usize_max.

(* the division of a body into chunks of the given sizes *)
Fixpoint take_chunks (sizes : list nat) (body : bytes) : list bytes :=
  match sizes with
  | [] => []
  | n :: ss => firstn n body :: take_chunks ss (skipn n body)
  end.
(* canonical encoder: sizes rendered in lower (up = false) or upper (up = true) case hex *)
Definition chunked_encode (up : bool) (sizes : list nat) (body : bytes) : bytes :=
  chunks_enc (map (fun d => (hex_render up (N.of_nat (length d)), d)) (take_chunks sizes body)) (hex_render up 0).
Definition sizes_ok (sizes : list nat) (body : bytes) : Prop :=
  Forall (fun n => (0 < n)%nat /\ N.of_nat n <= usize_max) sizes /\ fold_right Nat.add 0%nat sizes = length body.

(* what the client reports for a chunked response: Transfer-Encoding removed, Content-Length = |body| appended *)
Definition dechunked_headers (hs : headers) (body : bytes) : headers :=
  hremove (HKnown H_TransferEncoding) hs ++ [(HKnown H_ContentLength, dec_render (N.of_nat (length body)))].

(* a complete message of a conforming server: head then payload *)
Inductive srv_message (h : srv_head) : bytes -> bytes -> Prop :=
| SM_cl (body : bytes) : cl_framed h body -> srv_message h body (render_head h ++ body)
| SM_none : no_body h -> srv_message h [] (render_head h)
| SM_chunked (cs : list (bytes * bytes)) (last_hx : bytes) :
    is_chunked (head_headers h) -> Forall chunk_ok cs -> hex_str last_hx 0 ->
    srv_message h (concat (map snd cs)) (render_head h ++ chunks_enc cs last_hx).

Definition strict_prefix (p m : bytes) : Prop := exists s, s <> [] /\ m = p ++ s.

(* ---- Set-Cookie (RFC 6265 section 4.1 set-cookie-string, attributes in the order the code emits them) ---- *)
Definition opt_attr (pfx : bytes) (o : option bytes) : list bytes :=
  match o with Some x => [pfx ++ x] | None => [] end.
Definition flag_attr (name : bytes) (b : bool) : list bytes := if b then [name] else [].
Definition same_site_text (s : N) : bytes :=
  match s with 0 => Txt.v_strict | 1 => Txt.v_lax | _ => Txt.v_none end.
Definition cookie_attrs (c : set_cookie) : list bytes :=
  opt_attr Txt.a_expires (sc_expires c) ++
  opt_attr Txt.a_max_age (option_map dec_render (sc_max_age c)) ++
  opt_attr Txt.a_domain (sc_domain c) ++
  opt_attr Txt.a_path (sc_path c) ++
  opt_attr Txt.a_same_site (option_map same_site_text (sc_same_site c)) ++
  flag_attr Txt.a_secure (sc_secure c) ++
  flag_attr Txt.a_http_only (sc_http_only c).
Definition cookie_text (c : set_cookie) : bytes :=
  sc_name c ++ [61] ++ sc_value c ++ concat (map (fun a => Txt.sep_attr ++ a) (cookie_attrs c)).
