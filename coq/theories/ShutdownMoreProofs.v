(* More about the shutdown protocol model (C20): what was handed to the pool stays handed, nothing is handed over once the
   accept loop has seen the flag, and the wake-up connection never reaches a handler. *)
From Coq Require Import Lia.
From Hv Require Import Prelude Shutdown ShutdownProofs.

Lemma step_served x l y : step x l = Some y ->
  served y = served x \/ exists c, l = Dispatch /\ a x = ADispatch c /\ served y = served x ++ [c].
Proof.
  intro E. destruct l; cbn [step] in E.
  - destruct (listening x); [|discriminate]. injection E as <-. now left.
  - destruct (s x); try discriminate. injection E as <-. now left.
  - destruct (a x); try discriminate. destruct (backlog x); [discriminate|]. injection E as <-. now left.
  - destruct (a x); try discriminate. destruct (flag x); [|discriminate]. injection E as <-. now left.
  - destruct (a x); try discriminate. destruct (flag x); [discriminate|]. injection E as <-. now left.
  - destruct (a x); try discriminate. destruct (flag x); [discriminate|]. injection E as <-. now left.
  - destruct (a x) eqn:A; try discriminate. injection E as <-. right. exists c. auto.
  - destruct (a x); try discriminate. injection E as <-. now left.
  - destruct (s x); try discriminate. injection E as <-. now left.
  - destruct (s x); try discriminate. injection E as <-. now left.
  - destruct (s x); try discriminate. destruct (a x); try discriminate. injection E as <-. now left.
Qed.

(* connections handed to the pool are never taken back: the list only grows at its end *)
Theorem served_only_grows : forall ls x y, run x ls = Some y -> exists more, served y = served x ++ more.
Proof.
  induction ls as [|l ls IH]; intros x y E; cbn [run] in E.
  - injection E as <-. exists []. now rewrite app_nil_r.
  - destruct (step x l) as [z|] eqn:S; [|discriminate]. destruct (IH _ _ E) as (more & Hm).
    destruct (step_served _ _ _ S) as [H|(c & _ & _ & H)]; rewrite Hm, H.
    + now exists more.
    + exists (c :: more). now rewrite <- app_assoc.
Qed.

Lemma step_after_break x l y : step x l = Some y -> (a x = AStop \/ a x = ADone) ->
  (a y = AStop \/ a y = ADone) /\ served y = served x.
Proof.
  intros E H. destruct l; cbn [step] in E.
  - destruct (listening x); [|discriminate]. injection E as <-. cbn. auto.
  - destruct (s x); try discriminate. injection E as <-. cbn. auto.
  - destruct H as [H|H]; rewrite H in E; discriminate.
  - destruct H as [H|H]; rewrite H in E; discriminate.
  - destruct H as [H|H]; rewrite H in E; discriminate.
  - destruct H as [H|H]; rewrite H in E; discriminate.
  - destruct H as [H|H]; rewrite H in E; discriminate.
  - destruct (a x); try discriminate. injection E as <-. cbn. auto.
  - destruct (s x); try discriminate. injection E as <-. cbn. auto.
  - destruct (s x); try discriminate. injection E as <-. cbn. auto.
  - destruct (s x); try discriminate. destruct (a x); try discriminate. injection E as <-. cbn. auto.
Qed.

(* once the accept loop has observed the flag (it is at or past thread_pool.stop()), no further connection is handed to a
   handler, whatever still arrives *)
Theorem nothing_served_after_break : forall ls x y, run x ls = Some y -> (a x = AStop \/ a x = ADone) ->
  served y = served x /\ (a y = AStop \/ a y = ADone).
Proof.
  induction ls as [|l ls IH]; intros x y E H; cbn [run] in E.
  - injection E as <-. auto.
  - destruct (step x l) as [z|] eqn:S; [|discriminate]. destruct (step_after_break _ _ _ S H) as [Hz Hs].
    destruct (IH _ _ E Hz) as [H1 H2]. rewrite H1, Hs. auto.
Qed.

(* the wake-up connection is never dispatched *)
Definition NoWake (x : st) : Prop := (forall c, a x = ADispatch c -> c <> Wake) /\ ~ In Wake (served x).

Lemma nowake_step x l y : Inv x -> NoWake x -> step x l = Some y -> NoWake y.
Proof.
  intros I [N1 N2] E. unfold NoWake.
  destruct (step_served _ _ _ E) as [Hs|(c & -> & A & Hs)].
  - rewrite Hs. split; [|exact N2]. intros c A.
    destruct l; cbn [step] in E.
    + destruct (listening x); [|discriminate]. injection E as <-. cbn in A. now apply N1.
    + destruct (s x); try discriminate. injection E as <-. cbn in A. now apply N1.
    + destruct (a x); try discriminate. destruct (backlog x); [discriminate|]. injection E as <-. discriminate.
    + destruct (a x); try discriminate. destruct (flag x); [|discriminate]. injection E as <-. discriminate.
    + destruct (a x) as [|c0| | |] eqn:A0; try discriminate. destruct (flag x) eqn:F; [discriminate|]. injection E as <-.
      cbn in A. injection A as <-. intros ->.
      destruct I as (_ & _ & _ & _ & _ & _ & Hcw & _). rewrite (Hcw Wake (or_introl A0) eq_refl) in F. discriminate.
    + destruct (a x); try discriminate. destruct (flag x); [discriminate|]. injection E as <-. discriminate.
    + destruct (a x); try discriminate. injection E as <-. discriminate.
    + destruct (a x); try discriminate. injection E as <-. discriminate.
    + destruct (s x); try discriminate. injection E as <-. cbn in A. now apply N1.
    + destruct (s x); try discriminate. injection E as <-. cbn in A. now apply N1.
    + destruct (s x); try discriminate. destruct (a x); try discriminate. injection E as <-. discriminate.
  - rewrite Hs. cbn [step] in E. rewrite A in E. injection E as <-. cbn. split; [discriminate|].
    intro H. apply in_app_or in H as [H|[H|[]]]; [exact (N2 H)|]. exact (N1 c A H).
Qed.

Theorem wake_never_served : forall ls y, run init ls = Some y -> ~ In Wake (served y) /\ forall c, a y = ADispatch c -> c <> Wake.
Proof.
  assert (G : forall ls x y, Inv x -> NoWake x -> run x ls = Some y -> NoWake y).
  { induction ls as [|l ls IH]; intros x y I N E; cbn [run] in E.
    - now injection E as <-.
    - destruct (step x l) as [z|] eqn:S; [|discriminate].
      exact (IH z y (inv_step x l z I S) (nowake_step x l z I N S) E). }
  intros ls y E. destruct (G ls init y inv_init) as [N1 N2]; [|exact E|auto].
  split; [cbn; discriminate|cbn; tauto].
Qed.

(* a connection is dropped only by the iteration that observed the flag *)
Theorem dropped_only_at_break x l y : step x l = Some y -> dropped y <> dropped x ->
  l = CheckBreak /\ flag x = true /\ exists c, a x = ACheck c /\ dropped y = dropped x ++ [c].
Proof.
  intros E D. destruct l; cbn [step] in E.
  - destruct (listening x); [|discriminate]. injection E as <-. now contradiction D.
  - destruct (s x); try discriminate. injection E as <-. now contradiction D.
  - destruct (a x); try discriminate. destruct (backlog x); [discriminate|]. injection E as <-. now contradiction D.
  - destruct (a x) eqn:A; try discriminate. destruct (flag x) eqn:F; [|discriminate]. injection E as <-. cbn. eauto.
  - destruct (a x); try discriminate. destruct (flag x); [discriminate|]. injection E as <-. now contradiction D.
  - destruct (a x); try discriminate. destruct (flag x); [discriminate|]. injection E as <-. now contradiction D.
  - destruct (a x); try discriminate. injection E as <-. now contradiction D.
  - destruct (a x); try discriminate. injection E as <-. now contradiction D.
  - destruct (s x); try discriminate. injection E as <-. now contradiction D.
  - destruct (s x); try discriminate. injection E as <-. now contradiction D.
  - destruct (s x); try discriminate. destruct (a x); try discriminate. injection E as <-. now contradiction D.
Qed.
