(* Proofs about the cache model (C16). *)
From Coq Require Import Lia.
From Hv Require Import Prelude Cache.
Open Scope N_scope.

(* ------------------------------------------------------------------------------------------------ *)
(* key comparison *)

Lemma list_eqb_eq : forall a b, list_eqb a b = true <-> a = b.
Proof.
  induction a as [|x a IH]; destruct b as [|y b]; cbn [list_eqb]; split; intro H; try congruence; try discriminate.
  - apply andb_true_iff in H. destruct H as [H1 H2]. apply N.eqb_eq in H1. apply IH in H2. congruence.
  - inversion H; subst. apply andb_true_iff. split; [apply N.eqb_refl | apply IH; reflexivity].
Qed.

Lemma key_match_spec : forall r h it, key_match r h it = true <-> item_key it = (r, h).
Proof.
  intros r h it. unfold key_match, item_key. rewrite andb_true_iff, list_eqb_eq, N.eqb_eq.
  split; [intros [-> ->]; reflexivity | intro H; inversion H; auto].
Qed.

Lemma key_match_false : forall r h it, key_match r h it = false <-> item_key it <> (r, h).
Proof.
  intros r h it. rewrite <- key_match_spec. destruct (key_match r h it); split; congruence.
Qed.

Lemma key_eqb_spec : forall a b, key_eqb a b = true <-> a = b.
Proof.
  intros [a1 a2] [b1 b2]. unfold key_eqb. cbn [fst snd]. rewrite andb_true_iff, list_eqb_eq, N.eqb_eq.
  split; [intros [-> ->]; reflexivity | intro H; inversion H; auto].
Qed.

Lemma key_eqb_false : forall a b, key_eqb a b = false <-> a <> b.
Proof.
  intros a b. rewrite <- key_eqb_spec. destruct (key_eqb a b); split; congruence.
Qed.

(* ------------------------------------------------------------------------------------------------ *)
(* position / index / remove as find / remove_first *)

Lemma position_find : forall r h d,
  match position r h d with
  | Some i => exists it, nth_error d i = Some it /\ find (key_match r h) d = Some it
                         /\ remove_at i d = remove_first (key_match r h) d
  | None => find (key_match r h) d = None
  end.
Proof.
  intros r h. induction d as [|x d IH]; cbn [position find remove_first]; [reflexivity|].
  destruct (key_match r h x) eqn:E.
  - exists x. cbn. auto.
  - destruct (position r h d) as [i|].
    + destruct IH as (it & H1 & H2 & H3). exists it. cbn [nth_error remove_at]. rewrite H3. auto.
    + exact IH.
Qed.

Lemma get_find : forall c r h now,
  get c r h now =
  match find (key_match r h) (c_data c) with
  | Some it => if now <? i_time it then Crash 5
               else if c_tlimit c <? now - i_time it then Ok None else Ok (Some it)
  | None => Ok None
  end.
Proof.
  intros. unfold get. pose proof (position_find r h (c_data c)) as P.
  destruct (position r h (c_data c)) as [i|].
  - destruct P as (it & H1 & H2 & _). rewrite H1, H2. reflexivity.
  - rewrite P. reflexivity.
Qed.

Lemma remove_existing_find : forall size r h d,
  remove_existing size r h d =
  match find (key_match r h) d with
  | Some old => if size <? ilen old then Crash 3 else Ok (size - ilen old, remove_first (key_match r h) d)
  | None => Ok (size, d)
  end.
Proof.
  intros. unfold remove_existing. pose proof (position_find r h d) as P.
  destruct (position r h d) as [i|].
  - destruct P as (it & H1 & H2 & H3). rewrite H1, H2, H3. reflexivity.
  - rewrite P. reflexivity.
Qed.

Lemma find_some_in : forall (f : item -> bool) d it, find f d = Some it -> In it d /\ f it = true.
Proof. intros. apply find_some. assumption. Qed.

Lemma find_none_all : forall (f : item -> bool) d, find f d = None -> forall it, In it d -> f it = false.
Proof. intros f d H it Hin. exact (find_none f d H it Hin). Qed.

(* ------------------------------------------------------------------------------------------------ *)
(* totals *)

Lemma total_app : forall a b, total (a ++ b) = total a + total b.
Proof. induction a as [|x a IH]; intro b; cbn [total app]; [lia | rewrite IH; lia]. Qed.

Lemma total_in : forall d it, In it d -> ilen it <= total d.
Proof.
  induction d as [|x d IH]; intros it Hin; [contradiction|]. cbn [total].
  destruct Hin as [->|Hin]; [lia | specialize (IH it Hin); lia].
Qed.

Lemma total_remove_first : forall f d it, find f d = Some it ->
  total d = ilen it + total (remove_first f d).
Proof.
  intros f. induction d as [|x d IH]; intros it H; cbn [find] in H; [discriminate|].
  cbn [remove_first]. destruct (f x); cbn [total].
  - inversion H; subst. reflexivity.
  - rewrite (IH it H). lia.
Qed.

Lemma remove_first_incl : forall f d it, In it (remove_first f d) -> In it d.
Proof.
  intros f. induction d as [|x d IH]; intros it H; cbn [remove_first] in H; [contradiction|].
  destruct (f x); [right; assumption|]. destruct H as [->|H]; [left; reflexivity | right; auto].
Qed.

Lemma remove_first_nodup : forall f d, NoDup (map item_key d) -> NoDup (map item_key (remove_first f d)).
Proof.
  intros f. induction d as [|x d IH]; intro H; cbn [remove_first map] in *; [assumption|].
  inversion H as [|? ? Hn Hd]; subst. destruct (f x); [assumption|].
  cbn [map]. constructor; [|auto].
  intro Hin. apply Hn. apply in_map_iff in Hin. destruct Hin as (y & Hy & Hin).
  apply in_map_iff. exists y. split; [assumption | eapply remove_first_incl; eassumption].
Qed.

(* after removing the first entry with key (r,h) from a duplicate-free list, no entry has that key *)
Lemma remove_first_no_key : forall r h d, NoDup (map item_key d) ->
  forall it, In it (remove_first (key_match r h) d) -> item_key it <> (r, h).
Proof.
  intros r h. induction d as [|x d IH]; intros Hnd it Hin; cbn [remove_first] in Hin; [contradiction|].
  cbn [map] in Hnd. inversion Hnd as [|? ? Hn Hd]; subst.
  destruct (key_match r h x) eqn:E.
  - apply key_match_spec in E. intro Hk. apply Hn. rewrite E, <- Hk. apply in_map. assumption.
  - destruct Hin as [->|Hin]; [apply key_match_false; assumption | auto].
Qed.

(* ------------------------------------------------------------------------------------------------ *)
(* the eviction loop *)

(* what an Ok result of the loop means, with no assumption on the bookkeeping *)
Lemma evict_ok : forall d size len lim s' d',
  evict size len lim d = Ok (s', d') ->
  s' + len <= lim /\ exists pre, d = pre ++ d' /\ size = s' + total pre.
Proof.
  induction d as [|x d IH]; intros size len lim s' d' H; cbn [evict] in H.
  - destruct (lim <? size + len) eqn:E; [discriminate|]. inversion H; subst.
    apply N.ltb_ge in E. split; [assumption|]. exists []. cbn. split; [reflexivity | lia].
  - destruct (lim <? size + len) eqn:E.
    + destruct (size <? ilen x) eqn:E2; [discriminate|]. apply N.ltb_ge in E2.
      destruct (IH _ _ _ _ _ H) as (H1 & pre & H2 & H3). split; [assumption|].
      exists (x :: pre). cbn [app total]. split; [congruence | lia].
    + inversion H; subst. apply N.ltb_ge in E. split; [assumption|]. exists []. cbn. split; [reflexivity | lia].
Qed.

(* with correct bookkeeping the loop can only fail at data[0] on the empty deque, and only for an oversized value *)
Lemma evict_total : forall d size len lim, size = total d ->
  match evict size len lim d with
  | Ok (s', d') => s' = total d' /\ s' + len <= lim /\ exists pre, d = pre ++ d'
  | Crash w => w = 1 /\ lim < len
  | Err _ => False
  end.
Proof.
  induction d as [|x d IH]; intros size len lim Hs; cbn [evict].
  - cbn [total] in Hs. subst size. destruct (lim <? 0 + len) eqn:E.
    + apply N.ltb_lt in E. split; [reflexivity | lia].
    + apply N.ltb_ge in E. split; [reflexivity|]. split; [assumption|]. exists []. reflexivity.
  - cbn [total] in Hs. destruct (lim <? size + len) eqn:E.
    + assert (E2 : size <? ilen x = false) by (apply N.ltb_ge; lia). rewrite E2.
      specialize (IH (size - ilen x) len lim ltac:(lia)).
      destruct (evict (size - ilen x) len lim d) as [[s' d']|e|w]; [|assumption|assumption].
      destruct IH as (H1 & H2 & pre & H3). split; [assumption|]. split; [assumption|].
      exists (x :: pre). cbn [app]. congruence.
    + apply N.ltb_ge in E. split; [assumption|]. split; [assumption|]. exists []. reflexivity.
Qed.

(* ------------------------------------------------------------------------------------------------ *)
(* the invariant *)

Definition inv (c : cache) : Prop :=
  c_size c = total (c_data c) /\ c_size c <= c_limit c /\ NoDup (map item_key (c_data c)).

Lemma inv_empty : forall lim tl, inv (empty lim tl).
Proof. intros. unfold inv, empty. cbn. split; [reflexivity|]. split; [lia | constructor]. Qed.

Lemma nodup_app_suffix : forall (A : Type) (a b : list A), NoDup (a ++ b) -> NoDup b.
Proof. induction a as [|x a IH]; intros b H; [assumption|]. inversion H; subst. auto. Qed.

Lemma nodup_snoc : forall (A : Type) (l : list A) (k : A), NoDup l -> ~ In k l -> NoDup (l ++ [k]).
Proof.
  induction l as [|x l IH]; intros k Hnd Hn; cbn [app].
  - constructor; [intros [] | constructor].
  - inversion Hnd; subst. constructor.
    + intro Hin. apply in_app_or in Hin. destruct Hin as [Hin|[->|[]]]; [contradiction|]. apply Hn. left. reflexivity.
    + apply IH; [assumption|]. intro Hin. apply Hn. right. assumption.
Qed.

Lemma remove_first_none : forall f d, find f d = None -> remove_first f d = d.
Proof.
  intros f. induction d as [|x d IH]; intro H; cbn [find remove_first] in *; [reflexivity|].
  destruct (f x); [discriminate|]. rewrite IH; auto.
Qed.

(* complete description of a successful set on a state satisfying the invariant *)
Lemma set_ok_shape : forall c r h v m now c', inv c -> set c r h v m now = Ok c' ->
  exists pre d1,
    c_data c = pre ++ d1 /\
    c_data c' = remove_first (key_match r h) d1 ++ [mkItem r h m now v] /\
    (forall it, In it (remove_first (key_match r h) d1) -> item_key it <> (r, h)) /\
    c_limit c' = c_limit c /\ c_tlimit c' = c_tlimit c /\ blen v <= c_limit c /\ inv c'.
Proof.
  intros c r h v m now c' (Hs & Hl & Hnd) H. unfold set in H.
  pose proof (evict_total (c_data c) (c_size c) (blen v) (c_limit c) Hs) as E.
  destruct (evict (c_size c) (blen v) (c_limit c) (c_data c)) as [[s1 d1]|e|w]; [|discriminate|discriminate].
  destruct E as (E1 & E2 & pre & E3).
  assert (Hnd1 : NoDup (map item_key d1)).
  { rewrite E3, map_app in Hnd. eapply nodup_app_suffix. eassumption. }
  pose proof (remove_first_nodup (key_match r h) d1 Hnd1) as N1.
  pose proof (remove_first_no_key r h d1 Hnd1) as N2.
  assert (Hn : ~ In (r, h) (map item_key (remove_first (key_match r h) d1))).
  { intro Hin. apply in_map_iff in Hin. destruct Hin as (y & Hy & Hin). exact (N2 y Hin Hy). }
  rewrite remove_existing_find in H.
  exists pre, d1. split; [assumption|].
  assert (exists s2, s2 + blen v <= c_limit c /\ s2 = total (remove_first (key_match r h) d1) /\
          c' = mkCache (c_limit c) (c_tlimit c) (s2 + blen v)
                       (remove_first (key_match r h) d1 ++ [mkItem r h m now v])) as (s2 & S1 & S2 & ->).
  { destruct (find (key_match r h) d1) as [old|] eqn:F.
    - pose proof (total_remove_first _ _ _ F) as T.
      assert (E4 : s1 <? ilen old = false) by (apply N.ltb_ge; lia). rewrite E4 in H.
      inversion H; subst c'; clear H. exists (s1 - ilen old). split; [lia|]. split; [lia | reflexivity].
    - inversion H; subst c'; clear H. rewrite (remove_first_none _ _ F). exists s1.
      split; [lia|]. split; [assumption | reflexivity]. }
  cbn [c_data c_limit c_tlimit c_size].
  split; [reflexivity|]. split; [assumption|].
  split; [reflexivity|]. split; [reflexivity|]. split; [lia|].
  unfold inv. cbn [c_data c_limit c_size]. rewrite total_app. cbn [total]. unfold ilen. cbn [i_data].
  split; [lia|]. split; [lia|].
  rewrite map_app. cbn [map item_key i_route i_host]. apply nodup_snoc; assumption.
Qed.

(* ------------------------------------------------------------------------------------------------ *)
(* runs *)

Lemma run_snd_cons : forall c o rest,
  snd (run c (o :: rest)) =
  match step c o with Ok (c', _) => snd (run c' rest) | Err e => Err e | Crash w => Crash w end.
Proof.
  intros. cbn [run]. destruct (step c o) as [[c' out]|e|w]; [|reflexivity|reflexivity].
  destruct (run c' rest). reflexivity.
Qed.

Lemma run_snd_app : forall a c b,
  snd (run c (a ++ b)) =
  match snd (run c a) with Ok c' => snd (run c' b) | Err e => Err e | Crash w => Crash w end.
Proof.
  induction a as [|o a IH]; intros c b; [reflexivity|].
  cbn [app]. rewrite !run_snd_cons. destruct (step c o) as [[c' out]|e|w]; [apply IH|reflexivity|reflexivity].
Qed.

Lemma step_set : forall c r h v m now c' out,
  step c (OSet r h v m now) = Ok (c', out) -> set c r h v m now = Ok c' /\ out = None.
Proof.
  intros c r h v m now c' out H. cbn [step] in H.
  destruct (set c r h v m now); inversion H; subst; auto.
Qed.

Lemma step_get : forall c r h now c' out,
  step c (OGet r h now) = Ok (c', out) -> c' = c /\ exists x, get c r h now = Ok x /\ out = Some x.
Proof.
  intros c r h now c' out H. cbn [step] in H.
  destruct (get c r h now) as [x|e|w]; inversion H; subst. split; [reflexivity|]. exists x. auto.
Qed.

Lemma step_inv : forall c o c' out, inv c -> step c o = Ok (c', out) ->
  inv c' /\ c_limit c' = c_limit c /\ c_tlimit c' = c_tlimit c.
Proof.
  intros c [r h v m now|r h now] c' out Hi H.
  - apply step_set in H. destruct H as [H _].
    destruct (set_ok_shape _ _ _ _ _ _ _ Hi H) as (pre & d1 & _ & _ & _ & L1 & L2 & _ & I'). auto.
  - apply step_get in H. destruct H as [-> _]. auto.
Qed.

Lemma run_inv : forall ops c c', inv c -> snd (run c ops) = Ok c' ->
  inv c' /\ c_limit c' = c_limit c /\ c_tlimit c' = c_tlimit c.
Proof.
  induction ops as [|o ops IH]; intros c c' Hi H.
  - cbn in H. inversion H; subst. auto.
  - rewrite run_snd_cons in H. destruct (step c o) as [[c1 out]|e|w] eqn:S; try discriminate.
    destruct (step_inv _ _ _ _ Hi S) as (I1 & L1 & L2).
    destruct (IH _ _ I1 H) as (I2 & L3 & L4). split; [assumption|]. split; congruence.
Qed.

(* ------------------------------------------------------------------------------------------------ *)
(* get *)

Lemma get_some : forall c r h now it, get c r h now = Ok (Some it) ->
  In it (c_data c) /\ item_key it = (r, h) /\ i_time it <= now /\ now - i_time it <= c_tlimit c.
Proof.
  intros c r h now it H. rewrite get_find in H.
  destruct (find (key_match r h) (c_data c)) as [x|] eqn:F; [|discriminate].
  destruct (now <? i_time x) eqn:E1; [discriminate|].
  destruct (c_tlimit c <? now - i_time x) eqn:E2; [discriminate|].
  inversion H; subst x. apply find_some_in in F. destruct F as [F1 F2].
  apply key_match_spec in F2. apply N.ltb_ge in E1. apply N.ltb_ge in E2. auto.
Qed.

(* never another entry's data *)
Lemma get_same_key : forall c r h now it, get c r h now = Ok (Some it) -> i_route it = r /\ i_host it = h.
Proof.
  intros c r h now it H. apply get_some in H. destruct H as (_ & H & _).
  unfold item_key in H. inversion H. auto.
Qed.

(* ------------------------------------------------------------------------------------------------ *)
(* refinement: the cache is a sub-map of the abstract map of most recent stores *)

Definition sub (c : cache) (m : amap) : Prop :=
  forall it, In it (c_data c) -> alookup (item_key it) m = Some (item_entry it).

Lemma step_sub : forall c o c' out m, inv c -> sub c m -> step c o = Ok (c', out) -> sub c' (spec_step m o).
Proof.
  intros c [r h v mm now|r h now] c' out m Hi Hs H.
  - apply step_set in H. destruct H as [H _].
    destruct (set_ok_shape _ _ _ _ _ _ _ Hi H) as (pre & d1 & D & D' & NK & _).
    intros it Hin. rewrite D' in Hin. cbn [spec_step alookup]. apply in_app_or in Hin.
    destruct Hin as [Hin|[<-|[]]].
    + assert (K : key_eqb (r, h) (item_key it) = false).
      { apply key_eqb_false. intro E. exact (NK it Hin (eq_sym E)). }
      rewrite K. apply Hs. rewrite D. apply in_or_app. right. eapply remove_first_incl. eassumption.
    + unfold item_key, item_entry. cbn [i_route i_host i_data i_mime i_time].
      assert (K : key_eqb (r, h) (r, h) = true) by (apply key_eqb_spec; reflexivity). rewrite K. reflexivity.
  - apply step_get in H. destruct H as [-> _]. exact Hs.
Qed.

Lemma run_sub : forall ops c m c', inv c -> sub c m -> snd (run c ops) = Ok c' ->
  sub c' (fold_left spec_step ops m).
Proof.
  induction ops as [|o ops IH]; intros c m c' Hi Hs H.
  - cbn in H. inversion H; subst. exact Hs.
  - rewrite run_snd_cons in H. destruct (step c o) as [[c1 out]|e|w] eqn:S; try discriminate.
    cbn [fold_left]. eapply IH; [| |eassumption].
    + eapply step_inv; eassumption.
    + eapply step_sub; eassumption.
Qed.

(* a binding of the abstract map is the most recent store for that key in the history *)
Lemma spec_lookup_inv : forall ops m k e,
  alookup k (fold_left spec_step ops m) = Some e ->
  (exists pre v mm t post, ops = pre ++ OSet (fst k) (snd k) v mm t :: post /\ e = (v, mm, t)
                           /\ Forall (fun o => ~ sets_key k o) post)
  \/ (alookup k m = Some e /\ Forall (fun o => ~ sets_key k o) ops).
Proof.
  induction ops as [|o ops IH]; intros m k e H.
  - right. split; [exact H | constructor].
  - cbn [fold_left] in H. destruct (IH _ _ _ H) as [(pre & v & mm & t & post & E1 & E2 & E3)|[A F]].
    + left. exists (o :: pre), v, mm, t, post. cbn [app]. split; [congruence | auto].
    + destruct o as [r h v mm now|r h now]; cbn [spec_step alookup] in A.
      * destruct (key_eqb (r, h) k) eqn:K.
        -- apply key_eqb_spec in K. subst k. inversion A; subst e. left.
           exists [], v, mm, now, ops. cbn [app fst snd]. auto.
        -- right. split; [assumption|]. constructor; [|assumption]. cbn [sets_key].
           apply key_eqb_false. assumption.
      * right. split; [assumption|]. constructor; [|assumption]. cbn [sets_key]. auto.
Qed.

Lemma sub_empty : forall lim tl m, sub (empty lim tl) m.
Proof. intros lim tl m it []. Qed.

(* get_latest: a hit is exactly the value of the most recent set for that same key, and it is not stale *)
Theorem get_latest : forall lim tl ops c r h now it,
  snd (run (empty lim tl) ops) = Ok c ->
  get c r h now = Ok (Some it) ->
  exists pre v m t post,
    ops = pre ++ OSet r h v m t :: post /\
    Forall (fun o => ~ sets_key (r, h) o) post /\
    it = mkItem r h m t v /\ t <= now /\ now - t <= tl.
Proof.
  intros lim tl ops c r h now it R G.
  pose proof (run_sub ops _ [] _ (inv_empty lim tl) (sub_empty lim tl []) R) as S.
  destruct (run_inv _ _ _ (inv_empty lim tl) R) as (_ & _ & TL). cbn in TL.
  apply get_some in G. destruct G as (Hin & K & T1 & T2). rewrite TL in T2. clear TL.
  specialize (S it Hin). rewrite K in S.
  destruct (spec_lookup_inv _ _ _ _ S) as [(pre & v & m & t & post & E1 & E2 & E3)|[A _]]; [|discriminate].
  cbn [fst snd] in E1. exists pre, v, m, t, post. split; [assumption|]. split; [assumption|].
  destruct it as [ir ih im itime idata]. unfold item_entry, item_key in *. cbn in *.
  inversion E2; inversion K; subst. split; [reflexivity|]. split; assumption.
Qed.

Theorem get_refines_spec : forall lim tl ops c r h now it,
  snd (run (empty lim tl) ops) = Ok c ->
  get c r h now = Ok (Some it) ->
  alookup (r, h) (spec ops) = Some (i_data it, i_mime it, i_time it).
Proof.
  intros lim tl ops c r h now it R G.
  pose proof (run_sub ops _ [] _ (inv_empty lim tl) (sub_empty lim tl []) R) as S.
  apply get_some in G. destruct G as (Hin & K & _). specialize (S it Hin). rewrite K in S. exact S.
Qed.

(* ------------------------------------------------------------------------------------------------ *)
(* the three invariants for every history *)

Theorem invariants : forall lim tl ops c,
  snd (run (empty lim tl) ops) = Ok c ->
  c_size c = total (c_data c) /\ c_size c <= lim /\ NoDup (map item_key (c_data c))
  /\ c_limit c = lim /\ c_tlimit c = tl.
Proof.
  intros lim tl ops c R. destruct (run_inv _ _ _ (inv_empty lim tl) R) as ((I1 & I2 & I3) & L1 & L2).
  cbn in L1, L2. rewrite L1 in I2. auto.
Qed.

(* ------------------------------------------------------------------------------------------------ *)
(* total size of what is retrievable *)

Definition gsize (d : list item) (k : key) : N :=
  match find (key_match (fst k) (snd k)) d with Some it => ilen it | None => 0 end.

Lemma retrievable_le_gsize : forall c now k, retrievable_size c now k <= gsize (c_data c) k.
Proof.
  intros c now k. unfold retrievable_size, gsize. rewrite get_find.
  destruct (find (key_match (fst k) (snd k)) (c_data c)) as [it|]; [|lia].
  destruct (now <? i_time it); [lia|]. destruct (c_tlimit c <? now - i_time it); lia.
Qed.

Lemma gsize_cons_other : forall x d ks, ~ In (item_key x) ks ->
  sumN (map (gsize (x :: d)) ks) = sumN (map (gsize d) ks).
Proof.
  intros x d. induction ks as [|k ks IH]; intro Hn; [reflexivity|]. cbn [map sumN].
  rewrite IH by (intro; apply Hn; right; assumption). f_equal.
  unfold gsize. cbn [find]. destruct (key_match (fst k) (snd k) x) eqn:E; [|reflexivity].
  exfalso. apply Hn. left. apply key_match_spec in E. rewrite E. destruct k; reflexivity.
Qed.

Lemma gsize_cons : forall x d ks, NoDup ks ->
  sumN (map (gsize (x :: d)) ks) <= ilen x + sumN (map (gsize d) ks).
Proof.
  intros x d. induction ks as [|k ks IH]; intro Hnd; cbn [map sumN]; [lia|].
  inversion Hnd as [|? ? Hn Hd]; subst.
  unfold gsize at 1. cbn [find]. destruct (key_match (fst k) (snd k) x) eqn:E.
  - apply key_match_spec in E. assert (Hk : item_key x = k) by (rewrite E; destruct k; reflexivity).
    rewrite gsize_cons_other by (rewrite Hk; assumption). lia.
  - specialize (IH Hd). fold (gsize d k). lia.
Qed.

Lemma gsize_total : forall d ks, NoDup ks -> sumN (map (gsize d) ks) <= total d.
Proof.
  induction d as [|x d IH]; intros ks Hnd.
  - induction ks as [|k ks IHk]; cbn; [lia|]. inversion Hnd; subst. specialize (IHk H2). cbn in IHk. lia.
  - pose proof (gsize_cons x d ks Hnd). specialize (IH ks Hnd). cbn [total]. lia.
Qed.

Lemma sumN_le : forall (A : Type) (f g : A -> N) l, (forall x, f x <= g x) -> sumN (map f l) <= sumN (map g l).
Proof. intros A f g l H. induction l as [|x l IH]; cbn; [lia|]. specialize (H x). lia. Qed.

Theorem retrievable_total_le_limit : forall lim tl ops c now ks,
  snd (run (empty lim tl) ops) = Ok c -> NoDup ks ->
  sumN (map (retrievable_size c now) ks) <= lim.
Proof.
  intros lim tl ops c now ks R Hnd. destruct (invariants _ _ _ _ R) as (I1 & I2 & _).
  pose proof (sumN_le _ _ _ ks (retrievable_le_gsize c now)).
  pose proof (gsize_total (c_data c) ks Hnd). lia.
Qed.

(* ------------------------------------------------------------------------------------------------ *)
(* retrievable immediately after being stored; no crash under the caller's guard *)

Lemma find_app_last : forall (f : item -> bool) l x, (forall y, In y l -> f y = false) -> f x = true ->
  find f (l ++ [x]) = Some x.
Proof.
  intros f. induction l as [|y l IH]; intros x Hn Hx; cbn [app find].
  - rewrite Hx. reflexivity.
  - rewrite (Hn y (or_introl eq_refl)). apply IH; [|assumption]. intros z Hz. apply Hn. right. assumption.
Qed.

Lemma set_no_crash : forall c r h v m now, inv c -> blen v <= c_limit c -> exists c', set c r h v m now = Ok c'.
Proof.
  intros c r h v m now (Hs & Hl & Hnd) Hv. unfold set.
  pose proof (evict_total (c_data c) (c_size c) (blen v) (c_limit c) Hs) as E.
  destruct (evict (c_size c) (blen v) (c_limit c) (c_data c)) as [[s1 d1]|e|w]; [|contradiction|lia].
  destruct E as (E1 & E2 & pre & E3). rewrite remove_existing_find.
  destruct (find (key_match r h) d1) as [old|] eqn:F; [|eexists; reflexivity].
  pose proof (total_remove_first _ _ _ F) as T.
  assert (E4 : s1 <? ilen old = false) by (apply N.ltb_ge; lia). rewrite E4. eexists; reflexivity.
Qed.

Lemma set_then_get : forall c r h v m now, inv c -> blen v <= c_limit c ->
  exists c', set c r h v m now = Ok c' /\
    forall now', now <= now' -> now' - now <= c_tlimit c ->
      get c' r h now' = Ok (Some (mkItem r h m now v)).
Proof.
  intros c r h v m now Hi Hv. destruct (set_no_crash c r h v m now Hi Hv) as [c' S]. exists c'.
  split; [assumption|]. intros now' T1 T2.
  destruct (set_ok_shape _ _ _ _ _ _ _ Hi S) as (pre & d1 & _ & D' & NK & _ & TL & _).
  rewrite get_find, D'. rewrite find_app_last.
  - cbn [i_time]. assert (E1 : now' <? now = false) by (apply N.ltb_ge; assumption). rewrite E1.
    assert (E2 : c_tlimit c' <? now' - now = false) by (apply N.ltb_ge; lia). rewrite E2. reflexivity.
  - intros y Hy. apply key_match_false. auto.
  - apply key_match_spec. reflexivity.
Qed.

Theorem retrievable_after_set : forall lim tl ops c r h v m now,
  snd (run (empty lim tl) ops) = Ok c -> blen v <= lim ->
  exists c', set c r h v m now = Ok c' /\
    forall now', now <= now' -> now' - now <= tl -> get c' r h now' = Ok (Some (mkItem r h m now v)).
Proof.
  intros lim tl ops c r h v m now R Hv.
  destruct (run_inv _ _ _ (inv_empty lim tl) R) as (I & L1 & L2). cbn in L1, L2.
  rewrite <- L1 in Hv. destruct (set_then_get c r h v m now I Hv) as (c' & S & G).
  exists c'. split; [assumption|]. intros now' T1 T2. apply G; [assumption|]. rewrite L2. assumption.
Qed.

(* every stored time is at most t *)
Definition timed (c : cache) (t : N) : Prop := forall it, In it (c_data c) -> i_time it <= t.

Lemma get_no_crash : forall c r h now t, timed c t -> t <= now -> exists x, get c r h now = Ok x.
Proof.
  intros c r h now t Ht Hn. rewrite get_find.
  destruct (find (key_match r h) (c_data c)) as [it|] eqn:F; [|eexists; reflexivity].
  apply find_some_in in F. destruct F as [F _]. specialize (Ht it F).
  assert (E : now <? i_time it = false) by (apply N.ltb_ge; lia). rewrite E.
  destruct (c_tlimit c <? now - i_time it); eexists; reflexivity.
Qed.

Lemma set_timed : forall c r h v m now c' t, inv c -> timed c t -> t <= now -> set c r h v m now = Ok c' ->
  timed c' now.
Proof.
  intros c r h v m now c' t Hi Ht Hn S.
  destruct (set_ok_shape _ _ _ _ _ _ _ Hi S) as (pre & d1 & D & D' & _).
  intros it Hin. rewrite D' in Hin. apply in_app_or in Hin. destruct Hin as [Hin|[<-|[]]].
  - apply remove_first_incl in Hin. assert (In it (c_data c)) by (rewrite D; apply in_or_app; auto).
    specialize (Ht it H). lia.
  - cbn. lia.
Qed.

Lemma timed_weaken : forall c t t', timed c t -> t <= t' -> timed c t'.
Proof. intros c t t' H L it Hin. specialize (H it Hin). lia. Qed.

Lemma run_no_crash : forall ops c t, inv c -> timed c t ->
  Forall (op_ok (c_limit c)) ops -> mono t ops -> exists c', snd (run c ops) = Ok c'.
Proof.
  induction ops as [|o ops IH]; intros c t Hi Ht Hok Hm.
  - eexists. reflexivity.
  - inversion Hok as [|? ? Ho Hok']; subst. cbn [mono] in Hm. destruct Hm as [M1 M2].
    rewrite run_snd_cons. destruct o as [r h v m now|r h now]; cbn [op_now op_ok] in *.
    + destruct (set_no_crash c r h v m now Hi Ho) as [c1 S]. cbn [step]. rewrite S.
      destruct (set_ok_shape _ _ _ _ _ _ _ Hi S) as (_ & _ & _ & _ & _ & L & _ & _ & I1).
      apply (IH c1 now); [assumption | exact (set_timed _ _ _ _ _ _ _ _ Hi Ht M1 S) | rewrite L; assumption | assumption].
    + destruct (get_no_crash c r h now t Ht M1) as [x G]. cbn [step]. rewrite G.
      apply (IH c now); [assumption | exact (timed_weaken _ _ _ Ht M1) | assumption | assumption].
Qed.

Theorem no_crash : forall lim tl ops,
  Forall (op_ok lim) ops -> mono 0 ops -> exists c, snd (run (empty lim tl) ops) = Ok c.
Proof.
  intros lim tl ops Hok Hm. apply (run_no_crash ops (empty lim tl) 0); [apply inv_empty | intros it [] | exact Hok | exact Hm].
Qed.

(* conversely a run that did not crash respected the guard: an oversized value always ends in data[0] on the
   empty deque *)
Lemma set_oversized_crashes : forall c r h v m now, inv c -> c_limit c < blen v -> set c r h v m now = Crash 1.
Proof.
  intros c r h v m now (Hs & _) Hv. unfold set.
  pose proof (evict_total (c_data c) (c_size c) (blen v) (c_limit c) Hs) as E.
  destruct (evict (c_size c) (blen v) (c_limit c) (c_data c)) as [[s1 d1]|e|w]; [lia|contradiction|].
  destruct E as [-> _]. reflexivity.
Qed.

Theorem oversized_set_crashes : forall lim tl ops c r h v m now,
  snd (run (empty lim tl) ops) = Ok c -> lim < blen v -> set c r h v m now = Crash 1.
Proof.
  intros lim tl ops c r h v m now R Hv. destruct (run_inv _ _ _ (inv_empty lim tl) R) as (I & L1 & _).
  cbn in L1. apply set_oversized_crashes; [assumption | rewrite L1; assumption].
Qed.

(* ------------------------------------------------------------------------------------------------ *)
(* interleavings *)

Lemma interleaving_forall : forall ts ops, interleaving ts ops ->
  forall P : op -> Prop, Forall (Forall P) ts -> Forall P ops.
Proof.
  induction 1 as [ts H|pre o t post rest H IH]; intros P HP; [constructor|].
  apply Forall_app in HP. destruct HP as [H1 H2]. inversion H2 as [|? ? H3 H4]; subst.
  inversion H3 as [|? ? H5 H6]; subst. constructor; [assumption|].
  apply IH. apply Forall_app. split; [assumption|]. constructor; assumption.
Qed.

Theorem interleaving_no_crash : forall lim tl ts ops,
  interleaving ts ops -> Forall (Forall (op_ok lim)) ts -> mono 0 ops ->
  exists c, snd (run (empty lim tl) ops) = Ok c.
Proof.
  intros lim tl ts ops Hi Hok Hm. apply no_crash; [|assumption].
  eapply interleaving_forall; eassumption.
Qed.

(* ------------------------------------------------------------------------------------------------ *)
(* handler level: every handler history is a cache-operation history *)

Lemma set_limits : forall c r h v m now c', set c r h v m now = Ok c' ->
  c_limit c' = c_limit c /\ c_tlimit c' = c_tlimit c.
Proof.
  intros c r h v m now c' H. unfold set in H.
  destruct (evict (c_size c) (blen v) (c_limit c) (c_data c)) as [[s1 d1]|e|w]; try discriminate.
  destruct (remove_existing s1 r h d1) as [[s2 d2]|e|w]; try discriminate.
  inversion H; subst. auto.
Qed.

Lemma store_limits : forall c r h v m now c', store c r h v m now = Ok c' ->
  c_limit c' = c_limit c /\ c_tlimit c' = c_tlimit c.
Proof.
  intros c r h v m now c' H. unfold store in H. destruct (blen v <=? c_limit c).
  - eapply set_limits. eassumption.
  - inversion H; subst. auto.
Qed.

Lemma handle_limits : forall c q c' p, handle c q = Ok (c', p) ->
  c_limit c' = c_limit c /\ c_tlimit c' = c_tlimit c.
Proof.
  intros c q c' p H. unfold handle in H.
  destruct (lookup c (q_route q) (q_host q) (q_now q)) as [[it|]|e|w]; try discriminate.
  - inversion H; subst. auto.
  - destruct (store c (q_route q) (q_host q) (q_fs q) (q_mime q) (q_now q)) as [c1|e|w] eqn:S; try discriminate.
    inversion H; subst. eapply store_limits. eassumption.
Qed.

Lemma hrun_snd_cons : forall c q rest,
  snd (hrun c (q :: rest)) =
  match handle c q with Ok (c', _) => snd (hrun c' rest) | Err e => Err e | Crash w => Crash w end.
Proof.
  intros. cbn [hrun]. destruct (handle c q) as [[c' p]|e|w]; [|reflexivity|reflexivity].
  destruct (hrun c' rest). reflexivity.
Qed.

(* one request = its atomic cache operations *)
Lemma handle_run : forall c q,
  snd (run c (req_ops c q)) =
  match handle c q with Ok (c', _) => Ok c' | Err e => Err e | Crash w => Crash w end.
Proof.
  intros c q. unfold req_ops, handle, lookup, store.
  destruct (0 <? c_limit c) eqn:L.
  - cbn [app]. rewrite run_snd_cons. cbn [step].
    destruct (get c (q_route q) (q_host q) (q_now q)) as [[it|]|e|w]; try reflexivity.
    destruct (blen (q_fs q) <=? c_limit c) eqn:G.
    + rewrite run_snd_cons. cbn [step].
      destruct (set c (q_route q) (q_host q) (q_fs q) (q_mime q) (q_now q)); reflexivity.
    + reflexivity.
  - cbn [app]. destruct (blen (q_fs q) <=? c_limit c) eqn:G.
    + rewrite run_snd_cons. cbn [step].
      destruct (set c (q_route q) (q_host q) (q_fs q) (q_mime q) (q_now q)); reflexivity.
    + reflexivity.
Qed.

Theorem hrun_trace : forall qs c, snd (hrun c qs) = snd (run c (htrace c qs)).
Proof.
  induction qs as [|q qs IH]; intro c; [reflexivity|].
  rewrite hrun_snd_cons. cbn [htrace]. rewrite run_snd_app, handle_run.
  destruct (handle c q) as [[c' p]|e|w]; [apply IH | reflexivity | reflexivity].
Qed.

Lemma req_ops_ok : forall c q, Forall (op_ok (c_limit c)) (req_ops c q).
Proof.
  intros c q. unfold req_ops. apply Forall_app. split.
  - destruct (0 <? c_limit c); constructor; [exact I | constructor].
  - destruct (lookup c (q_route q) (q_host q) (q_now q)) as [[it|]|e|w]; try constructor.
    destruct (blen (q_fs q) <=? c_limit c) eqn:G; constructor; [|constructor].
    cbn [op_ok]. apply N.leb_le. assumption.
Qed.

Lemma htrace_ok : forall qs c, Forall (op_ok (c_limit c)) (htrace c qs).
Proof.
  induction qs as [|q qs IH]; intro c; [constructor|]. cbn [htrace]. apply Forall_app. split; [apply req_ops_ok|].
  destruct (handle c q) as [[c' p]|e|w] eqn:H; try constructor.
  apply handle_limits in H. destruct H as [<- _]. apply IH.
Qed.

Lemma mono_weaken : forall ops t t', t <= t' -> mono t' ops -> mono t ops.
Proof. intros [|o ops] t t' L M; [exact I|]. cbn [mono] in *. destruct M. split; [lia | assumption]. Qed.

Lemma req_ops_mono : forall c q rest t, t <= q_now q -> mono (q_now q) rest -> mono t (req_ops c q ++ rest).
Proof.
  intros c q rest t L M. unfold req_ops.
  assert (A : forall l, mono (q_now q) l -> mono t
    (match lookup c (q_route q) (q_host q) (q_now q) with
     | Ok None => if blen (q_fs q) <=? c_limit c
                  then [OSet (q_route q) (q_host q) (q_fs q) (q_mime q) (q_now q)] else []
     | _ => [] end ++ l) /\ mono (q_now q)
    (match lookup c (q_route q) (q_host q) (q_now q) with
     | Ok None => if blen (q_fs q) <=? c_limit c
                  then [OSet (q_route q) (q_host q) (q_fs q) (q_mime q) (q_now q)] else []
     | _ => [] end ++ l)).
  { intros l Ml. assert (Mt : mono t l) by (eapply mono_weaken; eassumption).
    destruct (lookup c (q_route q) (q_host q) (q_now q)) as [[it|]|e|w]; cbn [app]; auto.
    destruct (blen (q_fs q) <=? c_limit c); cbn [app mono op_now]; auto.
    split; split; auto; lia. }
  rewrite <- app_assoc. destruct (0 <? c_limit c); cbn [app].
  - cbn [mono op_now]. split; [assumption|]. apply A. assumption.
  - apply A. assumption.
Qed.

Lemma htrace_mono : forall qs c t, qmono t qs -> mono t (htrace c qs).
Proof.
  induction qs as [|q qs IH]; intros c t M; [exact I|]. cbn [qmono] in M. destruct M as [M1 M2].
  cbn [htrace]. apply req_ops_mono; [assumption|].
  destruct (handle c q) as [[c' p]|e|w]; [apply IH; assumption | exact I | exact I].
Qed.

(* no guard hypothesis: the handlers establish it themselves *)
Theorem handler_no_crash : forall lim tl qs, qmono 0 qs -> exists c, snd (hrun (empty lim tl) qs) = Ok c.
Proof.
  intros lim tl qs M. rewrite hrun_trace. apply no_crash.
  - exact (htrace_ok qs (empty lim tl)).
  - apply htrace_mono. assumption.
Qed.

Theorem handler_invariants : forall lim tl qs c,
  snd (hrun (empty lim tl) qs) = Ok c ->
  c_size c = total (c_data c) /\ c_size c <= lim /\ NoDup (map item_key (c_data c))
  /\ c_limit c = lim /\ c_tlimit c = tl.
Proof. intros lim tl qs c H. rewrite hrun_trace in H. eapply invariants. eassumption. Qed.

(* every set in the trace was issued by a request of the history, with that request's file contents and clock *)
Lemma req_ops_sets : forall c q r h v m t, In (OSet r h v m t) (req_ops c q) ->
  r = q_route q /\ h = q_host q /\ v = q_fs q /\ m = q_mime q /\ t = q_now q.
Proof.
  intros c q r h v m t H. unfold req_ops in H. apply in_app_or in H. destruct H as [H|H].
  - destruct (0 <? c_limit c); [destruct H as [H|[]]; discriminate | contradiction].
  - destruct (lookup c (q_route q) (q_host q) (q_now q)) as [[it|]|e|w]; try contradiction.
    destruct (blen (q_fs q) <=? c_limit c); [|contradiction].
    destruct H as [H|[]]. inversion H; subst. auto.
Qed.

Lemma htrace_sets : forall qs c r h v m t, In (OSet r h v m t) (htrace c qs) ->
  exists q, In q qs /\ r = q_route q /\ h = q_host q /\ v = q_fs q /\ m = q_mime q /\ t = q_now q.
Proof.
  induction qs as [|q qs IH]; intros c r h v m t H; [contradiction|]. cbn [htrace] in H.
  apply in_app_or in H. destruct H as [H|H].
  - exists q. split; [left; reflexivity | eapply req_ops_sets; eassumption].
  - destruct (handle c q) as [[c' p]|e|w]; try contradiction.
    destruct (IH _ _ _ _ _ _ H) as (q' & Hin & Hq). exists q'. split; [right; assumption | assumption].
Qed.

Lemma hrun_app : forall a c b,
  hrun c (a ++ b) =
  match snd (hrun c a) with
  | Ok c' => (fst (hrun c a) ++ fst (hrun c' b), snd (hrun c' b))
  | _ => hrun c a
  end.
Proof.
  induction a as [|q a IH]; intros c b.
  - cbn. destruct (hrun c b). reflexivity.
  - cbn [app hrun]. destruct (handle c q) as [[c' p]|e|w]; [|reflexivity|reflexivity].
    rewrite IH. destruct (hrun c' a) as [ps fin]. cbn [fst snd].
    destruct fin as [c2|e|w]; [|reflexivity|reflexivity]. destruct (hrun c2 b). reflexivity.
Qed.

Lemma hrun_length : forall qs c,
  match snd (hrun c qs) with
  | Ok _ => length (fst (hrun c qs)) = length qs
  | _ => (length (fst (hrun c qs)) < length qs)%nat
  end.
Proof.
  induction qs as [|q qs IH]; intro c; [reflexivity|]. cbn [hrun].
  destruct (handle c q) as [[c' p]|e|w]; cbn [fst snd length]; try lia.
  specialize (IH c'). destruct (hrun c' qs) as [ps fin]. cbn [fst snd length] in *.
  destruct fin; lia.
Qed.

(* handler level: a response is the file as it is now, or exactly what an earlier request for the same
   (route, host) read from the file system no more than the time limit ago *)
Theorem handler_fresh : forall lim tl pre q post p,
  nth_error (fst (hrun (empty lim tl) (pre ++ q :: post))) (length pre) = Some p ->
  p = mkResp (q_fs q) (q_mime q) false (blen (q_fs q) <=? lim) \/
  (p_cached p = true /\
   exists pre1 q' pre2, pre = pre1 ++ q' :: pre2 /\
     q_route q' = q_route q /\ q_host q' = q_host q /\
     p_body p = q_fs q' /\ p_mime p = q_mime q' /\
     q_now q' <= q_now q /\ q_now q - q_now q' <= tl).
Proof.
  intros lim tl pre q post p H. rewrite hrun_app in H.
  pose proof (hrun_length pre (empty lim tl)) as Len.
  destruct (snd (hrun (empty lim tl) pre)) as [c1|e|w] eqn:R1.
  2,3: (assert (nth_error (fst (hrun (empty lim tl) pre)) (length pre) = None) as E
          by (apply nth_error_None; lia); rewrite E in H; discriminate).
  cbn [fst] in H. rewrite nth_error_app2 in H by lia. rewrite Len, Nat.sub_diag in H.
  cbn [hrun] in H. destruct (handle c1 q) as [[c2 p']|e|w] eqn:Hd; [|discriminate|discriminate].
  destruct (hrun c2 post) as [ps fin]. cbn in H. inversion H; subst p'; clear H.
  unfold handle in Hd.
  destruct (lookup c1 (q_route q) (q_host q) (q_now q)) as [[it|]|e|w] eqn:Lk; try discriminate.
  - inversion Hd; subst c2 p; clear Hd. right. split; [reflexivity|]. cbn [p_body p_mime].
    unfold lookup in Lk. destruct (0 <? c_limit c1); [|discriminate].
    rewrite hrun_trace in R1.
    destruct (get_latest _ _ _ _ _ _ _ _ R1 Lk) as (tpre & v & m & t & tpost & E & _ & Eit & T1 & T2).
    assert (Hin : In (OSet (q_route q) (q_host q) v m t) (htrace (empty lim tl) pre)).
    { rewrite E. apply in_or_app. right. left. reflexivity. }
    destruct (htrace_sets _ _ _ _ _ _ _ Hin) as (q' & Hq' & K1 & K2 & K3 & K4 & K5).
    apply in_split in Hq'. destruct Hq' as (pre1 & pre2 & ->).
    exists pre1, q', pre2. subst it. cbn [i_data i_mime]. subst. auto 10.
  - destruct (store c1 (q_route q) (q_host q) (q_fs q) (q_mime q) (q_now q)); try discriminate.
    inversion Hd; subst. left.
    destruct (handler_invariants _ _ _ _ R1) as (_ & _ & _ & -> & _). reflexivity.
Qed.

(* ------------------------------------------------------------------------------------------------ *)
(* the outputs of a run are the results of get on the intermediate states *)

Lemma run_app : forall a c b,
  run c (a ++ b) =
  match snd (run c a) with
  | Ok c' => (fst (run c a) ++ fst (run c' b), snd (run c' b))
  | _ => run c a
  end.
Proof.
  induction a as [|o a IH]; intros c b.
  - cbn. destruct (run c b). reflexivity.
  - cbn [app run]. destruct (step c o) as [[c' out]|e|w]; [|reflexivity|reflexivity].
    rewrite IH. destruct (run c' a) as [outs fin]. cbn [fst snd].
    destruct fin as [c2|e|w]; [|reflexivity|reflexivity]. destruct (run c2 b). cbn [fst snd].
    destruct out; reflexivity.
Qed.

Lemma run_length : forall ops c,
  match snd (run c ops) with
  | Ok _ => length (fst (run c ops)) = ngets ops
  | _ => (length (fst (run c ops)) <= ngets ops)%nat
  end.
Proof.
  induction ops as [|o ops IH]; intro c; [reflexivity|]. cbn [run].
  destruct (step c o) as [[c' out]|e|w] eqn:S; cbn [fst snd length]; try lia.
  specialize (IH c'). destruct (run c' ops) as [outs fin]. cbn [fst snd] in *.
  destruct o as [r h v m now|r h now].
  - apply step_set in S. destruct S as [_ ->]. cbn [ngets]. destruct fin; assumption.
  - apply step_get in S. destruct S as (_ & x & _ & ->). cbn [ngets length]. destruct fin; lia.
Qed.

Theorem run_get_output : forall lim tl pre r h now post x,
  nth_error (fst (run (empty lim tl) (pre ++ OGet r h now :: post))) (ngets pre) = Some x ->
  exists c, snd (run (empty lim tl) pre) = Ok c /\ get c r h now = Ok x.
Proof.
  intros lim tl pre r h now post x H. rewrite run_app in H.
  pose proof (run_length pre (empty lim tl)) as Len.
  destruct (snd (run (empty lim tl) pre)) as [c1|e|w] eqn:R1.
  2,3: (assert (nth_error (fst (run (empty lim tl) pre)) (ngets pre) = None) as E
          by (apply nth_error_None; lia); rewrite E in H; discriminate).
  exists c1. split; [reflexivity|]. cbn [fst] in H. rewrite nth_error_app2 in H by lia.
  rewrite Len, Nat.sub_diag in H. cbn [run step] in H.
  destruct (get c1 r h now) as [y|e|w]; [|discriminate|discriminate].
  destruct (run c1 post). cbn in H. inversion H. reflexivity.
Qed.

(* every hit printed by a run is the most recent set for that key before it, and fresh *)
Theorem every_get_latest : forall lim tl pre r h now post it,
  nth_error (fst (run (empty lim tl) (pre ++ OGet r h now :: post))) (ngets pre) = Some (Some it) ->
  exists pre1 v m t pre2,
    pre = pre1 ++ OSet r h v m t :: pre2 /\
    Forall (fun o => ~ sets_key (r, h) o) pre2 /\
    it = mkItem r h m t v /\ t <= now /\ now - t <= tl.
Proof.
  intros lim tl pre r h now post it H. apply run_get_output in H. destruct H as (c & R & G).
  eapply get_latest; eassumption.
Qed.

(* ------------------------------------------------------------------------------------------------ *)
(* handler level: a hit is the contents read by the most recent request for that key that stored *)

Lemma handle_stored : forall c q c' p, handle c q = Ok (c', p) -> p_stored p = true ->
  p = mkResp (q_fs q) (q_mime q) false true /\
  lookup c (q_route q) (q_host q) (q_now q) = Ok None /\ blen (q_fs q) <=? c_limit c = true.
Proof.
  intros c q c' p H S. unfold handle in H.
  destruct (lookup c (q_route q) (q_host q) (q_now q)) as [[it|]|e|w]; try discriminate.
  - inversion H; subst. discriminate.
  - destruct (store c (q_route q) (q_host q) (q_fs q) (q_mime q) (q_now q)); try discriminate.
    inversion H; subst. cbn [p_stored] in S. rewrite S. auto.
Qed.

Lemma handle_not_stored : forall c q c' p, handle c q = Ok (c', p) -> p_stored p = false -> c' = c.
Proof.
  intros c q c' p H S. unfold handle in H.
  destruct (lookup c (q_route q) (q_host q) (q_now q)) as [[it|]|e|w]; try discriminate.
  - inversion H; subst. reflexivity.
  - unfold store in H. destruct (blen (q_fs q) <=? c_limit c) eqn:G.
    + destruct (set c (q_route q) (q_host q) (q_fs q) (q_mime q) (q_now q)); try discriminate.
      inversion H; subst. cbn [p_stored] in S. congruence.
    + inversion H; subst. reflexivity.
Qed.

(* the trace of one request changes the abstract map exactly when the request stored *)
Lemma req_ops_spec : forall c q c' p m, handle c q = Ok (c', p) ->
  fold_left spec_step (req_ops c q) m =
  if p_stored p then (req_key q, (q_fs q, q_mime q, q_now q)) :: m else m.
Proof.
  intros c q c' p m H. unfold req_ops. rewrite fold_left_app.
  assert (E : fold_left spec_step (if 0 <? c_limit c then [OGet (q_route q) (q_host q) (q_now q)] else []) m = m)
    by (destruct (0 <? c_limit c); reflexivity).
  rewrite E. unfold handle in H.
  destruct (lookup c (q_route q) (q_host q) (q_now q)) as [[it|]|e|w]; try discriminate.
  - inversion H; subst. reflexivity.
  - unfold store in H. destruct (blen (q_fs q) <=? c_limit c) eqn:G.
    + destruct (set c (q_route q) (q_host q) (q_fs q) (q_mime q) (q_now q)); try discriminate.
      inversion H; subst. cbn [p_stored]. reflexivity.
    + inversion H; subst. cbn [p_stored]. reflexivity.
Qed.

Lemma hspec_trace : forall qs c m c1, snd (hrun c qs) = Ok c1 ->
  hspec c qs m = fold_left spec_step (htrace c qs) m.
Proof.
  induction qs as [|q qs IH]; intros c m c1 H; [reflexivity|].
  rewrite hrun_snd_cons in H. cbn [hspec htrace]. rewrite fold_left_app.
  destruct (handle c q) as [[c' p]|e|w] eqn:Hd; try discriminate.
  rewrite (req_ops_spec _ _ _ _ m Hd). eapply IH. eassumption.
Qed.

Definition same_key_not_stored (k : key) (qp : req * resp) : Prop :=
  req_key (fst qp) = k -> p_stored (snd qp) = false.

Lemma hspec_lookup_inv : forall qs c m ps c1 k e,
  hrun c qs = (ps, Ok c1) ->
  alookup k (hspec c qs m) = Some e ->
  (exists a1 q' a2,
     combine qs ps = a1 ++ (q', mkResp (q_fs q') (q_mime q') false true) :: a2 /\
     req_key q' = k /\ e = (q_fs q', q_mime q', q_now q') /\
     Forall (same_key_not_stored k) a2)
  \/ (alookup k m = Some e /\ Forall (same_key_not_stored k) (combine qs ps)).
Proof.
  induction qs as [|q qs IH]; intros c m ps c1 k e R A.
  - cbn in R. inversion R; subst. right. split; [exact A | constructor].
  - cbn [hrun] in R. cbn [hspec] in A.
    destruct (handle c q) as [[c' p]|e'|w] eqn:Hd; try (inversion R; fail).
    destruct (hrun c' qs) as [ps' fin] eqn:R'. inversion R; subst ps fin; clear R.
    cbn [combine].
    destruct (IH _ _ _ _ _ _ R' A) as [(a1 & q' & a2 & E1 & E2 & E3 & E4)|[A' F]].
    + left. exists ((q, p) :: a1), q', a2. cbn [app]. rewrite E1. auto.
    + destruct (p_stored p) eqn:S.
      * cbn [alookup] in A'. destruct (key_eqb (req_key q) k) eqn:K.
        -- apply key_eqb_spec in K. inversion A'; subst e. left.
           destruct (handle_stored _ _ _ _ Hd S) as (-> & _).
           exists [], q, (combine qs ps'). cbn [app]. auto.
        -- right. split; [assumption|]. constructor; [|assumption].
           intro Hk. cbn [fst] in Hk. apply key_eqb_false in K. contradiction.
      * right. split; [assumption|]. constructor; [|assumption]. intros _. exact S.
Qed.

(* step form: after ANY request history `pre` from the empty cache, the next request q is answered either with the
   file as it is now, or — when answered from the cache — with exactly the contents and MIME type that the most
   recent storing request for the same (route, host) read, no longer ago than the time limit; every request for that
   key since then was answered without storing (from the cache, or its file did not fit). *)
Theorem handler_hit_is_latest_stored : forall lim tl pre ps c1 q c2 p,
  hrun (empty lim tl) pre = (ps, Ok c1) ->
  handle c1 q = Ok (c2, p) ->
  p_cached p = true ->
  exists a1 q' a2,
    combine pre ps = a1 ++ (q', mkResp (q_fs q') (q_mime q') false true) :: a2 /\
    req_key q' = req_key q /\
    p = mkResp (q_fs q') (q_mime q') true false /\
    q_now q' <= q_now q /\ q_now q - q_now q' <= tl /\
    Forall (same_key_not_stored (req_key q)) a2 /\
    c2 = c1.
Proof.
  intros lim tl pre ps c1 q c2 p R H C.
  assert (R1 : snd (hrun (empty lim tl) pre) = Ok c1) by (rewrite R; reflexivity).
  unfold handle in H.
  destruct (lookup c1 (q_route q) (q_host q) (q_now q)) as [[it|]|e|w] eqn:Lk; try discriminate.
  2: { destruct (store c1 (q_route q) (q_host q) (q_fs q) (q_mime q) (q_now q)); try discriminate.
       inversion H; subst. discriminate. }
  inversion H; subst c2 p; clear H.
  unfold lookup in Lk. destruct (0 <? c_limit c1); [|discriminate].
  pose proof R1 as R2. rewrite hrun_trace in R2.
  pose proof (run_sub _ _ [] _ (inv_empty lim tl) (sub_empty lim tl []) R2) as S.
  rewrite <- (hspec_trace pre (empty lim tl) [] c1 R1) in S.
  destruct (run_inv _ _ _ (inv_empty lim tl) R2) as (_ & _ & TL). cbn in TL.
  apply get_some in Lk. destruct Lk as (Hin & K & T1 & T2). rewrite TL in T2.
  specialize (S it Hin). rewrite K in S.
  destruct (hspec_lookup_inv _ _ _ _ _ _ _ R S) as [(a1 & q' & a2 & E1 & E2 & E3 & E4)|[A _]]; [|discriminate].
  exists a1, q', a2. unfold item_entry in E3. inversion E3 as [[D1 D2 D3]]. rewrite D1, D2.
  split; [assumption|]. split; [exact E2|]. split; [reflexivity|].
  split; [lia|]. split; [lia|]. split; [assumption | reflexivity].
Qed.

(* the response number |pre| of a history is the handler's answer in the state reached after `pre` *)
Theorem hrun_nth : forall c pre q post p,
  nth_error (fst (hrun c (pre ++ q :: post))) (length pre) = Some p ->
  exists ps c1 c2, hrun c pre = (ps, Ok c1) /\ handle c1 q = Ok (c2, p).
Proof.
  intros c pre q post p H. rewrite hrun_app in H.
  pose proof (hrun_length pre c) as Len.
  destruct (hrun c pre) as [ps fin] eqn:R. cbn [fst snd] in *.
  destruct fin as [c1|e|w].
  2,3: (assert (nth_error ps (length pre) = None) as E by (apply nth_error_None; lia);
        cbn [fst] in H; rewrite E in H; discriminate).
  cbn [fst] in H. rewrite nth_error_app2 in H by lia. rewrite Len, Nat.sub_diag in H.
  cbn [hrun] in H. destruct (handle c1 q) as [[c2 p']|e|w] eqn:Hd; [|discriminate|discriminate].
  destruct (hrun c2 post) as [ps' fin']. cbn in H. inversion H; subst p'.
  exists ps, c1, c2. auto.
Qed.

(* ------------------------------------------------------------------------------------------------ *)
(* fine-grained executions under the readers-writer lock are linearizable: the log of completed operations, in
   completion order, is a sequential history with exactly the logged results *)

Lemma upd_same : forall ts i x, upd ts i x i = x.
Proof. intros. unfold upd. rewrite Nat.eqb_refl. reflexivity. Qed.

Lemma upd_other : forall ts i x j, j <> i -> upd ts i x j = ts j.
Proof. intros ts i x j H. unfold upd. apply Nat.eqb_neq in H. rewrite H. reflexivity. Qed.

Lemma seq_exec_snoc : forall log c c1 o out c2,
  seq_exec c log c1 -> step c1 o = Ok (c2, out) -> seq_exec c (log ++ [(o, out)]) c2.
Proof.
  induction log as [|[o' out'] log IH]; intros c c1 o out c2 H S; cbn [seq_exec app] in *.
  - subst c1. exists c2. split; [assumption | reflexivity].
  - destruct H as (c3 & H1 & H2). exists c3. split; [assumption|]. eapply IH; eassumption.
Qed.

Lemma get_at_position : forall c r h now, get_at c (position r h (c_data c)) now = get c r h now.
Proof. intros. unfold get_at, get. destruct (position r h (c_data c)); reflexivity. Qed.

(* what the shared cache looks like while thread j holds the write guard in stage t, if cs is the last
   linearized state *)
Definition write_stage (cs c : cache) (t : tstate) : Prop :=
  match t with
  | TSetA _ _ _ _ _ => c = cs
  | TSetB r h v m now =>
    exists s1 d1, evict (c_size cs) (blen v) (c_limit cs) (c_data cs) = Ok (s1, d1) /\
                  c = mkCache (c_limit cs) (c_tlimit cs) s1 d1
  | TSetC r h v m now =>
    exists s1 d1 s2 d2, evict (c_size cs) (blen v) (c_limit cs) (c_data cs) = Ok (s1, d1) /\
                        remove_existing s1 r h d1 = Ok (s2, d2) /\
                        c = mkCache (c_limit cs) (c_tlimit cs) s2 d2
  | _ => False
  end.

Definition conc_inv (lim tl : N) (s : cache * (nat -> tstate) * list logent) : Prop :=
  let '(c, ts, log) := s in
  exists cs, seq_exec (empty lim tl) log cs /\
    (((forall j, ~ holds_write (ts j)) /\ c = cs /\
      (forall j r h now idx, ts j = TGetB r h now idx -> idx = position r h (c_data cs)))
     \/ (exists j, (forall i, i <> j -> ts i = TIdle) /\ write_stage cs c (ts j))).

Lemma write_stage_holds : forall cs c t, write_stage cs c t -> holds_write t.
Proof. intros cs c [] H; cbn in *; auto. Qed.

Lemma conc_inv_step : forall lim tl s s', conc_inv lim tl s -> cstep s s' -> conc_inv lim tl s'.
Proof.
  intros lim tl s s' I St. destruct St; unfold conc_inv in *; destruct I as (cs & SE & [(NW & -> & GB)|(j & Oth & WS)]).
  - (* begin_get, nobody writes *)
    exists cs. split; [assumption|]. left. split; [|split; [reflexivity|]].
    + intro j. destruct (Nat.eq_dec j i) as [->|Hn]; [rewrite upd_same; cbn; auto | rewrite upd_other by assumption; apply NW].
    + intros j r0 h0 now0 idx Hj. destruct (Nat.eq_dec j i) as [->|Hn].
      * rewrite upd_same in Hj. discriminate.
      * rewrite upd_other in Hj by assumption. eapply GB. eassumption.
  - exfalso. apply (H0 j). eapply write_stage_holds. eassumption.
  - (* get_a *)
    exists cs. split; [assumption|]. left. split; [|split; [reflexivity|]].
    + intro j. destruct (Nat.eq_dec j i) as [->|Hn]; [rewrite upd_same; cbn; auto | rewrite upd_other by assumption; apply NW].
    + intros j r0 h0 now0 idx Hj. destruct (Nat.eq_dec j i) as [->|Hn].
      * rewrite upd_same in Hj. inversion Hj; subst. reflexivity.
      * rewrite upd_other in Hj by assumption. eapply GB. eassumption.
  - exfalso. destruct (Nat.eq_dec i j) as [->|Hn].
    + rewrite H in WS. exact WS.
    + rewrite (Oth i Hn) in H. discriminate.
  - (* get_b *)
    pose proof (GB _ _ _ _ _ H) as ->. rewrite get_at_position in H0.
    exists cs. split.
    + eapply seq_exec_snoc; [eassumption|]. cbn [step]. rewrite H0. reflexivity.
    + left. split; [|split; [reflexivity|]].
      * intro j. destruct (Nat.eq_dec j i) as [->|Hn]; [rewrite upd_same; cbn; auto | rewrite upd_other by assumption; apply NW].
      * intros j r0 h0 now0 idx Hj. destruct (Nat.eq_dec j i) as [->|Hn].
        -- rewrite upd_same in Hj. discriminate.
        -- rewrite upd_other in Hj by assumption. eapply GB. eassumption.
  - exfalso. destruct (Nat.eq_dec i j) as [->|Hn].
    + rewrite H in WS. exact WS.
    + rewrite (Oth i Hn) in H. discriminate.
  - (* begin_set from the quiescent state *)
    exists cs. split; [assumption|]. right. exists i. split.
    + intros k Hk. rewrite upd_other by assumption. apply H.
    + rewrite upd_same. cbn. reflexivity.
  - exfalso. rewrite (H j) in WS. exact WS.
  - (* set_a *)
    exfalso. apply (NW i). rewrite H. cbn. auto.
  - destruct (Nat.eq_dec i j) as [->|Hn]; [|rewrite (Oth i Hn) in H; discriminate].
    rewrite H in WS. cbn in WS. subst c.
    exists cs. split; [assumption|]. right. exists j. split.
    + intros k Hk. rewrite upd_other by assumption. auto.
    + rewrite upd_same. cbn. exists s1, d1. auto.
  - (* set_b *)
    exfalso. apply (NW i). rewrite H. cbn. auto.
  - destruct (Nat.eq_dec i j) as [->|Hn]; [|rewrite (Oth i Hn) in H; discriminate].
    rewrite H in WS. cbn in WS. destruct WS as (s1 & d1 & E1 & ->). cbn [c_size c_data c_limit c_tlimit] in *.
    exists cs. split; [assumption|]. right. exists j. split.
    + intros k Hk. rewrite upd_other by assumption. auto.
    + rewrite upd_same. cbn. exists s1, d1, s2, d2. auto.
  - (* set_c *)
    exfalso. apply (NW i). rewrite H. cbn. auto.
  - destruct (Nat.eq_dec i j) as [->|Hn]; [|rewrite (Oth i Hn) in H; discriminate].
    rewrite H in WS. cbn in WS. destruct WS as (s1 & d1 & s2 & d2 & E1 & E2 & ->).
    cbn [c_size c_data c_limit c_tlimit].
    exists (mkCache (c_limit cs) (c_tlimit cs) (s2 + blen v) (d2 ++ [mkItem r h m now v])). split.
    + eapply seq_exec_snoc; [eassumption|]. cbn [step]. unfold set. rewrite E1, E2. reflexivity.
    + left. split; [|split; [reflexivity|]].
      * intro k. destruct (Nat.eq_dec k j) as [->|Hk]; [rewrite upd_same; cbn; auto|].
        rewrite upd_other by assumption. rewrite (Oth k Hk). cbn. auto.
      * intros k r0 h0 now0 idx Hk. destruct (Nat.eq_dec k j) as [->|Hkj].
        -- rewrite upd_same in Hk. discriminate.
        -- rewrite upd_other in Hk by assumption. rewrite (Oth k Hkj) in Hk. discriminate.
Qed.

Lemma conc_inv_reach : forall lim tl s, creach lim tl s -> conc_inv lim tl s.
Proof.
  induction 1 as [|s s' R IH St].
  - cbn. exists (empty lim tl). split; [reflexivity|]. left. split; [intros j []|]. split; [reflexivity|].
    intros; discriminate.
  - eapply conc_inv_step; eassumption.
Qed.

(* linearizability: in every reachable configuration the completed operations, in completion order, form a
   sequential history that produces exactly the logged results *)
Theorem conc_linearizable : forall lim tl c ts log,
  creach lim tl (c, ts, log) -> exists cs, seq_exec (empty lim tl) log cs.
Proof.
  intros lim tl c ts log R. apply conc_inv_reach in R. destruct R as (cs & SE & _). exists cs. assumption.
Qed.

(* ... and whenever no thread is inside a write section, the shared cache IS that sequential state *)
Theorem conc_quiescent_state : forall lim tl c ts log,
  creach lim tl (c, ts, log) -> (forall j, ~ holds_write (ts j)) -> seq_exec (empty lim tl) log c.
Proof.
  intros lim tl c ts log R NW. apply conc_inv_reach in R. destruct R as (cs & SE & [(_ & -> & _)|(j & _ & WS)]).
  - assumption.
  - exfalso. apply (NW j). eapply write_stage_holds. eassumption.
Qed.

(* seq_exec is `run`: the sequential history does not crash and its final state is the one reached *)
Lemma seq_exec_run : forall log c c', seq_exec c log c' -> snd (run c (map fst log)) = Ok c'.
Proof.
  induction log as [|[o out] log IH]; intros c c' H; cbn [seq_exec map fst] in *.
  - subst. reflexivity.
  - destruct H as (c1 & S & H). rewrite run_snd_cons, S. apply IH. assumption.
Qed.

(* so every logged hit in every fine-grained execution is the most recent set for its key in the log, and fresh *)
Theorem conc_get_latest : forall lim tl c ts log pre r h now it post,
  creach lim tl (c, ts, log) ->
  log = pre ++ (OGet r h now, Some (Some it)) :: post ->
  exists pre1 v m t pre2,
    map fst pre = pre1 ++ OSet r h v m t :: pre2 /\
    Forall (fun o => ~ sets_key (r, h) o) pre2 /\
    it = mkItem r h m t v /\ t <= now /\ now - t <= tl.
Proof.
  intros lim tl c ts log pre r h now it post R E.
  destruct (conc_linearizable _ _ _ _ _ R) as (cs & SE). subst log.
  (* split the sequential execution at the get *)
  assert (exists c1, seq_exec (empty lim tl) pre c1 /\ get c1 r h now = Ok (Some it)) as (c1 & S1 & G).
  { clear R. revert SE. generalize (empty lim tl). induction pre as [|[o out] pre IH]; intros c0 SE; cbn [app seq_exec] in SE.
    - destruct SE as (c1 & S & _). cbn [step] in S. exists c0. split; [reflexivity|].
      destruct (get c0 r h now) as [x|e|w]; inversion S; subst. reflexivity.
    - destruct SE as (c1 & S & SE). destruct (IH _ SE) as (c2 & S2 & G). exists c2. split; [|assumption].
      cbn [seq_exec]. exists c1. auto. }
  apply seq_exec_run in S1. eapply get_latest; eassumption.
Qed.

(* ------------------------------------------------------------------------------------------------ *)
(* exact behaviour: what a lookup finds, and what a store leaves in the cache *)

Lemma find_unique : forall r h d it, NoDup (map item_key d) -> In it d -> item_key it = (r, h) ->
  find (key_match r h) d = Some it.
Proof.
  intros r h. induction d as [|x d IH]; intros it Hnd Hin K; [contradiction|].
  cbn [map] in Hnd. inversion Hnd as [|? ? Hn Hd]; subst. cbn [find].
  destruct Hin as [->|Hin].
  - assert (E : key_match r h it = true) by (apply key_match_spec; assumption). rewrite E. reflexivity.
  - destruct (key_match r h x) eqn:E.
    + exfalso. apply key_match_spec in E. apply Hn. rewrite E, <- K. apply in_map. assumption.
    + apply IH; assumption.
Qed.

(* a lookup hits exactly when the (unique) entry for the key is present and not older than the time limit *)
Theorem get_hit_iff : forall lim tl ops c r h now it,
  snd (run (empty lim tl) ops) = Ok c ->
  (get c r h now = Ok (Some it) <->
   In it (c_data c) /\ item_key it = (r, h) /\ i_time it <= now /\ now - i_time it <= tl).
Proof.
  intros lim tl ops c r h now it R. destruct (invariants _ _ _ _ R) as (_ & _ & Hnd & _ & TL). split.
  - intro G. apply get_some in G. rewrite TL in G. exact G.
  - intros (Hin & K & T1 & T2). rewrite get_find, (find_unique _ _ _ _ Hnd Hin K).
    assert (E1 : now <? i_time it = false) by (apply N.ltb_ge; assumption). rewrite E1.
    assert (E2 : c_tlimit c <? now - i_time it = false) by (apply N.ltb_ge; rewrite TL; assumption). rewrite E2.
    reflexivity.
Qed.

(* the eviction loop stops as soon as the value fits *)
Lemma evict_minimal : forall d size len lim s' d' pre x,
  evict size len lim d = Ok (s', d') -> d = (pre ++ [x]) ++ d' -> size = total d ->
  lim < ilen x + total d' + len.
Proof.
  induction d as [|y d IH]; intros size len lim s' d' pre x H E Hs; cbn [evict] in H.
  - destruct pre; discriminate.
  - cbn [total] in Hs. destruct (lim <? size + len) eqn:L.
    + destruct (size <? ilen y) eqn:L2; [discriminate|].
      destruct pre as [|p pre]; cbn [app] in E; inversion E; subst.
      * (* x is the last evicted entry: the test was true with x still present *)
        apply N.ltb_lt in L. lia.
      * eapply (IH _ _ _ _ _ pre x H); [reflexivity | lia].
    + (* nothing evicted, so d = d' and pre ++ [x] must be empty *)
      inversion H; subst. exfalso.
      assert (Hl : length ((pre ++ [x]) ++ y :: d) = length (y :: d)) by (rewrite <- E; reflexivity).
      rewrite !app_length in Hl. cbn in Hl. lia.
Qed.

(* store: entries are dropped oldest first, no more than needed for the new value to fit (counted before the old
   entry for the same key is removed), then the old entry for the key is removed and the new one goes to the back *)
Theorem set_shape : forall lim tl ops c r h v m now c',
  snd (run (empty lim tl) ops) = Ok c ->
  set c r h v m now = Ok c' ->
  exists evicted kept,
    c_data c = evicted ++ kept /\
    c_data c' = remove_first (key_match r h) kept ++ [mkItem r h m now v] /\
    total kept + blen v <= lim /\
    (forall evicted' x, evicted = evicted' ++ [x] -> lim < ilen x + total kept + blen v).
Proof.
  intros lim tl ops c r h v m now c' R S.
  destruct (run_inv _ _ _ (inv_empty lim tl) R) as ((Hs & _) & L1 & _). cbn in L1.
  unfold set in S.
  destruct (evict (c_size c) (blen v) (c_limit c) (c_data c)) as [[s1 d1]|e|w] eqn:E; try discriminate.
  pose proof (evict_total (c_data c) (c_size c) (blen v) (c_limit c) Hs) as ET. rewrite E in ET.
  destruct ET as (T1 & T2 & pre & D).
  exists pre, d1. split; [assumption|]. split.
  - rewrite remove_existing_find in S.
    destruct (find (key_match r h) d1) as [old|] eqn:F.
    + destruct (s1 <? ilen old); [discriminate|]. inversion S; subst. reflexivity.
    + inversion S; subst. cbn [c_data]. rewrite (remove_first_none _ _ F). reflexivity.
  - split; [rewrite <- L1; lia|]. intros pre' x ->. rewrite <- L1.
    eapply evict_minimal; [exact E | exact D | exact Hs].
Qed.
