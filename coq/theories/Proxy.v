(* Model of HTTP proxying (C09): humphrey/src/http/proxy.rs proxy_request (after fix F17: read/write timeouts on the
   upstream socket) and humphrey-server/src/server/proxy.rs proxy_handler / LoadBalancer::select_target and rand.rs. *)
From Hv Require Import Prelude Bytes StreamBuf TablesHttp Http StaticFs Conn.
Open Scope N_scope.

(* proxy_handler: strip as many characters as the route pattern has before its first '*', then make the path absolute.
   None = String::remove(0) on an empty string (panic); cannot happen when the route matched (see StaticFs.drop_chars). *)
Definition rewrite_uri (matches uri : bytes) : option bytes :=
  match drop_chars (literal_prefix_len matches) uri with
  | None => None
  | Some rest => Some (match rest with 47 :: _ => rest | _ => 47 :: rest end)
  end.

(* the request written to the upstream: uri rewritten, one more X-Forwarded-For carrying the origin address *)
Definition upstream_request (req : request) (uri' : bytes) : request :=
  {| r_method := r_method req; r_uri := uri'; r_query := r_query req; r_version := r_version req;
     r_headers := r_headers req ++ [(XFF, a_origin (r_addr req))]; r_content := r_content req; r_addr := r_addr req |}.
Definition upstream_bytes (req : request) (uri' : bytes) : bytes := serialize_request (upstream_request req uri').

(* the body (the wording of the page is read from http/proxy.rs on every run: TablesHttp.bad_gateway_page) *)
Definition bad_gateway : response :=
  {| s_version := str_HTTP11; s_status := status_index 502; s_headers := []; s_body := bad_gateway_page |}.

(* what the upstream does *)
Inductive upstream : Type :=
| URefused                      (* connect fails or times out *)
| USends (b : bytes).           (* accepts, sends b, then closes or stays silent (read times out): either way the parser
                                   sees the end of the data after b *)

(* proxy_request *)
Definition proxy_result (u : upstream) : response :=
  match u with
  | URefused => bad_gateway
  | USends b => match parse_response_flat b with
                | Ok (r, _) => r
                | _ => bad_gateway
                end
  end.

(* LoadBalancer::select_target, round robin: returns the chosen index and the new counter *)
Definition rr_select (len idx : N) : N * N :=
  (idx, if idx + 1 =? len then 0 else idx + 1).

Fixpoint rr_run (n : nat) (len idx : N) : list N :=
  match n with
  | O => []
  | S n' => let '(t, idx') := rr_select len idx in t :: rr_run n' len idx'
  end.

(* rand.rs: Lcg::next and Choose (usize arithmetic; the multiplication is checked in debug builds, see C09 notes) *)
Definition lcg_next (modulus multiplier increment seed : N) : N := (multiplier * seed + increment) mod modulus.
Definition lcg_choose (len : N) (value : N) : N := (value mod 4294967296) mod len.
