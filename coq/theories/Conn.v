(* Model of the per-connection request/response loop: humphrey/src/app.rs client_handler (same text in tokio/app.rs),
   with error_handler, add_default_headers, the OPTIONS branch, CORS headers, keep-alive, and the per-request BufReader
   (bytes read ahead of the current request are discarded: finding F01). Definitions only. (C01) *)
From Hv Require Import Prelude Bytes StreamBuf TablesHttp Http Krauss.
Open Scope N_scope.

(* handler behaviours used by the quantifier: fixed body, echo the request body, empty body, panic, sets its own headers *)
Inductive hbeh : Type := HFixed (b : bytes) | HEcho | HEmpty | HPanic | HOwn.

(* a Cors value reduced to the header values it produces (None = that header is not configured) *)
Record cors := { c_origin : option bytes; c_methods : option bytes; c_headers : option bytes }.
Definition cors_none : cors := {| c_origin := None; c_methods := None; c_headers := None |}.

Record croute := { cr_pat : bytes; cr_beh : hbeh; cr_cors : cors }.

Definition str_Humphrey : bytes := server_header_value.   (* read from app.rs on every run (TablesHttp.v) *)
Definition str_Close : bytes := [67;108;111;115;101].
Definition str_KeepAlive : bytes := [75;101;101;112;45;65;108;105;118;101].
Definition str_keep_alive_lower : bytes := [107;101;101;112;45;97;108;105;118;101].
Definition str_websocket : bytes := [119;101;98;115;111;99;107;101;116].
Definition str_HTTP11 : bytes := [72;84;84;80;47;49;46;49].
Definition str_star : bytes := [42].
Definition M_OPTIONS : N := 4.

Definition status_index (code : N) : N := match status_of_code code with Some s => s | None => 0 end.

(* app.rs error_handler; the text around "<code> <phrase>" is read from the source on every run (TablesHttp.v): the
   wording of the default error page is not part of any property *)
Definition error_body (code : N) : bytes :=
  error_page_prefix ++ dec_render code ++ [SP] ++ status_phrase (status_index code) ++ error_page_suffix.
Definition error_response (code : N) : response :=
  {| s_version := str_HTTP11; s_status := status_index code; s_headers := []; s_body := error_body code |}.

Definition has (n : N) (hs : headers) : bool := match hget (HKnown n) hs with Some _ => true | None => false end.

(* Cors::set_headers *)
Definition cors_set (c : cors) (hs : headers) : headers :=
  let hs1 := match c_origin c with
             | Some v => if has H_AccessControlAllowOrigin hs then hs else hs ++ [(HKnown H_AccessControlAllowOrigin, v)]
             | None => hs end in
  let hs2 := match c_methods c with
             | Some v => if has H_AccessControlAllowMethods hs1 then hs1 else hs1 ++ [(HKnown H_AccessControlAllowMethods, v)]
             | None => hs1 end in
  match c_headers c with
  | Some v => if has H_AccessControlAllowHeaders hs2 then hs2 else hs2 ++ [(HKnown H_AccessControlAllowHeaders, v)]
  | None => hs2 end.

(* add_default_headers (fix F31): Connection, Server, Date, Content-Length unless already present *)
Definition add_default_headers (date : bytes) (conn : option bytes) (r : response) : response :=
  let hs := s_headers r in
  let hs1 := if has H_Connection hs then hs else hs ++ [(HKnown H_Connection, match conn with Some c => c | None => str_Close end)] in
  let hs2 := if has H_Server hs1 then hs1 else hs1 ++ [(HKnown H_Server, str_Humphrey)] in
  let hs3 := if has H_Date hs2 then hs2 else hs2 ++ [(HKnown H_Date, date)] in
  let hs4 := if has H_ContentLength hs3 then hs3
             else hs3 ++ [(HKnown H_ContentLength, dec_render (N.of_nat (length (s_body r))))] in
  {| s_version := s_version r; s_status := s_status r; s_headers := hs4; s_body := s_body r |}.

(* routing over the default sub-app only (host sub-apps are C04's subject); patterns and paths compared as byte strings,
   which agrees with char-wise matching for ASCII patterns *)
Fixpoint find_route (rs : list croute) (uri : bytes) : option croute :=
  match rs with
  | [] => None
  | r :: rs' => if wildcard_match (cr_pat r) uri then Some r else find_route rs' uri
  end.

(* what the handler returns; None = it panics *)
Definition run_handler (b : hbeh) (req : request) : option response :=
  let ok := status_index 200 in
  match b with
  | HFixed body => Some {| s_version := str_HTTP11; s_status := ok; s_headers := []; s_body := body |}
  | HEcho => Some {| s_version := str_HTTP11; s_status := ok; s_headers := [];
                     s_body := match r_content req with Some c => c | None => [] end |}
  | HEmpty => Some {| s_version := str_HTTP11; s_status := ok; s_headers := []; s_body := [] |}
  | HPanic => None
  | HOwn => Some {| s_version := str_HTTP11; s_status := ok;
                    s_headers := [(HKnown H_Server, [109;105;110;101]); (HKnown H_Connection, str_Close)];
                    s_body := [111;119;110] |}
  end.

Definition with_version (v : bytes) (r : response) : response :=
  {| s_version := v; s_status := s_status r; s_headers := s_headers r; s_body := s_body r |}.

(* the response to a well-formed request; None = handler panicked (connection dies without a response) *)
Definition respond (rs : list croute) (date : bytes) (req : request) : option response :=
  let conn := hget (HKnown H_Connection) (r_headers req) in
  let keep_alive := match conn with Some c => beq (ascii_lower c) str_keep_alive_lower | None => false end in
  if r_method req =? M_OPTIONS then
    match find_route rs (r_uri req) with
    | Some r =>
      let hs := [(HKnown H_Date, date); (HKnown H_Server, str_Humphrey);
                 (HKnown H_Connection, if keep_alive then str_KeepAlive else str_Close)] in
      Some {| s_version := r_version req; s_status := status_index 204; s_headers := cors_set (cr_cors r) hs; s_body := [] |}
    | None => Some (with_version (r_version req) (add_default_headers date conn (error_response 404)))
    end
  else
    match find_route rs (r_uri req) with
    | Some r =>
      match run_handler (cr_beh r) req with
      | Some resp =>
        let resp1 := {| s_version := s_version resp; s_status := s_status resp;
                        s_headers := cors_set (cr_cors r) (s_headers resp); s_body := s_body resp |} in
        Some (with_version (r_version req) (add_default_headers date conn resp1))
      | None => None
      end
    | None => Some (with_version (r_version req) (add_default_headers date conn (error_response 404)))
    end.

Definition keep_alive_of (req : request) : bool :=
  match hget (HKnown H_Connection) (r_headers req) with
  | Some c => beq (ascii_lower c) str_keep_alive_lower
  | None => false
  end.

Definition is_upgrade (req : request) : bool :=
  match hget (HKnown H_Upgrade) (r_headers req) with Some u => beq u str_websocket | None => false end.

(* why the loop ended *)
Inductive ending : Type :=
| EClosedByClient     (* EOF while waiting for a request *)
| EStreamError        (* EOF inside a request: closed silently *)
| EBadRequest         (* 400 written *)
| ETimeout            (* 408 written *)
| ENoKeepAlive        (* response written, connection not kept alive *)
| EPanic              (* handler panicked: closed without a response *)
| EUpgrade            (* handed to the WebSocket dispatcher *)
| EFuel.

(* client input: Some chunk = bytes one read() can see; None = an idle gap longer than the connection timeout *)
Fixpoint take_chunks (inp : list (option bytes)) : chunks * list (option bytes) :=
  match inp with
  | Some c :: inp' => let '(cs, rest) := take_chunks inp' in (c :: cs, rest)
  | _ => ([], inp)
  end.

Fixpoint conn_loop (fuel : nat) (ipp : bytes -> option bytes) (rs : list croute) (date : bytes) (p : peer)
  (inp : list (option bytes)) (out : list bytes) : list bytes * ending :=
  match fuel with
  | O => (out, EFuel)
  | S f =>
    match inp with
    | None :: _ => (out ++ [serialize_response (add_default_headers date None (error_response 408))], ETimeout)
    | _ =>
      let '(cs, later) := take_chunks inp in
      match parse_request_chunked ipp p cs with
      | Err e =>
        if e =? E_Request then (out ++ [serialize_response (add_default_headers date None (error_response 400))], EBadRequest)
        else if e =? E_Disconnected then (out, EClosedByClient)
        else (out, EStreamError)
      | Crash _ => (out, EPanic)
      | Ok (req, br) =>
        if is_upgrade req then (out, EUpgrade) else
        match respond rs date req with
        | None => (out, EPanic)
        | Some resp =>
          let out' := out ++ [serialize_response resp] in
          if keep_alive_of req
          then conn_loop f ipp rs date p (map Some (inner br) ++ later) out'      (* the BufReader's buffer is dropped *)
          else (out', ENoKeepAlive)
        end
      end
    end
  end.

Definition input_weight (inp : list (option bytes)) : nat :=
  fold_right (fun c a => (match c with Some b => length b | None => 0 end + 1 + a)%nat) 0%nat inp.

Definition serve_conn (ipp : bytes -> option bytes) (rs : list croute) (date : bytes) (p : peer) (inp : list (option bytes))
  : list bytes * ending :=
  conn_loop (S (input_weight inp)) ipp rs date p inp [].
