(* Alignment: the BufReader model keeps track of WHERE it is in the list of reads, not only of what it has consumed.
   `aligned more br l`: the reader br has, in its buffer and in the reads it has not yet pulled, exactly the bytes l
   before the reads `more` begin — `more` is untouched as a LIST.  Every reader operation that finds what it needs inside
   l preserves this (a read longer than the 8 KiB capacity leaves its remainder as the new head of the unread part, which
   is still in front of `more`).  Consequence: when a request ends exactly where a read ends, the reader finishes with an
   empty buffer and `inner = more`: no byte of a later request was pulled in, none is dropped with the reader. *)
From Coq Require Import Lia Arith.
From Hv Require Import Prelude Bytes StreamBuf StreamBufProofs TablesHttp Http HttpStreamProofs.
Open Scope N_scope.
Arguments N.eqb : simpl never.
Arguments N.leb : simpl never.
Arguments N.ltb : simpl never.

Definition aligned (more : chunks) (br : bufreader) (l : bytes) : Prop :=
  exists pre, inner br = pre ++ more /\ wf_chunks pre /\ buf br ++ concat pre = l.

Lemma wf_concat_nil pre : wf_chunks pre -> concat pre = [] -> pre = [].
Proof.
  intros W H. destruct pre as [|c pre]; [reflexivity|]. inversion W as [|? ? Hc _]; subst.
  cbn [concat] in H. apply app_eq_nil in H. destruct H as [H _]. contradiction.
Qed.

(* nothing left of the current request: the buffer is empty and the unread part is exactly `more` *)
Lemma aligned_nil more br : aligned more br [] -> buf br = [] /\ inner br = more.
Proof.
  intros (pre & Hi & W & E). apply app_eq_nil in E. destruct E as [Eb Ec].
  rewrite (wf_concat_nil pre W Ec) in Hi. auto.
Qed.

Lemma aligned_contents more br l : aligned more br l -> contents br = l ++ concat more.
Proof. intros (pre & Hi & _ & E). unfold contents. now rewrite Hi, concat_app, app_assoc, E. Qed.

Lemma aligned_wf more br l : wf_chunks more -> aligned more br l -> wf_chunks (inner br).
Proof. intros Wm (pre & Hi & W & _). rewrite Hi. apply Forall_app. auto. Qed.

(* one read() from an unread part that still holds bytes of the current request never touches `more` *)
Lemma read_aligned n pre more d cs' : (0 < n)%nat -> wf_chunks pre -> pre <> [] ->
  read n (pre ++ more) = (d, cs') ->
  exists pre', cs' = pre' ++ more /\ wf_chunks pre' /\ d ++ concat pre' = concat pre /\ d <> [] /\ (length d <= n)%nat.
Proof.
  intros Hn W Hne. destruct pre as [|c pre0]; [congruence|]. inversion W as [|? ? Hc W0]; subst.
  cbn [app read]. destruct (length c <=? n)%nat eqn:E; intros [= <- <-].
  - apply Nat.leb_le in E. exists pre0. auto.
  - apply Nat.leb_gt in E. exists (skipn n c :: pre0). repeat split.
    + constructor; [|assumption]. intro Hs. apply (f_equal (@length N)) in Hs. rewrite skipn_length in Hs. cbn in Hs. lia.
    + cbn [concat]. now rewrite app_assoc, firstn_skipn.
    + intro Hf. apply (f_equal (@length N)) in Hf. rewrite firstn_length in Hf. cbn in Hf. lia.
    + rewrite firstn_length. lia.
Qed.

Lemma fill_buf_aligned more br l : aligned more br l -> l <> [] ->
  aligned more (fill_buf br) l /\ buf (fill_buf br) <> [].
Proof.
  intros (pre & Hi & W & E) Hl. unfold fill_buf. destruct (buf br) as [|x b0] eqn:Eb.
  - cbn [app] in E. assert (Hne : pre <> []) by (intros ->; cbn in E; congruence).
    rewrite Hi. destruct (read cap (pre ++ more)) as [d cs'] eqn:R.
    destruct (read_aligned _ _ _ _ _ cap_pos W Hne R) as (pre' & -> & W' & Hc & Hd & _).
    cbn [buf inner]. split; [|assumption]. exists pre'. cbn [buf inner]. repeat split; [assumption|congruence].
  - rewrite Eb. split; [|discriminate]. exists pre. rewrite Eb. auto.
Qed.

(* ---- read_until ---- *)
Lemma read_until_aligned d more : forall fuel br acc line br' l a rest,
  aligned more br l -> split_incl d l = Some (a, rest) ->
  read_until fuel d br acc = Some (line, br') ->
  line = acc ++ a /\ aligned more br' rest.
Proof.
  induction fuel as [|f IH]; intros br acc line br' l a rest A Hs H; [discriminate|].
  cbn [read_until] in H.
  assert (Hl : l <> []) by (intros ->; discriminate).
  destruct (fill_buf_aligned more br l A Hl) as [(pre1 & Hi1 & W1 & E1) Hb1].
  destruct (buf (fill_buf br)) as [|x b0] eqn:Eb; [congruence|].
  destruct (split_incl d (x :: b0)) as [[a' rest']|] eqn:Es.
  - injection H as <- <-. rewrite <- E1, (split_incl_app_l _ _ _ _ _ Es) in Hs. injection Hs as <- <-.
    split; [reflexivity|]. exists pre1. cbn [buf inner]. auto.
  - rewrite <- E1, (split_incl_app_none _ _ _ Es) in Hs.
    destruct (split_incl d (concat pre1)) as [[a2 b2]|] eqn:E2; [|discriminate]. injection Hs as <- <-.
    eapply IH in H; [| |exact E2].
    + destruct H as [-> HA]. split; [rewrite <- app_assoc; reflexivity|assumption].
    + exists pre1. cbn [buf inner app]. auto.
Qed.

Lemma read_line_aligned more br l a rest : aligned more br l -> split_incl LF l = Some (a, rest) ->
  exists br', read_line br = Some (a, br') /\ aligned more br' rest.
Proof.
  intros A Hs. unfold read_line. destruct (read_until (fuel_of br) LF br []) as [[line br']|] eqn:E.
  - destruct (read_until_aligned LF more _ _ _ _ _ _ _ _ A Hs E) as [-> HA]. exists br'. auto.
  - exfalso. revert E. apply read_until_fuel. unfold fuel_of, weight. destruct (buf br); lia.
Qed.

(* ---- read_exact ---- *)
Lemma firstn_skipn_app_le {A} n (d c : list A) : (length d <= n)%nat ->
  firstn n (d ++ c) = d ++ firstn (n - length d) c /\ skipn n (d ++ c) = skipn (n - length d) c.
Proof.
  intro H. rewrite firstn_app, skipn_app, (firstn_all2 d), (skipn_all2 d) by lia. auto.
Qed.

Lemma read_exact_br_aligned more : forall fuel n br acc l d br',
  aligned more br l -> (n <= length l)%nat ->
  read_exact_br fuel n br acc = ROk d br' ->
  d = acc ++ firstn n l /\ aligned more br' (skipn n l).
Proof.
  induction fuel as [|f IH]; intros n br acc l d br' A Hn H;
    (destruct n as [|n0];
     [rewrite read_exact_br_0 in H; injection H as <- <-; cbn [firstn skipn]; rewrite app_nil_r; auto|]);
    [discriminate|].
  cbn [read_exact_br] in H. remember (S n0) as n eqn:En.
  assert (Hl : l <> []) by (intros ->; cbn in Hn; lia).
  destruct (buf br) as [|x0 b0] eqn:Eb.
  - destruct (cap <=? n)%nat eqn:Ecap.
    + (* large read: bypasses the buffer *)
      destruct A as (pre & Hi & W & E). rewrite Eb in E. cbn [app] in E.
      assert (Hne : pre <> []) by (intros ->; cbn in E; congruence).
      rewrite Hi in H. destruct (read n (pre ++ more)) as [dd cs'] eqn:R.
      assert (Hnpos : (0 < n)%nat) by lia.
      destruct (read_aligned _ _ _ _ _ Hnpos W Hne R) as (pre' & -> & W' & Hc & Hd & Hlen).
      destruct dd as [|y d0]; [congruence|]. remember (y :: d0) as dd eqn:Edd.
      assert (El : l = dd ++ concat pre') by congruence.
      apply (IH _ _ _ (concat pre')) in H.
      * destruct H as [-> HA]. rewrite El. destruct (firstn_skipn_app_le n dd (concat pre') Hlen) as [-> ->].
        split; [now rewrite app_assoc|assumption].
      * exists pre'. cbn [buf inner app]. auto.
      * rewrite El, app_length in Hn. lia.
    + (* small read: through the buffer *)
      destruct (fill_buf_aligned more br l A Hl) as [A1 Hb1].
      destruct (buf (fill_buf br)) as [|x b1] eqn:Eb1; [congruence|].
      now apply (IH _ _ _ l) in H.
  - destruct A as (pre & Hi & W & E). rewrite Eb in E. remember (x0 :: b0) as b eqn:Eqb.
    set (k := Nat.min n (length b)) in *.
    assert (El : l = firstn k b ++ (skipn k b ++ concat pre)) by (now rewrite app_assoc, firstn_skipn).
    assert (Hk : length (firstn k b) = k) by (rewrite firstn_length; lia).
    apply (IH _ _ _ (skipn k b ++ concat pre)) in H.
    + destruct H as [-> HA]. rewrite El.
      destruct (firstn_skipn_app_le n (firstn k b) (skipn k b ++ concat pre) ltac:(lia)) as [-> ->].
      rewrite Hk. split; [now rewrite app_assoc|assumption].
    + exists pre. cbn [buf inner]. auto.
    + rewrite El, app_length, Hk in Hn. lia.
Qed.

Lemma read_exact_N_aligned more n br l d rest : wf_chunks more -> aligned more br l ->
  read_exact_flat_N n l = Some (d, rest) ->
  exists br', read_exact_N n br = ROk d br' /\ aligned more br' rest.
Proof.
  intros Wm A H. unfold read_exact_flat_N, read_exact_flat in H.
  destruct (N.of_nat (length l) <? n) eqn:E1; [discriminate|]. apply N.ltb_ge in E1.
  destruct (N.to_nat n <=? length l)%nat eqn:E2; [|discriminate]. apply Nat.leb_le in E2.
  injection H as <- <-.
  pose proof (aligned_contents _ _ _ A) as HC. pose proof (aligned_wf _ _ _ Wm A) as W.
  unfold read_exact_N.
  replace (N.of_nat (length (contents br)) <? n) with false
    by (symmetry; apply N.ltb_ge; rewrite HC, app_length; lia).
  pose proof (read_exact_spec (N.to_nat n) br W) as S. unfold read_exact_flat in S.
  replace (N.to_nat n <=? length (contents br))%nat with true in S
    by (symmetry; apply Nat.leb_le; rewrite HC, app_length; lia).
  cbn [rx_ok] in S. destruct S as (br' & Hr & _). exists br'.
  pose proof Hr as Hr2. unfold read_exact in Hr2.
  destruct (read_exact_br_aligned more _ _ _ _ _ _ _ A E2 Hr2) as [Hd HA].
  split; [|assumption]. rewrite Hr. f_equal. exact Hd.
Qed.

(* ---- lines of a request contain their LF: the flat parser cannot succeed on a line that ran into EOF ---- *)
Lemma in_split_incl d l : In d l -> split_incl d l <> None.
Proof.
  induction l as [|x l IH]; cbn [In split_incl]; [tauto|]. intros [->|H].
  - rewrite N.eqb_refl. discriminate.
  - destruct (x =? d); [discriminate|]. specialize (IH H). destruct (split_incl d l) as [[? ?]|]; [discriminate|congruence].
Qed.

Lemma ends_with_crlf_in l : ends_with_crlf l = true -> In LF l.
Proof.
  induction l as [|x l IH]; [discriminate|]. destruct l as [|b [|c l2]].
  - cbn. discriminate.
  - cbn [ends_with_crlf]. intro H. apply andb_prop in H. destruct H as [_ H]. apply N.eqb_eq in H. subst. cbn. auto.
  - intro H. right. apply IH. exact H.
Qed.

Lemma split_on_in d : forall l f x, In f (split_on d l) -> In x f -> In x l.
Proof.
  induction l as [|y l IH]; intros f x Hf Hx; cbn [split_on] in Hf.
  - destruct Hf as [<-|[]]. destruct Hx.
  - destruct (y =? d).
    + destruct Hf as [<-|Hf]; [destruct Hx|]. right. eapply IH; eassumption.
    + destruct (split_on d l) as [|f0 fs] eqn:E.
      * destruct Hf as [<-|[]]. destruct Hx as [<-|[]]. now left.
      * destruct Hf as [<-|Hf].
        -- destruct Hx as [<-|Hx]; [now left|]. right. apply (IH f0 x); [now left|assumption].
        -- right. apply (IH f x); [now right|assumption].
Qed.

Lemma split_on_tail d x l f0 fs v : split_on d (x :: l) = f0 :: fs -> In v fs -> In v (split_on d l).
Proof.
  cbn [split_on]. destruct (x =? d).
  - intros [= _ <-]. auto.
  - destruct (split_on d l) as [|g gs].
    + intros [= _ <-] [].
    + intros [= _ <-] H. now right.
Qed.

Lemma parse_start_line_has_lf first l x : parse_start_line (first :: l) = Some x -> split_incl LF l <> None.
Proof.
  unfold parse_start_line. destruct (negb (utf8_valid (first :: l))); [discriminate|].
  destruct (split_on SP (first :: l)) as [|m [|target [|v rest]]] eqn:Es; try discriminate.
  destruct (assoc_bytes m method_parse_table); [|discriminate].
  destruct (match split_once 63 target with Some (u, q) => (u, q) | None => (target, []) end) as [uri query].
  destruct (strip_crlf v) as [ver|] eqn:Ev; [|discriminate]. intros _.
  unfold strip_crlf in Ev. destruct (ends_with_crlf v) eqn:Ec; [|discriminate].
  apply in_split_incl. apply (split_on_in SP l v LF); [|now apply ends_with_crlf_in].
  apply (split_on_tail _ _ _ _ _ _ Es). right. now left.
Qed.

Lemma header_line_has_lf l h : parse_header_line l = Some h -> split_incl LF l <> None.
Proof.
  unfold parse_header_line, strip_crlf. destruct (ends_with_crlf l) eqn:Ec; [|discriminate]. intros _.
  apply in_split_incl. now apply ends_with_crlf_in.
Qed.

Lemma beq_crlf_has_lf l : beq l CRLF = true -> split_incl LF l <> None.
Proof.
  destruct l as [|a [|b [|c l]]]; cbn [beq CRLF]; try discriminate.
  - intro H. apply andb_prop in H. destruct H as [_ H]. discriminate.
  - intro H. apply andb_prop in H. destruct H as [_ H]. apply andb_prop in H. destruct H as [H _].
    apply N.eqb_eq in H. subst. apply in_split_incl. cbn. auto.
  - intro H. apply andb_prop in H. destruct H as [_ H]. apply andb_prop in H. destruct H as [_ H]. discriminate.
Qed.

(* ---- the parser layers ---- *)
Lemma header_loop_aligned more : wf_chunks more -> forall f l acc hs rest,
  header_loop_flat f l acc = Ok (hs, rest) ->
  forall f' br, (f <= f')%nat -> aligned more br l ->
  exists br', header_loop_br f' br acc = Ok (hs, br') /\ aligned more br' rest.
Proof.
  intro Wm. induction f as [|f IH]; intros l acc hs rest H f' br Hf A; [discriminate|].
  destruct f' as [|f']; [lia|]. cbn [header_loop_flat] in H. unfold read_until_flat in H.
  destruct (split_incl LF l) as [[a b]|] eqn:Es.
  - destruct (read_line_aligned more br l a b A Es) as (br1 & Hr & A1).
    cbn [header_loop_br]. rewrite Hr.
    destruct (negb (utf8_valid a)); [discriminate|].
    destruct (beq a CRLF).
    + injection H as <- <-. exists br1. auto.
    + destruct (parse_header_line a) as [h|]; [|discriminate].
      apply (IH _ _ _ _ H); [lia|assumption].
  - exfalso. destruct (negb (utf8_valid l)); [discriminate|].
    destruct (beq l CRLF) eqn:Eb; [now apply beq_crlf_has_lf in Eb|].
    destruct (parse_header_line l) as [h|] eqn:Eh; [|discriminate]. now apply header_line_has_lf in Eh.
Qed.

Lemma body_of_aligned more e hs br l c rest : wf_chunks more -> aligned more br l ->
  body_of_flat e hs l = Ok (c, rest) ->
  exists br', body_of_br e hs br = Ok (c, br') /\ aligned more br' rest.
Proof.
  intros Wm A. unfold body_of_flat, body_of_br.
  destruct (hget (HKnown H_ContentLength) hs) as [cl|].
  - destruct (parse_usize cl) as [n|]; [|discriminate].
    destruct (read_exact_flat_N n l) as [[d r]|] eqn:ER; [|discriminate]. intros [= <- <-].
    destruct (read_exact_N_aligned more n br l d r Wm A ER) as (br' & -> & A'). exists br'. auto.
  - intros [= <- <-]. exists br. auto.
Qed.

Theorem parse_request_br_aligned more ipp p first br l req rest : wf_chunks more -> aligned more br l ->
  parse_request_flat ipp p (first :: l) = Ok (req, rest) ->
  exists br', parse_request_br ipp p first br = Ok (req, br') /\ aligned more br' rest.
Proof.
  intros Wm A H. unfold parse_request_flat in H. unfold read_until_flat in H.
  destruct (split_incl LF l) as [[a b]|] eqn:Es.
  - destruct (read_line_aligned more br l a b A Es) as (br1 & Hr & A1).
    unfold parse_request_br. rewrite Hr.
    destruct (parse_start_line (first :: a)) as [[[[m uri] query] version]|]; [|discriminate].
    destruct (header_loop_flat (S (length b)) b []) as [[hs l2]|e|w] eqn:EH; try discriminate.
    destruct (header_loop_aligned more Wm _ _ _ _ _ EH (S (length (contents br1))) br1) as (br2 & -> & A2);
      [rewrite (aligned_contents _ _ _ A1), app_length; lia | assumption |].
    destruct (body_of_flat E_Stream hs l2) as [[c l3]|e|w] eqn:EB; try discriminate.
    destruct (body_of_aligned more _ _ br2 _ _ _ Wm A2 EB) as (br3 & -> & A3).
    injection H as <- <-. exists br3. auto.
  - exfalso. destruct (parse_start_line (first :: l)) as [x|] eqn:EP; [|discriminate].
    now apply parse_start_line_has_lf in EP.
Qed.

(* THE KEY LEMMA.  The reads cs hold exactly one request (and whatever `rest` the flat parser leaves); the client's later
   reads are `more`.  Then the code-shaped parser returns that request with a reader aligned in front of `more`. *)
Theorem parse_request_chunked_aligned ipp p cs more req rest : wf_chunks cs -> wf_chunks more ->
  parse_request_flat ipp p (concat cs) = Ok (req, rest) ->
  exists br, parse_request_chunked ipp p (cs ++ more) = Ok (req, br) /\ aligned more br rest.
Proof.
  intros W Wm H. destruct cs as [|c cs0]; [discriminate|]. inversion W as [|? ? Hc W0]; subst.
  destruct c as [|b c0]; [congruence|].
  unfold parse_request_chunked. cbn [app read length]. destruct (S (length c0) <=? 1)%nat eqn:E.
  - apply Nat.leb_le in E. destruct c0; [|cbn in E; lia]. cbn [concat app] in H.
    apply (parse_request_br_aligned more ipp p b (br_new (cs0 ++ more)) (concat cs0) req rest Wm); [|assumption].
    exists cs0. cbn [br_new buf inner app]. auto.
  - apply Nat.leb_gt in E. cbn [firstn skipn]. cbn [concat app] in H.
    apply (parse_request_br_aligned more ipp p b (br_new (c0 :: cs0 ++ more)) (c0 ++ concat cs0) req rest Wm);
      [|assumption].
    exists (c0 :: cs0). cbn [br_new buf inner app concat]. repeat split.
    constructor; [|assumption]. intros ->. cbn in E. lia.
Qed.

(* the request ends exactly where a read ends: nothing of it is buffered, nothing of the next one was pulled in *)
Corollary parse_request_chunked_exact ipp p cs more req : wf_chunks cs -> wf_chunks more ->
  parse_request_flat ipp p (concat cs) = Ok (req, []) ->
  exists br, parse_request_chunked ipp p (cs ++ more) = Ok (req, br) /\ buf br = [] /\ inner br = more.
Proof.
  intros W Wm H. destruct (parse_request_chunked_aligned ipp p cs more req [] W Wm H) as (br & HP & A).
  exists br. split; [assumption|]. now apply aligned_nil.
Qed.

(* ================================================================================================================ *)
(* The converse situation (finding F01): one read of at most `cap` bytes holds a complete request AND further bytes.   *)
(* The reader pulls the whole read into its buffer; what follows the request stays in the buffer (and dies with it).   *)
(* ================================================================================================================ *)

Lemma fill_buf_inner_nil br : inner br = [] -> inner (fill_buf br) = [].
Proof. intro H. unfold fill_buf. destruct (buf br); [rewrite H; reflexivity | assumption]. Qed.

Lemma read_until_inner_nil d : forall fuel br acc line br',
  inner (fill_buf br) = [] -> read_until fuel d br acc = Some (line, br') -> inner br' = [].
Proof.
  induction fuel as [|f IH]; intros br acc line br' Hi H; [discriminate|]. cbn [read_until] in H.
  destruct (buf (fill_buf br)) as [|x b0]; [now injection H as <- <-|].
  destruct (split_incl d (x :: b0)) as [[a rest]|]; [now injection H as <- <-|].
  apply IH in H; [assumption|]. now apply fill_buf_inner_nil.
Qed.

Lemma read_line_inner_nil br line br' : inner (fill_buf br) = [] -> read_line br = Some (line, br') -> inner br' = [].
Proof. unfold read_line. apply read_until_inner_nil. Qed.

Lemma read_exact_br_inner_nil : forall fuel n br acc d br',
  inner br = [] -> read_exact_br fuel n br acc = ROk d br' -> inner br' = [].
Proof.
  induction fuel as [|f IH]; intros n br acc d br' Hi H;
    (destruct n as [|n0]; [rewrite read_exact_br_0 in H; now injection H as <- <-|]); [discriminate|].
  cbn [read_exact_br] in H. destruct (buf br) as [|x0 b0] eqn:Eb.
  - destruct (cap <=? S n0)%nat.
    + rewrite Hi in H. cbn [read] in H. discriminate.
    + rewrite (fill_buf_nil_inner br Eb Hi) in H. discriminate.
  - apply IH in H; assumption.
Qed.

Lemma read_exact_N_inner_nil n br d br' : inner br = [] -> read_exact_N n br = ROk d br' -> inner br' = [].
Proof.
  unfold read_exact_N, read_exact. intro Hi. destruct (N.of_nat (length (contents br)) <? n); [discriminate|].
  now apply read_exact_br_inner_nil.
Qed.

Lemma header_loop_br_inner_nil : forall fuel br acc hs br',
  inner (fill_buf br) = [] -> header_loop_br fuel br acc = Ok (hs, br') -> inner br' = [].
Proof.
  induction fuel as [|f IH]; intros br acc hs br' Hi H; [discriminate|]. cbn [header_loop_br] in H.
  destruct (read_line br) as [[line br1]|] eqn:Er; [|discriminate].
  apply (read_line_inner_nil _ _ _ Hi) in Er.
  destruct (negb (utf8_valid line)); [discriminate|].
  destruct (beq line CRLF); [now injection H as <- <-|].
  destruct (parse_header_line line); [|discriminate].
  apply IH in H; [assumption|]. now apply fill_buf_inner_nil.
Qed.

Lemma body_of_br_inner_nil e hs br c br' : inner br = [] -> body_of_br e hs br = Ok (c, br') -> inner br' = [].
Proof.
  intro Hi. unfold body_of_br. destruct (hget (HKnown H_ContentLength) hs); [|now intros [= <- <-]].
  destruct (parse_usize b); [|discriminate].
  destruct (read_exact_N n br) as [| |d br2] eqn:Er; try discriminate. intros [= <- <-].
  now apply (read_exact_N_inner_nil _ _ _ _ Hi Er).
Qed.

Lemma parse_request_br_inner_nil ipp p first br req br' :
  inner (fill_buf br) = [] -> parse_request_br ipp p first br = Ok (req, br') -> inner br' = [].
Proof.
  intros Hi H. unfold parse_request_br in H.
  destruct (read_line br) as [[line br1]|] eqn:Er; [|discriminate].
  apply (read_line_inner_nil _ _ _ Hi) in Er.
  destruct (parse_start_line (first :: line)) as [[[[m uri] query] version]|]; [|discriminate].
  destruct (header_loop_br (S (length (contents br1))) br1 []) as [[hs br2]|e|w] eqn:EH; try discriminate.
  apply header_loop_br_inner_nil in EH; [|now apply fill_buf_inner_nil].
  destruct (body_of_br E_Stream hs br2) as [[c br3]|e|w] eqn:EB; try discriminate.
  apply (body_of_br_inner_nil _ _ _ _ _ EH) in EB. now injection H as <- <-.
Qed.

(* one read of at most cap bytes: whatever is parsed, nothing is left unread behind the reader *)
Lemma parse_request_chunked_single_inner ipp p c req br : (length c <= cap)%nat ->
  parse_request_chunked ipp p [c] = Ok (req, br) -> inner br = [].
Proof.
  intros Hc. unfold parse_request_chunked. cbn [read]. destruct (length c <=? 1)%nat eqn:E.
  - destruct c as [|b c0]; [discriminate|]. apply parse_request_br_inner_nil. reflexivity.
  - apply Nat.leb_gt in E. destruct c as [|b c0]; [cbn in E; lia|]. cbn [firstn skipn].
    apply parse_request_br_inner_nil. unfold fill_buf. cbn [br_new buf inner read].
    replace (length c0 <=? cap)%nat with true by (symmetry; apply Nat.leb_le; cbn [length] in Hc; lia). reflexivity.
Qed.

(* the flat parser is stable under appending: derived from the alignment lemma and the refinement, no grammar needed *)
Lemma parse_request_flat_app ipp p r1 r2 req :
  parse_request_flat ipp p r1 = Ok (req, []) -> parse_request_flat ipp p (r1 ++ r2) = Ok (req, r2).
Proof.
  intro H. destruct r2 as [|x r2]; [now rewrite app_nil_r|].
  assert (H1 : r1 <> []) by (intros ->; discriminate).
  assert (W1 : wf_chunks [r1]) by (constructor; [assumption|constructor]).
  assert (W2 : wf_chunks [x :: r2]) by (constructor; [discriminate|constructor]).
  assert (H' : parse_request_flat ipp p (concat [r1]) = Ok (req, [])) by (cbn [concat]; now rewrite app_nil_r).
  destruct (parse_request_chunked_aligned ipp p [r1] [x :: r2] req [] W1 W2 H') as (br & HP & A).
  pose proof (parse_request_chunked_refines ipp p ([r1] ++ [x :: r2]) ltac:(apply Forall_app; auto)) as R.
  rewrite HP in R. cbn [app concat] in R. rewrite app_nil_r in R.
  destruct (parse_request_flat ipp p (r1 ++ x :: r2)) as [[q l]|e|w]; cbn [orel] in R; try contradiction.
  destruct R as (<- & Hc & _). rewrite (aligned_contents _ _ _ A) in Hc. cbn [concat app] in Hc.
  rewrite app_nil_r in Hc. now subst.
Qed.

(* F01 in general: a read of at most cap bytes holding a complete request r1 followed by any further bytes r2: the
   request is parsed, and ALL of r2 sits in the reader's buffer — nothing of it is left for the next reader *)
Theorem parse_request_chunked_coalesced ipp p r1 r2 req : (length (r1 ++ r2) <= cap)%nat ->
  parse_request_flat ipp p r1 = Ok (req, []) ->
  exists br, parse_request_chunked ipp p [r1 ++ r2] = Ok (req, br) /\ buf br = r2 /\ inner br = [].
Proof.
  intros Hc H. pose proof (parse_request_flat_app ipp p r1 r2 req H) as HF.
  assert (H1 : r1 <> []) by (intros ->; discriminate).
  assert (W : wf_chunks [r1 ++ r2]).
  { constructor; [|constructor]. intro E. apply app_eq_nil in E. tauto. }
  pose proof (parse_request_chunked_refines ipp p [r1 ++ r2] W) as R. cbn [concat] in R. rewrite app_nil_r, HF in R.
  destruct (parse_request_chunked ipp p [r1 ++ r2]) as [[q br]|e|w] eqn:EP; cbn [orel] in R; try contradiction.
  destruct R as (-> & Hcont & _). exists br.
  pose proof (parse_request_chunked_single_inner ipp p _ _ _ Hc EP) as Hin.
  unfold contents in Hcont. rewrite Hin in Hcont. cbn [concat] in Hcont. rewrite app_nil_r in Hcont. auto.
Qed.
