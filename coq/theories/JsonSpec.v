(* RFC 8259 as an inductive relation between texts (lists of code points) and the values they denote.
   Independent of the parser model: only the `value` type (and `depth`) are shared with Json.v.

     JSON-text = ws value ws
     ws        = *( %x20 / %x09 / %x0A / %x0D )
     value     = false / null / true / object / array / number / string
     object    = begin-object [ member *( value-separator member ) ] end-object      member = string name-separator value
     array     = begin-array [ value *( value-separator value ) ] end-array
     the six structural characters are each  ws <char> ws
     number    = [ minus ] int [ frac ] [ exp ]
     string    = quotation-mark *char quotation-mark
     char      = unescaped / escape ( %x22 / %x5C / %x2F / b / f / n / r / t / uXXXX )
     unescaped = %x20-21 / %x23-5B / %x5D-10FFFF

   The RFC attaches the insignificant whitespace to the structural characters (so its `array` and `object` carry leading and
   trailing ws); here values are "tight" and the whitespace is written where it can occur: around the top-level value,
   around every array element, around every member key, colon and member value, and inside empty brackets. Same language.

   Denotation: null/true/false; a number literal denotes whatever the f64 oracle `fparse` returns for it; a string denotes
   the sequence of its characters with escapes replaced (uXXXX = that code point; a high-surrogate escape followed by a
   low-surrogate escape = the supplementary code point, RFC 8259 section 7); arrays and objects denote their elements /
   members in document order (duplicate names kept).

   The flag `lone` says whether uXXXX escapes that are unpaired surrogates are admitted (denoting the surrogate code point
   itself): JTextG true is the full RFC 8259 syntax, JTextG false is the sub-language in which every surrogate escape is
   properly paired -- the texts that denote strings of Unicode scalar values. The property allows a parser to reject the
   difference. *)
From Hv Require Import Prelude Json.
Open Scope N_scope.

Definition ws_char (c : N) : Prop := c = 0x20 \/ c = 0x09 \/ c = 0x0a \/ c = 0x0d.
Definition WS (w : str) : Prop := Forall ws_char w.

(* ---- numbers ---- *)
Definition digit (c : N) : Prop := 0x30 <= c <= 0x39.
Definition digit19 (c : N) : Prop := 0x31 <= c <= 0x39.
Definition digits1 (l : str) : Prop := l <> [] /\ Forall digit l.      (* 1*DIGIT *)

Definition JMinus (l : str) : Prop := l = [] \/ l = [0x2d].
Definition JInt (l : str) : Prop := l = [0x30] \/ exists d ds, l = d :: ds /\ digit19 d /\ Forall digit ds.
Definition JFrac (l : str) : Prop := l = [] \/ exists ds, l = 0x2e :: ds /\ digits1 ds.
Definition JExp (l : str) : Prop :=
  l = [] \/ exists e sg ds, l = e :: sg ++ ds /\ (e = 0x65 \/ e = 0x45) /\ (sg = [] \/ sg = [0x2b] \/ sg = [0x2d]) /\ digits1 ds.
Definition JNumber (s : str) : Prop :=
  exists m i f e, s = m ++ i ++ f ++ e /\ JMinus m /\ JInt i /\ JFrac f /\ JExp e.

(* ---- strings ---- *)
Definition unescaped (c : N) : Prop := 0x20 <= c <= 0x21 \/ 0x23 <= c <= 0x5b \/ 0x5d <= c <= 0x10ffff.

(* the two-character escapes: escaped character, denoted code point *)
Definition escape_of (c d : N) : Prop :=
  (c = 0x22 /\ d = 0x22) \/ (c = 0x5c /\ d = 0x5c) \/ (c = 0x2f /\ d = 0x2f) \/ (c = 0x62 /\ d = 0x08) \/
  (c = 0x66 /\ d = 0x0c) \/ (c = 0x6e /\ d = 0x0a) \/ (c = 0x72 /\ d = 0x0d) \/ (c = 0x74 /\ d = 0x09).

Definition hexdigit (c n : N) : Prop :=
  (0x30 <= c <= 0x39 /\ n = c - 0x30) \/ (0x41 <= c <= 0x46 /\ n = c - 0x37) \/ (0x61 <= c <= 0x66 /\ n = c - 0x57).

Definition hex4_is (h1 h2 h3 h4 code : N) : Prop :=
  exists a b c d, hexdigit h1 a /\ hexdigit h2 b /\ hexdigit h3 c /\ hexdigit h4 d /\
                  code = a * 4096 + b * 256 + c * 16 + d.

Definition high_surrogate (c : N) : Prop := 0xD800 <= c <= 0xDBFF.
Definition low_surrogate (c : N) : Prop := 0xDC00 <= c <= 0xDFFF.
Definition surrogate (c : N) : Prop := 0xD800 <= c <= 0xDFFF.

(* string body (between the quotation marks) -> denoted code points *)
Inductive JChars (lone : bool) : str -> str -> Prop :=
| jc_nil : JChars lone [] []
| jc_unescaped : forall c t o, unescaped c -> JChars lone t o -> JChars lone (c :: t) (c :: o)
| jc_escape : forall c d t o, escape_of c d -> JChars lone t o -> JChars lone (0x5c :: c :: t) (d :: o)
| jc_u : forall h1 h2 h3 h4 code t o,
    hex4_is h1 h2 h3 h4 code -> ~ surrogate code -> JChars lone t o ->
    JChars lone (0x5c :: 0x75 :: h1 :: h2 :: h3 :: h4 :: t) (code :: o)
| jc_pair : forall h1 h2 h3 h4 g1 g2 g3 g4 hi lo t o,
    hex4_is h1 h2 h3 h4 hi -> hex4_is g1 g2 g3 g4 lo -> high_surrogate hi -> low_surrogate lo -> JChars lone t o ->
    JChars lone (0x5c :: 0x75 :: h1 :: h2 :: h3 :: h4 :: 0x5c :: 0x75 :: g1 :: g2 :: g3 :: g4 :: t)
           (0x10000 + (hi - 0xD800) * 0x400 + (lo - 0xDC00) :: o)
| jc_lone : forall h1 h2 h3 h4 code t o,
    lone = true -> hex4_is h1 h2 h3 h4 code -> surrogate code -> JChars lone t o ->
    JChars lone (0x5c :: 0x75 :: h1 :: h2 :: h3 :: h4 :: t) (code :: o).

Section Spec.
  Variable F : Type.
  Variable fparse : str -> option F.
  Variable lone : bool.

  Inductive JValue : str -> value F -> Prop :=
  | jv_null : JValue s_null VNull
  | jv_true : JValue s_true (VBool true)
  | jv_false : JValue s_false (VBool false)
  | jv_number : forall s x, JNumber s -> fparse s = Some x -> JValue s (VNum x)
  | jv_string : forall b o, JChars lone b o -> JValue (0x22 :: b ++ [0x22]) (VStr o)
  | jv_array_empty : forall w, WS w -> JValue (0x5b :: w ++ [0x5d]) (VArr [])
  | jv_array : forall b vs, JElems b vs -> JValue (0x5b :: b ++ [0x5d]) (VArr vs)
  | jv_object_empty : forall w, WS w -> JValue (0x7b :: w ++ [0x7d]) (VObj [])
  | jv_object : forall b ms, JMembers b ms -> JValue (0x7b :: b ++ [0x7d]) (VObj ms)
  (* value *( value-separator value ), each value with its surrounding whitespace *)
  with JElems : str -> list (value F) -> Prop :=
  | je_last : forall w1 t v w2, WS w1 -> JValue t v -> WS w2 -> JElems (w1 ++ t ++ w2) [v]
  | je_cons : forall w1 t v w2 b vs,
      WS w1 -> JValue t v -> WS w2 -> JElems b vs -> JElems (w1 ++ t ++ w2 ++ 0x2c :: b) (v :: vs)
  (* member *( value-separator member ), member = string name-separator value *)
  with JMembers : str -> list (str * value F) -> Prop :=
  | jm_last : forall w1 kb k w2 w3 t v w4,
      WS w1 -> JChars lone kb k -> WS w2 -> WS w3 -> JValue t v -> WS w4 ->
      JMembers (w1 ++ 0x22 :: kb ++ 0x22 :: w2 ++ 0x3a :: w3 ++ t ++ w4) [(k, v)]
  | jm_cons : forall w1 kb k w2 w3 t v w4 b ms,
      WS w1 -> JChars lone kb k -> WS w2 -> WS w3 -> JValue t v -> WS w4 -> JMembers b ms ->
      JMembers (w1 ++ 0x22 :: kb ++ 0x22 :: w2 ++ 0x3a :: w3 ++ t ++ w4 ++ 0x2c :: b) ((k, v) :: ms).

  (* JSON-text = ws value ws *)
  Definition JTextG (s : str) (v : value F) : Prop :=
    exists w1 t w2, s = w1 ++ t ++ w2 /\ WS w1 /\ JValue t v /\ WS w2.
End Spec.

Scheme JValue_min := Minimality for JValue Sort Prop
  with JElems_min := Minimality for JElems Sort Prop
  with JMembers_min := Minimality for JMembers Sort Prop.
Combined Scheme JValue_mutind from JValue_min, JElems_min, JMembers_min.

(* ---- unpaired surrogate escapes, as a property of the text ----
   In a JSON text backslashes occur only inside strings, where each one starts an escape; the scan pairs every backslash
   with the character after it and, at a uXXXX escape whose value is a surrogate, demands a high surrogate immediately
   followed by a uXXXX escape that is a low surrogate. (hex4 / is_surrogate are the executable forms of hex4_is /
   surrogate: JsonProofs.hex4_spec, is_surrogate_true.) *)
Fixpoint no_lone_surrogate_escape (s : str) : bool :=
  match s with
  | [] => true
  | c :: r =>
    if c =? 0x5c then
      match r with
      | [] => true
      | e :: r1 =>
        if e =? 0x75 then
          match r1 with
          | h1 :: h2 :: h3 :: h4 :: r4 =>
            match hex4 h1 h2 h3 h4 with
            | Some code =>
              if is_surrogate code then
                if code <? 0xDC00 then
                  match r4 with
                  | b :: u :: g1 :: g2 :: g3 :: g4 :: r10 =>
                    if (b =? 0x5c) && (u =? 0x75) then
                      match hex4 g1 g2 g3 g4 with
                      | Some lo => if (0xDC00 <=? lo) && (lo <=? 0xDFFF) then no_lone_surrogate_escape r10 else false
                      | None => false
                      end
                    else false
                  | _ => false
                  end
                else false
              else no_lone_surrogate_escape r4
            | None => no_lone_surrogate_escape r4
            end
          | _ => true
          end
        else no_lone_surrogate_escape r1
      end
    else no_lone_surrogate_escape r
  end.


(* ---- what the serialiser theorems quantify over ---- *)
(* every code point of a string is at most 0x10FFFF (always true of a Rust String) *)
Definition str_ok (s : str) : Prop := Forall (fun c => c <= 0x10ffff) s.

Section Serialisable.
  Variable F : Type.
  Variable ffinite : F -> Prop.          (* f64::is_finite *)
  (* all numbers finite, all strings and keys made of code points *)
  Fixpoint serialisable (v : value F) : Prop :=
    match v with
    | VNum x => ffinite x
    | VStr s => str_ok s
    | VArr l => fold_right (fun x a => serialisable x /\ a) True l
    | VObj m => fold_right (fun kv a => match kv with (k, x) => str_ok k /\ serialisable x /\ a end) True m
    | _ => True
    end.
End Serialisable.

(* Unicode scalar values (what a Rust char / String can hold) *)
Definition scalar (c : N) : Prop := c < 0xD800 \/ 0xE000 <= c <= 0x10ffff.

Section StringsAll.
  Variable F : Type.
  Variable P : N -> Prop.
  (* every character of every string and key of the value satisfies P *)
  Fixpoint strings_all (v : value F) : Prop :=
    match v with
    | VStr s => Forall P s
    | VArr l => fold_right (fun x a => strings_all x /\ a) True l
    | VObj m => fold_right (fun kv a => match kv with (k, x) => Forall P k /\ strings_all x /\ a end) True m
    | _ => True
    end.
End StringsAll.

(* the texts whose surrogate escapes are all paired, with the value they denote *)
Definition JText {F} (fparse : str -> option F) : str -> value F -> Prop := JTextG F fparse false.
(* RFC 8259 syntax in full (unpaired surrogate escapes admitted) *)
Definition JSyntax {F} (fparse : str -> option F) (s : str) : Prop := exists v, JTextG F fparse true s v.
