(* "Every file that violates ... a validation rule is rejected": whatever Config::from_tree accepts has passed every one
   of its validation steps (so a tree that fails any of them is rejected), and a route is only accepted with a target. *)
From Coq Require Import Lia.
From Hv Require Import Prelude Bytes TablesConfig Config.
Open Scope N_scope.

Lemma opt_or_ok {A} (o : option A) (code : N) (k : A -> res config) (c : config) :
  opt_or o code k = ROk c -> exists a, o = Some a /\ k a = ROk c.
Proof. destruct o as [a|]; cbn; [intro H; exists a; auto|discriminate]. Qed.

Lemma rbind_ok {A B} (x : res A) (f : A -> res B) (b : B) :
  rbind x f = ROk b -> exists a, x = ROk a /\ f a = ROk b.
Proof. destruct x as [a|e|w]; cbn; [intro H; exists a; auto|discriminate|discriminate]. Qed.

Theorem from_tree_accepts_only_valid ipp files tree c :
  from_tree ipp files tree = ROk c ->
  let m := flatten [] tree in
  get_optional_parsed parse_u16 m key_port default_port = Some (cf_port c) /\
  get_optional_parsed parse_usize m key_threads default_threads = Some (cf_threads c) /\
  min_threads <= cf_threads c /\
  (exists t, get_optional_parsed parse_u64 m key_timeout default_timeout = Some t /\
             cf_timeout c = if 0 <? t then Some t else None) /\
  load_blacklist ipp files (get_owned m key_blacklist_file) = ROk (cf_bl_list c) /\
  assoc_b (get_optional m key_blacklist_mode default_blacklist_mode) blacklist_mode_table = Some (cf_bl_mode c) /\
  get_optional_parsed parse_log_level m key_log_level default_log_level = Some (cf_log_level c) /\
  get_optional_parsed parse_bool m key_log_console default_log_console = Some (cf_log_console c) /\
  get_optional_parsed parse_usize m key_cache_size default_cache_size = Some (cf_cache_size c) /\
  get_optional_parsed parse_usize m key_cache_time default_cache_time = Some (cf_cache_time c) /\
  parse_host default_host_matches tree = ROk (cf_default_host c) /\
  collect (fun hn => parse_host (fst hn) (snd hn)) (hosts_of tree) = ROk (cf_hosts c).
Proof.
  unfold from_tree. intro H. cbv zeta.
  apply opt_or_ok in H as (port & Eport & H).
  apply opt_or_ok in H as (threads & Ethreads & H).
  apply opt_or_ok in H as (tsecs & Etime & H).
  destruct (threads <? min_threads) eqn:Emin; [discriminate|].
  apply rbind_ok in H as (bl & Ebl & H).
  apply opt_or_ok in H as (blmode & Emode & H).
  apply opt_or_ok in H as (level & Elevel & H).
  apply opt_or_ok in H as (console & Econsole & H).
  apply opt_or_ok in H as (csize & Ecsize & H).
  apply opt_or_ok in H as (ctime & Ectime & H).
  apply rbind_ok in H as (dhost & Edhost & H).
  apply rbind_ok in H as (hosts & Ehosts & H).
  injection H as <-. cbn.
  apply N.ltb_ge in Emin.
  repeat split; try assumption. exists tsecs. split; [assumption|reflexivity].
Qed.

(* the contrapositive, rule by rule: a tree failing a validation step is rejected (never accepted with another meaning) *)
Corollary from_tree_rejects ipp files tree :
  let m := flatten [] tree in
  (get_optional_parsed parse_u16 m key_port default_port = None \/
   get_optional_parsed parse_usize m key_threads default_threads = None \/
   (exists t, get_optional_parsed parse_usize m key_threads default_threads = Some t /\ t < min_threads) \/
   get_optional_parsed parse_u64 m key_timeout default_timeout = None \/
   (forall bl, load_blacklist ipp files (get_owned m key_blacklist_file) <> ROk bl) \/
   assoc_b (get_optional m key_blacklist_mode default_blacklist_mode) blacklist_mode_table = None \/
   get_optional_parsed parse_log_level m key_log_level default_log_level = None \/
   get_optional_parsed parse_bool m key_log_console default_log_console = None \/
   get_optional_parsed parse_usize m key_cache_size default_cache_size = None \/
   get_optional_parsed parse_usize m key_cache_time default_cache_time = None \/
   (forall h, parse_host default_host_matches tree <> ROk h) \/
   (forall hs, collect (fun hn => parse_host (fst hn) (snd hn)) (hosts_of tree) <> ROk hs)) ->
  forall c, from_tree ipp files tree <> ROk c.
Proof.
  cbv zeta. intros Hbad c Hok.
  pose proof (from_tree_accepts_only_valid _ _ _ _ Hok) as V. cbv zeta in V.
  destruct V as (V1 & V2 & V3 & (t & V4 & _) & V5 & V6 & V7 & V8 & V9 & V10 & V11 & V12).
  destruct Hbad as [B|[B|[(t' & B & Bt)|[B|[B|[B|[B|[B|[B|[B|[B|B]]]]]]]]]]].
  - congruence.
  - congruence.
  - rewrite V2 in B. injection B as <-. lia.
  - congruence.
  - exact (B _ V5).
  - congruence.
  - congruence.
  - congruence.
  - congruence.
  - congruence.
  - exact (B _ V11).
  - exact (B _ V12).
Qed.

(* a route is accepted only with a target: file, directory, proxy (with a recognised load-balancer mode) or redirect, or -
   with none of these - a websocket target *)
Theorem route_for_accepts_only_with_target conf wild rt :
  route_for conf wild = ROk rt ->
  rt_matches rt = wild /\
  ((rt_type rt = RT_File /\ rt_path rt <> None) \/ (rt_type rt = RT_Directory /\ rt_path rt <> None) \/
   (rt_type rt = RT_Redirect /\ rt_path rt <> None) \/
   (rt_type rt = RT_Proxy /\ exists targets mode, rt_lb rt = Some (targets, mode) /\
      assoc_b (get_optional conf rkey_lb_mode default_lb_mode) lb_mode_table = Some mode) \/
   (rt_type rt = RT_ExclusiveWebSocket /\ map_has conf rkey_websocket = true)).
Proof.
  unfold route_for. intro H. cbv zeta in H.
  destruct (map_has conf [102; 105; 108; 101]).
  { destruct (get_owned conf [102; 105; 108; 101]); [|discriminate]. injection H as <-. cbn.
    split; [reflexivity|]. left. split; [reflexivity|discriminate]. }
  destruct (map_has conf [100; 105; 114; 101; 99; 116; 111; 114; 121]).
  { destruct (get_owned conf [100; 105; 114; 101; 99; 116; 111; 114; 121]); [|discriminate]. injection H as <-. cbn.
    split; [reflexivity|]. right. left. split; [reflexivity|discriminate]. }
  destruct (map_has conf rkey_proxy).
  { destruct (get_owned conf rkey_proxy); [|discriminate].
    destruct (assoc_b (get_optional conf rkey_lb_mode default_lb_mode) lb_mode_table) as [mode|] eqn:EM; [|discriminate].
    injection H as <-. cbn. split; [reflexivity|]. right. right. right. left. split; [reflexivity|].
    eexists. eexists. split; [reflexivity|reflexivity]. }
  destruct (map_has conf [114; 101; 100; 105; 114; 101; 99; 116]).
  { destruct (get_owned conf [114; 101; 100; 105; 114; 101; 99; 116]); [|discriminate]. injection H as <-. cbn.
    split; [reflexivity|]. right. right. left. split; [reflexivity|discriminate]. }
  destruct (map_has conf rkey_websocket) eqn:EW; cbn [negb] in H; [|discriminate].
  injection H as <-. cbn. split; [reflexivity|]. right. right. right. right. split; reflexivity.
Qed.

(* every line of an accepted blacklist file is an address *)
Lemma collect_ok_forall {A B} (f : A -> res B) : forall l ys, collect f l = ROk ys -> Forall (fun x => exists y, f x = ROk y) l.
Proof.
  induction l as [|x l IH]; intros ys H; [constructor|]. cbn [collect] in H.
  apply rbind_ok in H as (y & Ey & H). apply rbind_ok in H as (ys' & Eys & _).
  constructor; [exists y; exact Ey|exact (IH _ Eys)].
Qed.

Theorem blacklist_accepts_only_addresses ipp files p bl :
  load_blacklist ipp files (Some p) = ROk bl ->
  exists b, files p = FData b /\ utf8_valid b = true /\ Forall (fun l => ipp l <> None) (lines b).
Proof.
  unfold load_blacklist. destruct (files p) as [| |b]; try discriminate.
  destruct (utf8_valid b) eqn:U; [|discriminate]. intro H. exists b. split; [reflexivity|]. split; [exact U|].
  apply collect_ok_forall in H. eapply Forall_impl; [|exact H]. cbn. intros l (y & E).
  destruct (ipp l); [discriminate|]. unfold verr in E. discriminate.
Qed.
