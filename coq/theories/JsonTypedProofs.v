(* Proofs about the typed JSON mapping model (JsonTyped.v). *)
From Coq Require Import Lia.
From Hv Require Import Prelude TablesJson Json JsonSpec JsonProofs JsonTyped.
Open Scope N_scope.

(* induction principle for the nested type universe *)
Section TyInd.
  Variable P : ty -> Prop.
  Hypothesis Hbool : P TBool.
  Hypothesis Hint : forall bits sg, P (TInt bits sg).
  Hypothesis Hf64 : P TF64.
  Hypothesis Hf32 : P TF32.
  Hypothesis Hstring : P TString.
  Hypothesis Hoption : forall t, P t -> P (TOption t).
  Hypothesis Hvec : forall t, P t -> P (TVec t).
  Hypothesis Hstruct : forall fs, Forall (fun f => P (field_ty f)) fs -> P (TStruct fs).
  Hypothesis Htuple : forall ts, Forall P ts -> P (TTuple ts).
  Hypothesis Henum : forall vs, P (TEnum vs).

  Fixpoint ty_ind' (t : ty) : P t :=
    match t with
    | TBool => Hbool
    | TInt bits sg => Hint bits sg
    | TF64 => Hf64
    | TF32 => Hf32
    | TString => Hstring
    | TOption t' => Hoption t' (ty_ind' t')
    | TVec t' => Hvec t' (ty_ind' t')
    | TStruct fs =>
      Hstruct fs ((fix go (l : list (str * option str * ty)) : Forall (fun f => P (field_ty f)) l :=
                     match l with
                     | [] => Forall_nil _
                     | (a, t') :: r => Forall_cons (a, t') (ty_ind' t') (go r)
                     end) fs)
    | TTuple ts =>
      Htuple ts ((fix go (l : list ty) : Forall P l :=
                    match l with [] => Forall_nil _ | t' :: r => Forall_cons t' (ty_ind' t') (go r) end) ts)
    | TEnum vs => Henum vs
    end.
End TyInd.

Lemma str_eqb_refl (a : str) : str_eqb a a = true.
Proof. apply str_eqb_eq. reflexivity. Qed.

(* decidable forms *)
Lemma str_mem_In (k : str) (l : list str) : str_mem k l = true <-> In k l.
Proof.
  induction l as [|x r IH]; cbn [str_mem In]; [split; [discriminate|tauto]|].
  rewrite orb_true_iff, IH, str_eqb_eq. tauto.
Qed.

Lemma str_nodupb_NoDup (l : list str) : str_nodupb l = true <-> NoDup l.
Proof.
  induction l as [|x r IH]; cbn [str_nodupb]; [split; [constructor|reflexivity]|].
  rewrite andb_true_iff, negb_true_iff, IH. split.
  - intros [H1 H2]. constructor; [|exact H2]. intro Hin. apply str_mem_In in Hin. congruence.
  - intro H. inversion H as [|? ? Hn Hr]; subst. split; [|exact Hr].
    destruct (str_mem x r) eqn:E; [|reflexivity]. apply str_mem_In in E. contradiction.
Qed.

Lemma wf_tyb_sound (t : ty) : wf_tyb t = true -> wf_ty t.
Proof.
  induction t as [| | | | |t' IH|t' IH|fs IH|ts IH|names] using ty_ind'; intro H; try exact I.
  - apply IH. exact H.
  - apply IH. exact H.
  - cbn [wf_tyb] in H. apply andb_true_iff in H. destruct H as [H1 H2]. cbn [wf_ty]. split; [apply str_nodupb_NoDup; exact H1|].
    clear H1. induction fs as [|[[id rn] t'] r IHr]; [exact I|].
    inversion IH as [|? ? Hf Hrest]; subst. apply andb_true_iff in H2. destruct H2 as [H2 H3].
    split; [apply Hf; exact H2|apply IHr; assumption].
  - cbn [wf_tyb] in H. cbn [wf_ty]. induction ts as [|t' r IHr]; [exact I|].
    inversion IH as [|? ? Hf Hrest]; subst. apply andb_true_iff in H. destruct H as [H2 H3].
    split; [apply Hf; exact H2|apply IHr; assumption].
  - cbn [wf_tyb] in H. cbn [wf_ty]. apply str_nodupb_NoDup. exact H.
Qed.

Section TypedProofs.
  Variable F : Type.
  Variable F32 : Type.
  Variable of_int : Z -> F.
  Variable f2z : F -> Z.
  Variable widen : F32 -> F.
  Variable narrow : F -> F32.

  Notation rval := (rval F F32).
  Notation value := (value F).
  Notation to_json := (to_json F F32 of_int widen).
  Notation from_json := (from_json F F32 f2z narrow).
  Notation has_type := (has_type F F32).
  Notation val_forall := (val_forall F F32).
  Notation lossless := (lossless F F32 of_int f2z).
  Notation in_range := (in_range F F32).
  Notation no_some_none := (no_some_none F F32).
  Notation cast_int := (cast_int F f2z).

  (* ---- the inner loops as top-level functions, and the unfolding equations ---- *)
  Fixpoint fields_to_json (fs : list (str * option str * ty)) (vs : list rval) : list (str * value) :=
    match fs, vs with
    | f :: r, x :: xs => (field_key f, to_json (field_ty f) x) :: fields_to_json r xs
    | _, _ => []
    end.
  Fixpoint tuple_to_json (ts : list ty) (vs : list rval) : list value :=
    match ts, vs with
    | t' :: r, x :: xs => to_json t' x :: tuple_to_json r xs
    | _, _ => []
    end.
  Fixpoint vec_from (t : ty) (l : list value) : outcome (list rval) :=
    match l with
    | [] => Ok []
    | x :: r =>
      match from_json t x with
      | Ok v => match vec_from t r with Ok vs => Ok (v :: vs) | Err e => Err e | Crash w => Crash w end
      | Err e => Err e
      | Crash w => Crash w
      end
    end.
  Fixpoint fields_from (fs : list (str * option str * ty)) (j : value) : outcome (list rval) :=
    match fs with
    | [] => Ok []
    | f :: r =>
      match from_json (field_ty f) (or_null F (get_key F (field_key f) j)) with
      | Ok v => match fields_from r j with Ok vs => Ok (v :: vs) | Err e => Err e | Crash w => Crash w end
      | Err e => Err e
      | Crash w => Crash w
      end
    end.
  Fixpoint tuple_from (ts : list ty) (i : nat) (j : value) : outcome (list rval) :=
    match ts with
    | [] => Ok []
    | t' :: r =>
      match from_json t' (or_null F (get_idx F i j)) with
      | Ok v => match tuple_from r (S i) j with Ok vs => Ok (v :: vs) | Err e => Err e | Crash w => Crash w end
      | Err e => Err e
      | Crash w => Crash w
      end
    end.
  Fixpoint has_type_fields (fs : list (str * option str * ty)) (vs : list rval) : Prop :=
    match fs, vs with
    | [], [] => True
    | f :: r, x :: xs => has_type x (field_ty f) /\ has_type_fields r xs
    | _, _ => False
    end.
  Fixpoint has_type_tuple (ts : list ty) (vs : list rval) : Prop :=
    match ts, vs with
    | [], [] => True
    | t' :: r, x :: xs => has_type x t' /\ has_type_tuple r xs
    | _, _ => False
    end.
  Fixpoint forall_fields (P : ty -> rval -> Prop) (fs : list (str * option str * ty)) (vs : list rval) : Prop :=
    match fs, vs with
    | f :: r, x :: xs => val_forall P (field_ty f) x /\ forall_fields P r xs
    | _, _ => True
    end.
  Fixpoint forall_tuple (P : ty -> rval -> Prop) (ts : list ty) (vs : list rval) : Prop :=
    match ts, vs with
    | t' :: r, x :: xs => val_forall P t' x /\ forall_tuple P r xs
    | _, _ => True
    end.
  Fixpoint wf_fields (fs : list (str * option str * ty)) : Prop :=
    match fs with [] => True | f :: r => wf_ty (field_ty f) /\ wf_fields r end.
  Fixpoint wf_tuple (ts : list ty) : Prop :=
    match ts with [] => True | t' :: r => wf_ty t' /\ wf_tuple r end.

  Lemma to_json_struct fs vs : to_json (TStruct fs) (RStruct vs) = VObj (fields_to_json fs vs).
  Proof.
    cbn [JsonTyped.to_json]. f_equal.
    all: revert vs; induction fs as [|[[id rn] t'] r IH]; intros [|x xs]; try reflexivity.
    all: cbn [fields_to_json field_key field_ty fst snd]; rewrite <- IH; reflexivity.
  Qed.
  Lemma to_json_tuple ts vs : to_json (TTuple ts) (RTuple vs) = VArr (tuple_to_json ts vs).
  Proof.
    cbn [JsonTyped.to_json]. f_equal.
    all: revert vs; induction ts as [|t' r IH]; intros [|x xs]; try reflexivity.
    all: cbn [tuple_to_json]; rewrite <- IH; reflexivity.
  Qed.
  Lemma from_json_vec t j :
    from_json (TVec t) j =
    match j with
    | VArr l => match vec_from t l with Ok vs => Ok (RVec vs) | Err e => Err e | Crash w => Crash w end
    | _ => Err E_TYPE
    end.
  Proof.
    destruct j; try reflexivity. cbn [JsonTyped.from_json].
    match goal with |- match ?a with _ => _ end = match ?b with _ => _ end => assert (E : a = b) end.
    { induction l as [|x r IH]; [reflexivity|]. cbn [vec_from]. rewrite <- IH. reflexivity. }
    rewrite E. reflexivity.
  Qed.
  Lemma from_json_struct fs j :
    from_json (TStruct fs) j =
    match fields_from fs j with Ok vs => Ok (RStruct vs) | Err e => Err e | Crash w => Crash w end.
  Proof.
    cbn [JsonTyped.from_json].
    match goal with |- match ?a with _ => _ end = match ?b with _ => _ end => assert (E : a = b) end.
    { induction fs as [|[[id rn] t'] r IH]; [reflexivity|].
      cbn [fields_from field_key field_ty fst snd]. rewrite <- IH. reflexivity. }
    rewrite E. reflexivity.
  Qed.
  Lemma from_json_tuple ts j :
    from_json (TTuple ts) j =
    if negb (Nat.eqb (match j with VArr l => length l | _ => O end) (length ts)) then Err E_TYPE
    else match tuple_from ts O j with Ok vs => Ok (RTuple vs) | Err e => Err e | Crash w => Crash w end.
  Proof.
    cbn [JsonTyped.from_json]. destruct (negb _); [reflexivity|].
    match goal with |- match ?a with _ => _ end = match ?b with _ => _ end => assert (E : a = b) end.
    { generalize O. induction ts as [|t' r IH]; intro i; [reflexivity|].
      cbn [tuple_from]. rewrite <- IH. reflexivity. }
    rewrite E. reflexivity.
  Qed.
  Lemma has_type_struct fs vs : has_type (RStruct vs) (TStruct fs) <-> has_type_fields fs vs.
  Proof.
    cbn [JsonTyped.has_type]. revert vs. induction fs as [|[[id rn] t'] r IH]; intros [|x xs]; try tauto.
    cbn [has_type_fields field_ty snd]. rewrite <- IH. tauto.
  Qed.
  Lemma has_type_tuple_eq ts vs : has_type (RTuple vs) (TTuple ts) <-> has_type_tuple ts vs.
  Proof.
    cbn [JsonTyped.has_type]. revert vs. induction ts as [|t' r IH]; intros [|x xs]; try tauto.
    cbn [has_type_tuple]. rewrite <- IH. tauto.
  Qed.
  Lemma val_forall_struct P fs vs :
    val_forall P (TStruct fs) (RStruct vs) <-> P (TStruct fs) (RStruct vs) /\ forall_fields P fs vs.
  Proof.
    cbn [JsonTyped.val_forall].
    match goal with |- _ /\ ?a <-> _ /\ ?b => assert (E : a <-> b) end.
    { revert vs. induction fs as [|[[id rn] t'] r IH]; intros [|x xs]; try tauto.
      cbn [forall_fields field_ty snd]. rewrite <- IH. tauto. }
    tauto.
  Qed.
  Lemma val_forall_tuple P ts vs :
    val_forall P (TTuple ts) (RTuple vs) <-> P (TTuple ts) (RTuple vs) /\ forall_tuple P ts vs.
  Proof.
    cbn [JsonTyped.val_forall].
    match goal with |- _ /\ ?a <-> _ /\ ?b => assert (E : a <-> b) end.
    { revert vs. induction ts as [|t' r IH]; intros [|x xs]; try tauto.
      cbn [forall_tuple]. rewrite <- IH. tauto. }
    tauto.
  Qed.
  Lemma wf_ty_struct fs : wf_ty (TStruct fs) <-> NoDup (map field_key fs) /\ wf_fields fs.
  Proof.
    cbn [wf_ty].
    match goal with |- _ /\ ?a <-> _ /\ ?b => assert (E : a <-> b) end.
    { induction fs as [|[[id rn] t'] r IH]; [tauto|]. cbn [wf_fields field_ty snd]. rewrite <- IH. tauto. }
    tauto.
  Qed.
  Lemma wf_ty_tuple ts : wf_ty (TTuple ts) <-> wf_tuple ts.
  Proof. cbn [wf_ty]. induction ts as [|t' r IH]; [tauto|]. cbn [wf_tuple]. rewrite <- IH. tauto. Qed.

  (* ---- lengths ---- *)
  Lemma has_type_fields_length fs vs : has_type_fields fs vs -> length vs = length fs.
  Proof.
    revert vs. induction fs as [|f r IH]; intros [|x xs] H; cbn in H; try contradiction; [reflexivity|].
    cbn [length]. f_equal. apply IH. tauto.
  Qed.
  Lemma has_type_tuple_length ts vs : has_type_tuple ts vs -> length vs = length ts.
  Proof.
    revert vs. induction ts as [|f r IH]; intros [|x xs] H; cbn in H; try contradiction; [reflexivity|].
    cbn [length]. f_equal. apply IH. tauto.
  Qed.
  Lemma tuple_to_json_length ts vs : length vs = length ts -> length (tuple_to_json ts vs) = length ts.
  Proof.
    revert vs. induction ts as [|t' r IH]; intros [|x xs] H; cbn in H; try discriminate; [reflexivity|].
    cbn [tuple_to_json length]. f_equal. apply IH. lia.
  Qed.

  (* ---- lookups ---- *)
  Lemma assoc_first_app_notin (k : str) (m1 m2 : list (str * value)) :
    ~ In k (map fst m1) -> assoc_first F k (m1 ++ m2) = assoc_first F k m2.
  Proof.
    induction m1 as [|[k' x] r IH]; intro H; [reflexivity|].
    cbn [app assoc_first]. cbn [map fst In] in H.
    rewrite str_eqb_neq by tauto. apply IH. tauto.
  Qed.
  Lemma assoc_first_head (k : str) (x : value) (m : list (str * value)) : assoc_first F k ((k, x) :: m) = Some x.
  Proof. cbn [assoc_first]. rewrite str_eqb_refl. reflexivity. Qed.

  Lemma nth_error_app_len {A} (pre : list A) (x : A) (r : list A) : nth_error (pre ++ x :: r) (length pre) = Some x.
  Proof. induction pre; [reflexivity|assumption]. Qed.

  (* ---- round trip of the components ---- *)
  Definition RT (t : ty) (v : rval) : Prop := from_json t (to_json t v) = Ok v.

  Fixpoint RT_fields (fs : list (str * option str * ty)) (vs : list rval) : Prop :=
    match fs, vs with
    | f :: r, x :: xs => RT (field_ty f) x /\ RT_fields r xs
    | _, _ => True
    end.
  Fixpoint RT_tuple (ts : list ty) (vs : list rval) : Prop :=
    match ts, vs with
    | t' :: r, x :: xs => RT t' x /\ RT_tuple r xs
    | _, _ => True
    end.

  Lemma ok_cons_inv (a b : rval) (l m : list rval) (x : outcome rval) (y : outcome (list rval)) :
    match x with
    | Ok v => match y with Ok vs => Ok (v :: vs) | Err e => Err e | Crash w => Crash w end
    | Err e => Err e
    | Crash w => Crash w
    end = Ok (b :: m) <-> x = Ok b /\ y = Ok m.
  Proof.
    destruct x as [v| |]; [|split; [discriminate|intros [H _]; discriminate]..].
    destruct y as [vs| |]; [|split; [discriminate|intros [_ H]; discriminate]..].
    split; [intro H; inversion H; subst; tauto|intros [H1 H2]; inversion H1; inversion H2; reflexivity].
  Qed.

  Lemma vec_roundtrip_iff t (l : list rval) : vec_from t (map (to_json t) l) = Ok l <-> Forall (RT t) l.
  Proof.
    induction l as [|x r IH]; [split; [constructor|reflexivity]|].
    cbn [map vec_from]. rewrite (ok_cons_inv x x r r), IH. unfold RT at 2.
    split; [intros [H1 H2]; constructor; assumption|intro H; inversion H; tauto].
  Qed.

  Lemma fields_roundtrip_iff fs : forall vs pre,
    has_type_fields fs vs ->
    NoDup (map fst pre ++ map field_key fs) ->
    (fields_from fs (VObj (pre ++ fields_to_json fs vs)) = Ok vs <-> RT_fields fs vs).
  Proof.
    induction fs as [|f r IH]; intros [|x xs] pre Ht Hnd; cbn in Ht; try contradiction.
    - split; [constructor|reflexivity].
    - destruct Ht as [Hx Hxs].
      cbn [fields_to_json fields_from RT_fields].
      rewrite (ok_cons_inv x x xs xs).
      assert (Hk : ~ In (field_key f) (map fst pre)).
      { cbn [map] in Hnd. apply NoDup_remove_2 in Hnd. intro Hin. apply Hnd. apply in_or_app. left. exact Hin. }
      cbn [get_key]. rewrite assoc_first_app_notin by exact Hk. rewrite assoc_first_head. cbn [or_null].
      assert (E : pre ++ (field_key f, to_json (field_ty f) x) :: fields_to_json r xs =
                  (pre ++ [(field_key f, to_json (field_ty f) x)]) ++ fields_to_json r xs)
        by (rewrite <- app_assoc; reflexivity).
      rewrite E. rewrite IH; [unfold RT; tauto|exact Hxs|].
      rewrite map_app. cbn [map fst]. rewrite <- app_assoc. exact Hnd.
  Qed.

  Lemma tuple_roundtrip_iff ts : forall vs (pre : list value),
    has_type_tuple ts vs ->
    (tuple_from ts (length pre) (VArr (pre ++ tuple_to_json ts vs)) = Ok vs <-> RT_tuple ts vs).
  Proof.
    induction ts as [|t' r IH]; intros [|x xs] pre Ht; cbn in Ht; try contradiction.
    - split; [constructor|reflexivity].
    - destruct Ht as [Hx Hxs].
      cbn [tuple_to_json tuple_from RT_tuple].
      rewrite (ok_cons_inv x x xs xs).
      cbn [get_idx]. rewrite nth_error_app_len. cbn [or_null].
      assert (E : pre ++ to_json t' x :: tuple_to_json r xs = (pre ++ [to_json t' x]) ++ tuple_to_json r xs)
        by (rewrite <- app_assoc; reflexivity).
      assert (El : S (length pre) = length (pre ++ [to_json t' x])) by (rewrite app_length; cbn; lia).
      rewrite E, El. rewrite IH by exact Hxs. unfold RT. tauto.
  Qed.

  Lemma variant_index_nth (names : list (str * option str)) : forall i k vr,
    NoDup (map variant_name names) -> nth_error names i = Some vr ->
    variant_index s_null [] 0 = None ->   (* dummy to keep the statement first-order; always true *)
    variant_index (variant_name vr) names k = Some (k + i)%nat.
  Proof.
    induction names as [|n r IH]; intros i k vr Hnd Hn _; [destruct i; discriminate|].
    cbn [variant_index]. destruct i as [|i].
    - cbn in Hn. inversion Hn; subst. rewrite str_eqb_refl. f_equal. lia.
    - cbn [nth_error] in Hn. cbn [map] in Hnd. inversion Hnd as [|? ? Hnot Hr]; subst.
      rewrite str_eqb_neq.
      + rewrite (IH i (S k) vr Hr Hn eq_refl). f_equal. lia.
      + intro E. apply Hnot. rewrite E. apply in_map. eapply nth_error_In. exact Hn.
  Qed.

  (* ---- Null is produced only by None (for values that lose nothing) ---- *)
  Lemma to_json_null_iff (t : ty) : forall v, has_type v t -> lossless t v -> (to_json t v = VNull <-> v = RNone).
  Proof.
    induction t as [| | | | |t' IH|t' IH|fs IH|ts IH|names] using ty_ind'; intros v Ht Hl.
    - destruct v; cbn in Ht; try contradiction. split; discriminate.
    - destruct v; cbn in Ht; try contradiction. split; discriminate.
    - destruct v; cbn in Ht; try contradiction. split; discriminate.
    - destruct v; cbn in Ht; try contradiction. split; discriminate.
    - destruct v; cbn in Ht; try contradiction. split; discriminate.
    - destruct v as [| | | | | |v'| | | |]; cbn in Ht; try contradiction.
      + split; reflexivity.
      + cbn [JsonTyped.to_json]. destruct Hl as [[_ Hn] Hl']. cbn [JsonTyped.val_forall] in Hl'.
        specialize (IH v' Ht Hl'). split; [|discriminate].
        intro E. apply IH in E. subst. cbn in Hn. destruct Hn.
    - destruct v; cbn in Ht; try contradiction. split; discriminate.
    - destruct v; try (cbn in Ht; contradiction). rewrite to_json_struct. split; discriminate.
    - destruct v; try (cbn in Ht; contradiction). rewrite to_json_tuple. split; discriminate.
    - destruct v; cbn in Ht; try contradiction. cbn [JsonTyped.to_json].
      destruct (nth_error names i) eqn:E; [split; discriminate|].
      apply nth_error_None in E. lia.
  Qed.

  (* ---- the boolean checks imply the judgements ---- *)
  Lemma has_typeb_sound (t : ty) : forall v, has_typeb F F32 v t = true -> has_type v t.
  Proof.
    induction t as [| | | | |t' IH|t' IH|fs IH|ts IH|names] using ty_ind'; intros v H;
      try (destruct v; cbn in H; try discriminate H; exact I).
    - destruct v; cbn in H; try discriminate H. cbn. apply andb_true_iff in H. destruct H as [H1 H2].
      apply Z.leb_le in H1. apply Z.leb_le in H2. lia.
    - destruct v; cbn in H; try discriminate H; [exact I|]. cbn. apply IH. exact H.
    - destruct v; cbn in H; try discriminate H. cbn. rewrite forallb_forall in H. apply Forall_forall.
      intros x Hx. apply IH. apply H. exact Hx.
    - destruct v; try (cbn in H; discriminate H). apply has_type_struct.
      cbn [JsonTyped.has_typeb] in H. revert l H.
      induction fs as [|[[id rn] t'] r IHr]; intros [|x xs] H; try discriminate H; [exact I|].
      inversion IH as [|? ? Hf Hrest]; subst. apply andb_true_iff in H. destruct H as [H1 H2].
      cbn [has_type_fields field_ty snd] in *. split; [apply Hf; exact H1|apply IHr; assumption].
    - destruct v; try (cbn in H; discriminate H). apply has_type_tuple_eq.
      cbn [JsonTyped.has_typeb] in H. revert l H.
      induction ts as [|t' r IHr]; intros [|x xs] H; try discriminate H; [exact I|].
      inversion IH as [|? ? Hf Hrest]; subst. apply andb_true_iff in H. destruct H as [H1 H2].
      cbn [has_type_tuple] in *. split; [apply Hf; exact H1|apply IHr; assumption].
    - destruct v; cbn in H; try discriminate H. cbn. apply Nat.ltb_lt in H. exact H.
  Qed.

  Hypothesis narrow_widen : forall x : F32, narrow (widen x) = x.

  (* ---- the round trip succeeds exactly on the values that lose nothing ---- *)
  Theorem typed_roundtrip_iff (t : ty) :
    wf_ty t -> forall v, has_type v t -> (from_json t (to_json t v) = Ok v <-> lossless t v).
  Proof.
    induction t as [| | | | |t' IH|t' IH|fs IH|ts IH|names] using ty_ind'; intros Hwf v Ht.
    - destruct v; cbn in Ht; try contradiction. cbn. tauto.
    - destruct v; cbn in Ht; try contradiction. cbn [JsonTyped.to_json JsonTyped.from_json].
      unfold JsonTyped.lossless. cbn [JsonTyped.val_forall int_exact not_some_none].
      split; [intro H; inversion H as [H1]; rewrite H1; tauto|intros [[H _] _]; rewrite H; reflexivity].
    - destruct v; cbn in Ht; try contradiction. cbn. tauto.
    - destruct v; cbn in Ht; try contradiction. cbn [JsonTyped.to_json JsonTyped.from_json]. rewrite narrow_widen. cbn. tauto.
    - destruct v; cbn in Ht; try contradiction. cbn. tauto.
    - (* Option *)
      cbn [wf_ty] in Hwf. destruct v as [| | | | | |v'| | | |]; cbn in Ht; try contradiction.
      + cbn. tauto.
      + specialize (IH Hwf v' Ht).
        unfold JsonTyped.lossless. cbn [JsonTyped.val_forall int_exact].
        change (val_forall (fun t v => int_exact F F32 of_int f2z t v /\ not_some_none F F32 t v) t' v') with (lossless t' v').
        cbn [JsonTyped.to_json JsonTyped.from_json].
        split.
        * intro H. destruct (to_json t' v') eqn:Ej; try discriminate H;
            (destruct (from_json t' _) as [w| |] eqn:Ef; [|discriminate H..]; inversion H; subst w;
             assert (Hl : lossless t' v') by (apply IH; first [reflexivity|exact Ef|rewrite Ej; exact Ef]);
             split; [|exact Hl]; split; [exact I|];
             destruct v'; try exact I;
             (* v' = RNone: then to_json is Null *)
             exfalso; destruct t'; cbn in Ht; try tauto; cbn in Ej; discriminate Ej).
        * intros [[_ Hn] Hl].
          assert (Hnn : to_json t' v' <> VNull).
          { intro E. apply (to_json_null_iff t' v' Ht Hl) in E. subst. cbn in Hn. destruct Hn. }
          apply IH in Hl. destruct (to_json t' v') eqn:Ej; [congruence|..]; rewrite Hl; reflexivity.
    - (* Vec *)
      cbn [wf_ty] in Hwf. destruct v; cbn in Ht; try contradiction.
      cbn [JsonTyped.to_json]. rewrite from_json_vec.
      unfold JsonTyped.lossless. cbn [JsonTyped.val_forall int_exact not_some_none].
      assert (E : vec_from t' (map (to_json t') l) = Ok l <-> Forall (lossless t') l).
      { rewrite vec_roundtrip_iff. rewrite !Forall_forall. rewrite Forall_forall in Ht.
        split; intros H x Hx; apply (IH Hwf x (Ht x Hx)); apply H; exact Hx. }
      split.
      + intro H. destruct (vec_from t' (map (to_json t') l)) as [vs| |] eqn:Ev; try discriminate H.
        inversion H; subst vs. split; [tauto|]. apply E. reflexivity.
      + intros [_ H]. apply E in H. rewrite H. reflexivity.
    - (* named struct *)
      apply wf_ty_struct in Hwf. destruct Hwf as [Hnd Hwf].
      destruct v; try (cbn in Ht; contradiction). apply has_type_struct in Ht.
      rewrite to_json_struct, from_json_struct.
      unfold JsonTyped.lossless. rewrite val_forall_struct. cbn [int_exact not_some_none].
      assert (E : fields_from fs (VObj (fields_to_json fs l)) = Ok l <->
                  forall_fields (fun t v => int_exact F F32 of_int f2z t v /\ not_some_none F F32 t v) fs l).
      { rewrite (fields_roundtrip_iff fs l [] Ht Hnd).
        clear Hnd. revert l Ht. induction fs as [|f r IHr]; intros [|x xs] Ht; cbn in Ht; try contradiction;
          [cbn; tauto|].
        cbn [RT_fields forall_fields]. inversion IH as [|? ? Hf Hr]; subst. destruct Hwf as [Hwf1 Hwf2]. destruct Ht as [Ht1 Ht2].
        rewrite (IHr Hr Hwf2 xs Ht2). unfold RT. rewrite (Hf Hwf1 x Ht1). reflexivity. }
      split.
      + intro H. destruct (fields_from fs (VObj (fields_to_json fs l))) as [vs| |] eqn:Ev; try discriminate H.
        inversion H; subst vs. split; [tauto|]. apply E. reflexivity.
      + intros [_ H]. apply E in H. rewrite H. reflexivity.
    - (* tuple struct *)
      apply wf_ty_tuple in Hwf.
      destruct v; try (cbn in Ht; contradiction). apply has_type_tuple_eq in Ht.
      rewrite to_json_tuple, from_json_tuple.
      rewrite (tuple_to_json_length ts l (has_type_tuple_length ts l Ht)). rewrite Nat.eqb_refl. cbn [negb].
      unfold JsonTyped.lossless. rewrite val_forall_tuple. cbn [int_exact not_some_none].
      assert (E : tuple_from ts 0 (VArr (tuple_to_json ts l)) = Ok l <->
                  forall_tuple (fun t v => int_exact F F32 of_int f2z t v /\ not_some_none F F32 t v) ts l).
      { rewrite (tuple_roundtrip_iff ts l [] Ht).
        revert l Ht. induction ts as [|t' r IHr]; intros [|x xs] Ht; cbn in Ht; try contradiction;
          [cbn; tauto|].
        cbn [RT_tuple forall_tuple]. inversion IH as [|? ? Hf Hr]; subst. destruct Hwf as [Hwf1 Hwf2]. destruct Ht as [Ht1 Ht2].
        rewrite (IHr Hr Hwf2 xs Ht2). unfold RT. rewrite (Hf Hwf1 x Ht1). reflexivity. }
      split.
      + intro H. destruct (tuple_from ts 0 (VArr (tuple_to_json ts l))) as [vs| |] eqn:Ev; try discriminate H.
        inversion H; subst vs. split; [tauto|]. apply E. reflexivity.
      + intros [_ H]. apply E in H. rewrite H. reflexivity.
    - (* enum *)
      cbn [wf_ty] in Hwf. destruct v; cbn in Ht; try contradiction.
      cbn [JsonTyped.to_json]. destruct (nth_error names i) as [vr|] eqn:En; [|apply nth_error_None in En; lia].
      cbn [JsonTyped.from_json]. rewrite (variant_index_nth names i 0 vr Hwf En eq_refl). cbn. tauto.
  Qed.

  (* ---- val_forall: monotone on well-typed values, conjunction ---- *)
  Lemma val_forall_impl (P Q : ty -> rval -> Prop) :
    (forall t v, has_type v t -> P t v -> Q t v) ->
    forall t v, has_type v t -> val_forall P t v -> val_forall Q t v.
  Proof.
    intros HPQ t.
    induction t as [| | | | |t' IH|t' IH|fs IH|ts IH|names] using ty_ind'; intros v Ht Hp;
      try (destruct Hp as [Hp _]; split; [apply HPQ; assumption|exact I]).
    - destruct Hp as [Hp Hr]. split; [apply HPQ; assumption|].
      destruct v; try exact I. cbn in Ht. apply IH; assumption.
    - destruct Hp as [Hp Hr]. split; [apply HPQ; assumption|].
      destruct v; try exact I. cbn in Ht. rewrite Forall_forall in *. intros x Hx. apply IH; [apply Ht|apply Hr]; exact Hx.
    - destruct v; try (cbn in Ht; contradiction).
      apply val_forall_struct in Hp. apply val_forall_struct. destruct Hp as [Hp Hr]. split; [apply HPQ; assumption|].
      apply has_type_struct in Ht. clear Hp. revert l Ht Hr.
      induction fs as [|f r IHr]; intros [|x xs] Ht Hr; cbn in Ht; try contradiction; [exact I|].
      inversion IH as [|? ? Hf Hrest]; subst. cbn [forall_fields] in *. split; [apply Hf; tauto|apply IHr; tauto].
    - destruct v; try (cbn in Ht; contradiction).
      apply val_forall_tuple in Hp. apply val_forall_tuple. destruct Hp as [Hp Hr]. split; [apply HPQ; assumption|].
      apply has_type_tuple_eq in Ht. clear Hp. revert l Ht Hr.
      induction ts as [|f r IHr]; intros [|x xs] Ht Hr; cbn in Ht; try contradiction; [exact I|].
      inversion IH as [|? ? Hf Hrest]; subst. cbn [forall_tuple] in *. split; [apply Hf; tauto|apply IHr; tauto].
  Qed.

  Lemma val_forall_and (P Q : ty -> rval -> Prop) :
    forall t v, has_type v t -> val_forall P t v -> val_forall Q t v -> val_forall (fun t v => P t v /\ Q t v) t v.
  Proof.
    intros t.
    induction t as [| | | | |t' IH|t' IH|fs IH|ts IH|names] using ty_ind'; intros v Ht Hp Hq;
      try (destruct Hp as [Hp _]; destruct Hq as [Hq _]; split; [tauto|exact I]).
    - destruct Hp as [Hp Hr]. destruct Hq as [Hq Hr']. split; [tauto|].
      destruct v; try exact I. cbn in Ht. apply IH; assumption.
    - destruct Hp as [Hp Hr]. destruct Hq as [Hq Hr']. split; [tauto|].
      destruct v; try exact I. cbn in Ht. rewrite Forall_forall in *. intros x Hx. apply IH; [apply Ht|apply Hr|apply Hr']; exact Hx.
    - destruct v; try (cbn in Ht; contradiction).
      apply val_forall_struct in Hp. apply val_forall_struct in Hq. apply val_forall_struct.
      destruct Hp as [Hp Hr]. destruct Hq as [Hq Hr']. split; [tauto|].
      apply has_type_struct in Ht. clear Hp Hq. revert l Ht Hr Hr'.
      induction fs as [|f r IHr]; intros [|x xs] Ht Hr Hr'; cbn in Ht; try contradiction; [exact I|].
      inversion IH as [|? ? Hf Hrest]; subst. cbn [forall_fields] in *. split; [apply Hf; tauto|apply IHr; tauto].
    - destruct v; try (cbn in Ht; contradiction).
      apply val_forall_tuple in Hp. apply val_forall_tuple in Hq. apply val_forall_tuple.
      destruct Hp as [Hp Hr]. destruct Hq as [Hq Hr']. split; [tauto|].
      apply has_type_tuple_eq in Ht. clear Hp Hq. revert l Ht Hr Hr'.
      induction ts as [|f r IHr]; intros [|x xs] Ht Hr Hr'; cbn in Ht; try contradiction; [exact I|].
      inversion IH as [|? ? Hf Hrest]; subst. cbn [forall_tuple] in *. split; [apply Hf; tauto|apply IHr; tauto].
  Qed.

  (* a type without Option<Option<_>> has no value containing Some(None) *)
  Lemma no_nested_option_values (t : ty) : no_nested_option t -> forall v, has_type v t -> no_some_none t v.
  Proof.
    induction t as [| | | | |t' IH|t' IH|fs IH|ts IH|names] using ty_ind'; intros Hn v Ht;
      try (split; [destruct v; cbn in Ht; try tauto; exact I|exact I]).
    - cbn [no_nested_option] in Hn. destruct v as [| | | | | |v'| | | |]; cbn in Ht; try contradiction.
      + split; exact I.
      + split.
        * destruct v'; try exact I. destruct t'; cbn in Ht; tauto.
        * apply IH; [destruct t'; tauto|exact Ht].
    - cbn [no_nested_option] in Hn. destruct v; cbn in Ht; try contradiction. split; [exact I|].
      rewrite Forall_forall in *. intros x Hx. apply IH; [exact Hn|apply Ht; exact Hx].
    - destruct v; try (cbn in Ht; contradiction). apply val_forall_struct. split; [exact I|].
      apply has_type_struct in Ht. cbn [no_nested_option] in Hn. revert l Ht.
      induction fs as [|[[id rn] t'] r IHr]; intros [|x xs] Ht; cbn in Ht; try contradiction; [exact I|].
      inversion IH as [|? ? Hf Hrest]; subst. cbn [forall_fields field_ty snd] in *.
      split; [apply Hf; tauto|apply IHr; tauto].
    - destruct v; try (cbn in Ht; contradiction). apply val_forall_tuple. split; [exact I|].
      apply has_type_tuple_eq in Ht. cbn [no_nested_option] in Hn. revert l Ht.
      induction ts as [|t' r IHr]; intros [|x xs] Ht; cbn in Ht; try contradiction; [exact I|].
      inversion IH as [|? ? Hf Hrest]; subst. cbn [forall_tuple] in *.
      split; [apply Hf; tauto|apply IHr; tauto].
  Qed.

  (* ---- the hypothesis on the double <-> integer casts: exact up to 2^53 ---- *)
  Hypothesis int_cast_exact : forall z : Z, (Z.abs z <= 2 ^ 53)%Z -> f2z (of_int z) = z.

  Lemma clamp_id (lo hi z : Z) : (lo <= z <= hi)%Z -> clamp lo hi z = z.
  Proof.
    intro H. unfold clamp. destruct (z <? lo)%Z eqn:E1; [apply Z.ltb_lt in E1; lia|].
    destruct (hi <? z)%Z eqn:E2; [apply Z.ltb_lt in E2; lia|]. reflexivity.
  Qed.

  Lemma in_range_exact (t : ty) (v : rval) : has_type v t -> in_range t v -> val_forall (int_exact F F32 of_int f2z) t v.
  Proof.
    apply val_forall_impl. clear t v. intros t v Ht H.
    destruct t; try exact I. destruct v; try exact I. cbn in Ht, H |- *.
    unfold JsonTyped.cast_int. rewrite int_cast_exact by exact H. apply clamp_id. exact Ht.
  Qed.

  Theorem typed_roundtrip_values (t : ty) (v : rval) :
    wf_ty t -> has_type v t -> in_range t v -> no_some_none t v -> from_json t (to_json t v) = Ok v.
  Proof.
    intros Hwf Ht Hr Hn. apply typed_roundtrip_iff; [exact Hwf|exact Ht|].
    apply val_forall_and; [exact Ht|apply in_range_exact; assumption|exact Hn].
  Qed.

  Theorem typed_roundtrip (t : ty) (v : rval) :
    wf_ty t -> has_type v t -> in_range t v -> no_nested_option t -> from_json t (to_json t v) = Ok v.
  Proof.
    intros Hwf Ht Hr Hn. apply typed_roundtrip_values; try assumption. apply no_nested_option_values; assumption.
  Qed.

  (* ---- shape ---- *)
  Theorem shape_struct fs vs :
    has_type (RStruct vs) (TStruct fs) ->
    exists ms, to_json (TStruct fs) (RStruct vs) = VObj ms /\
               map fst ms = map field_key fs /\
               Forall2 (fun fv m => snd m = to_json (field_ty (fst fv)) (snd fv)) (combine fs vs) ms.
  Proof.
    intro Ht. apply has_type_struct in Ht. exists (fields_to_json fs vs). split; [apply to_json_struct|].
    revert vs Ht. induction fs as [|f r IH]; intros [|x xs] Ht; cbn in Ht; try contradiction.
    - split; [reflexivity|constructor].
    - destruct (IH xs (proj2 Ht)) as [H1 H2]. cbn [fields_to_json map fst combine]. split; [f_equal; exact H1|].
      constructor; [reflexivity|exact H2].
  Qed.

  Theorem shape_tuple ts vs :
    has_type (RTuple vs) (TTuple ts) ->
    exists js, to_json (TTuple ts) (RTuple vs) = VArr js /\
               length js = length ts /\
               Forall2 (fun tv j => j = to_json (fst tv) (snd tv)) (combine ts vs) js.
  Proof.
    intro Ht. apply has_type_tuple_eq in Ht. exists (tuple_to_json ts vs). split; [apply to_json_tuple|].
    split; [apply tuple_to_json_length, has_type_tuple_length, Ht|].
    revert vs Ht. induction ts as [|f r IH]; intros [|x xs] Ht; cbn in Ht; try contradiction.
    - constructor.
    - cbn [tuple_to_json combine]. constructor; [reflexivity|apply IH; tauto].
  Qed.

  Theorem shape_enum names i vr :
    nth_error names i = Some vr -> to_json (TEnum names) (REnum i) = VStr (variant_name vr).
  Proof. intro H. cbn [JsonTyped.to_json]. rewrite H. reflexivity. Qed.

  (* a key that is absent from the object (and any non-object) is read as Null, hence as None by an Option field *)
  Theorem missing_key_is_none (t : ty) (k : str) (j : value) :
    get_key F k j = None -> from_json (TOption t) (or_null F (get_key F k j)) = Ok RNone.
  Proof. intro H. rewrite H. reflexivity. Qed.

  (* ---- from_json on an ARBITRARY JSON value: a value of the type or TypeError, never a panic ---- *)
  Definition good_from (t : ty) (j : value) : Prop :=
    (exists v, from_json t j = Ok v /\ has_type v t) \/ from_json t j = Err E_TYPE.

  Lemma clamp_range (lo hi z : Z) : (lo <= hi)%Z -> (lo <= clamp lo hi z <= hi)%Z.
  Proof.
    intro H. unfold clamp. destruct (z <? lo)%Z eqn:E1; [lia|]. apply Z.ltb_ge in E1.
    destruct (hi <? z)%Z eqn:E2; [lia|]. apply Z.ltb_ge in E2. lia.
  Qed.

  Lemma int_range_nonempty (bits : N) (sg : bool) : 0 < bits -> (int_lo bits sg <= int_hi bits sg)%Z.
  Proof.
    intro H. unfold int_lo, int_hi. destruct sg.
    - assert (0 < 2 ^ (Z.of_N bits - 1))%Z by (apply Z.pow_pos_nonneg; lia). lia.
    - assert (0 < 2 ^ Z.of_N bits)%Z by (apply Z.pow_pos_nonneg; lia). lia.
  Qed.

  Lemma variant_index_bound (s : str) (names : list (str * option str)) : forall k i,
    variant_index s names k = Some i -> (k <= i < k + length names)%nat.
  Proof.
    induction names as [|n r IH]; intros k i H; [discriminate|].
    cbn [variant_index] in H. destruct (str_eqb (variant_name n) s).
    - inversion H; subst. cbn [length]. lia.
    - apply IH in H. cbn [length]. lia.
  Qed.

  Theorem from_json_total (t : ty) : ints_ok t -> forall j, good_from t j.
  Proof.
    unfold good_from.
    induction t as [| | | | |t' IH|t' IH|fs IH|ts IH|names] using ty_ind'; intros Hi j.
    - destruct j; cbn; try (right; reflexivity). left. eexists. split; [reflexivity|exact I].
    - destruct j; cbn [JsonTyped.from_json]; try (right; reflexivity). left. eexists. split; [reflexivity|].
      cbn. apply clamp_range. apply int_range_nonempty. exact Hi.
    - destruct j; cbn; try (right; reflexivity). left. eexists. split; [reflexivity|exact I].
    - destruct j; cbn; try (right; reflexivity). left. eexists. split; [reflexivity|exact I].
    - destruct j; cbn; try (right; reflexivity). left. eexists. split; [reflexivity|exact I].
    - (* Option *)
      cbn [ints_ok] in Hi. specialize (IH Hi).
      assert (H : forall j', j' <> VNull ->
                  (exists v, match from_json t' j' with Ok v => Ok (RSome v) | Err e => Err e | Crash w => Crash w end = Ok v
                             /\ has_type v (TOption t')) \/
                  match from_json t' j' with Ok v => Ok (RSome v) | Err e => Err e | Crash w => Crash w end = Err E_TYPE).
      { intros j' _. destruct (IH j') as [(v & E & Hv)|E]; rewrite E; [left; eexists; split; [reflexivity|exact Hv]|right; reflexivity]. }
      destruct j; cbn [JsonTyped.from_json]; try (apply H; discriminate).
      left. eexists. split; [reflexivity|exact I].
    - (* Vec *)
      cbn [ints_ok] in Hi. specialize (IH Hi). rewrite from_json_vec.
      destruct j; try (right; reflexivity).
      assert (H : (exists vs, vec_from t' l = Ok vs /\ Forall (fun x => has_type x t') vs) \/ vec_from t' l = Err E_TYPE).
      { induction l as [|x r IHr]; [left; exists []; split; [reflexivity|constructor]|].
        cbn [vec_from]. destruct (IH x) as [(v & E & Hv)|E]; rewrite E; [|right; reflexivity].
        destruct IHr as [(vs & E2 & Hvs)|E2]; rewrite E2; [|right; reflexivity].
        left. exists (v :: vs). split; [reflexivity|constructor; assumption]. }
      destruct H as [(vs & E & Hvs)|E]; rewrite E; [left; eexists; split; [reflexivity|exact Hvs]|right; reflexivity].
    - (* named struct *)
      rewrite from_json_struct.
      assert (H : (exists vs, fields_from fs j = Ok vs /\ has_type_fields fs vs) \/ fields_from fs j = Err E_TYPE).
      { cbn [ints_ok] in Hi. induction fs as [|[[id rn] t'] r IHr]; [left; exists []; split; [reflexivity|exact I]|].
        inversion IH as [|? ? Hf Hr]; subst. destruct Hi as [Hi1 Hi2]. cbn [field_ty snd] in Hf.
        cbn [fields_from field_ty field_key fst snd].
        destruct (Hf Hi1 (or_null F (get_key F (field_key (id, rn, t')) j))) as [(v & E & Hv)|E]; rewrite E; [|right; reflexivity].
        destruct (IHr Hr Hi2) as [(vs & E2 & Hvs)|E2]; rewrite E2; [|right; reflexivity].
        left. exists (v :: vs). split; [reflexivity|]. cbn [has_type_fields field_ty snd]. split; assumption. }
      destruct H as [(vs & E & Hvs)|E]; rewrite E; [left; eexists; split; [reflexivity|apply has_type_struct; exact Hvs]|right; reflexivity].
    - (* tuple struct *)
      rewrite from_json_tuple. destruct (negb _); [right; reflexivity|].
      assert (H : forall i, (exists vs, tuple_from ts i j = Ok vs /\ has_type_tuple ts vs) \/ tuple_from ts i j = Err E_TYPE).
      { cbn [ints_ok] in Hi. induction ts as [|t' r IHr]; intro i; [left; exists []; split; [reflexivity|exact I]|].
        inversion IH as [|? ? Hf Hr]; subst. destruct Hi as [Hi1 Hi2].
        cbn [tuple_from].
        destruct (Hf Hi1 (or_null F (get_idx F i j))) as [(v & E & Hv)|E]; rewrite E; [|right; reflexivity].
        destruct (IHr Hr Hi2 (S i)) as [(vs & E2 & Hvs)|E2]; rewrite E2; [|right; reflexivity].
        left. exists (v :: vs). split; [reflexivity|]. cbn [has_type_tuple]. split; assumption. }
      destruct (H 0%nat) as [(vs & E & Hvs)|E]; rewrite E; [left; eexists; split; [reflexivity|apply has_type_tuple_eq; exact Hvs]|right; reflexivity].
    - (* enum *)
      destruct j; cbn [JsonTyped.from_json]; try (right; reflexivity).
      destruct (variant_index s names 0) as [i|] eqn:E; [|right; reflexivity].
      left. eexists. split; [reflexivity|]. cbn. apply variant_index_bound in E. lia.
  Qed.

  (* ---- F27: Some(None) is read back as None, for every instance of the casts ---- *)
  Theorem nested_option_lossy (t : ty) :
    from_json (TOption (TOption t)) (to_json (TOption (TOption t)) (RSome RNone)) = Ok RNone.
  Proof. reflexivity. Qed.

  (* ---- F26: an integer that `as f64` rounds is not read back ---- *)
  Theorem int_rounding_lossy (bits : N) (sg : bool) (z z' : Z) :
    of_int z = of_int z' -> z <> z' -> (Z.abs z' <= 2 ^ 53)%Z -> (int_lo bits sg <= z' <= int_hi bits sg)%Z ->
    from_json (TInt bits sg) (to_json (TInt bits sg) (RInt z)) = Ok (RInt z') /\
    from_json (TInt bits sg) (to_json (TInt bits sg) (RInt z)) <> Ok (RInt z).
  Proof.
    intros E Hne Hr Hb. cbn [JsonTyped.to_json JsonTyped.from_json]. rewrite E.
    unfold JsonTyped.cast_int. rewrite int_cast_exact by exact Hr. rewrite clamp_id by exact Hb.
    split; [reflexivity|]. intro H. inversion H. congruence.
  Qed.
End TypedProofs.

(* ------------------------------------------------------------------------------------------------ *)
(* the integer-only instance: hypotheses satisfiable, refutation witnesses computed *)

Lemma round53_small (z : Z) : (Z.abs z <= 2 ^ 53)%Z -> round53 z = z.
Proof.
  intro H. unfold round53.
  destruct (Z.eq_dec (Z.abs z) (2 ^ 53)) as [E|E].
  - destruct (Z.abs_spec z) as [[_ A]|[_ A]]; rewrite A in E.
    + subst z. vm_compute. reflexivity.
    + assert (z = - 2 ^ 53)%Z by lia. subst z. vm_compute. reflexivity.
  - assert (Hlt : (Z.abs z < 2 ^ 53)%Z) by lia.
    assert (Hl : (Z.log2 (Z.abs z) < 53)%Z).
    { destruct (Z.eq_dec (Z.abs z) 0) as [E0|E0]; [rewrite E0; cbn; lia|].
      apply Z.log2_lt_pow2; lia. }
    destruct (Z.log2 (Z.abs z) - 52 <=? 0)%Z eqn:El; [reflexivity|]. apply Z.leb_gt in El. lia.
Qed.

Lemma zinstance_exact : forall z : Z, (Z.abs z <= 2 ^ 53)%Z -> (fun x : Z => x) (round53 z) = z.
Proof. intros z H. apply round53_small. exact H. Qed.

(* u64 field holding 2^53 + 1: comes back as 2^53 *)
Definition f26_type : ty := TStruct [([0x61], None, TInt 64 false)].
Definition f26_value : rval Z Z := RStruct [RInt (2 ^ 53 + 1)].

Theorem typed_int_refuted :
  wf_ty f26_type /\ has_type Z Z f26_value f26_type /\ no_nested_option f26_type /\
  zroundtrip f26_type f26_value = Ok (RStruct [RInt (2 ^ 53)]) /\
  zroundtrip f26_type f26_value <> Ok f26_value.
Proof.
  split; [|split; [|split; [|split]]].
  - cbn. split; [|tauto]. constructor; [intros []|constructor].
  - cbn. lia.
  - cbn. tauto.
  - vm_compute. reflexivity.
  - vm_compute. discriminate.
Qed.

(* Option<Option<bool>> field holding Some(None): comes back as None *)
Definition f27_type : ty := TStruct [([0x61], None, TOption (TOption TBool))].
Definition f27_value : rval Z Z := RStruct [RSome RNone].

Theorem typed_nested_option_refuted :
  wf_ty f27_type /\ has_type Z Z f27_value f27_type /\ in_range Z Z f27_type f27_value /\
  zroundtrip f27_type f27_value = Ok (RStruct [RNone]) /\
  zroundtrip f27_type f27_value <> Ok f27_value.
Proof.
  split; [|split; [|split; [|split]]].
  - cbn. split; [|tauto]. constructor; [intros []|constructor].
  - cbn. tauto.
  - cbn. tauto.
  - vm_compute. reflexivity.
  - vm_compute. discriminate.
Qed.

(* ------------------------------------------------------------------------------------------------ *)
(* the same round trip through text: from_str (to_string v) = v  (typed mapping + C13 round trip) *)
Section TypedTextProofs.
  Variable F : Type.
  Variable F32 : Type.
  Variable of_int : Z -> F.
  Variable f2z : F -> Z.
  Variable widen : F32 -> F.
  Variable narrow : F -> F32.
  Variable fparse : str -> option F.
  Variable fdisplay : F -> str.
  Variable ffinite : F -> Prop.
  Hypothesis narrow_widen : forall x : F32, narrow (widen x) = x.
  Hypothesis display_is_number : forall x, ffinite x -> JNumber (fdisplay x).
  Hypothesis parse_display : forall x, ffinite x -> fparse (fdisplay x) = Some x.

  Notation to_json := (to_json F F32 of_int widen).
  Notation has_type := (has_type F F32).
  Notation text_ok := (text_ok F F32 of_int widen ffinite).

  (* ---- nesting depth of to_json is bounded by the type ---- *)
  Fixpoint fields_depth (fs : list (str * option str * ty)) : N :=
    match fs with [] => 0 | f :: r => N.max (ty_depth (field_ty f)) (fields_depth r) end.
  Fixpoint tuple_depth (ts : list ty) : N :=
    match ts with [] => 0 | t' :: r => N.max (ty_depth t') (tuple_depth r) end.
  Lemma ty_depth_struct fs : ty_depth (TStruct fs) = 1 + fields_depth fs.
  Proof.
    cbn [ty_depth]. f_equal.
    all: induction fs as [|[[id rn] t'] r IH]; [reflexivity|].
    all: cbn [fields_depth field_ty snd]; rewrite <- IH; reflexivity.
  Qed.
  Lemma ty_depth_tuple ts : ty_depth (TTuple ts) = 1 + tuple_depth ts.
  Proof.
    cbn [ty_depth]. f_equal.
    all: induction ts as [|t' r IH]; [reflexivity|].
    all: cbn [tuple_depth]; rewrite <- IH; reflexivity.
  Qed.

  Lemma depth_to_json (t : ty) : forall v, depth (to_json t v) <= ty_depth t.
  Proof.
    induction t as [| | | | |t' IH|t' IH|fs IH|ts IH|names] using ty_ind'; intro v;
      try (destruct v; cbn; lia).
    - destruct v; try (cbn; lia). cbn [JsonTyped.to_json ty_depth]. apply IH.
    - destruct v; try (cbn; lia). cbn [JsonTyped.to_json ty_depth]. rewrite depth_arr.
      apply N.add_le_mono_l. induction l as [|x r IHr]; [cbn; lia|].
      cbn [map]. rewrite depth_list_cons. apply N.max_lub; [apply IH|exact IHr].
    - destruct v; try (cbn; lia). rewrite to_json_struct, depth_obj, ty_depth_struct.
      apply N.add_le_mono_l. revert l. induction fs as [|f r IHr]; intros [|x xs]; try (cbn; lia).
      inversion IH as [|? ? Hf Hr]; subst. cbn [fields_to_json fields_depth]. rewrite depth_members_cons.
      specialize (IHr Hr xs). specialize (Hf x). lia.
    - destruct v; try (cbn; lia). rewrite to_json_tuple, depth_arr, ty_depth_tuple.
      apply N.add_le_mono_l. revert l. induction ts as [|t' r IHr]; intros [|x xs]; try (cbn; lia).
      inversion IH as [|? ? Hf Hr]; subst. cbn [tuple_to_json tuple_depth]. rewrite depth_list_cons.
      specialize (IHr Hr xs). specialize (Hf x). lia.
    - destruct v; try (cbn; lia). cbn [JsonTyped.to_json]. destruct (nth_error names i); cbn; lia.
  Qed.

  (* ---- to_json of a value with finite numbers and proper strings is serialisable ---- *)
  Fixpoint names_fields (fs : list (str * option str * ty)) : Prop :=
    match fs with [] => True | f :: r => str_ok (field_key f) /\ names_all str_ok (field_ty f) /\ names_fields r end.
  Fixpoint names_tuple (ts : list ty) : Prop :=
    match ts with [] => True | t' :: r => names_all str_ok t' /\ names_tuple r end.
  Lemma names_all_struct fs : names_all str_ok (TStruct fs) <-> names_fields fs.
  Proof.
    cbn [names_all]. induction fs as [|[[id rn] t'] r IH]; [tauto|].
    cbn [names_fields field_key field_ty fst snd]. rewrite <- IH. tauto.
  Qed.
  Lemma names_all_tuple ts : names_all str_ok (TTuple ts) <-> names_tuple ts.
  Proof. cbn [names_all]. induction ts as [|t' r IH]; [tauto|]. cbn [names_tuple]. rewrite <- IH. tauto. Qed.

  Lemma to_json_serialisable (t : ty) :
    names_all str_ok t -> forall v, has_type v t -> text_ok t v -> serialisable F ffinite (to_json t v).
  Proof.
    induction t as [| | | | |t' IH|t' IH|fs IH|ts IH|names] using ty_ind'; intros Hn v Ht Hok.
    - destruct v; cbn in Ht; try contradiction. exact I.
    - destruct v; cbn in Ht; try contradiction. destruct Hok as [H _]. exact H.
    - destruct v; cbn in Ht; try contradiction. destruct Hok as [H _]. exact H.
    - destruct v; cbn in Ht; try contradiction. destruct Hok as [H _]. exact H.
    - destruct v; cbn in Ht; try contradiction. destruct Hok as [H _]. exact H.
    - destruct v; cbn in Ht; try contradiction; [exact I|].
      cbn [JsonTyped.to_json]. destruct Hok as [_ H]. apply IH; [exact Hn|exact Ht|exact H].
    - destruct v; cbn in Ht; try contradiction. destruct Hok as [_ H]. cbn [JsonTyped.to_json].
      apply (serialisable_arr F ffinite). rewrite Forall_forall in *. intros j Hj. apply in_map_iff in Hj.
      destruct Hj as (x & Ex & Hx). subst j. apply IH; [exact Hn|apply Ht; exact Hx|apply H; exact Hx].
    - destruct v; try (cbn in Ht; contradiction). apply has_type_struct in Ht.
      apply (val_forall_struct F F32) in Hok. destruct Hok as [_ Hok]. apply names_all_struct in Hn.
      rewrite to_json_struct. apply (serialisable_obj F ffinite).
      revert l Ht Hok. induction fs as [|f r IHr]; intros [|x xs] Ht Hok; cbn in Ht; try contradiction; [constructor|].
      inversion IH as [|? ? Hf Hr]; subst. destruct Hn as (Hk & Hnf & Hnr). destruct Ht as [Ht1 Ht2]. destruct Hok as [Ho1 Ho2].
      cbn [fields_to_json]. constructor; [cbn [fst snd]; split; [exact Hk|apply Hf; assumption]|apply IHr; assumption].
    - destruct v; try (cbn in Ht; contradiction). apply has_type_tuple_eq in Ht.
      apply (val_forall_tuple F F32) in Hok. destruct Hok as [_ Hok]. apply names_all_tuple in Hn.
      rewrite to_json_tuple. apply (serialisable_arr F ffinite).
      revert l Ht Hok. induction ts as [|t' r IHr]; intros [|x xs] Ht Hok; cbn in Ht; try contradiction; [constructor|].
      inversion IH as [|? ? Hf Hr]; subst. destruct Hn as (Hnf & Hnr). destruct Ht as [Ht1 Ht2]. destruct Hok as [Ho1 Ho2].
      cbn [tuple_to_json]. constructor; [apply Hf; assumption|apply IHr; assumption].
    - destruct v; cbn in Ht; try contradiction. cbn [JsonTyped.to_json].
      destruct (nth_error names i) as [vr|] eqn:E; [|exact I].
      cbn [names_all] in Hn. rewrite Forall_forall in Hn. apply (Hn vr). eapply nth_error_In. exact E.
  Qed.

  Theorem typed_text_roundtrip (t : ty) (v : rval F F32) :
    wf_ty t -> has_type v t -> lossless F F32 of_int f2z t v ->
    serialisable F ffinite (to_json t v) -> depth (to_json t v) <= MAX_DEPTH ->
    from_str F F32 f2z narrow fparse t (to_string F F32 of_int widen fdisplay t v) = Ok v.
  Proof.
    intros Hwf Ht Hl Hs Hd. unfold from_str, to_string, parse.
    rewrite (JsonProofs.roundtrip F fparse fdisplay ffinite display_is_number parse_display MAX_DEPTH _ Hs Hd).
    apply (typed_roundtrip_iff F F32 of_int f2z widen narrow narrow_widen t Hwf v Ht). exact Hl.
  Qed.

  (* the same with hypotheses that can be read off the declaration and the value *)
  Theorem typed_text_roundtrip_decl (t : ty) (v : rval F F32) :
    wf_ty t -> has_type v t -> lossless F F32 of_int f2z t v ->
    names_all str_ok t -> text_ok t v -> ty_depth t <= MAX_DEPTH ->
    from_str F F32 f2z narrow fparse t (to_string F F32 of_int widen fdisplay t v) = Ok v.
  Proof.
    intros Hwf Ht Hl Hn Hok Hd. apply typed_text_roundtrip; try assumption.
    - apply to_json_serialisable; assumption.
    - eapply N.le_trans; [apply depth_to_json|exact Hd].
  Qed.
End TypedTextProofs.
