(* Specification vocabulary for the converse ("every file inside is served intact") theorems of C06.
   Definitions only: what a well-formed file tree is, what the property's "path without `..` or `:`" means per
   component, and how a request path is spelled from a list of names.  The model these talk about is StaticFs.v. *)
From Hv Require Import Prelude Bytes TablesHttp Http Percent StaticFs.
Open Scope N_scope.

(* ---- names that a real directory can contain ----
   A directory entry name on a POSIX file system is a non-empty byte string without '/' and NUL, and is never "." or
   ".." (those are not entries of the tree but navigation).  *)
Definition name_ok (n : bytes) : Prop :=
  n <> [] /\ n <> [DOT] /\ n <> [DOT; DOT] /\
  existsb (fun b => b =? SLASH) n = false /\ has_nul n = false.

(* ---- well-formed file tree ----
   In every directory the entry names are pairwise different and each is a possible name; recursively.
   Uniqueness is what makes `assoc_name n es` (the FIRST entry called n) "THE entry called n": see
   StaticFsCompleteProofs.assoc_name_unique (In (n, v) es -> assoc_name n es = Some v).  The converse theorems do not
   otherwise depend on it. *)
Inductive wf_fs : node -> Prop :=
| wf_file : forall content, wf_fs (File content)
| wf_dir : forall es,
    NoDup (map fst es) ->
    (forall k v, In (k, v) es -> name_ok k) ->
    (forall k v, In (k, v) es -> wf_fs v) ->
    wf_fs (Dir es).

(* executable checker, for the examples (soundness: StaticFsCompleteProofs.wf_fsb_sound) *)
Definition name_okb (n : bytes) : bool :=
  negb (beq n []) && negb (beq n [DOT]) && negb (beq n [DOT; DOT]) &&
  negb (existsb (fun b => b =? SLASH) n) && negb (has_nul n).

Fixpoint nodupb (l : list bytes) : bool :=
  match l with
  | [] => true
  | x :: l' => negb (existsb (beq x) l') && nodupb l'
  end.

Fixpoint wf_fsb (n : node) : bool :=
  match n with
  | File _ => true
  | Dir es =>
    nodupb (map fst es) &&
    (fix go (es : list (bytes * node)) : bool :=
       match es with
       | [] => true
       | (k, v) :: es' => name_okb k && wf_fsb v && go es'
       end) es
  end.

(* ---- the property's exclusions, per path component ----
   "whose path contains no `..` or `:`": no component contains the substring ".." or the byte ':'.
   The handlers that decode additionally require the decoded path to be a Rust String, i.e. valid UTF-8
   (the property's residue: "non-UTF-8 file names"). *)
Definition no_dd_colon (n : bytes) : Prop :=
  contains_sub [DOT; DOT] n = false /\ contains_sub [58] n = false.

Definition clean (n : bytes) : Prop := utf8_valid n = true /\ no_dd_colon n.

(* ---- spelling a request path ---- *)
(* the components joined by d ("a/b/c"); [] for no component *)
Fixpoint join (d : N) (l : list bytes) : bytes :=
  match l with
  | [] => []
  | x :: l' => match l' with [] => x | _ :: _ => x ++ d :: join d l' end
  end.

(* the slash form of a directory path: every component followed by '/' ("a/b/", and "" for the directory itself) *)
Definition dir_path (l : list bytes) : bytes := flat_map (fun s => s ++ [SLASH]) l.

(* `segs` spell `names` under percent-encoding: each segment decodes (once) to its name.  Instances:
   segs = map percent_encode names (StaticFsCompleteProofs.spells_encode), and segs = names when no name contains '%'
   (spells_raw). *)
Definition spells (segs names : list bytes) : Prop :=
  Forall2 (fun s n => pct_decode s = Some n) segs names.

(* The Content-Type a file name gets: from its extension; without one, none (library handlers) or the default type
   (server `directory` routes, always = true). *)
Definition content_type_of (always : bool) (name : bytes) : option bytes :=
  match extension name with
  | Some e => Some (mime_of_ext e)
  | None => if always then Some (mime_of_ext []) else None
  end.

(* what a directory with entries `es` answers to its slash form: index.html if that entry is a regular file, else
   index.htm if that is one, else 404 *)
Definition INDEX_HTML : bytes := [105;110;100;101;120;46;104;116;109;108].
Definition INDEX_HTM : bytes := [105;110;100;101;120;46;104;116;109].
Definition index_response (es : list (bytes * node)) : resp :=
  match assoc_name INDEX_HTML es with
  | Some (File c) => R200 c (Some (mime_of_ext [104;116;109;108]))
  | _ => match assoc_name INDEX_HTM es with
         | Some (File c) => R200 c (Some (mime_of_ext [104;116;109]))
         | _ => R404
         end
  end.

(* ---- the example tree of props/C06_complete.v (non-vacuity) ---- *)
Definition ex_fs : node :=
  Dir [([119;119;119],                                                   (* www *)
        Dir [([115;112;32;97;99;101;46;99;115;115], File [1]);            (* "sp ace.css" *)
             ([113;37;52;49;46;116;120;116], File [2]);                   (* "q%41.txt" *)
             ([195;169;46;106;115], File [3]);                            (* "é.js" *)
             ([99;46;116;97;114;46;103;122], File [4]);                   (* "c.tar.gz" *)
             ([98], File [5]);                                            (* "b" *)
             ([46;104;105;100;100;101;110], File [6]);                    (* ".hidden" *)
             ([100;111;116;46], File [7]);                                (* "dot." *)
             ([97;32;98],                                                 (* "a b" *)
              Dir [([105;110;100;101;120;46;104;116;109;108], Dir []);    (* index.html is a directory *)
                   ([105;110;100;101;120;46;104;116;109], File [8]);      (* index.htm *)
                   ([112;43;113;46;104;116;109;108], File [9])]);         (* "p+q.html" *)
             ([101], Dir [])]);                                           (* "e": empty directory *)
       ([115;101;99], File [99])].                                        (* canary outside *)
Definition ex_dir : bytes := [47;119;119;119;47].                        (* "/www/" *)
Definition ex_root : list bytes := [[119;119;119]].


(* the smallest tree with one file under the served directory "www" (witnesses of C06_complete_without_exclusions_refuted) *)
Definition one_file_tree (name : bytes) : node := Dir [([119;119;119], Dir [(name, File [1])])].

