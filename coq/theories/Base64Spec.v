(* RFC 4648 §4 ("Base 64 Encoding") transcribed on bit strings. Independent of the shape of base64.rs:
   no 3-byte case split, no shifts or masks — the input is one bit string, cut into 6-bit groups. Definitions only. *)
From Hv Require Import Prelude BitsBE.
Open Scope N_scope.

(* Table 1: The Base 64 Alphabet.  0..25 -> 'A'..'Z', 26..51 -> 'a'..'z', 52..61 -> '0'..'9', 62 -> '+', 63 -> '/' *)
Definition rfc_sym (v : N) : N :=
  if v <? 26 then 65 + v
  else if v <? 52 then 97 + (v - 26)
  else if v <? 62 then 48 + (v - 52)
  else if v =? 62 then 43
  else 47.

Definition rfc_pad : N := 61.                  (* (pad) = *)

(* the value of a symbol = its position in Table 1 (None if it is not in the table) *)
Definition rfc_val (c : N) : option N :=
  find (fun v => rfc_sym v =? c) (map N.of_nat (seq 0 64)).

Definition in_alphabet (c : N) : bool := match rfc_val c with Some _ => true | None => false end.

(* §4: "The encoding process represents 24-bit groups of input bits as output strings of 4 encoded characters.
   Proceeding from left to right, a 24-bit input group is formed by concatenating 3 8-bit input groups. These 24
   bits are then treated as 4 concatenated 6-bit groups, each of which is translated into a single character ...
   When fewer than 24 input bits are available in an input group, bits with value zero are added (on the right) to
   form an integral number of 6-bit groups. Padding at the end of the data is performed using the '=' character"
   so that the output is a whole number of 4-character groups. *)
Definition encode_spec (b : list N) : list N :=
  let bits := flat_map (bits_be 8) b in
  let sextets := map (pad_right 6) (groups 6 bits) in
  let syms := map (fun g => rfc_sym (val_be g)) sextets in
  syms ++ repeat rfc_pad ((4 - length syms mod 4) mod 4)%nat.

(* Well-formed encoded text: whole 4-symbol groups; alphabet symbols, then at most two '=' at the very end. *)
Definition WellFormed (s : list N) : Prop :=
  (length s mod 4 = 0)%nat /\
  exists data npad, s = data ++ repeat rfc_pad npad /\ (npad <= 2)%nat /\
                    Forall (fun c => in_alphabet c = true) data.

(* the same, as a decision procedure (Base64Proofs.wfb_iff: wfb s = true <-> WellFormed s) *)
Fixpoint wfb (s : list N) : bool :=
  match s with
  | [] => true
  | a :: b :: c :: d :: r =>
    match r with
    | [] => in_alphabet a && in_alphabet b &&
            ((in_alphabet c && (in_alphabet d || (d =? rfc_pad))) || ((c =? rfc_pad) && (d =? rfc_pad)))
    | _ => in_alphabet a && in_alphabet b && in_alphabet c && in_alphabet d && wfb r
    end
  | _ => false
  end.

(* What well-formed text denotes: the 6-bit values of its symbols concatenated, read as octets; the (2 or 4) bits
   left over after the last complete octet are dropped whatever their value (RFC 4648 §3.5 lets a decoder choose;
   see Canonical below). *)
Definition sym_bits (c : N) : list bool :=
  match rfc_val c with Some v => bits_be 6 v | None => [] end.

Definition denote (s : list N) : list N :=
  let data := filter (fun c => negb (c =? rfc_pad)) s in
  map val_be (full_groups 8 (flat_map sym_bits data)).

(* the left-over bits are zero: exactly the texts an encoder produces (§3.5 "canonical encoding") *)
Definition Canonical (s : list N) : Prop :=
  let data := filter (fun c => negb (c =? rfc_pad)) s in
  let bits := flat_map sym_bits data in
  forall g, In g (groups 8 bits) -> (length g < 8)%nat -> val_be g = 0.
