(* Proofs about the percent-encoding model (C18, percent part). *)
From Hv Require Import Prelude TablesPct Percent.
From Coq Require Import Lia.
Open Scope N_scope.

(* ---------- finite sweeps over the ASCII range ---------- *)
Fixpoint upto (n : nat) : list N :=
  match n with O => [] | S k => upto k ++ [N.of_nat k] end.

Lemma upto_In : forall n c, (N.to_nat c < n)%nat -> In c (upto n).
Proof.
  induction n as [|n IH]; intros c Hc; [lia|].
  cbn [upto]. apply in_or_app.
  destruct (Nat.eq_dec (N.to_nat c) n) as [E|E].
  - right. left. rewrite <- E. apply N2Nat.id.
  - left. apply IH. lia.
Qed.

Lemma sweep : forall (n : nat) (P : N -> bool),
  forallb P (upto n) = true -> forall c, c < N.of_nat n -> P c = true.
Proof.
  intros n P H c Hc. rewrite forallb_forall in H. apply H. apply upto_In. lia.
Qed.

(* ---------- the Rust table is RFC 3986's unreserved set ---------- *)
Lemma contains_false_ge : forall t b bound,
  forallb (fun x => x <? bound) t = true -> bound <= b -> contains t b = false.
Proof.
  intros t b bound Ht Hb. unfold contains.
  induction t as [|x t IH]; [reflexivity|].
  cbn [forallb] in Ht. apply andb_true_iff in Ht. destruct Ht as [Hx Ht].
  cbn [existsb]. rewrite (IH Ht). apply N.ltb_lt in Hx.
  assert (E : (b =? x) = false) by (apply N.eqb_neq; lia).
  rewrite E. reflexivity.
Qed.

Lemma contains_In : forall t b, contains t b = true <-> In b t.
Proof.
  intros t b. unfold contains. rewrite existsb_exists. split.
  - intros [x [Hin Hx]]. apply N.eqb_eq in Hx. subst. exact Hin.
  - intros H. exists b. split; [exact H | apply N.eqb_refl].
Qed.

Lemma rfc_unreserved_false_ge : forall c, 128 <= c -> rfc_unreserved c = false.
Proof.
  intros c Hc. unfold rfc_unreserved, is_alpha, is_digit.
  assert (H1 : (c <=? 90) = false) by (apply N.leb_gt; lia).
  assert (H2 : (c <=? 122) = false) by (apply N.leb_gt; lia).
  assert (H3 : (c <=? 57) = false) by (apply N.leb_gt; lia).
  assert (H4 : (c =? 45) = false) by (apply N.eqb_neq; lia).
  assert (H5 : (c =? 46) = false) by (apply N.eqb_neq; lia).
  assert (H6 : (c =? 95) = false) by (apply N.eqb_neq; lia).
  assert (H7 : (c =? 126) = false) by (apply N.eqb_neq; lia).
  rewrite H1, H2, H3, H4, H5, H6, H7. rewrite !andb_false_r. reflexivity.
Qed.

Lemma unreserved_table_is_rfc : forall c, contains UNRESERVED_CHARACTERS c = rfc_unreserved c.
Proof.
  intros c. destruct (N.lt_ge_cases c 128) as [Hlt|Hge].
  - apply eqb_prop.
    apply (sweep 128 (fun c => Bool.eqb (contains UNRESERVED_CHARACTERS c) (rfc_unreserved c))); [vm_compute; reflexivity | exact Hlt].
  - rewrite (rfc_unreserved_false_ge c Hge).
    apply contains_false_ge with (bound := 128); [vm_compute; reflexivity | exact Hge].
Qed.

Lemma unreserved_table_in_iff : forall c, In c UNRESERVED_CHARACTERS <-> rfc_unreserved c = true.
Proof. intros c. rewrite <- contains_In, unreserved_table_is_rfc. reflexivity. Qed.

Lemma unreserved_table_nodup : NoDup UNRESERVED_CHARACTERS /\ length UNRESERVED_CHARACTERS = 66%nat.
Proof.
  split; [|reflexivity].
  assert (H : forall l : list N,
             (fix nd (l : list N) : bool :=
                match l with [] => true | x :: r => negb (existsb (N.eqb x) r) && nd r end) l = true -> NoDup l).
  { induction l as [|x r IH]; intros H; [constructor|].
    apply andb_true_iff in H. destruct H as [Hx Hr]. constructor; [|apply IH; exact Hr].
    intros Hin. apply negb_true_iff in Hx.
    assert (Ht : existsb (N.eqb x) r = true) by (apply existsb_exists; exists x; split; [exact Hin | apply N.eqb_refl]).
    congruence. }
  apply H. vm_compute. reflexivity.
Qed.

(* the escape format string the model was written against *)
Lemma escape_format_is : ESCAPE_FORMAT = [37; 123; 58; 48; 50; 88; 125]. (* "%{:02X}" *)
Proof. reflexivity. Qed.

Lemma pct_not_unreserved : rfc_unreserved pct = false.
Proof. reflexivity. Qed.

(* ---------- hex digits ---------- *)
Lemma assoc_In : forall t c v, assoc c t = Some v -> In (c, v) t.
Proof.
  induction t as [|[k w] t IH]; intros c v H; [discriminate|].
  cbn [assoc] in H. destruct (c =? k) eqn:E.
  - apply N.eqb_eq in E. injection H as H. subst. left. reflexivity.
  - right. apply IH. exact H.
Qed.

Lemma hex_table_functional : forall c v, In (c, v) hex_table -> assoc c hex_table = Some v.
Proof.
  intros c v H. unfold hex_table in H. cbn [In] in H.
  repeat (destruct H as [H|H]; [injection H as Hc Hv; subst; reflexivity|]). contradiction.
Qed.

Lemma HexDigit_assoc : forall c v, HexDigit c v <-> assoc c hex_table = Some v.
Proof. intros c v. split; [apply hex_table_functional | apply assoc_In]. Qed.

Lemma to_digit16_none_ge : forall c, 128 <= c -> to_digit16 c = None.
Proof.
  intros c Hc. unfold to_digit16.
  assert (H1 : (c <=? 57) = false) by (apply N.leb_gt; lia).
  assert (H2 : (c <=? 102) = false) by (apply N.leb_gt; lia).
  assert (H3 : (c <=? 70) = false) by (apply N.leb_gt; lia).
  rewrite H1, H2, H3, !andb_false_r. reflexivity.
Qed.

Lemma assoc_none_ge : forall t c bound,
  forallb (fun kv => fst kv <? bound) t = true -> bound <= c -> assoc c t = None.
Proof.
  induction t as [|[k w] t IH]; intros c bound Ht Hc; [reflexivity|].
  cbn [forallb fst] in Ht. apply andb_true_iff in Ht. destruct Ht as [Hk Ht]. apply N.ltb_lt in Hk.
  cbn [assoc]. assert (E : (c =? k) = false) by (apply N.eqb_neq; lia). rewrite E. apply (IH c bound Ht Hc).
Qed.

Definition opt_eqb (a b : option N) : bool :=
  match a, b with Some x, Some y => x =? y | None, None => true | _, _ => false end.
Lemma opt_eqb_eq : forall a b, opt_eqb a b = true -> a = b.
Proof. intros [x|] [y|] H; cbn in H; try discriminate; [apply N.eqb_eq in H; subst|]; reflexivity. Qed.

(* char::to_digit(16) on a byte is exactly the HEXDIG table *)
Lemma to_digit16_is_table : forall c, to_digit16 c = assoc c hex_table.
Proof.
  intros c. destruct (N.lt_ge_cases c 128) as [Hlt|Hge].
  - apply opt_eqb_eq.
    apply (sweep 128 (fun c => opt_eqb (to_digit16 c) (assoc c hex_table))); [vm_compute; reflexivity | exact Hlt].
  - rewrite (to_digit16_none_ge c Hge). symmetry.
    apply assoc_none_ge with (bound := 128); [vm_compute; reflexivity | exact Hge].
Qed.

Lemma to_digit16_HexDigit : forall c v, to_digit16 c = Some v <-> HexDigit c v.
Proof. intros c v. rewrite to_digit16_is_table. symmetry. apply HexDigit_assoc. Qed.

Lemma HexDigit_bounds : forall c v, HexDigit c v -> v < 16 /\ c < 128 /\ c <> pct.
Proof.
  intros c v H. unfold HexDigit, hex_table in H. cbn [In] in H.
  repeat (destruct H as [H|H]; [injection H as Hc Hv; subst; unfold pct; repeat split; lia|]). contradiction.
Qed.

Lemma upper_hex_spec : forall v, v < 16 -> UpperHexDigit (upper_hex v) v.
Proof.
  intros v Hv.
  pose proof (sweep 16 (fun v => existsb (fun kv => (fst kv =? upper_hex v) && (snd kv =? v)) upper_hex_table)
                    ltac:(vm_compute; reflexivity) v Hv) as H.
  cbv beta in H. apply existsb_exists in H. destruct H as [[k w] [Hin Hkw]].
  cbn [fst snd] in Hkw. apply andb_true_iff in Hkw. destruct Hkw as [Hk Hw].
  apply N.eqb_eq in Hk. apply N.eqb_eq in Hw. subst. exact Hin.
Qed.

Lemma UpperHexDigit_HexDigit : forall c v, UpperHexDigit c v -> HexDigit c v.
Proof.
  intros c v H. unfold UpperHexDigit, upper_hex_table in H. unfold HexDigit.
  rewrite <- (firstn_skipn 16 hex_table). apply in_or_app. left. exact H.
Qed.

(* an uppercase hex digit is "0".."9" / "A".."F" *)
Lemma UpperHexDigit_chars : forall c v, UpperHexDigit c v ->
  (48 <= c <= 57 /\ v = c - 48) \/ (65 <= c <= 70 /\ v = c - 55).
Proof.
  intros c v H. unfold UpperHexDigit, upper_hex_table, hex_table in H. cbn [firstn In] in H.
  repeat (destruct H as [H|H]; [injection H as Hc Hv; subst; lia|]). contradiction.
Qed.

(* ---------- encode ---------- *)
Definition is_byte (b : N) : Prop := b < 256.

Inductive PctEncodes : list N -> list N -> Prop :=
| pe_nil : PctEncodes [] []
| pe_unres : forall b bs s, rfc_unreserved b = true -> PctEncodes bs s -> PctEncodes (b :: bs) (b :: s)
| pe_esc : forall b bs h l s, rfc_unreserved b = false ->
                              UpperHexDigit h (b / 16) -> UpperHexDigit l (b mod 16) ->
                              PctEncodes bs s -> PctEncodes (b :: bs) (pct :: h :: l :: s).

Lemma percent_encode_app : forall a b, percent_encode (a ++ b) = percent_encode a ++ percent_encode b.
Proof.
  induction a as [|x a IH]; intros b; [reflexivity|].
  cbn [percent_encode app]. rewrite IH, app_assoc. reflexivity.
Qed.

Lemma byte_div16 : forall b, b < 256 -> b / 16 < 16.
Proof. intros b H. apply N.div_lt_upper_bound; lia. Qed.
Lemma byte_mod16 : forall b, b mod 16 < 16.
Proof. intros b. apply N.mod_lt. lia. Qed.

Lemma encode_byte_spec : forall b, is_byte b ->
  (rfc_unreserved b = true /\ encode_byte b = [b]) \/
  (rfc_unreserved b = false /\ exists h l, UpperHexDigit h (b / 16) /\ UpperHexDigit l (b mod 16) /\
                                           encode_byte b = [pct; h; l]).
Proof.
  intros b Hb. unfold encode_byte. rewrite unreserved_table_is_rfc.
  destruct (rfc_unreserved b) eqn:E.
  - left. split; reflexivity.
  - right. split; [reflexivity|]. exists (upper_hex (b / 16)), (upper_hex (b mod 16)).
    split; [apply upper_hex_spec, byte_div16, Hb|]. split; [apply upper_hex_spec, byte_mod16|]. reflexivity.
Qed.

Lemma percent_encode_singleton_spec : forall b : N, is_byte b ->
    (rfc_unreserved b = true /\ percent_encode [b] = [b]) \/
    (rfc_unreserved b = false /\
     exists h l, UpperHexDigit h (b / 16) /\ UpperHexDigit l (b mod 16) /\ percent_encode [b] = [pct; h; l]).
Proof.
  intros b Hb. destruct (encode_byte_spec b Hb) as [[Hu E]|[Hu [h [l [Hh [Hl E]]]]]].
  - left. split; [exact Hu|]. cbn [percent_encode]. rewrite E. reflexivity.
  - right. split; [exact Hu|]. exists h, l. repeat split; try assumption. cbn [percent_encode]. rewrite E. reflexivity.
Qed.

Lemma percent_encode_spec : forall bs, Forall is_byte bs -> PctEncodes bs (percent_encode bs).
Proof.
  induction bs as [|b bs IH]; intros H; [constructor|].
  inversion H as [|? ? Hb Hbs]; subst. cbn [percent_encode].
  destruct (encode_byte_spec b Hb) as [[Hu E]|[Hu [h [l [Hh [Hl E]]]]]]; rewrite E; cbn [app].
  - apply pe_unres; [exact Hu | apply IH, Hbs].
  - apply pe_esc; [exact Hu | exact Hh | exact Hl | apply IH, Hbs].
Qed.

(* PctEncodes is a function of its first argument: the spec determines the output *)
Lemma UpperHexDigit_functional_inv : forall c1 c2 v, UpperHexDigit c1 v -> UpperHexDigit c2 v -> c1 = c2.
Proof.
  intros c1 c2 v H1 H2. apply UpperHexDigit_chars in H1. apply UpperHexDigit_chars in H2. lia.
Qed.

Lemma PctEncodes_functional : forall bs s1 s2, PctEncodes bs s1 -> PctEncodes bs s2 -> s1 = s2.
Proof.
  intros bs s1 s2 H1. revert s2. induction H1 as [|b bs s Hu H IH|b bs h l s Hu Hh Hl H IH]; intros s2 H2.
  - inversion H2. reflexivity.
  - inversion H2 as [|? ? s' Hu' H'|? ? ? ? s' Hu' ? ? H']; subst; [|congruence]. f_equal. apply IH, H'.
  - inversion H2 as [|? ? s' Hu' H'|? ? h' l' s' Hu' Hh' Hl' H']; subst; [congruence|].
    rewrite (UpperHexDigit_functional_inv _ _ _ Hh Hh'), (UpperHexDigit_functional_inv _ _ _ Hl Hl').
    f_equal. f_equal. f_equal. apply IH, H'.
Qed.

(* output alphabet *)
Definition in_output_alphabet (c : N) : Prop :=
  rfc_unreserved c = true \/ c = pct \/ exists v, UpperHexDigit c v.

Lemma PctEncodes_alphabet : forall bs s, PctEncodes bs s -> Forall in_output_alphabet s.
Proof.
  intros bs s H. induction H as [|b bs s Hu H IH|b bs h l s Hu Hh Hl H IH].
  - constructor.
  - constructor; [left; exact Hu | exact IH].
  - constructor; [right; left; reflexivity|].
    constructor; [right; right; exists (b / 16); exact Hh|].
    constructor; [right; right; exists (b mod 16); exact Hl | exact IH].
Qed.

Lemma percent_encode_alphabet : forall bs, Forall is_byte bs -> Forall in_output_alphabet (percent_encode bs).
Proof. intros bs H. apply (PctEncodes_alphabet bs). apply percent_encode_spec, H. Qed.

Lemma in_output_alphabet_ascii : forall c, in_output_alphabet c -> c < 128.
Proof.
  intros c [H|[H|[v H]]].
  - destruct (N.lt_ge_cases c 128) as [L|G]; [exact L|]. rewrite (rfc_unreserved_false_ge c G) in H. discriminate.
  - subst. unfold pct. lia.
  - apply UpperHexDigit_chars in H. lia.
Qed.

Lemma percent_encode_length : forall bs,
  (length bs <= length (percent_encode bs) <= 3 * length bs)%nat.
Proof.
  induction bs as [|b bs IH]; [cbn; lia|].
  cbn [percent_encode]. rewrite app_length. cbn [length].
  unfold encode_byte, escape. destruct (contains UNRESERVED_CHARACTERS b); cbn [length]; lia.
Qed.

(* ---------- decode ---------- *)
Lemma decode_denotes : forall s b, PctDenotes s b -> percent_decode s = Some b.
Proof.
  intros s b H. induction H as [|c s b Hc H IH|h1 h2 v1 v2 s b H1 H2 H IH].
  - reflexivity.
  - cbn [percent_decode]. assert (E : (c =? pct) = false) by (apply N.eqb_neq; exact Hc). rewrite E, IH. reflexivity.
  - cbn [percent_decode]. rewrite N.eqb_refl.
    apply to_digit16_HexDigit in H1 as E1. apply to_digit16_HexDigit in H2 as E2. rewrite E1, E2, IH.
    apply HexDigit_bounds in H1. apply HexDigit_bounds in H2.
    f_equal. f_equal. rewrite N.mod_small by lia. lia.
Qed.

Lemma denotes_decode_len : forall n s b, (length s <= n)%nat -> percent_decode s = Some b -> PctDenotes s b.
Proof.
  induction n as [|n IH]; intros s b Hn H.
  - destruct s; [|cbn in Hn; lia]. cbn in H. injection H as H. subst. constructor.
  - destruct s as [|c r]; [cbn in H; injection H as H; subst; constructor|].
    cbn [percent_decode] in H. destruct (c =? pct) eqn:E.
    + apply N.eqb_eq in E. subst c.
      destruct r as [|h1 [|h2 r']]; try discriminate.
      destruct (to_digit16 h1) as [hi|] eqn:E1; [|discriminate].
      destruct (to_digit16 h2) as [lo|] eqn:E2; [|discriminate].
      destruct (percent_decode r') as [d|] eqn:E3; [|discriminate].
      injection H as H. subst b.
      apply to_digit16_HexDigit in E1. apply to_digit16_HexDigit in E2.
      pose proof (HexDigit_bounds _ _ E1) as B1. pose proof (HexDigit_bounds _ _ E2) as B2.
      replace ((hi * 16 + lo) mod 256) with (16 * hi + lo) by (rewrite N.mod_small; lia).
      apply pd_esc; [exact E1 | exact E2|]. apply IH; [cbn [length] in Hn; lia | exact E3].
    + destruct (percent_decode r) as [d|] eqn:E3; [|discriminate]. injection H as H. subst b.
      apply pd_lit; [apply N.eqb_neq; exact E|]. apply IH; [cbn [length] in Hn; lia | exact E3].
Qed.

Lemma decode_iff_denotes : forall s b, percent_decode s = Some b <-> PctDenotes s b.
Proof.
  intros s b. split; [apply (denotes_decode_len (length s)); lia | apply decode_denotes].
Qed.

(* PctDenotes  <->  positional well-formedness + executable denotation *)
Lemma denotes_denote : forall s b, PctDenotes s b -> b = denote s.
Proof.
  intros s b H. induction H as [|c s b Hc H IH|h1 h2 v1 v2 s b H1 H2 H IH].
  - reflexivity.
  - cbn [denote]. assert (E : (c =? pct) = false) by (apply N.eqb_neq; exact Hc). rewrite E, <- IH. reflexivity.
  - cbn [denote]. rewrite N.eqb_refl.
    apply HexDigit_assoc in H1. apply HexDigit_assoc in H2. rewrite H1, H2, <- IH. reflexivity.
Qed.

Lemma denotes_positional : forall s b, PctDenotes s b -> EveryPctFollowedByTwoHex s.
Proof.
  intros s b H. induction H as [|c s b Hc H IH|h1 h2 v1 v2 s b H1 H2 H IH]; intros i Hi.
  - destruct i; discriminate.
  - destruct i as [|i]; [cbn in Hi; injection Hi as Hi; contradiction|].
    cbn [nth_error] in Hi. destruct (IH i Hi) as [x1 [x2 [Hx1 [Hx2 Hx]]]].
    exists x1, x2. cbn [nth_error]. auto.
  - destruct i as [|[|[|i]]]; cbn [nth_error] in Hi.
    + exists h1, h2. cbn. repeat split; [exists v1; exact H1 | exists v2; exact H2].
    + injection Hi as Hi. apply HexDigit_bounds in H1. tauto.
    + injection Hi as Hi. apply HexDigit_bounds in H2. tauto.
    + destruct (IH i Hi) as [x1 [x2 [Hx1 [Hx2 Hx]]]]. exists x1, x2. cbn [nth_error]. auto.
Qed.

Lemma positional_tail : forall k s, EveryPctFollowedByTwoHex (k ++ s) -> EveryPctFollowedByTwoHex s.
Proof.
  intros k s H i Hi. specialize (H (length k + i)%nat).
  rewrite nth_error_app2 in H by lia. replace (length k + i - length k)%nat with i in H by lia.
  destruct (H Hi) as [x1 [x2 [Hx1 [Hx2 Hx]]]]. exists x1, x2.
  rewrite nth_error_app2 in Hx1 by lia. rewrite nth_error_app2 in Hx2 by lia.
  replace (S (length k + i) - length k)%nat with (S i) in Hx1 by lia.
  replace (S (S (length k + i)) - length k)%nat with (S (S i)) in Hx2 by lia. auto.
Qed.

Lemma positional_denotes_len : forall n s, (length s <= n)%nat -> EveryPctFollowedByTwoHex s -> PctDenotes s (denote s).
Proof.
  induction n as [|n IH]; intros s Hn H.
  - destruct s; [constructor | cbn in Hn; lia].
  - destruct s as [|c r]; [constructor|]. cbn [denote]. destruct (c =? pct) eqn:E.
    + apply N.eqb_eq in E. subst c.
      destruct (H 0%nat eq_refl) as [h1 [h2 [Hh1 [Hh2 [[v1 Hv1] [v2 Hv2]]]]]].
      destruct r as [|x1 [|x2 r']]; try discriminate. cbn in Hh1, Hh2.
      injection Hh1 as Hh1. injection Hh2 as Hh2. subst x1 x2.
      apply HexDigit_assoc in Hv1 as A1. apply HexDigit_assoc in Hv2 as A2. rewrite A1, A2.
      apply pd_esc; [exact Hv1 | exact Hv2|]. apply IH; [cbn [length] in Hn; lia|].
      apply (positional_tail [pct; h1; h2]). exact H.
    + apply pd_lit; [apply N.eqb_neq; exact E|]. apply IH; [cbn [length] in Hn; lia|].
      apply (positional_tail [c]). exact H.
Qed.

Lemma denotes_iff_positional : forall s b, PctDenotes s b <-> EveryPctFollowedByTwoHex s /\ b = denote s.
Proof.
  intros s b. split.
  - intros H. split; [apply (denotes_positional s b H) | apply denotes_denote, H].
  - intros [H E]. subst b. apply (positional_denotes_len (length s)); [lia | exact H].
Qed.

Lemma percent_decode_iff : forall s b,
  percent_decode s = Some b <-> EveryPctFollowedByTwoHex s /\ b = denote s.
Proof. intros s b. rewrite decode_iff_denotes. apply denotes_iff_positional. Qed.

Lemma percent_decode_none_iff : forall s, percent_decode s = None <-> ~ EveryPctFollowedByTwoHex s.
Proof.
  intros s. split.
  - intros H W. assert (E : percent_decode s = Some (denote s)) by (apply percent_decode_iff; auto). congruence.
  - intros H. destruct (percent_decode s) as [b|] eqn:E; [|reflexivity].
    apply percent_decode_iff in E. tauto.
Qed.

(* ---------- round trip ---------- *)
Lemma PctEncodes_denotes : forall bs s, Forall is_byte bs -> PctEncodes bs s -> PctDenotes s bs.
Proof.
  intros bs s Hb H. induction H as [|b bs s Hu H IH|b bs h l s Hu Hh Hl H IH].
  - constructor.
  - inversion Hb; subst. apply pd_lit; [|apply IH; assumption].
    intros E. subst b. rewrite pct_not_unreserved in Hu. discriminate.
  - inversion Hb as [|? ? Hbb Hbs]; subst.
    replace (b :: bs) with (16 * (b / 16) + b mod 16 :: bs) by (f_equal; symmetry; apply N.div_mod').
    apply pd_esc; [apply UpperHexDigit_HexDigit, Hh | apply UpperHexDigit_HexDigit, Hl | apply IH, Hbs].
Qed.

Lemma percent_decode_encode : forall bs, Forall is_byte bs -> percent_decode (percent_encode bs) = Some bs.
Proof.
  intros bs Hb. apply decode_iff_denotes. apply PctEncodes_denotes; [exact Hb | apply percent_encode_spec, Hb].
Qed.

Lemma percent_encode_injective : forall a b, Forall is_byte a -> Forall is_byte b ->
  percent_encode a = percent_encode b -> a = b.
Proof.
  intros a b Ha Hb E. pose proof (percent_decode_encode a Ha) as Da. rewrite E, (percent_decode_encode b Hb) in Da.
  congruence.
Qed.

(* decoded output consists of bytes when the input does *)
Lemma PctDenotes_bytes : forall s b, PctDenotes s b -> Forall is_byte s -> Forall is_byte b.
Proof.
  intros s b H. induction H as [|c s b Hc H IH|h1 h2 v1 v2 s b H1 H2 H IH]; intros Hs.
  - constructor.
  - inversion Hs; subst. constructor; [assumption | apply IH; assumption].
  - inversion Hs as [|? ? _ Hs1]; subst. inversion Hs1 as [|? ? _ Hs2]; subst. inversion Hs2 as [|? ? _ Hs3]; subst.
    apply HexDigit_bounds in H1. apply HexDigit_bounds in H2.
    constructor; [unfold is_byte; lia | apply IH, Hs3].
Qed.

Lemma percent_decode_bytes : forall s b, Forall is_byte s -> percent_decode s = Some b -> Forall is_byte b.
Proof. intros s b Hs H. apply decode_iff_denotes in H. apply (PctDenotes_bytes s b H Hs). Qed.

(* ---------- the old decoder (F29) ---------- *)
Lemma plus_not_hexdigit : ~ is_hexdigit 43.
Proof.
  intros [v H]. unfold HexDigit, hex_table in H. cbn [In] in H.
  repeat (destruct H as [H|H]; [discriminate|]). contradiction.
Qed.

Lemma percent_decode_old_refuted :
  exists s b, percent_decode_old s = Some b /\ ~ EveryPctFollowedByTwoHex s.
Proof.
  exists [37; 43; 49], [1]. split; [vm_compute; reflexivity|].
  intros H. destruct (H 0%nat eq_refl) as [h1 [h2 [Hh1 [Hh2 [Hx1 Hx2]]]]].
  cbn in Hh1. injection Hh1 as Hh1. subst h1. exact (plus_not_hexdigit Hx1).
Qed.

(* the repaired decoder rejects that input *)
Lemma percent_decode_rejects_plus : percent_decode [37; 43; 49] = None.
Proof. reflexivity. Qed.
